(* C08  Loop and source handles are safely re-entrant from inside callbacks. *)
From CV Require Import Base Consts Token PostAction Env Loop.
From CVP Require Import Loop_frames Seq_lemmas C08_proofs C09_proofs.
From CVP Require Import C08_cause.
Open Scope N_scope.

(* In ANY state - in particular while a callback or an idle is running - an operation only panics if it is one of the
   documented exclusions (enable / as_source_mut of the running source, into_source_inner while registered,
   cancelling the running idle) or exhausts a resource (65535 sub-sources of one source, 2^32 slots). *)
Theorem C08_panic_only_if_excluded : forall s a, halted s = false -> halted (exec_action s a) = true -> excluded s a.
Proof. exact exec_action_panic_sites. Qed.

(* self-directed disable/update from the running callback do not touch the borrowed dispatcher: they are deferred *)
Theorem C08_self_update_deferred : forall s o t, is_running s o = true -> (exists ob, objs s o = Some ob) ->
  disp_reregister s o t = (ROk, false, s).
Proof. exact disp_reregister_running. Qed.
Theorem C08_self_disable_deferred : forall s o t, is_running s o = true -> (exists ob, objs s o = Some ob) ->
  disp_unregister s o t = (ROk, false, s).
Proof. exact disp_unregister_running. Qed.
(* outside event processing nothing is deferred: the operation has its effect at once *)
Theorem C08_outside_immediate : forall s o t, running s = None ->
  snd (fst (disp_reregister s o t)) = true /\ snd (fst (disp_unregister s o t)) = true.
Proof. intros s o t H. split; [apply disp_reregister_done|apply disp_unregister_done]; exact H. Qed.
(* operations never change which dispatcher is marked as borrowed *)
Theorem C08_running_untouched : forall s a, running (exec_action s a) = running s.
Proof. exact running_exec_action. Qed.

Example C08_nonvacuous :
  excluded (set_running init (Some (1, mkTok 0 0 0))) (ASetDl 1 4%Z) /\ ~ excluded init (ADisable 1).
Proof. split; [reflexivity|intros []]. Qed.

(* What can make a batch fail (= dispatch() return Err): process_events stops with `false` only at an event whose processing panicked, whose
   source reported an error from its own event processing, or whose post action asked for a (re/un)registration that failed IN THE SOURCE.
   The post action is applied to the object the loop already holds, never through a new look-up of its token - so nothing a callback did
   through the handle (disable / update / remove of itself, an insertion re-using its slot) can make the dispatch fail. *)
Theorem C08_batch_fails_only_with_a_cause : forall scr evs s s', process_events scr s evs = (s', false) ->
  exists s0 ev, In ev evs /\ fails_with_cause scr s0 ev s'.
Proof. exact process_events_fail_only_with_cause. Qed.
(* met by a real history: a callback disables and then removes its own source, and returns Continue; the dispatch returns Ok *)
Example C08_disable_then_remove_self_is_harmless :
  let scr := fun h => if h =? 1 then [mkScript [ADisable 1; ARemove 1] 0 0%Z] else [] in
  let cmds := [CAct (AInsert 1 (SComp false None [mkGen 10 (mkInt true false) Level None false] None)); CAct (AFdWrite 10 1); CDispatch 0%Z []] in
  halted (run scr (fun _ => []) cmds) = false /\ In (L T_DISP [0%Z; DISP_OK]) (trace_of (run scr (fun _ => []) cmds)) /\ Loop.cbn (run scr (fun _ => []) cmds) 1 = 1%nat.
Proof. vm_compute. split; [reflexivity|split; [|reflexivity]]. repeat (first [left; reflexivity|right]). Qed.
Print Assumptions C08_batch_fails_only_with_a_cause.
