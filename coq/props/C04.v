(* C04  Channel: exactly-once in-order delivery, then exactly one Closed. *)
From CV Require Import Base Consts ConcChannel.
From CVP Require Import ConcChannel_proofs.
From CVP Require Import C04_quiet.
Open Scope N_scope.

(* For channel() and sync_channel(n >= 1) used through send / try_send / the blocking SyncSender::send, ANY number of sender threads with ANY well-formed
   programs of send/blocking send/clone/drop, ANY number of dispatches and ANY schedule (one mpsc enqueue/try_send, sender-count change,
   eventfd write, poll, drain or try_recv per step), every reachable state satisfies ccinv:
   - delivered ++ queued = sent           (each sent message is delivered at most once, in send order, none invented)
   - a non-empty queue or a pending disconnect always has a wake-up on its way (readable eventfd, a sender about to ping,
     or the loop inside its drain loop, which ends with Empty/Closed or a self re-ping) - whatever the batch limit
   - Closed is delivered at most once, only with no sender left and an empty queue, and removes the source. *)
Theorem C04_invariant : forall b progs nd sched, progs <> [] -> Forall (fun p => wf_cprog 1 p = true) progs ->
  ccinv (cc_run b progs nd sched).
Proof. exact ccinv_run. Qed.
Theorem C04_step_preserves : forall s k, ccinv s -> ccinv (cc_step s k).
Proof. exact ccinv_step. Qed.
(* a pending wake-up that is a readable eventfd makes the next poll start a drain *)
Theorem C04_wake_leads_to_drain : forall s d, creg s = true -> 2 <= cctr s -> cloop s = mkCL (S d) CLIdle ->
  cl_stage (cloop (cl_step s)) = CLDrain.
Proof. exact cc_poll_progress. Qed.

(* KNOWN FINDING F9 (outside this model, which covers send on channel() and try_send / blocking send on sync_channel(n>=1)):
   SyncSender::send on sync_channel(0) pings in try_send BEFORE it starts offering the message; see DESIGN.md section 5. *)

Example C04_nonvacuous :
  let s := cc_run None [[CSend 7; CSend 8; CDropS]] 3 [1; 1; 1; 0; 0; 0; 1; 1; 1; 0; 0; 0; 0; 0; 0; 0]%nat in
  cdelivered s = [7; 8] /\ cclosed s = 1 /\ creg s = false.
Proof. vm_compute. repeat split. Qed.
(* a blocking send on a full sync_channel(1): its try_send fails and pings, the loop drains and sees Empty before the blocking
   mpsc send starts; the message is enqueued afterwards and the final ping of send() gets it delivered *)
Example C04_blocking_nonvacuous :
  let s := cc_run (Some 1) [[CSend 7; CSendB 8]] 4 ([1; 1; 1; 1] ++ [0; 0; 0; 0] ++ [1; 1] ++ repeat 0 8)%nat in
  cdelivered s = [7; 8] /\ cq s = [] /\ csent s = [7; 8].
Proof. vm_compute. repeat split. Qed.

(* Nothing is left behind: in every reachable state in which no wake-up is on its way any more (eventfd not readable, no sender
   between its enqueue and its ping, loop not inside a drain) - or the source is gone - everything that was sent has been delivered, in
   order, and if no sender is left the one Closed has been delivered and the source removed. With C04_invariant ("a non-empty queue
   always has a wake-up on its way") this is the no-loss half of exactly-once for whole schedules. *)
Theorem C04_quiescent_means_all_delivered : forall b progs nd sched, progs <> [] -> Forall (fun p => wf_cprog 1 p = true) progs ->
  cc_quiet (cc_run b progs nd sched) ->
  let s := cc_run b progs nd sched in
  cdelivered s = csent s /\ cq s = [] /\ (csenders s = 0 -> cclosed s = 1 /\ creg s = false).
Proof. exact quiescent_run_delivered_everything. Qed.
Example C04_quiet_nonvacuous :
  let s := cc_run None [[CSend 7; CSend 8]] 3 [1; 1; 1; 0; 0; 0; 1; 1; 1; 0; 0; 0; 0; 0; 0; 0]%nat in cc_quiet s /\ creg s = true /\ cdelivered s = [7; 8].
Proof. exact quiet_somewhere_open. Qed.
Print Assumptions C04_quiescent_means_all_delivered.
