(* C11  LoopSignal, run() and block_on(): wake-ups and stop requests are never lost. *)
From CV Require Import Base RunLoop.
From CVP Require Import RunLoop_proofs.
Open Scope N_scope.

(* For ANY number of signalling threads with ANY programs of stop()/wakeup()/waker.wake(), ANY future script and ANY
   schedule (one atomic flag access, notify or wait per step):
   - the loop is never blocked in its wait while a notification is pending (a wake-up issued just before the wait is kept),
   - the stop flag is only seen set if stop() was called after the initial reset, and run() returns Ok / block_on returns
     None only then,
   - in block_on a set future_ready flag always has a way to bring the loop to poll the future again: it is before its swap,
     or a notification is pending, or the waker that set the flag is about to notify. *)
Theorem C11_invariant : forall bo f progs sched, rinv (r_run bo f progs sched).
Proof. exact rinv_run. Qed.
Theorem C11_step_preserves : forall s k, rinv s -> rinv (r_step s k).
Proof. exact rinv_step. Qed.

(* wakeup(): a wait in progress ends (the loop continues at its flag check); otherwise the notification stays pending ... *)
Theorem C11_wakeup_sticky : forall s lg, waiting (do_notify s lg) = false /\ (waiting s = true -> pc (do_notify s lg) = L1) /\
  (waiting s = false -> notif (do_notify s lg) = true).
Proof. exact notify_sticky. Qed.
(* ... and the next wait returns at once *)
Theorem C11_pending_wakeup_not_lost : forall s, pc s = L3 -> notif s = true -> pc (loop_step s) = L1.
Proof. exact wait_with_notification_does_not_block. Qed.

(* stop() followed by wakeup(), any time after run()/block_on() began: the loop is `told`; that is stable under every step of
   every thread until it returns, and the loop thread returns within five of its own steps - at most the iteration in
   progress is finished *)
Theorem C11_stop_then_wakeup : forall s lg, stopf s = true -> pc s <> L0 -> told (do_notify s lg).
Proof. exact stop_then_wakeup_told. Qed.
Theorem C11_told_stable : forall s k, told s -> told (r_step s k) \/ exists b, pc (r_step s k) = LDone b.
Proof. exact told_stable. Qed.
Theorem C11_told_returns : forall s, told s -> exists b, pc (loop_step (loop_step (loop_step (loop_step (loop_step s))))) = LDone b.
Proof. exact told_returns. Qed.
(* run() never returns Ok, and block_on never returns None, without a stop request since it began *)
Theorem C11_no_spurious_return : forall s, rinv s -> pc s = LDone false -> stop_req s = true.
Proof. exact no_spurious_return. Qed.

Example C11_nonvacuous :
  let s := r_run true [0; 1] [[RWake]; [RStop; RWakeup]] [0; 0; 0; 0; 1; 1; 1; 0; 0]%nat in
  pc s = LDone true /\ polls s = 2.
Proof. vm_compute. split; reflexivity. Qed.
(* a future that wakes itself inside its poll is polled again although no other thread ever signals *)
Example C11_selfwake_nonvacuous :
  let s := r_run true [2; 1] [] (repeat 0%nat 12) in
  pc s = LDone true /\ polls s = 2 /\ wakes s = 1.
Proof. vm_compute. repeat split; reflexivity. Qed.
