(* C02  Pending readiness is always dispatched (no lost or starved events). *)
From CV Require Import Base Consts Token PostAction Env Loop.
From Coq Require Import Permutation.
From CVP Require Import Loop_frames Seq_lemmas Env_lemmas C01_attr C02_deliver.
From CVP Require Import C02_poll.
Import ListNotations.
Open Scope N_scope.

(* level-triggered: a registered entry that is ready for its interest is reported by every wait *)
Theorem C02_level : forall fdc tbl e,
  In e tbl -> e_mode e = Level -> rd_nonempty (ready_for (e_int e) (fdc (e_fd e))) = true ->
  In (mkEv (e_key e) (ready_for (e_int e) (fdc (e_fd e)))) (fst (ep_wait fdc tbl)).
Proof. exact ep_wait_level. Qed.
(* one-shot: a report disarms the entry, and a disarmed entry is not reported again (until update re-arms it) *)
Theorem C02_oneshot_once : forall fdc e ev, e_mode e = OneShot -> ep_report fdc e = Some ev -> e_q (ep_after fdc e) = false.
Proof. exact ep_after_oneshot. Qed.
Theorem C02_oneshot_disarmed : forall fdc e, e_mode e = OneShot -> e_q e = false -> ep_report fdc e = None.
Proof. exact ep_report_disarmed. Qed.
(* edge: a queued (new readiness transition) and still ready entry is reported *)
Theorem C02_edge : forall fdc e, e_mode e = Edge -> e_q e = true -> rd_nonempty (ready_for (e_int e) (fdc (e_fd e))) = true ->
  ep_report fdc e = Some (mkEv (e_key e) (ready_for (e_int e) (fdc (e_fd e)))).
Proof. exact ep_report_edge. Qed.
(* timers: nothing that is due stays in the wheel after a poll *)
Theorem C02_due_timers_all_popped : forall l now ex rest, wh_expire (length l) l now = (ex, rest) ->
  Forall (fun e => (now < w_dl e)%Z) rest.
Proof. intros l now ex rest H. destruct (wh_expire_spec (length l) l now ex rest H) as (_ & _ & _ & _ & F). apply F. apply le_n. Qed.
(* FROM THE POLLER TO THE CALLBACK, nothing is dropped on the way.
   (1) one poll hands the loop every level-triggered entry that is ready for its interest and every timer that is due - the batch
       order is the implementation's, but reordering loses nothing (`reorder_perm`); *)
Theorem C02_poll_reports_every_ready_level_entry : forall e t order ent, In ent (epoll e) -> e_mode ent = Level ->
  rd_nonempty (ready_for (e_int ent) (fdc e (e_fd ent))) = true ->
  In (mkEv (e_key ent) (ready_for (e_int ent) (fdc e (e_fd ent)))) (fst (poll e t order)).
Proof. exact poll_reports_level. Qed.
Theorem C02_poll_reports_every_due_timer : forall e t order w, In w (wh_heap (whl e)) -> (w_dl w <= 2 * t + 1)%Z ->
  In (mkEv (pack (w_tok w)) (mkRd true false)) (fst (poll e t order)).
Proof. exact poll_reports_due_timer. Qed.
Theorem C02_batch_is_a_permutation : forall order l, Permutation (reorder order l) l.
Proof. exact reorder_perm. Qed.
(* (2) a batch that is processed without an error is processed event by event: each event is handed to process_event in the state
       reached by the events before it (an Err stops the batch: finding F4); *)
Theorem C02_ok_batch_processes_every_event : forall scr s a ev b, snd (process_events scr s (a ++ ev :: b)) = true ->
  exists s1, process_events scr s a = (s1, true) /\ snd (process_event scr s1 ev) = true /\
             process_events scr s (a ++ ev :: b) = process_events scr (fst (process_event scr s1 ev)) b.
Proof. exact ok_batch_processes_every_event. Qed.
(* (3) an event whose slot resolves to object o is handed to o, and if o holds the event's token its callback counter goes up by
       exactly one - for a composite (own token or a sub-source's), a Timer (its armed token) and a ping source (its token, with a
       ping pending); nothing after the callback (post action, deferred unregistration, end of processing) touches the counter.
       With C01_callbacks_attributed (only then) this is: exactly the sources whose events are in the batch are called. *)
Theorem C02_composite_event_invokes_callback : forall scr s o ob ev lc own subs tmr,
  objs s o = Some ob -> o_src ob = SComp lc own subs tmr ->
  (opt_tok_is own (unpack (ev_key ev)) = true \/ find_sub subs (unpack (ev_key ev)) 1 <> None) ->
  Loop.cbn (fst (obj_process scr s o ev)) o = S (Loop.cbn s o).
Proof. exact composite_event_invokes_callback. Qed.
Theorem C02_timer_event_invokes_callback : forall scr s o ob ev tm tk c dl,
  objs s o = Some ob -> o_src ob = STimer tm -> tm_reg tm = Some (tk, c) -> tm_dl tm = Some dl -> tok_eqb tk (unpack (ev_key ev)) = true ->
  Loop.cbn (fst (obj_process scr s o ev)) o = S (Loop.cbn s o).
Proof. exact timer_event_invokes_callback. Qed.
Theorem C02_ping_event_invokes_callback : forall scr s o ob ev g,
  objs s o = Some ob -> o_src ob = SPing g -> opt_tok_is (g_tok g) (unpack (ev_key ev)) = true -> 2 <= fdc (en s) (g_fd g) ->
  Loop.cbn (fst (obj_process scr s o ev)) o = S (Loop.cbn s o).
Proof. exact ping_event_invokes_callback. Qed.
Theorem C02_rest_of_processing_keeps_the_count : forall scr s ev sl o,
  slot_get (slots s) (forget_sub_id (unpack (ev_key ev))) = Some sl -> s_obj sl = Some o ->
  Loop.cbn (fst (process_event scr s ev)) = Loop.cbn (fst (obj_process scr (set_running s (Some (o, forget_sub_id (unpack (ev_key ev))))) o ev)).
Proof. exact process_event_keeps_count_of_obj_process. Qed.

Example C02_nonvacuous :
  let e := mkEp 10 (mkInt true false) Level 77 false in
  In (mkEv 77 (mkRd true false)) (fst (ep_wait (fun _ => 2) [e])).
Proof. vm_compute. left. reflexivity. Qed.
(* the whole path on a real history: a composite over fd 10 (readable) and a timer due at phase 0 are both in the batch of one
   dispatch, whatever order is asked for, and both callbacks run once *)
Example C02_delivery_nonvacuous :
  let pre := [CAct (AInsert 1 (SComp false None [mkGen 10 (mkInt true false) Level None false] None));
              CAct (AInsert 2 (STimer (mkTimer None (Some 0%Z) false))); CAct (AFdWrite 10 1)] in
  let a := run (fun _ => []) (fun _ => []) pre in
  let b := run (fun _ => []) (fun _ => []) (pre ++ [CDispatch 0%Z [4294967296; 1]]) in
  length (fst (poll (en a) 0%Z [4294967296; 1])) = 2%nat /\ (Loop.cbn a 1, Loop.cbn a 2) = (0, 0)%nat /\ (Loop.cbn b 1, Loop.cbn b 2) = (1, 1)%nat.
Proof. vm_compute. repeat split. Qed.

(* Synthetic events never replace the poll: every dispatch whose before_sleep hooks succeeded asks the poller - whatever the hooks produced -
   and hands synthetic ++ polled to process_events; with C02_ok_batch... every one of them is then processed. *)
Theorem C02_synthetic_events_never_replace_the_poll : forall scr bscr s t order s1 polled e2 s4,
  before_sleep_loop bscr s (lifecycle s) = (s1, BSOk) ->
  poll (en s1) t order = (polled, e2) ->
  before_handle_loop (emit (set_en s1 e2) (L T_BATCH (zsort (map ev_code polled)))) (lifecycle (emit (set_en s1 e2) (L T_BATCH (zsort (map ev_code polled))))) polled = (s4, true) ->
  dispatch scr bscr s t order =
    let (s5, ok2) := process_events scr (set_synth s4 []) (synth s4 ++ polled) in
    if halted s5 then s5
    else if negb ok2 then emit s5 (L T_DISP [t; DISP_ERR])
    else let s6 := run_idles scr (set_idles s5 []) (idles s5) in if halted s6 then s6 else emit s6 (L T_DISP [t; DISP_OK]).
Proof. exact dispatch_always_polls. Qed.
(* met by a real history: a lifecycle source whose before_sleep produces a synthetic event, and a ready fd source: ONE dispatch calls both *)
Example C02_synthetic_and_polled_in_one_dispatch :
  let pre := [CAct (AInsert 1 (SComp true None [mkGen 10 (mkInt true false) Level None false] None));
              CAct (AInsert 2 (SComp false None [mkGen 11 (mkInt true false) Level None false] None)); CAct (AFdWrite 11 1)] in
  let b := run (fun _ => []) (fun h => if h =? 1 then [1] else []) (pre ++ [CDispatch 0%Z []]) in
  (Loop.cbn b 1, Loop.cbn b 2) = (1, 1)%nat.
Proof. vm_compute. reflexivity. Qed.
Print Assumptions C02_synthetic_events_never_replace_the_poll.
