(* C02  Pending readiness is always dispatched (no lost or starved events). *)
From CV Require Import Base Consts Token PostAction Env Loop.
From CVP Require Import Loop_frames Seq_lemmas Env_lemmas.
Open Scope N_scope.

(* level-triggered: a registered entry that is ready for its interest is reported by every wait *)
Theorem C02_level : forall fdc tbl e,
  In e tbl -> e_mode e = Level -> rd_nonempty (ready_for (e_int e) (fdc (e_fd e))) = true ->
  In (mkEv (e_key e) (ready_for (e_int e) (fdc (e_fd e)))) (fst (ep_wait fdc tbl)).
Proof. exact ep_wait_level. Qed.
(* one-shot: a report disarms the entry, and a disarmed entry is not reported again (until update re-arms it) *)
Theorem C02_oneshot_once : forall fdc e ev, e_mode e = OneShot -> ep_report fdc e = Some ev -> e_q (ep_after fdc e) = false.
Proof. exact ep_after_oneshot. Qed.
Theorem C02_oneshot_disarmed : forall fdc e, e_mode e = OneShot -> e_q e = false -> ep_report fdc e = None.
Proof. exact ep_report_disarmed. Qed.
(* edge: a queued (new readiness transition) and still ready entry is reported *)
Theorem C02_edge : forall fdc e, e_mode e = Edge -> e_q e = true -> rd_nonempty (ready_for (e_int e) (fdc (e_fd e))) = true ->
  ep_report fdc e = Some (mkEv (e_key e) (ready_for (e_int e) (fdc (e_fd e)))).
Proof. exact ep_report_edge. Qed.
(* timers: nothing that is due stays in the wheel after a poll *)
Theorem C02_due_timers_all_popped : forall l now ex rest, wh_expire (length l) l now = (ex, rest) ->
  Forall (fun e => (now < w_dl e)%Z) rest.
Proof. intros l now ex rest H. destruct (wh_expire_spec (length l) l now ex rest H) as (_ & _ & _ & _ & F). apply F. apply le_n. Qed.
(* an event whose slot resolves is handed to that slot's dispatcher: process_event runs obj_process on it *)
Theorem C02_event_reaches_source : forall scr s ev sl o,
  slot_get (slots s) (forget_sub_id (unpack (ev_key ev))) = Some sl -> s_obj sl = Some o ->
  exists s2 ret, obj_process scr (set_running s (Some (o, forget_sub_id (unpack (ev_key ev))))) o ev = (s2, ret).
Proof. intros. eexists. eexists. apply surjective_pairing. Qed.

Example C02_nonvacuous :
  let e := mkEp 10 (mkInt true false) Level 77 false in
  In (mkEv 77 (mkRd true false)) (fst (ep_wait (fun _ => 2) [e])).
Proof. vm_compute. left. reflexivity. Qed.
