(* C17  Async adapter: byte-exact I/O, tasks always woken, blocking mode restored.
   (PARTIAL: one outstanding operation per adapter; the byte protocol is modelled for one direction, the wait/wake protocol for both; the byte content, the blocking-mode flag and the poller
   table are checked end to end on real sockets by the correspondence run, not proved.) *)
From CV Require Import Base SrcAsync.
From CVP Require Import SrcAsync_proofs.
Open Scope N_scope.

(* for ANY interleaving of task polls (with any OS-reported transfer sizes), peer progress and dispatches: a suspended task
   has its waker stored and its one-shot registration armed; bytes are conserved (moved + transferable = offered); a
   finished task has nothing left to do *)
Theorem C17_invariant : forall todo0 ops, ainv (a_run todo0 ops).
Proof. exact ainv_run. Qed.
(* no lost wake: once the fd can transfer, one dispatch makes a suspended task runnable again *)
Theorem C17_woken_when_ready : forall s, ainv s -> status s = TSuspended -> 0 < avail s -> status (a_step s ADispatch) = TRunnable.
Proof. exact wake_on_ready. Qed.
(* a runnable task whose fd can transfer makes progress by between 1 and min(wanted, transferable) bytes *)
Theorem C17_progress : forall s n, status s = TRunnable -> 0 < todo s -> 0 < avail s ->
  moved s < moved (a_step s (APoll n)) /\ moved (a_step s (APoll n)) - moved s <= N.min (todo s) (avail s).
Proof. exact poll_makes_progress. Qed.
Theorem C17_never_more_than_offered : forall s, ainv s -> moved s <= offered s.
Proof. exact moved_le_offered. Qed.

(* both directions: for ANY sequence of readable()/writable() polls - each either staying suspended or abandoned (future
   dropped) - readiness changes and dispatches, a task suspended in a wait for direction d has been woken already or the
   one-shot entry is armed FOR d with the waker stored; hence one dispatch after the fd became ready for d wakes it; and a
   dispatch wakes only for a ready armed interest *)
Theorem C17_wait_invariant : forall ops, winv (w_run ops).
Proof. exact winv_run. Qed.
Theorem C17_wait_woken_when_ready : forall s d, winv s -> susp s = Some d -> kready s d = true -> woken (w_step s WDispatch) = true.
Proof. exact w_woken_when_ready. Qed.
Theorem C17_wait_no_spurious_wake : forall s, woken s = false -> woken (w_step s WDispatch) = true -> parmed s = true /\ kready s (pint s) = true.
Proof. exact w_no_spurious_wake. Qed.

Example C17_nonvacuous :
  let s := a_run 10 [APoll 0; APeer 4; ADispatch; APoll 100; APoll 1; APeer 6; ADispatch; APoll 6; APoll 0] in
  status s = TFinished /\ moved s = 10.
Proof. vm_compute. split; reflexivity. Qed.
(* a write wait on a full buffer is abandoned, then a read wait: the entry is re-armed for READ and the data wakes the task *)
Example C17_wait_nonvacuous :
  let s := w_run [WEnvW false; WPoll DW false; WPoll DR true; WEnvR true; WDispatch] in
  susp s = Some DR /\ woken s = true /\ wout s = [3; 0; 0].
Proof. vm_compute. repeat split; reflexivity. Qed.
