(* C14  before_sleep/before_handle_events: once per dispatch, in order, right events. *)
From CV Require Import Base Consts Token PostAction Env Loop.
From CVP Require Import Loop_frames Seq_lemmas C06_proofs C14_proofs C14_life C14_life2 C14_once.
Open Scope N_scope.

(* the set of sources with lifecycle events: recording is idempotent (no duplicate entry after update/Reregister),
   and stays duplicate-free under both operations *)
Theorem C14_register_nodup : forall l t, NoDup l -> NoDup (lc_register l t) /\ In t (lc_register l t).
Proof. intros l t H. split; [apply lc_register_nodup; exact H|apply lc_register_in]. Qed.
Theorem C14_unregister_removes : forall l t, NoDup l -> NoDup (lc_unregister l t) /\ ~ In t (lc_unregister l t) /\
  forall x, x <> t -> In x l -> In x (lc_unregister l t).
Proof. intros l t H. split; [apply lc_unregister_nodup; exact H|]. split; [apply lc_unregister_not_in|apply lc_unregister_other]. Qed.
(* an entry is recorded only once the source registered successfully: a failed registration leaves the set as it was *)
Theorem C14_failed_register_no_entry : forall s o t r s', disp_register s o t = (r, s') -> r <> ROk -> lifecycle s' = lifecycle s.
Proof. exact disp_register_fail_lifecycle. Qed.
(* disable / remove always drop the entry, even when the source's own unregister fails *)
Theorem C14_unregister_drops_entry : forall s o t r s' ob,
  objs s o = Some ob -> src_lc (o_src ob) = true -> disp_unregister s o t = (r, true, s') -> is_running s o = false ->
  ~ In t (lifecycle s').
Proof. exact disp_unregister_drops_lifecycle. Qed.
(* the iterator handed to before_handle_events: exactly the polled events of that source (same slot and generation),
   never an event of another source; synthetic events are not part of `polled` at all (dispatch passes the poll result) *)
Theorem C14_iterator_exact : forall t (polled : list pevent) e,
  In e (filter (fun e => same_source_as (unpack (ev_key e)) t) polled) <->
  In e polled /\ same_source_as (unpack (ev_key e)) t = true.
Proof. intros. apply filter_In. Qed.
(* when every entry resolves to an occupied slot the before_sleep loop never reaches unreachable!() *)
Theorem C14_no_unreachable_if_resolved : forall bscr l s,
  (forall t, In t l -> exists o, lc_lookup s t = Some o) -> snd (before_sleep_loop bscr s l) <> BSPanic.
Proof. exact before_sleep_loop_no_panic. Qed.

(* WHOLE HISTORIES of top-level operations: after ANY sequence of insert (also failing ones), remove, enable, disable, update,
   set_interest, set_deadline, into_inner, dropped dispatchers, pings, sends and idles issued on the empty loop, every lifecycle
   entry resolves to an occupied slot holding a lifecycle source (INV), so the two lifecycle loops of the next dispatch cannot
   reach unreachable!(). (The repaired defect F2 broke exactly this.) *)
Theorem C14_lifecycle_consistent_after_any_operations : forall acts, INV (exec_actions init acts).
Proof. intros acts. apply INV_exec_actions. exact INV_init. Qed.
Theorem C14_next_dispatch_never_unreachable : forall acts bscr, let s := exec_actions init acts in
  snd (before_sleep_loop bscr s (lifecycle s)) <> BSPanic /\
  forall e2 line polled, let s1 := fst (before_sleep_loop bscr s (lifecycle s)) in
    snd (before_handle_loop (emit (set_en s1 e2) line) (lifecycle (emit (set_en s1 e2) line)) polled) = true.
Proof. exact lifecycle_loops_safe. Qed.

(* WHOLE HISTORIES INCLUDING CALLBACKS. Q: every lifecycle entry has sub-id 0 and resolves to an occupied slot holding an existing
   lifecycle source - except, while a source is being processed, that source's own entry (it may have vacated its slot; its
   unregistration is deferred to the end of its processing); objects held by slots exist and sit in one slot only; slots are
   well formed; the slot of the running source's token is at the token's generation holding that source or nothing, or further
   on. Q holds initially and is preserved by every action in any context (also inside callbacks and idles), by callbacks with
   arbitrary scripts, by the channel drain loop and timer re-arming, by the post-action switch and the deferred unregistration
   at the end of an event (which resolves the exception: F15's corner, and the self-removal + slot-reuse corner of seeds C16 /
   C08b), by the idle phase, by dispatch and by every command. Hence EVERY state reached by ANY scenario has either halted in an
   excluded call or satisfies Q with nothing running (C14_every_reachable_state), and the lifecycle loops of a dispatch started
   there never reach unreachable!() (C14_never_unreachable). Hypothesis: no slot generation reaches 65536 (the properties' own
   bound on slot reuse). *)
Theorem C14_every_reachable_state : forall scr bscr cmds, gens_small (slots (run scr bscr cmds)) -> TOP (run scr bscr cmds).
Proof. exact run_TOP. Qed.
Theorem C14_never_unreachable : forall scr bscr cmds, gens_small (slots (run scr bscr cmds)) -> halted (run scr bscr cmds) = false ->
  let s := run scr bscr cmds in
  snd (before_sleep_loop bscr s (lifecycle s)) <> BSPanic /\
  forall e2 line polled, let s1 := fst (before_sleep_loop bscr s (lifecycle s)) in
    snd (before_handle_loop (emit (set_en s1 e2) line) (lifecycle (emit (set_en s1 e2) line)) polled) = true.
Proof. exact never_unreachable. Qed.

(* EXACTLY ONCE PER DISPATCH, whole histories.
   (1) Over any scenario - no hypothesis at all - the lifecycle list only ever changes by lc_register (of a token with sub-id 0)
       and lc_unregister, so it never holds a token twice (the repaired defect F1 was a duplicate entry after update()).
   (2) In every reachable state distinct entries resolve to distinct sources (an object sits in at most one slot), so in the
       before_sleep loop of the next dispatch each source's before_sleep counter grows by exactly one if the loop completes
       (never by more if a hook returns an error), and stays put for every object that is not a lifecycle source;
   (3) the before_handle_events loop of that dispatch never fails and appends exactly one BH line per entry, in list order, each
       with the polled events of that entry's token, for pairwise distinct sources. *)
Theorem C14_lifecycle_list_never_repeats : forall scr bscr cmds, NoDup (lifecycle (run scr bscr cmds)).
Proof. exact lifecycle_nodup_run. Qed.
Theorem C14_lifecycle_list_changes_only_by_register_unregister : forall scr bscr cmds s,
  lcstep (lifecycle s) (lifecycle (fold_left (exec_cmd scr bscr) cmds s)).
Proof. intros scr bscr cmds s. apply lc_exec_cmds. Qed.
Theorem C14_before_sleep_exactly_once_per_dispatch : forall scr bscr cmds o,
  let s := run scr bscr cmds in gens_small (slots s) -> halted s = false ->
  let r := before_sleep_loop bscr s (lifecycle s) in
  (bsn (fst r) o <= S (bsn s o))%nat /\
  (snd r = BSOk -> (exists t, In t (lifecycle s) /\ lc_lookup s t = Some o) -> bsn (fst r) o = S (bsn s o)) /\
  (snd r = BSOk -> (forall t, In t (lifecycle s) -> lc_lookup s t <> Some o) -> bsn (fst r) o = bsn s o).
Proof. exact before_sleep_once_per_dispatch. Qed.
Theorem C14_before_handle_exactly_once_per_dispatch : forall scr bscr cmds e2 line polled,
  let s := run scr bscr cmds in gens_small (slots s) -> halted s = false ->
  let s3 := emit (set_en (fst (before_sleep_loop bscr s (lifecycle s))) e2) line in
  let r := before_handle_loop s3 (lifecycle s3) polled in
  snd r = true /\ lifecycle s3 = lifecycle s /\
  log (fst r) = rev (map (bh_line s3 polled) (lifecycle s3)) ++ log s3 /\
  NoDup (map (lc_lookup s3) (lifecycle s3)) /\ (forall t, In t (lifecycle s3) -> lc_lookup s3 t <> None).
Proof. exact before_handle_once_per_dispatch. Qed.
(* met by a real history: two lifecycle composites, each updated (twice for the first), one disabled and re-enabled: two
   entries, and the next dispatch calls before_sleep once for each *)
Example C14_once_nonvacuous :
  let g10 := mkGen 10 (mkInt true false) Level None false in
  let g11 := mkGen 11 (mkInt true false) Level None false in
  let pre := [CAct (AInsert 1 (SComp true None [g10] None)); CAct (AUpdate 1); CAct (AInsert 2 (SComp true None [g11] None));
              CAct (AUpdate 2); CAct (AUpdate 1); CAct (ADisable 2); CAct (AEnable 2)] in
  let s := run (fun _ => []) (fun _ => []) pre in
  let r := before_sleep_loop (fun _ => []) s (lifecycle s) in
  halted s = false /\ lifecycle s = [mkTok 0 0 0; mkTok 1 0 0] /\ lc_lookup s (mkTok 0 0 0) = Some 1 /\ lc_lookup s (mkTok 1 0 0) = Some 2 /\
  snd r = BSOk /\ (bsn s 1, bsn s 2, bsn s 3) = (0, 0, 0)%nat /\ (bsn (fst r) 1, bsn (fst r) 2, bsn (fst r) 3) = (1, 1, 0)%nat /\
  filter (fun l => match l with L k _ => N.eqb k 3 end) (trace_of (run (fun _ => []) (fun _ => []) (pre ++ [CDispatch 0%Z []])))
    = [L 3 [1%Z; 0%Z]; L 3 [2%Z; 0%Z]].
Proof. vm_compute. repeat split. Qed.

Example C14_nonvacuous :
  let t := mkTok 2 5 0 in NoDup [mkTok 1 0 0; t] /\ lc_register [mkTok 1 0 0; t] t = [mkTok 1 0 0; t] /\ lc_unregister [mkTok 1 0 0; t] t = [mkTok 1 0 0].
Proof. repeat split; try reflexivity. repeat constructor; cbn; intuition discriminate. Qed.
