(* C01  Callbacks fire only for their own live registration and a real cause. *)
From CV Require Import Base Consts Token PostAction Env Loop.
From CVP Require Import Token_proofs Loop_frames Seq_lemmas Env_lemmas C01_attr.
Open Scope N_scope.

(* the token check of every built-in source kind: an event whose token is not one the source currently holds never
   reaches its callback (no callback line, Continue) *)
Theorem C01_foreign_event_ignored : forall scr s o ob ev,
  objs s o = Some ob -> src_has_tok (o_src ob) (unpack (ev_key ev)) = false ->
  log (fst (obj_process scr s o ev)) = log s /\ snd (obj_process scr s o ev) = Some Continue.
Proof. exact obj_process_no_token. Qed.

(* the poller only ever reports keys that are registered in its table *)
Theorem C01_only_registered_keys : forall fdc tbl ev, In ev (fst (ep_wait fdc tbl)) -> exists e, In e tbl /\ ev_key ev = e_key e.
Proof. exact ep_wait_keys. Qed.

(* keys decode back to exactly the (slot, generation, sub-source) they were made from, and are unique to it *)
Theorem C01_key_roundtrip : forall t, wf_tok t -> unpack (pack t) = t.
Proof. exact unpack_pack. Qed.
Theorem C01_key_injective : forall a b, wf_tok a -> wf_tok b -> pack a = pack b -> a = b.
Proof. exact pack_inj. Qed.

(* an event for a slot that is vacant, or whose generation differs, is dropped by the loop without touching any source *)
Theorem C01_stale_event_dropped : forall scr s ev,
  lc_lookup s (forget_sub_id (unpack (ev_key ev))) = None -> process_event scr s ev = (s, true).
Proof.
  intros scr s ev H. unfold process_event, lc_lookup in *.
  destruct (slot_get (slots s) _) as [sl|]; [|reflexivity]. rewrite H. reflexivity.
Qed.

(* expired timer events: only entries that are in the wheel and due *)
Theorem C01_timer_events_real : forall fuel l now ex rest, wh_expire fuel l now = (ex, rest) ->
  Forall (fun e => (w_dl e <= now)%Z) ex /\ (forall e, In e ex -> In e l).
Proof. intros fuel l now ex rest H. destruct (wh_expire_spec fuel l now ex rest H) as (A & B & _). split; assumption. Qed.

(* WHOLE HISTORIES: attribution. `cbn s o` counts the callback invocations of object o. In ANY state (reached by any history):
   - processing an event changes the counter of o only if the event's token resolved, generation-checked, to o when its
     processing began - whatever the callbacks do meanwhile (remove, insert into the freed slot, disable, replace ...);
   - no operation (insert, remove, enable, disable, update, ... from anywhere) runs a source callback;
   - the lifecycle loops and the idle phase of a dispatch run no source callback.
   With C06_token_dead_forever (a token that stopped resolving never resolves again) this is the whole-history reading of
   "a source's callback runs only for events of its own live registration, never for an event of another or a removed source";
   the remaining latitude - a source that removes or disables itself may still get the events of the batch entry being
   processed - is exactly the drain loop inside one process_event. *)
Theorem C01_callbacks_attributed : forall scr s ev o,
  Loop.cbn (fst (process_event scr s ev)) o <> Loop.cbn s o -> lc_lookup s (forget_sub_id (unpack (ev_key ev))) = Some o.
Proof. exact process_event_attributed. Qed.
Theorem C01_operations_run_no_callback : forall s a, Loop.cbn (exec_action s a) = Loop.cbn s.
Proof. exact cbc_exec_action. Qed.
Theorem C01_lifecycle_loops_and_idles_run_no_callback : forall scr bscr l polled idl s,
  Loop.cbn (fst (before_sleep_loop bscr s l)) = Loop.cbn s /\ Loop.cbn (fst (before_handle_loop s l polled)) = Loop.cbn s /\
  Loop.cbn (run_idles scr s idl) = Loop.cbn s.
Proof. intros. split; [apply cbc_before_sleep_loop|split; [apply cbc_before_handle_loop|apply cbc_run_idles]]. Qed.

Example C01_nonvacuous : wf_tok (mkTok 3 7 2) /\ src_has_tok (SPing (mkGen 10 (mkInt true false) Level (Some (mkTok 3 7 0)) true)) (mkTok 3 8 0) = false.
Proof. split; [repeat split|reflexivity]. Qed.
