(* C03  Ping wake-ups are never lost across threads; they coalesce; close is clean. *)
From CV Require Import Base Consts ConcPing.
From CVP Require Import ConcPing_proofs.
Open Scope N_scope.

(* For ANY number of pinger threads with ANY well-formed programs of ping/clone/drop, ANY number of dispatches and ANY
   schedule (one eventfd write, eventfd read, Arc count change or poll per step), the invariant holds: the counter
   encodes exactly the pings written since the last drain plus the close marker; the strong count is the number of
   handles alive; the close marker is written at most once and only when no handle is left; the source is removed only by
   a drain that saw the marker. `cbp` callbacks ping their own source from inside the callback (through a handle the
   callback owns): such a ping, and pings of other threads landing while the callback runs, are counted like any other. *)
Theorem C03_invariant : forall progs nd cbp sched, Forall (fun p => wf_prog 1 p = true) progs -> cinv (cp_run progs nd cbp sched).
Proof. exact cinv_run. Qed.
Theorem C03_step_preserves : forall s k, cinv s -> cinv (cp_step s k).
Proof. exact cinv_step. Qed.

(* the drain (whose code tests `2 <= v` for the callback and `odd v` for the removal) calls back iff at least one ping was
   written since the previous drain: no completed ping is lost, no callback without a ping, n pings coalesce into one *)
Theorem C03_callback_iff_pinged : forall s, cinv s -> (2 <=? ctr s) = (1 <=? undrained s).
Proof. exact drain_callback_iff. Qed.
Theorem C03_remove_iff_closed : forall s, cinv s -> N.odd (ctr s) = closemark s.
Proof. exact drain_close_iff. Qed.
(* a written, undrained ping makes the next poll of the registered source return it: the dispatch drains and calls back *)
Theorem C03_progress : forall s, cinv s -> registered s = true -> 1 <= undrained s -> (registered s && (0 <? ctr s)) = true.
Proof. exact poll_progress. Qed.
(* clean close: one marker, after the last handle; the source leaves only then; afterwards the counter stays zero and no
   thread has anything left to write (the loop is not kept spinning) *)
Theorem C03_close_once : forall s, cinv s -> closes s <= 1 /\ (closes s = 1 -> handles s = 0).
Proof. exact close_once. Qed.
Theorem C03_removed_only_after_close : forall s, cinv s -> registered s = false -> handles s = 0 /\ closes s = 1.
Proof. exact removed_only_after_close. Qed.
Theorem C03_quiet_after_removal : forall s, cinv s -> registered s = false ->
  ctr s = 0 /\ Forall (fun t => pt_ops t = [] /\ pt_closing t = false) (thr s).
Proof. exact quiet_after_removal. Qed.

Example C03_nonvacuous :
  let s := cp_run [[PPing; PDrop]; [PClone; PPing; PDrop; PDrop]] 3 0 [1; 1; 2; 2; 2; 2; 2; 0; 0]%nat in
  Forall (fun p => wf_prog 1 p = true) [[PPing; PDrop]; [PClone; PPing; PDrop; PDrop]] /\ registered s = false /\ ctr s = 0.
Proof. vm_compute. repeat split; repeat constructor. Qed.
