(* C15  Failed registrations and failing sources leave the loop intact. *)
From CV Require Import Base Consts Token PostAction Env Loop.
From CVP Require Import Loop_frames Seq_lemmas Env_lemmas C09_proofs C15_intact.
Import ListNotations.
Open Scope N_scope.

(* a poller call that fails changes neither the source nor the poller table *)
Theorem C15_register_fail_atomic : forall e g t g' e', gen_register e g t = (false, g', e') -> g' = g /\ e' = e.
Proof. exact gen_register_fail. Qed.
Theorem C15_reregister_fail_atomic : forall e g t g' e', gen_reregister e g t = (false, g', e') -> g' = g /\ e' = e.
Proof. exact gen_reregister_fail. Qed.
Theorem C15_unregister_fail_atomic : forall e g g' e', gen_unregister e g = (false, g', e') -> g' = g /\ e' = e.
Proof. exact gen_unregister_fail. Qed.
(* a failed registration records no lifecycle entry (so no later dispatch can hit unreachable!()) *)
Theorem C15_failed_register_no_lifecycle : forall s o t r s', disp_register s o t = (r, s') -> r <> ROk -> lifecycle s' = lifecycle s.
Proof. exact disp_register_fail_lifecycle. Qed.
(* an error from event processing (or from applying the post action) leaves no pending action and nothing running *)
Theorem C15_error_leaves_loop_quiet : forall scr s ev,
  quiet s -> halted (fst (process_event scr s ev)) = false -> quiet (fst (process_event scr s ev)).
Proof. exact process_event_quiet. Qed.
(* operations with a token that does not resolve touch nothing *)
Theorem C15_invalid_token_noop : forall s h, halted s = false -> lookup s h = None ->
  exec_action s (AEnable h) = emit s (op_line OP_ENABLE h RInvalid) /\
  exec_action s (ADisable h) = emit s (op_line OP_DISABLE h RInvalid) /\
  exec_action s (AUpdate h) = emit s (op_line OP_UPDATE h RInvalid) /\
  exec_action s (ARemove h) = emit s (op_line OP_REMOVE h ROk).
Proof. exact invalid_token_noop. Qed.

(* A REJECTED INSERTION LEAVES THE LOOP AS IT WAS. Whenever insert_source / register_dispatcher does not go through (the run did not
   stop and the new object ended up in no slot), the lifecycle set, every handle's token, the pending action, the running marker and
   the idle queue are unchanged, every other object is unchanged, and every occupied slot is exactly what it was - the only traces are
   the user's own Dispatcher object and a consumed generation of a vacant slot (which C06 needs anyway). What the rejected
   registration did to the poller is the Generic-level statement C15_register_fail_atomic (and finding F11 for composites). *)
Theorem C15_rejected_insert_leaves_loop_intact : forall s h x, halted s = false -> objs s h = None ->
  let s' := do_insert s h x in
  halted s' = false -> in_slots (slots s') h = false ->
  lifecycle s' = lifecycle s /\ toks s' = toks s /\ pending s' = pending s /\ running s' = running s /\ idles s' = idles s /\
  (forall o, o <> h -> objs s' o = objs s o) /\
  (forall j sl, nth_error (slots s) j = Some sl -> s_obj sl <> None -> nth_error (slots s') j = Some sl).
Proof. exact rejected_insert_leaves_loop_intact. Qed.

(* met by concrete states: a second registration of fd 10 fails and changes nothing; an unregister of an fd that is not in the
   table fails and changes nothing; and the insertion of a second lifecycle composite over the same fd fails (REGOP not ok, insert
   -> IoError) without leaving a lifecycle entry behind (the repaired defect F2): the loop goes on with the first source only *)
Example C15_nonvacuous :
  let g := mkGen 10 (mkInt true false) Level None false in
  let e1 := snd (gen_register (en init) g (mkTok 0 0 1)) in
  let s := run (fun _ => []) (fun _ => []) [CAct (AInsert 1 (SComp true None [g] None)); CAct (AInsert 2 (SComp true None [g] None))] in
  gen_register e1 g (mkTok 1 0 1) = (false, g, e1) /\ gen_unregister (en init) g = (false, g, en init) /\
  halted s = false /\ lifecycle s = [mkTok 0 0 0] /\ In (L T_OP [OP_INSERT; 2; res_code RIo]%Z) (trace_of s) /\ quiet s /\ in_slots (slots s) 2 = false /\ in_slots (slots s) 1 = true.
Proof. cbv zeta. split; [reflexivity|split; [reflexivity|split; [reflexivity|split; [reflexivity|split; [vm_compute; do 5 right; left; reflexivity|split; [split; reflexivity|split; reflexivity]]]]]]. Qed.

(* KNOWN FINDING F4 (recorded): an Err from one source drops the rest of the batch. The model reproduces it: the timer
   (deadline 2) is due at phase 1, the composite fails first, the dispatch returns Err, and the timer never fires. *)
Definition F4_scr : scripts := fun h => if h =? 1 then [mkScript [] 4 0%Z] else [].
Definition F4_cmds : list cmd :=
  [CAct (AInsert 1 (SComp false None [mkGen 10 (mkInt true false) Level None false] None));
   CAct (AInsert 2 (STimer (mkTimer None (Some 2%Z) false)));
   CAct (AFdWrite 10 1); CDispatch 1%Z [1; 4294967296]; CAct (AFdRead 10); CDispatch 2%Z []; CDispatch 3%Z []].
Theorem C15_F4_refuted :
  let tr := trace_of (run F4_scr (fun _ => []) F4_cmds) in
  In (L T_DISP [1; 1]%Z) tr /\ ~ In (L T_CB [2; 0; 2]%Z) tr /\ wh_heap (whl (en (run F4_scr (fun _ => []) F4_cmds))) = [].
Proof. vm_compute. split; [do 9 right; left; reflexivity|]. split; [|reflexivity]. intuition discriminate. Qed.
