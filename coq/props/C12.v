(* C12  dispatch() waits exactly as long as it should: no spinning, no oversleeping.  (PARTIAL: the arithmetic and the
   "limit fires" step are proved; the waiting itself is the kernel's and is measured by the check.) *)
From CV Require Import Base Token Env Timeout.
From CVP Require Import Env_lemmas Timeout_proofs.
From CVP Require Import C12_spin.
Open Scope Z_scope.

(* the wait is unbounded only if there is no timeout, no synthetic event and no armed timer *)
Theorem C12_none_iff : forall timeout syn next now,
  eff_timeout timeout syn next now = None <-> (syn = false /\ timeout = None /\ next = None).
Proof. exact eff_none. Qed.
(* otherwise it is exactly the smaller of the (possibly zeroed) timeout and the saturating time to the earliest deadline *)
Theorem C12_effective : forall timeout syn next now e, eff_timeout timeout syn next now = Some e ->
  let t := if syn then Some 0 else timeout in
  (forall x, t = Some x -> e <= x) /\ (forall d, next = Some d -> e <= sat_since d now) /\
  (t = Some e \/ exists d, next = Some d /\ e = sat_since d now).
Proof. exact eff_spec. Qed.
(* the time to a deadline saturates at zero: an expired timer makes the wait non-blocking, never negative *)
Theorem C12_saturating : forall d now, 0 <= sat_since d now /\ (now <= d -> sat_since d now = d - now) /\ (d <= now -> sat_since d now = 0).
Proof. exact sat_since_nonneg. Qed.
Theorem C12_zero_never_blocks : forall syn next now, eff_timeout (Some 0) syn next now = Some 0.
Proof. exact eff_zero. Qed.
(* when the wait ends at or after the earliest deadline, a timer with that deadline is among the expired ones *)
Theorem C12_limit_fires : forall l d now', wh_next_deadline (mkWheel l 0%N) = Some d -> d <= now' ->
  exists e, In e (fst (wh_expire (length l) l now')) /\ w_dl e = d.
Proof. exact limit_fires. Qed.

(* the earliest deadline that bounds the wait is that of a LIVE arming: after a timer was cancelled (disable, remove, the
   unregister half of update/enable) the next deadline is the earliest one among the other armings, or none if there is no
   other - the cancelled arming no longer shortens any wait. Counters are unique in the wheel except after the
   stale-batch-event corner of finding F5 (see C05) *)
Theorem C12_cancelled_arming_never_shortens_wait : forall w c d, NoDup (map w_ctr (wh_heap w)) -> wh_next_deadline (wh_cancel w c) = Some d ->
  exists e, In e (wh_heap w) /\ w_ctr e <> c /\ w_dl e = d /\ forall e', In e' (wh_heap w) -> w_ctr e' <> c -> d <= w_dl e'.
Proof. exact wh_next_after_cancel. Qed.
Theorem C12_no_other_arming_no_deadline : forall w c, NoDup (map w_ctr (wh_heap w)) -> wh_next_deadline (wh_cancel w c) = None ->
  forall e, In e (wh_heap w) -> w_ctr e = c.
Proof. exact wh_next_none_after_cancel. Qed.

Example C12_nonvacuous : eff_timeout (Some 400) false (Some 1100) 1000 = Some 100 /\ eff_timeout None false (Some 900) 1000 = Some 0.
Proof. split; reflexivity. Qed.

(* no spinning: the wait handed to the poller is zero only for a reason - the caller asked for zero, a synthetic event is pending,
   or a timer is already due *)
Theorem C12_zero_wait_only_for_a_cause : forall timeout syn next now, (forall x, timeout = Some x -> 0 <= x) ->
  eff_timeout timeout syn next now = Some 0 -> syn = true \/ timeout = Some 0 \/ exists d, next = Some d /\ d <= now.
Proof. exact eff_zero_only_for_cause. Qed.
(* no oversleeping and no early return: the wait ends no later than the caller's timeout and no later than the earliest deadline,
   and exactly at one of the two *)
Theorem C12_wait_ends_exactly_at_timeout_or_deadline : forall timeout next now e, eff_timeout timeout false next now = Some e ->
  (forall x, timeout = Some x -> e <= x) /\ (forall d, next = Some d -> now + e <= Z.max now d) /\
  (timeout = Some e \/ exists d, next = Some d /\ now + e = Z.max now d).
Proof. intros timeout next now e H. destruct (eff_never_late _ _ _ _ H) as [A B]. split; [exact A|split; [exact B|exact (eff_never_early _ _ _ _ H)]]. Qed.
Print Assumptions C12_zero_wait_only_for_a_cause.
Print Assumptions C12_wait_ends_exactly_at_timeout_or_deadline.
