(* C18  TransientSource keeps its child's registration in step with its state. *)
From CV Require Import Base PostAction Transient.
From CVP Require Import Transient_proofs.
Open Scope N_scope.

(* For EVERY sequence of child post-actions (also followed, inside the same process_events, by the parent's remove() or
   replace(new) and a Reregister answer), remove(), replace(new), parent register/reregister/unregister that follows the
   documented protocol (proto_ok), starting from From<T> or Default, and that never reaches the recorded F7 state:
   - every child register/reregister/unregister call succeeds (never registered twice, never unregistered while unregistered),
   - every dropped child is unregistered at that moment, every value returned to the loop is Continue or Reregister
     (all four are `all_ok (evs ..)`, the first component of tinv),
   - and between operations the child is registered exactly when it is the kept child of a registered parent (second component). *)
Theorem C18_in_step : forall from ops,
  proto_ok (t_init from) ops = true -> f7_free (t_init from) ops = true -> tinv (t_run from ops).
Proof. exact transient_ok. Qed.

Theorem C18_returns_continue_or_reregister : forall s a, let '(_, r, _) := t_process s a in r = Continue \/ r = Reregister.
Proof. exact t_process_ret. Qed.
Theorem C18_forward_current_only : forall s a id, In (CFwd id) (snd (t_process s a)) -> exists c, s = TKeep c /\ c_id c = id.
Proof. exact t_process_fwd. Qed.
Theorem C18_empty_or_pending_is_noop : forall s a, (forall c, s <> TKeep c) -> t_process s a = (s, Continue, []).
Proof. exact t_process_not_keep. Qed.

(* KNOWN FINDING F7: refuted without the f7_free hypothesis *)
Theorem C18_F7_refuted :
  proto_ok (t_init true) [OpRegister; OpEvent Disable; OpReregister] = true /\
  all_ok (evs (t_run true [OpRegister; OpEvent Disable; OpReregister])) = false /\
  proto_ok (t_init true) [OpRegister; OpEvent Disable; OpUnregister] = true /\
  all_ok (evs (t_run true [OpRegister; OpEvent Disable; OpUnregister])) = false.
Proof. exact f7_refuted. Qed.

(* non-vacuity: a long protocol-following history (replace, remove, re-registration, events) satisfies both hypotheses *)
Example C18_nonvacuous :
  let ops := [OpRegister; OpEvent Continue; OpReplace; OpReregister; OpEvent Reregister; OpUnregister; OpRegister;
              OpEvent Remove; OpReplace; OpReregister; OpRegister] in
  proto_ok (t_init true) [OpRegister; OpEvent Continue; OpReplace; OpReregister; OpEvent Reregister; OpUnregister; OpRegister; OpEvent Remove] = true /\
  f7_free (t_init true) [OpRegister; OpEvent Continue; OpReplace; OpReregister; OpEvent Reregister; OpUnregister; OpRegister; OpEvent Remove] = true.
Proof. vm_compute. split; reflexivity. Qed.
(* the child answers Disable and the parent replaces it inside the same process_events: the old child is unregistered before
   it is dropped, the new one registered *)
Example C18_disable_then_replace_nonvacuous :
  let ops := [OpRegister; OpEventThen Disable true; OpEvent Continue] in
  proto_ok (t_init true) ops = true /\ f7_free (t_init true) ops = true /\
  evs (t_run true ops) = [CReg 0 true; CRes true; CFwd 0; CRet 1; CUnreg 0 true; CReg 1 true; CDrop 0 false; CRes true; CFwd 1; CRet 0].
Proof. vm_compute. repeat split; reflexivity. Qed.
