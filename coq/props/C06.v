(* C06  Removed sources are gone for good; their tokens die; everything is released once. *)
From CV Require Import Base Consts Token PostAction Env Loop.
From CVP Require Import Loop_frames Seq_lemmas Env_lemmas.
Open Scope N_scope.

(* remove(): right afterwards the handle's token no longer resolves to a source *)
Theorem C06_token_dead_after_remove : forall s h, halted s = false -> lookup (exec_action s (ARemove h)) h = None.
Proof. exact lookup_after_remove. Qed.
(* a token that does not resolve: enable/disable/update return InvalidToken, remove is a no-op, and NOTHING else in the
   loop state changes - so it cannot affect a later source that reuses the slot *)
Theorem C06_dead_token_noop : forall s h, halted s = false -> lookup s h = None ->
  exec_action s (AEnable h) = emit s (op_line OP_ENABLE h RInvalid) /\
  exec_action s (ADisable h) = emit s (op_line OP_DISABLE h RInvalid) /\
  exec_action s (AUpdate h) = emit s (op_line OP_UPDATE h RInvalid) /\
  exec_action s (ARemove h) = emit s (op_line OP_REMOVE h ROk).
Proof. exact invalid_token_noop. Qed.
(* events still in the batch for a vacated (or re-used, hence re-versioned) slot are dropped without any callback *)
Theorem C06_stale_event_dropped : forall scr s ev,
  lc_lookup s (forget_sub_id (unpack (ev_key ev))) = None -> process_event scr s ev = (s, true).
Proof.
  intros scr s ev H. unfold process_event, lc_lookup in *.
  destruct (slot_get (slots s) _) as [sl|]; [|reflexivity]. rewrite H. reflexivity.
Qed.
(* slot reuse changes the generation: the old token differs from the new one (for fewer than 65536 reuses) *)
Theorem C06_reuse_bumps_generation : forall t, wf_tok t ->
  increment_version t = mkTok (t_id t) ((t_ver t + 1) mod U16) 0 /\ same_source_as (increment_version t) t = false.
Proof.
  intros t H. destruct (CVP.Token_proofs.increment_version_spec t H) as [E _]. split; [exact E|].
  rewrite E. unfold same_source_as; cbn. rewrite N.eqb_refl. cbn.
  destruct H as (_ & Hv & _). apply N.eqb_neq. unfold U16 in *.
  destruct (N.eq_dec (t_ver t) 65535) as [->|Hne]; [discriminate|]. rewrite N.mod_small by lia. lia.
Qed.
(* at the end of an event's processing nothing is marked running: the in-flight clone is released *)
Theorem C06_released_after_processing : forall s o, running (end_processing s o) = None /\ zombies (end_processing s o) = zombies (end_processing s o).
Proof. intros s o. split; [apply running_end_processing|reflexivity]. Qed.

Example C06_nonvacuous :
  let s := run (fun _ => []) (fun _ => []) [CAct (ANewPing 1 10); CAct (AInsert 1 (SPing (mkGen 10 (mkInt true false) Level None false)))] in
  halted s = false /\ lookup s 1 <> None /\ lookup (exec_action s (ARemove 1)) 1 = None.
Proof. vm_compute. repeat split; discriminate. Qed.
