(* C06  Removed sources are gone for good; their tokens die; everything is released once. *)
From CV Require Import Base Consts Token PostAction Env Loop.
From CVP Require Import Loop_frames Seq_lemmas Env_lemmas C06_proofs C14_life C14_life2 C06_release C06_handles.
From CVP Require Import C15_intact.
Open Scope N_scope.

(* remove(): right afterwards the handle's token no longer resolves to a source *)
Theorem C06_token_dead_after_remove : forall s h, halted s = false -> lookup (exec_action s (ARemove h)) h = None.
Proof. exact lookup_after_remove. Qed.
(* a token that does not resolve: enable/disable/update return InvalidToken, remove is a no-op, and NOTHING else in the
   loop state changes - so it cannot affect a later source that reuses the slot *)
Theorem C06_dead_token_noop : forall s h, halted s = false -> lookup s h = None ->
  exec_action s (AEnable h) = emit s (op_line OP_ENABLE h RInvalid) /\
  exec_action s (ADisable h) = emit s (op_line OP_DISABLE h RInvalid) /\
  exec_action s (AUpdate h) = emit s (op_line OP_UPDATE h RInvalid) /\
  exec_action s (ARemove h) = emit s (op_line OP_REMOVE h ROk).
Proof. exact invalid_token_noop. Qed.
(* events still in the batch for a vacated (or re-used, hence re-versioned) slot are dropped without any callback *)
Theorem C06_stale_event_dropped : forall scr s ev,
  lc_lookup s (forget_sub_id (unpack (ev_key ev))) = None -> process_event scr s ev = (s, true).
Proof.
  intros scr s ev H. unfold process_event, lc_lookup in *.
  destruct (slot_get (slots s) _) as [sl|]; [|reflexivity]. rewrite H. reflexivity.
Qed.
(* slot reuse changes the generation: the old token differs from the new one (for fewer than 65536 reuses) *)
Theorem C06_reuse_bumps_generation : forall t, wf_tok t ->
  increment_version t = mkTok (t_id t) ((t_ver t + 1) mod U16) 0 /\ same_source_as (increment_version t) t = false.
Proof.
  intros t H. destruct (CVP.Token_proofs.increment_version_spec t H) as [E _]. split; [exact E|].
  rewrite E. unfold same_source_as; cbn. rewrite N.eqb_refl. cbn.
  destruct H as (_ & Hv & _). apply N.eqb_neq. unfold U16 in *.
  destruct (N.eq_dec (t_ver t) 65535) as [->|Hne]; [discriminate|]. rewrite N.mod_small by lia. lia.
Qed.
(* at the end of an event's processing nothing is marked running: the in-flight clone is released *)
Theorem C06_released_after_processing : forall s o, running (end_processing s o) = None.
Proof. intros s o. apply running_end_processing. Qed.

(* WHOLE HISTORIES. Between any two states of any scenario (any commands, any scripted callbacks, dispatches, idles) every
   slot only moves forward: a later generation, or the same generation with the same token and the same source or none
   (`sstep`); slots stay well formed (token = (index, generation mod 2^16, 0)). Hence: a token of the current or a past
   generation of its slot (`issued`) that does not resolve to a source now never resolves again, as long as the slot has
   been reused fewer than 65536 times (`gens_small`, the property's own bound). lc_lookup is the generation-checked lookup
   used for every event and every enable/disable/update/remove. *)
Theorem C06_slots_only_move_forward : forall scr bscr cmds s, sstep (slots s) (slots (fold_left (exec_cmd scr bscr) cmds s)).
Proof. intros scr bscr cmds s. apply exec_cmds_sstep. Qed.
Theorem C06_token_dead_forever : forall scr bscr cmds1 cmds2 t,
  gens_small (slots (run scr bscr (cmds1 ++ cmds2))) -> issued (slots (run scr bscr cmds1)) t ->
  lc_lookup (run scr bscr cmds1) t = None -> lc_lookup (run scr bscr (cmds1 ++ cmds2)) t = None.
Proof. exact token_dead_forever_run. Qed.
Theorem C06_dead_token_dead_handle : forall s h t, toks s h = Some t -> lc_lookup s t = None -> lookup s h = None.
Proof. exact lookup_none_of_dead. Qed.

(* NEVER A LATER SOURCE, whole histories. In every state of every scenario each handle's token is a token of its slot's current
   or a past generation, and wherever it still resolves it finds the handle's own object or an emptied slot (`HOBJ`). So the
   lookup behind enable / disable / update / remove of ANY handle ever issued - stale or not - can only yield that handle's own
   source: it can never act on the source that re-used the slot. (`TKS`: slots move forward and each handle's token is either
   unchanged or freshly consistent; proved for every function of the model like `sstep`.) *)
Theorem C06_handle_never_resolves_to_another_source : forall scr bscr cmds h t et o,
  gens_small (slots (run scr bscr cmds)) -> lookup (run scr bscr cmds) h = Some (t, et, o) -> o = h.
Proof. exact handle_resolves_only_to_own_object. Qed.
Theorem C06_handles_consistent_in_every_reachable_state : forall scr bscr cmds,
  gens_small (slots (run scr bscr cmds)) -> HOBJ (run scr bscr cmds).
Proof. exact HOBJ_run. Qed.
(* met by a real history: handle 1 removed, handle 2 inserted into the re-used slot 0: handle 1's token (0,0) no longer resolves,
   handle 2's token (0,1) resolves to object 2 *)
Example C06_handles_nonvacuous :
  let g := mkGen 10 (mkInt true false) Level None false in
  let s := run (fun _ => []) (fun _ => []) [CAct (ANewPing 1 10); CAct (AInsert 1 (SPing g)); CAct (ARemove 1);
             CAct (ANewPing 2 11); CAct (AInsert 2 (SPing (mkGen 11 (mkInt true false) Level None false)))] in
  toks s 1 = Some (mkTok 0 0 0) /\ toks s 2 = Some (mkTok 0 1 0) /\ lookup s 1 = None /\
  lookup s 2 = Some (mkTok 0 1 0, mkTok 0 1 0, 2).
Proof. vm_compute. repeat split. Qed.

(* RELEASE, whole histories. `objs s o = Some ob` is "the source and callback of object o have not been dropped yet" (dropping
   is `drop_obj`, which prints the DROP line the correspondence check compares with the implementation's drop counters);
   `o_ext ob` is "the user holds a Dispatcher clone of it". After any scenario - any commands, scripted callbacks that
   remove themselves or others, post-actions, dispatches, idles - at every point between two top-level operations, i.e. in
   particular once a dispatch has returned: every object not yet dropped is in a live slot or is kept alive by the user's own
   Dispatcher, and nothing is parked on the deferred-drop list. So a removed source nobody else holds has been released by
   the end of the dispatch in progress. *)
Theorem C06_released_by_end_of_dispatch : forall scr bscr cmds o ob,
  let s := run scr bscr cmds in
  gens_small (slots s) -> halted s = false -> objs s o = Some ob -> in_slots (slots s) o = false -> o_ext ob = true.
Proof. exact released_after_any_history. Qed.
Theorem C06_no_deferred_drop_outlives_dispatch : forall scr bscr cmds,
  let s := run scr bscr cmds in gens_small (slots s) -> halted s = false -> zombies s = [] /\ running s = None.
Proof.
  cbv zeta. intros scr bscr cmds G Hh. destruct (run_FULL scr bscr cmds G) as [X|(_ & Hr & _ & Z)]; [congruence|]. split; assumption.
Qed.

(* the release theorems are met by real histories: a ping source that removes itself inside its own callback. With the
   user's Dispatcher clone dropped beforehand the object is still stored before the dispatch and gone (dropped, DROP line
   printed once) when the dispatch returns; with the clone kept it is still stored, out of every slot, and marked external *)
Example C06_release_nonvacuous :
  let g := mkGen 10 (mkInt true false) Level None false in
  let scr : scripts := fun h => if N.eqb h 1 then [mkScript [ARemove 1] 0 0%Z] else [] in
  let pre := [CAct (ANewPing 1 10); CAct (AInsert 1 (SPing g)); CAct (ADropDisp 1); CAct (APing 1)] in
  let keep := [CAct (ANewPing 1 10); CAct (AInsert 1 (SPing g)); CAct (APing 1)] in
  let a := run scr (fun _ => []) pre in
  let b := run scr (fun _ => []) (pre ++ [CDispatch 0%Z []]) in
  let c := run scr (fun _ => []) (keep ++ [CDispatch 0%Z []]) in
  (halted a = false /\ objs a 1 <> None /\ in_slots (slots a) 1 = true) /\
  (halted b = false /\ cbn b 1 = 1%nat /\ objs b 1 = None /\ in_slots (slots b) 1 = false /\
   filter (fun l => match l with L k _ => N.eqb k 15 end) (trace_of b) = [L 15 [1%Z]]) /\
  (halted c = false /\ in_slots (slots c) 1 = false /\ option_map o_ext (objs c 1) = Some true).
Proof. vm_compute. repeat split; discriminate. Qed.

Example C06_nonvacuous :
  let s := run (fun _ => []) (fun _ => []) [CAct (ANewPing 1 10); CAct (AInsert 1 (SPing (mkGen 10 (mkInt true false) Level None false)))] in
  halted s = false /\ lookup s 1 <> None /\ lookup (exec_action s (ARemove 1)) 1 = None.
Proof. vm_compute. repeat split; discriminate. Qed.
(* the premises of C06_token_dead_forever are met by a real history: insert, remove, and a second insert that reuses the slot *)
Example C06_forever_nonvacuous :
  let g := mkGen 10 (mkInt true false) Level None false in
  let c1 := [CAct (ANewPing 1 10); CAct (AInsert 1 (SPing g)); CAct (ARemove 1)] in
  let c2 := [CAct (ANewPing 2 11); CAct (AInsert 2 (SPing (mkGen 11 (mkInt true false) Level None false)))] in
  let t := mkTok 0 0 0 in
  issued (slots (run (fun _ => []) (fun _ => []) c1)) t /\ lc_lookup (run (fun _ => []) (fun _ => []) c1) t = None /\
  gens_small (slots (run (fun _ => []) (fun _ => []) (c1 ++ c2))) /\
  lc_lookup (run (fun _ => []) (fun _ => []) (c1 ++ c2)) (mkTok 0 1 0) = Some 2.
Proof.
  cbv zeta. split; [|split; [|split]].
  - eexists. split; [vm_compute; reflexivity|vm_compute; discriminate].
  - vm_compute. reflexivity.
  - intros i sl H. vm_compute in H. destruct i as [|i]; [injection H as <-; vm_compute; reflexivity|destruct i; discriminate].
  - vm_compute. reflexivity.
Qed.

(* a slot is handed out only when it is vacant: the slot an insertion takes is never one that holds a source, and every occupied slot - its
   token, its generation and its source - is left exactly as it was. A finished removal can therefore not reach a later source through the
   slot allocator (the vacated slot is found again by a scan of the list itself, there is no second record of vacant slots to go stale). *)
Theorem C06_insertion_never_takes_an_occupied_slot : forall l i l', vacant_entry l = Some (i, l') ->
  forall j sl, nth_error l j = Some sl -> s_obj sl <> None -> nth_error l' j = Some sl /\ j <> i.
Proof. exact vacant_entry_keeps_occupied. Qed.
Print Assumptions C06_insertion_never_takes_an_occupied_slot.
