(* C20  Poller keys encode (slot, generation, sub-source) injectively and reversibly.
   Only statements, `exact`, and Print Assumptions live here. *)
From CV Require Import Base Consts Token.
From CVP Require Import Token_proofs.
Open Scope N_scope.

(* decode (encode t) = t for every representable triple *)
Theorem C20_unpack_pack : forall t, wf_tok t -> unpack (pack t) = t.
Proof. exact unpack_pack. Qed.

(* encode (decode k) = k for every 64-bit key, and the decoded fields are representable *)
Theorem C20_pack_unpack : forall k, k < USIZE -> pack (unpack k) = k /\ wf_tok (unpack k).
Proof. intros k H; split; [exact (pack_unpack k H) | exact (unpack_wf k)]. Qed.

(* the key is unique to the triple *)
Theorem C20_inj : forall a b, wf_tok a -> wf_tok b -> pack a = pack b -> a = b.
Proof. exact pack_inj. Qed.

(* never the poller's reserved notification key (usize::MAX) for slot ids below 2^32-1 *)
Theorem C20_not_notify_key : forall t, wf_tok t -> t_id t < U32 - 1 -> pack t <> USIZE_MAX.
Proof. exact pack_not_notify_key. Qed.

(* ... and the bound is tight: slot 2^32-1 with the last generation and sub-id collides *)
Theorem C20_notify_key_bound_tight : pack (mkTok (U32 - 1) (U16 - 1) (U16 - 1)) = USIZE_MAX.
Proof. exact pack_max_id_collides. Qed.

(* the shift/mask form used by the code equals the arithmetic form *)
Theorem C20_bits_eq : forall t, wf_tok t -> pack t = t_id t * U32 + t_ver t * U16 + t_sub t.
Proof. exact pack_arith. Qed.

(* slot reuse bumps the generation modulo 2^16 and resets the sub-id *)
Theorem C20_inc_version : forall t, wf_tok t ->
  increment_version t = mkTok (t_id t) ((t_ver t + 1) mod U16) 0 /\ wf_tok (increment_version t).
Proof. exact increment_version_spec. Qed.

(* the successor sub-id is +1, and asking beyond the representable range fails (panic) *)
Theorem C20_inc_sub : forall t, wf_tok t ->
  increment_sub_id t = if t_sub t + 1 <? U16 then Some (mkTok (t_id t) (t_ver t) (t_sub t + 1)) else None.
Proof. exact increment_sub_id_spec. Qed.

(* a factory asked for n tokens: the i-th token is (id, ver, sub0 + i) - hence pairwise distinct and
   all of the same source - and the request succeeds only while sub0 + n stays representable *)
Theorem C20_factory_tokens : forall n f l, wf_tok f -> factory_take f n = Some l ->
  length l = n /\
  (forall i t, nth_error l i = Some t -> t = mkTok (t_id f) (t_ver f) (t_sub f + N.of_nat i)) /\
  (n = O \/ t_sub f + N.of_nat n < U16).
Proof. exact factory_take_spec. Qed.

Theorem C20_factory_fails_loudly : forall n f, wf_tok f ->
  U16 <= t_sub f + N.of_nat n -> (0 < n)%nat -> factory_take f n = None.
Proof. exact factory_take_fails. Qed.

Theorem C20_factory_succeeds : forall n f, wf_tok f ->
  t_sub f + N.of_nat n < U16 -> exists l, factory_take f n = Some l.
Proof. exact factory_take_succeeds. Qed.

(* non-vacuity: the hypotheses are met by a concrete non-trivial token *)
Example C20_nonvacuous : wf_tok (mkTok 70000 65535 12345) /\ unpack (pack (mkTok 70000 65535 12345)) = mkTok 70000 65535 12345.
Proof. split; [repeat split|reflexivity]. Qed.
