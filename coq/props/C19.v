(* C19  Signals: signal-mask bookkeeping is exact; each pending signal reported once. *)
From CV Require Import Base Signals.
From CVP Require Import Signals_proofs.
From CVP Require Import C19_count.
Open Scope N_scope.

(* after ANY sequence of new/add_signals/remove_signals/set_signals/Drop, raises and dispatches (thread mask initially
   empty on the universe): exactly the configured signals are blocked and watched by the signalfd, every pending signal is
   blocked, and after Drop nothing is configured (hence nothing blocked) *)
Theorem C19_mask_exact : forall ops, sinv (s_run ops).
Proof. exact sinv_run. Qed.
(* a dispatch reports exactly the pending configured signals (never an unconfigured one), and afterwards none of them is
   pending any more: each pending instance is reported once *)
Theorem C19_reported_once : forall st, sinv st -> alive st = true ->
  let st' := s_step st SDispatch in
  (exists got, reported st' = reported st ++ got /\ (forall x, In x got -> mask st x = true /\ pending st x = true) /\
               (forall x, mask st x = true -> pending st x = true -> In x got)) /\
  (forall x, mask st x = true -> pending st' x = false).
Proof. exact dispatch_reports. Qed.
(* over ANY history no pending signal that stays configured across a call ever escapes to its ordinary handler *)
Theorem C19_no_escape : forall ops, escaped (s_run ops) = [].
Proof. exact escaped_run. Qed.
(* the former finding F8 (fixed by commit ebc5fa1): set_signals with a pending signal in both sets reports it *)
Theorem C19_F8_fixed :
  let st := s_run [SNew [SUSR1]; SRaise SUSR1; SSet [SUSR1; SUSR2]; SDispatch] in
  escaped st = [] /\ reported st = [SUSR1] /\ handled st SUSR1 = 0.
Proof. exact f8_fixed. Qed.

Example C19_nonvacuous :
  let st := s_run [SNew [SUSR1; SHUP]; SRaise SUSR1; SRaise SUSR1; SRaise SWINCH; SAdd [SURG]; SDispatch; SRemove [SHUP]; SDrop] in
  reported st = [SUSR1] /\ handled st SWINCH = 1 /\ escaped st = [].
Proof. vm_compute. repeat split. Qed.

(* conservation over WHOLE histories: per signal, reports to the callback + runs of the ordinary handler + (1 if still pending) never
   exceed the number of times it was raised - no raise is reported twice, none is invented (standard signals coalesce, so raises may
   outnumber them); and one dispatch reports a signal at most once *)
Theorem C19_every_report_has_its_own_raise : forall ops x,
  cnt x (reported (s_run ops)) + handled (s_run ops) x + (if pending (s_run ops) x then 1 else 0) <= raised x ops.
Proof. exact reports_and_handlers_never_exceed_raises. Qed.
Theorem C19_one_dispatch_reports_once : forall st x, alive st = true -> cnt x (reported (s_step st SDispatch)) <= cnt x (reported st) + 1.
Proof. exact dispatch_got_once. Qed.
Print Assumptions C19_every_report_has_its_own_raise.
