(* C05  Timers: never early, deadline order, exactly once per arming, cancel is final. *)
From CV Require Import Base Consts Token PostAction Env Loop.
From Coq Require Import Permutation.
From CVP Require Import Loop_frames Seq_lemmas Env_lemmas C05_perm.
Import ListNotations.
Open Scope N_scope.

(* the expiry loop of Poll::poll: every popped entry is due (never early), the popped entries are entries of the wheel
   (nothing invented), nothing due is left behind, and everything left is later than everything popped *)
Theorem C05_expire : forall l now ex rest, wh_expire (length l) l now = (ex, rest) ->
  Forall (fun e => (w_dl e <= now)%Z) ex /\
  (forall e, In e ex -> In e l) /\ (forall e, In e rest -> In e l) /\
  (forall a b, In a ex -> In b rest -> (w_dl a <= w_dl b)%Z) /\
  Forall (fun e => (now < w_dl e)%Z) rest.
Proof.
  intros l now ex rest H. destruct (wh_expire_spec (length l) l now ex rest H) as (A & B & C & D & F).
  repeat split; try assumption. apply F. apply le_n.
Qed.
(* timers due in the same dispatch come out in non-decreasing deadline order *)
Theorem C05_deadline_order : forall fuel l now ex rest, wh_expire fuel l now = (ex, rest) -> dl_sorted ex.
Proof. exact wh_expire_sorted. Qed.
(* the expiry loop partitions the wheel: popped ++ remaining is a permutation of what was there - no arming is popped twice, none is
   lost, none is invented; with pairwise distinct arming counters (which holds except after the stale-batch-event corner F5) each
   counter is popped at most once and a popped counter is no longer in the wheel *)
Theorem C05_expire_partitions_wheel : forall fuel l now ex rest, wh_expire fuel l now = (ex, rest) -> Permutation l (ex ++ rest).
Proof. exact wh_expire_perm. Qed.
Theorem C05_each_arming_popped_once : forall fuel l now ex rest, wh_expire fuel l now = (ex, rest) -> NoDup (map w_ctr l) ->
  NoDup (map w_ctr ex) /\ NoDup (map w_ctr rest) /\ forall c, In c (map w_ctr ex) -> ~ In c (map w_ctr rest).
Proof. exact wh_expire_once. Qed.
(* a timer only reacts to the event carrying its current registration token *)
Theorem C05_token_check : forall scr s o ob ev,
  objs s o = Some ob -> src_has_tok (o_src ob) (unpack (ev_key ev)) = false ->
  log (fst (obj_process scr s o ev)) = log s /\ snd (obj_process scr s o ev) = Some Continue.
Proof. exact obj_process_no_token. Qed.
(* a cancelled (unregistered) timer holds no token: whatever is still in a batch is ignored *)
Theorem C05_unregistered_silent : forall e x x' e', src_unregister e x = (true, x', e') -> src_silent x'.
Proof. exact src_unregister_silent. Qed.

(* a cancelled arming (disable, remove, the unregister half of update/enable - also of a Timer that is a sub-source of a
   composite) leaves the wheel, so by C05_expire it can never fire; every other arming stays. Counters are unique in the wheel
   except after the stale-batch-event corner of finding F5, which is why that is a hypothesis here *)
Theorem C05_cancelled_arming_leaves_wheel : forall e t tk c, tm_reg t = Some (tk, c) -> NoDup (map w_ctr (wh_heap (whl e))) ->
  ~ In c (map w_ctr (wh_heap (whl (snd (timer_unregister e t))))).
Proof. intros e t tk c H Hnd. unfold timer_unregister. rewrite H. cbn. apply wh_cancel_removes. exact Hnd. Qed.
Theorem C05_cancel_keeps_other_armings : forall w c e, In e (wh_heap w) -> w_ctr e <> c -> In e (wh_heap (wh_cancel w c)).
Proof. exact wh_cancel_keeps. Qed.

(* met by a concrete wheel: three armings (deadlines 9, 2, 5; counters 0, 1, 2), now = 5: the entries with deadlines 2 and 5 are popped,
   in that order, 9 stays; and unregistering the timer armed with counter 2 removes exactly that entry *)
Example C05_nonvacuous :
  let hp := [mkW 9 (mkTok 2 0 0) 0; mkW 2 (mkTok 0 0 0) 1; mkW 5 (mkTok 1 0 0) 2] in
  let e0 := mkEnv [] (mkWheel hp 3) (fun _ => 0) (fun _ => None) (fun _ => None) in
  let tm := mkTimer (Some (mkTok 1 0 0, 2)) (Some 5%Z) true in
  wh_expire (length hp) hp 5%Z = ([mkW 2 (mkTok 0 0 0) 1; mkW 5 (mkTok 1 0 0) 2], [mkW 9 (mkTok 2 0 0) 0]) /\
  NoDup (map w_ctr (wh_heap (whl e0))) /\
  wh_heap (whl (snd (timer_unregister e0 tm))) = [mkW 9 (mkTok 2 0 0) 0; mkW 2 (mkTok 0 0 0) 1].
Proof. cbv zeta. split; [vm_compute; reflexivity|split; [|vm_compute; reflexivity]]. repeat constructor; cbn; intuition discriminate. Qed.

(* KNOWN FINDING F5 (recorded, not repaired): the whole-history statement "each arming fires exactly once, never early"
   is refuted by re-arming a timer from another callback while its expiry is already in the batch: the model reproduces
   the early callback (deadline 12 delivered at phase 1, i.e. now = 3). *)
Definition F5_scr : scripts := fun h =>
  if h =? 1 then [mkScript [ASetDl 2 12; AUpdate 2] 0 0%Z] else if h =? 2 then [mkScript [] 1 16%Z] else [].
Definition F5_cmds : list cmd :=
  [CAct (AInsert 1 (SComp false None [mkGen 10 (mkInt true false) Level None false] None));
   CAct (AInsert 2 (STimer (mkTimer None (Some 2%Z) false)));
   CAct (AFdWrite 10 1); CDispatch 1%Z [1; 4294967296]].
Theorem C05_F5_refuted : In (L T_CB [2; 0; 12]%Z) (trace_of (run F5_scr (fun _ => []) F5_cmds)).
Proof. vm_compute. do 11 right. left. reflexivity. Qed.
