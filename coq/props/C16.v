(* C16  The OS poller holds exactly the fds of enabled sources, nothing stale. *)
From CV Require Import Base Consts Token PostAction Env Loop.
From CVP Require Import Loop_frames Seq_lemmas Env_lemmas.
Open Scope N_scope.

(* register: the fd was absent, is present afterwards with exactly the interest, mode and key asked for, and no other
   fd's entry changes *)
Theorem C16_register : forall e g t g' e', gen_register e g t = (true, g', e') ->
  ep_find (epoll e) (g_fd g) = None /\
  (exists q, ep_find (epoll e') (g_fd g) = Some (mkEp (g_fd g) (g_int g) (g_mode g) (pack t) q)) /\
  (forall fd', fd' <> g_fd g -> ep_find (epoll e') fd' = ep_find (epoll e) fd') /\
  g_tok g' = Some t /\ g_poller g' = true.
Proof. exact gen_register_ok. Qed.
(* unregister (disable / remove): the fd is gone, every other entry untouched, the source forgets token and poller *)
Theorem C16_unregister : forall e g g' e', gen_unregister e g = (true, g', e') ->
  ep_find (epoll e') (g_fd g) = None /\ (forall fd', fd' <> g_fd g -> ep_find (epoll e') fd' = ep_find (epoll e) fd') /\
  g_tok g' = None /\ g_poller g' = false.
Proof. exact gen_unregister_ok. Qed.
(* Drop / unwrap of a source that still records a poller deletes its fd: the same fd can be inserted again *)
Theorem C16_drop_clears : forall e g, g_poller g = true -> ep_find (epoll (gen_drop e g)) (g_fd g) = None.
Proof. exact gen_drop_clears. Qed.
Theorem C16_reinsertable : forall tbl fd it m key c, ep_find tbl fd = None -> exists tbl', ep_add tbl fd it m key c = Some tbl'.
Proof. intros. unfold ep_add. rewrite H. eexists; reflexivity. Qed.
(* a double registration of one fd is refused (EEXIST) instead of silently replacing the entry *)
Theorem C16_no_double : forall tbl fd it m key c e, ep_find tbl fd = Some e -> ep_add tbl fd it m key c = None.
Proof. intros. unfold ep_add. rewrite H. reflexivity. Qed.

Example C16_nonvacuous :
  exists g' e', gen_register (en init) (mkGen 10 (mkInt true false) Level None false) (mkTok 0 0 1) = (true, g', e').
Proof. eexists. eexists. reflexivity. Qed.
