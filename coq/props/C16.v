(* C16  The OS poller holds exactly the fds of enabled sources, nothing stale. *)
From CV Require Import Base Consts Token PostAction Env Loop GenLife.
From CVP Require Import Loop_frames Seq_lemmas Env_lemmas GenLife_proofs C16_owner.
Import ListNotations.
Open Scope N_scope.

(* register: the fd was absent, is present afterwards with exactly the interest, mode and key asked for, and no other
   fd's entry changes *)
Theorem C16_register : forall e g t g' e', gen_register e g t = (true, g', e') ->
  ep_find (epoll e) (g_fd g) = None /\
  (exists q, ep_find (epoll e') (g_fd g) = Some (mkEp (g_fd g) (g_int g) (g_mode g) (pack t) q)) /\
  (forall fd', fd' <> g_fd g -> ep_find (epoll e') fd' = ep_find (epoll e) fd') /\
  g_tok g' = Some t /\ g_poller g' = true.
Proof. exact gen_register_ok. Qed.
(* unregister (disable / remove): the fd is gone, every other entry untouched, the source forgets token and poller *)
Theorem C16_unregister : forall e g g' e', gen_unregister e g = (true, g', e') ->
  ep_find (epoll e') (g_fd g) = None /\ (forall fd', fd' <> g_fd g -> ep_find (epoll e') fd' = ep_find (epoll e) fd') /\
  g_tok g' = None /\ g_poller g' = false.
Proof. exact gen_unregister_ok. Qed.
(* Drop / unwrap of a source that still records a poller deletes its fd: the same fd can be inserted again *)
Theorem C16_drop_clears : forall e g, g_poller g = true -> ep_find (epoll (gen_drop e g)) (g_fd g) = None.
Proof. exact gen_drop_clears. Qed.
Theorem C16_reinsertable : forall tbl fd it m key c, ep_find tbl fd = None -> exists tbl', ep_add tbl fd it m key c = Some tbl'.
Proof. intros. unfold ep_add. rewrite H. eexists; reflexivity. Qed.
(* a double registration of one fd is refused (EEXIST) instead of silently replacing the entry *)
Theorem C16_no_double : forall tbl fd it m key c e, ep_find tbl fd = Some e -> ep_add tbl fd it m key c = None.
Proof. intros. unfold ep_add. rewrite H. reflexivity. Qed.

(* WHOLE HISTORIES at the level of Generic (coq/theories/GenLife.v: Generic::new, the public interest / mode fields, register,
   reregister, unregister, unwrap and Drop over any number of Generic objects and fds, two objects possibly wrapping one fd, whose
   second registration fails with EEXIST). After ANY history, failed registrations included:
   - every entry of the poller's table belongs to a registered Generic and carries the interest, mode and key that Generic last
     (re)registered; every registered Generic has its entry; no two registered Generics share an fd - nothing stale, nothing missing;
   - once a registered Generic has been unregistered, unwrapped or dropped its fd is out of the table, and a fresh Generic over the
     same fd registers without error.
   `gl_last` is ghost state used only to say "what it last registered". Protocol: unregister / reregister are only issued for a
   registered Generic (what the loop does); everything else, including operations on objects that do not exist, is in. *)
Theorem C16_generic_table_exact : forall ops, let s := gl_exec ops in
  (forall fd ent, ep_find (epoll (gl_env s)) fd = Some ent ->
     exists g gn, gl_gens s g = Some gn /\ g_fd gn = fd /\ registered gn /\ gl_last s g = Some (e_int ent, e_mode ent, e_key ent)) /\
  (forall g gn, gl_gens s g = Some gn -> registered gn ->
     exists ent, ep_find (epoll (gl_env s)) (g_fd gn) = Some ent /\ gl_last s g = Some (e_int ent, e_mode ent, e_key ent)) /\
  (forall g1 g2 gn1 gn2, gl_gens s g1 = Some gn1 -> gl_gens s g2 = Some gn2 -> registered gn1 -> registered gn2 ->
     g_fd gn1 = g_fd gn2 -> g1 = g2).
Proof. exact table_exact. Qed.
Theorem C16_released_fd_is_gone_and_reinsertable : forall ops o g gn g2 it m k,
  let s := gl_exec ops in gl_gens s g = Some gn -> registered gn -> (o = GUnreg g \/ o = GUnwrap g \/ o = GDrop g) ->
  snd (gl_step s o) = G_OK -> g2 <> g -> gl_gens s g2 = None ->
  let s1 := fst (gl_step s o) in let s2 := fst (gl_step s1 (GNew g2 (g_fd gn) it m)) in
  ep_find (epoll (gl_env s1)) (g_fd gn) = None /\ snd (gl_step s2 (GReg g2 k)) = G_OK.
Proof.
  cbv zeta. intros ops o g gn g2 it m k Hg R Ho Hok Hne Hn. split.
  - apply (released_fd_gone _ o g gn (INVG_exec ops) Hg R Ho Hok).
  - apply (released_fd_reinsertable ops o g gn g2 it m k Hg R Ho Hok Hne Hn).
Qed.
(* met by a real history: two Generics on fd 10 (the second registration fails), set + reregister, unwrap of a registered one *)
(* NOTHING STALE, for whole loops, with no hypothesis (shared fds, failed and partial registrations, panics included): in every
   state of every scenario - any commands, callbacks, removals, drops, dispatches, idles - every fd in the poller's table is owned by
   a Generic (a sub-source of a composite, or the eventfd of a ping / channel source) of an object that still exists, and that
   Generic has recorded the poller, so that its Drop or unwrap deletes the fd (C16_drop_clears). An fd can therefore not stay
   registered after everything that could own it is gone. (`EPI`, proved for every function of the model in
   coq/proofs/C16_owner.v; the converse - every enabled source's fd IS in the table - is false with shared fds and is decided by
   comparing the kernel's table with the model.) *)
Theorem C16_nothing_stale_in_any_reachable_state : forall scr bscr cmds fd,
  has (en (run scr bscr cmds)) fd = true ->
  exists o ob g, objs (run scr bscr cmds) o = Some ob /\ In g (gens_of (o_src ob)) /\ g_fd g = fd /\ g_poller g = true.
Proof. exact nothing_stale. Qed.
(* met by a real history: a composite over fds 10 and 11 and a ping source over fd 12 are inserted, the composite is removed while
   the user keeps its Dispatcher, then dropped: before the drop fds 10, 11, 12 are registered... after remove + drop only fd 12 is *)
Example C16_nothing_stale_nonvacuous :
  let g k := mkGen k (mkInt true false) Level None false in
  let pre := [CAct (AInsert 1 (SComp false None [g 10; g 11] None)); CAct (ANewPing 1 12); CAct (AInsert 2 (SPing (g 12)))] in
  let a := run (fun _ => []) (fun _ => []) pre in
  let b := run (fun _ => []) (fun _ => []) (pre ++ [CAct (ARemove 1); CAct (ADropDisp 1)]) in
  (has (en a) 10, has (en a) 11, has (en a) 12) = (true, true, true) /\ (has (en b) 10, has (en b) 11, has (en b) 12) = (false, false, true) /\
  objs b 1 = None.
Proof. vm_compute. repeat split. Qed.

Example C16_generic_nonvacuous :
  let it := mkInt true false in
  let ops := [GNew 1 10 it Level; GReg 1 2; GNew 2 10 (mkInt true true) Edge; GReg 2 0; GSet 1 (mkInt true true) OneShot; GRereg 1 5] in
  map fst (gl_run ops) = [0; 0; 0; 1; 0; 0] /\
  (exists gn, gl_gens (gl_exec ops) 1 = Some gn /\ registered gn /\ gl_last (gl_exec ops) 1 = Some (mkInt true true, OneShot, 5)) /\
  snd (gl_step (gl_exec ops) (GUnwrap 1)) = G_OK /\ gl_table (fst (gl_step (gl_exec ops) (GUnwrap 1))) = [].
Proof. vm_compute. split; [reflexivity|split; [eexists; split; [reflexivity|split; [discriminate|reflexivity]]|split; reflexivity]]. Qed.

Example C16_nonvacuous :
  exists g' e', gen_register (en init) (mkGen 10 (mkInt true false) Level None false) (mkTok 0 0 1) = (true, g', e').
Proof. eexists. eexists. reflexivity. Qed.
