(* C07  disable() silences a source until enable(); readiness survives the gap. *)
From CV Require Import Base Consts Token PostAction Env Loop.
From CVP Require Import Loop_frames Seq_lemmas Env_lemmas C06_proofs C14_life C14_life2 C06_handles C07_silence.
Import ListNotations.
Open Scope N_scope.

(* After a completed disable() / a processed PostAction::Disable (the dispatcher-level unregister returned Ok and was not
   deferred) the source holds no registration token, and EVERY event aimed at it - also one already collected in the
   current batch, whatever token it carries - is ignored: no callback line is logged, the result is Continue. *)
Theorem C07_disable_silences : forall scr s o t s',
  disp_unregister s o t = (ROk, true, s') -> is_running s o = false ->
  exists ob', objs s' o = Some ob' /\ src_silent (o_src ob') /\
              forall ev, log (fst (obj_process scr s' o ev)) = log s' /\ snd (obj_process scr s' o ev) = Some Continue.
Proof. exact disp_unregister_silences. Qed.

(* a source without tokens ignores every event (the token checks of Generic and Timer) *)
Theorem C07_silent_source_ignores : forall scr s o ob ev,
  objs s o = Some ob -> src_has_tok (o_src ob) (unpack (ev_key ev)) = false ->
  log (fst (obj_process scr s o ev)) = log s /\ snd (obj_process scr s o ev) = Some Continue.
Proof. exact obj_process_no_token. Qed.

(* unregistering removes the fd from the poller table and leaves every other fd's entry untouched *)
Theorem C07_unregister_isolated : forall tbl fd tbl', ep_del tbl fd = Some tbl' ->
  ep_find tbl' fd = None /\ forall fd', fd' <> fd -> ep_find tbl' fd' = ep_find tbl fd'.
Proof. exact ep_del_spec. Qed.

(* readiness that persists is reported again once a level-triggered fd is registered: see C02_level *)

(* a disable the running source requests on itself is deferred (nothing is unregistered yet) *)
Theorem C07_self_disable_deferred : forall s o t, is_running s o = true -> (exists ob, objs s o = Some ob) ->
  disp_unregister s o t = (ROk, false, s).
Proof. intros s o t H [ob E]. unfold disp_unregister. rewrite E, H. reflexivity. Qed.

(* SILENT THROUGH THE WHOLE GAP, whole histories. Take any state s a scenario reaches in which the source of handle o holds no
   registration token (`src_silent`: what a completed disable() leaves behind, C07_disable_silences). Continue with ANY commands
   and ANY callback scripts - other sources' events and callbacks, removals, insertions that re-use slots, set_interest /
   set_deadline on o itself, disable / remove of o, dispatches with or without events, idles - under the one condition that no
   command and no script names handle o in insert / enable / update (`cmd_ok`, `scr_ok`). Then in the state reached o still
   holds no token and its callback counter has not moved: not one callback until enable() (or update / re-insert).
   Ingredients: every handle's token only ever resolves to that handle's own object (C06_handles), so enable / update of
   another handle cannot re-register o; no action is pending between events (C09), so the token-less source cannot inherit
   a deferred re-registration when a stale event of its own is looked at; a token-less source ignores every event. Same
   hypothesis as the other whole-history theorems (slot generations below 65536). *)
Theorem C07_silent_until_its_handle_is_named : forall scr1 bscr1 cmds1 scr2 bscr2 cmds2 o,
  let s := run scr1 bscr1 cmds1 in let s' := fold_left (exec_cmd scr2 bscr2) cmds2 s in
  gens_small (slots s') ->
  (forall ob, objs s o = Some ob -> src_silent (o_src ob)) ->
  scr_ok o scr2 -> Forall (cmd_ok o) cmds2 ->
  (forall ob, objs s' o = Some ob -> src_silent (o_src ob)) /\ Loop.cbn s' o = Loop.cbn s o.
Proof.
  cbv zeta. intros scr1 bscr1 cmds1 scr2 bscr2 cmds2 o G Hs Hscr Hc.
  destruct (silent_until_named_run scr1 bscr1 cmds1 scr2 bscr2 cmds2 o G) as [N C]; try assumption.
  - intros ob Ho. apply silent_notok. apply Hs. exact Ho.
  - split; [|exact C]. intros ob Ho. apply notok_silent. apply N. exact Ho.
Qed.
(* met by a real history, and not because the source is dead: source 1 (a composite on fd 10) is disabled; during the gap a ping
   source's callback removes itself, inserts source 3 into the freed slot and writes to fd 10, set_interest is called on source 1,
   three dispatches run - source 1's callback counter stays at 1; after enable() the next dispatch raises it to 2 *)
Example C07_gap_nonvacuous :
  let g10 := mkGen 10 (mkInt true false) Level None false in
  let scr : scripts := fun h => if N.eqb h 2 then [mkScript [ARemove 2; AInsert 3 (SComp false None [mkGen 12 (mkInt true false) Level None false] None); AFdWrite 10 1] 0 0%Z] else [] in
  let c1 := [CAct (AInsert 1 (SComp false None [g10] None)); CAct (ANewPing 1 11); CAct (AInsert 2 (SPing (mkGen 11 (mkInt true false) Level None false)));
             CAct (AFdWrite 10 1); CDispatch 0%Z []; CAct (ADisable 1)] in
  let c2 := [CAct (APing 1); CAct (AFdWrite 10 1); CDispatch 0%Z []; CAct (ASetInt 1 0 (mkInt true true) Level); CDispatch 0%Z []; CDispatch 0%Z []] in
  let s := run scr (fun _ => []) c1 in
  let s' := fold_left (exec_cmd scr (fun _ => [])) c2 s in
  let s'' := fold_left (exec_cmd scr (fun _ => [])) [CAct (AEnable 1); CDispatch 0%Z []] s' in
  (halted s' = false /\ option_map (fun ob => src_notok (o_src ob)) (objs s 1) = Some true /\ Forall (cmd_ok 1) c2 /\ scr_ok 1 scr) /\
  (Loop.cbn s 1, Loop.cbn s' 1, Loop.cbn s' 2, Loop.cbn s'' 1) = (1, 1, 1, 2)%nat /\
  option_map (fun ob => src_notok (o_src ob)) (objs s' 3) = Some false.
Proof.
  cbv zeta. split; [split; [vm_compute; reflexivity|split; [vm_compute; reflexivity|split]]|split; vm_compute; reflexivity].
  - repeat constructor.
  - intros k sc Hin. destruct (N.eqb_spec k 2) as [->|]; [|destruct Hin]. destruct Hin as [<-|[]]. repeat constructor; cbn; discriminate.
Qed.

Example C07_nonvacuous :
  let s0 := run (fun _ => []) (fun _ => []) [CAct (AInsert 1 (SComp false None [mkGen 10 (mkInt true false) Level None false] None))] in
  exists s', disp_unregister s0 1 (mkTok 0 0 0) = (ROk, true, s') /\ is_running s0 1 = false.
Proof. eexists. split; vm_compute; reflexivity. Qed.
