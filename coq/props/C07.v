(* C07  disable() silences a source until enable(); readiness survives the gap. *)
From CV Require Import Base Consts Token PostAction Env Loop.
From CVP Require Import Loop_frames Seq_lemmas Env_lemmas.
Open Scope N_scope.

(* After a completed disable() / a processed PostAction::Disable (the dispatcher-level unregister returned Ok and was not
   deferred) the source holds no registration token, and EVERY event aimed at it - also one already collected in the
   current batch, whatever token it carries - is ignored: no callback line is logged, the result is Continue. *)
Theorem C07_disable_silences : forall scr s o t s',
  disp_unregister s o t = (ROk, true, s') -> is_running s o = false ->
  exists ob', objs s' o = Some ob' /\ src_silent (o_src ob') /\
              forall ev, log (fst (obj_process scr s' o ev)) = log s' /\ snd (obj_process scr s' o ev) = Some Continue.
Proof. exact disp_unregister_silences. Qed.

(* a source without tokens ignores every event (the token checks of Generic and Timer) *)
Theorem C07_silent_source_ignores : forall scr s o ob ev,
  objs s o = Some ob -> src_has_tok (o_src ob) (unpack (ev_key ev)) = false ->
  log (fst (obj_process scr s o ev)) = log s /\ snd (obj_process scr s o ev) = Some Continue.
Proof. exact obj_process_no_token. Qed.

(* unregistering removes the fd from the poller table and leaves every other fd's entry untouched *)
Theorem C07_unregister_isolated : forall tbl fd tbl', ep_del tbl fd = Some tbl' ->
  ep_find tbl' fd = None /\ forall fd', fd' <> fd -> ep_find tbl' fd' = ep_find tbl fd'.
Proof. exact ep_del_spec. Qed.

(* readiness that persists is reported again once a level-triggered fd is registered: see C02_level *)

(* a disable the running source requests on itself is deferred (nothing is unregistered yet) *)
Theorem C07_self_disable_deferred : forall s o t, is_running s o = true -> (exists ob, objs s o = Some ob) ->
  disp_unregister s o t = (ROk, false, s).
Proof. intros s o t H [ob E]. unfold disp_unregister. rewrite E, H. reflexivity. Qed.

Example C07_nonvacuous :
  let s0 := run (fun _ => []) (fun _ => []) [CAct (AInsert 1 (SComp false None [mkGen 10 (mkInt true false) Level None false] None))] in
  exists s', disp_unregister s0 1 (mkTok 0 0 0) = (ROk, true, s') /\ is_running s0 1 = false.
Proof. eexists. split; vm_compute; reflexivity. Qed.
