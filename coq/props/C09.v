(* C09  A post-action is applied once, to the source that asked for it, and to no other.
   Only statements, `exact`, and Print Assumptions live here. *)
From CV Require Import Base Consts Token PostAction Env Loop.
From CVP Require Import PostAction_proofs Loop_frames C09_proofs.
From CVP Require Import C09_last.
Open Scope N_scope.

(* `a | b` is the common value when both are equal and Reregister otherwise (all 16 pairs) *)
Theorem C09_bitor : forall a b, pa_bitor a b = a /\ a = b \/ pa_bitor a b = Reregister /\ a <> b.
Proof. exact pa_bitor_spec. Qed.
Theorem C09_bitor_assign : forall a b, pa_bitor_assign a b = pa_bitor a b.
Proof. exact pa_bitor_assign_eq. Qed.

(* whatever a callback does and returns - including an error - once its event has been processed nothing is
   being processed and no action is pending: nothing carries over to the next event or the next source *)
Theorem C09_no_leak_event : forall scr s ev,
  quiet s -> halted (fst (process_event scr s ev)) = false -> quiet (fst (process_event scr s ev)).
Proof. exact process_event_quiet. Qed.

(* for every scenario (any sources, scripts, batch orders, faults): every top-level state reached without a panic
   has no pending action *)
Theorem C09_no_leak_run : forall scr bscr cmds,
  halted (run scr bscr cmds) = false -> quiet (run scr bscr cmds).
Proof. exact run_quiet. Qed.

(* a deferred action is only ever recorded by update()/disable() ... *)
Theorem C09_only_update_disable_defer : forall s a,
  (forall h, a <> AUpdate h) -> (forall h, a <> ADisable h) -> pending (exec_action s a) = pending s.
Proof. exact pending_exec_action_other. Qed.
(* ... aimed at the source whose callback is running (never for another source, never outside a callback) *)
Theorem C09_update_defers_only_self : forall s h,
  pending (exec_action s (AUpdate h)) = pending s \/
  exists t et o reg, lookup s h = Some (t, et, o) /\ running s = Some (o, reg) /\ pending (exec_action s (AUpdate h)) = Reregister.
Proof. exact pending_update_self. Qed.
Theorem C09_disable_defers_only_self : forall s h,
  pending (exec_action s (ADisable h)) = pending s \/
  exists t et o reg, lookup s h = Some (t, et, o) /\ running s = Some (o, reg) /\ pending (exec_action s (ADisable h)) = Disable.
Proof. exact pending_disable_self. Qed.
Theorem C09_outside_processing_nothing_defers : forall s a, running s = None -> pending (exec_action s a) = pending s.
Proof. exact pending_exec_action. Qed.

(* non-vacuity: the initial state is quiet, and a concrete scenario with a failing, self-disabling source ends quiet *)
Example C09_nonvacuous :
  quiet init /\
  let scr := fun h => if h =? 1 then [mkScript [ADisable 1] 4 0%Z] else [] in
  let cmds := [CAct (AInsert 1 (SComp false None [mkGen 10 (mkInt true false) Level None false] None));
               CAct (AFdWrite 10 1); CDispatch 0%Z []] in
  halted (run scr (fun _ => []) cmds) = false /\ pending (run scr (fun _ => []) cmds) = Continue.
Proof. split; [split; reflexivity|]. vm_compute. split; reflexivity. Qed.

(* Several requests by the running source on itself inside one callback: each replaces what was pending, nothing is merged and
   nothing is applied on the spot - the LAST one is what the end of the event's processing applies (unless the callback's own return
   value overrides it, C09_return_overrides_pending). Holds in any state in which the handle names the running source. *)
Theorem C09_last_deferred_request_wins : forall s h, self_handle s h ->
  pending (exec_action (exec_action s (AUpdate h)) (ADisable h)) = Disable /\
  pending (exec_action (exec_action s (ADisable h)) (AUpdate h)) = Reregister /\
  pending (exec_action (exec_action s (ADisable h)) (ADisable h)) = Disable /\
  pending (exec_action (exec_action s (AUpdate h)) (AUpdate h)) = Reregister.
Proof. exact last_deferred_request_wins. Qed.
Theorem C09_self_request_only_sets_pending : forall s h, self_handle s h ->
  exec_action s (AUpdate h) = emit (set_pending s Reregister) (op_line OP_UPDATE h ROk) /\
  exec_action s (ADisable h) = emit (set_pending s Disable) (op_line OP_DISABLE h ROk).
Proof. intros s h H. split; [exact (self_update_exact s h H)|exact (self_disable_exact s h H)]. Qed.
Example C09_self_handle_nonvacuous :
  let s := set_running (exec_action init (AInsert 1 (SComp false None [mkGen 10 (mkInt true false) Level None false] None))) (Some (1, mkTok 0 0 0)) in
  self_handle s 1 /\ pending (exec_action (exec_action s (AUpdate 1)) (ADisable 1)) = Disable.
Proof. exact self_handle_somewhere. Qed.
Print Assumptions C09_last_deferred_request_wins.
Print Assumptions C09_self_request_only_sets_pending.
