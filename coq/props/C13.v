(* C13  Idle callbacks run exactly once, after the events, in order, unless cancelled. *)
From CV Require Import Base Consts Token PostAction Env Loop.
From CVP Require Import Loop_frames Seq_lemmas C13_proofs C13_queue.
Import ListNotations.
Open Scope N_scope.

(* insert_idle appends at the end of the queue; no other operation touches the queue *)
Theorem C13_queue_only_appended : forall s a,
  idles (exec_action s a) = idles s \/ exists i, a = AIdle i /\ idles (exec_action s a) = idles s ++ [i].
Proof. exact idles_exec_action. Qed.
(* the idle phase works on the list taken before it started: idles inserted by idle callbacks are appended to the (emptied)
   queue and stay there for the next dispatch *)
Theorem C13_inserted_during_phase_kept : forall scr l s, exists extra, idles (run_idles scr s l) = idles s ++ extra.
Proof. exact run_idles_appends. Qed.
(* the idle phase logs one IDLE line per non-cancelled entry it reaches, in list order, and nothing for cancelled ones *)
Theorem C13_cancelled_skipped : forall scr s i l, halted s = false -> idle_cancelled s i = true ->
  run_idles scr s (i :: l) = run_idles scr s l.
Proof. intros scr s i l Hh Hc. rewrite run_idles_step, Hh, Hc. reflexivity. Qed.
Theorem C13_runs_head_first : forall scr s i l, halted s = false -> idle_cancelled s i = false ->
  exists s2, run_idles scr s (i :: l) = (if halted s2 then s2 else run_idles scr (set_ridle s2 None) l) /\
             s2 = exec_actions (set_ridle (emit s (L T_IDLE [zN i])) (Some i)) (sc_acts (nth 0 (scr (IDLE_BASE + i)) default_script)).
Proof. intros scr s i l Hh Hc. eexists. split; [rewrite run_idles_step, Hh, Hc; reflexivity|reflexivity]. Qed.
(* THE QUEUE OVER WHOLE DISPATCHES. Below `dispatch` every function - any batch of events with any callbacks - only appends to the
   idle queue (`iapp`). A dispatch that does not reach its idle phase (a before_sleep hook or an event failed, the run stopped)
   therefore leaves everything queued, in order, plus what was inserted: those idles run in the first dispatch that does return Ok.
   A dispatch that reaches it runs the phase over everything queued until then - what was queued before the dispatch followed by what
   its source callbacks inserted - and leaves in the queue exactly what the idle callbacks themselves inserted: an idle inserted by an
   idle callback runs in the following dispatch, never in the same one. *)
Theorem C13_events_only_append : forall scr evs s, iapp s (fst (process_events scr s evs)).
Proof. intros. apply iapp_process_events. Qed.
Theorem C13_dispatch_queue : forall scr bscr s t order,
  let s' := dispatch scr bscr s t order in
  iapp s s' \/
  exists s5, iapp s s5 /\ iapp (set_idles s5 []) (run_idles scr (set_idles s5 []) (idles s5)) /\
             idles s' = idles (run_idles scr (set_idles s5 []) (idles s5)).
Proof. exact dispatch_idle_queue. Qed.
(* the IDLE lines a phase adds to the log are those of a subsequence of its snapshot, in snapshot order: every queued idle runs at
   most once per phase and never before an idle queued ahead of it; nothing but the phase itself writes IDLE lines (idl_exec_actions) *)
Theorem C13_phase_runs_a_subsequence_in_order : forall scr l s, exists ran,
  idl (run_idles scr s l) = map (fun i => L T_IDLE [zN i]) (rev ran) ++ idl s /\ subseq ran l.
Proof. exact run_idles_lines. Qed.
(* met by a real history: idles 1, 2, 3 are queued, 2 is cancelled, idle 1's callback inserts idle 4. A first dispatch fails in an event
   callback (Err): no idle runs and the queue is kept. The second dispatch runs 1 and 3 in order; 4 is left queued and runs in the third *)
Example C13_queue_nonvacuous :
  let scr : scripts := fun h => if N.eqb h (IDLE_BASE + 1) then [mkScript [AIdle 4] 0 0%Z] else if N.eqb h 9 then [mkScript [] 4 0%Z] else [] in
  let pre := [CAct (AInsert 9 (SComp false None [mkGen 10 (mkInt true false) Level None false] None)); CAct (AFdWrite 10 1);
              CAct (AIdle 1); CAct (AIdle 2); CAct (AIdle 3); CAct (ACancelIdle 2)] in
  let idle_ids s := map (fun l => match l with L _ a => a end) (filter is_idle_line (trace_of s)) in
  let a := run scr (fun _ => []) (pre ++ [CDispatch 0%Z [1]]) in
  let b := run scr (fun _ => []) (pre ++ [CDispatch 0%Z [1]; CDispatch 0%Z [1]]) in
  let c := run scr (fun _ => []) (pre ++ [CDispatch 0%Z [1]; CDispatch 0%Z [1]; CDispatch 0%Z [1]]) in
  (idle_ids a = [] /\ idles a = [1; 2; 3]) /\ (idle_ids b = [[1%Z]; [3%Z]] /\ idles b = [4]) /\ (idle_ids c = [[1%Z]; [3%Z]; [4%Z]] /\ idles c = []).
Proof. vm_compute. repeat split. Qed.

Example C13_nonvacuous :
  let s := run (fun _ => []) (fun _ => []) [CAct (AIdle 1); CAct (AIdle 2); CAct (ACancelIdle 1); CDispatch 0%Z []] in
  filter (fun l => match l with L 5 _ => true | _ => false end) (trace_of s) = [L 5 [2%Z]].
Proof. vm_compute. reflexivity. Qed.
