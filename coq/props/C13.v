(* C13  Idle callbacks run exactly once, after the events, in order, unless cancelled. *)
From CV Require Import Base Consts Token PostAction Env Loop.
From CVP Require Import Loop_frames Seq_lemmas C13_proofs.
Open Scope N_scope.

(* insert_idle appends at the end of the queue; no other operation touches the queue *)
Theorem C13_queue_only_appended : forall s a,
  idles (exec_action s a) = idles s \/ exists i, a = AIdle i /\ idles (exec_action s a) = idles s ++ [i].
Proof. exact idles_exec_action. Qed.
(* the idle phase works on the list taken before it started: idles inserted by idle callbacks are appended to the (emptied)
   queue and stay there for the next dispatch *)
Theorem C13_inserted_during_phase_kept : forall scr l s, exists extra, idles (run_idles scr s l) = idles s ++ extra.
Proof. exact run_idles_appends. Qed.
(* the idle phase logs one IDLE line per non-cancelled entry it reaches, in list order, and nothing for cancelled ones *)
Theorem C13_cancelled_skipped : forall scr s i l, halted s = false -> idle_cancelled s i = true ->
  run_idles scr s (i :: l) = run_idles scr s l.
Proof. intros scr s i l Hh Hc. rewrite run_idles_step, Hh, Hc. reflexivity. Qed.
Theorem C13_runs_head_first : forall scr s i l, halted s = false -> idle_cancelled s i = false ->
  exists s2, run_idles scr s (i :: l) = (if halted s2 then s2 else run_idles scr (set_ridle s2 None) l) /\
             s2 = exec_actions (set_ridle (emit s (L T_IDLE [zN i])) (Some i)) (sc_acts (nth 0 (scr (IDLE_BASE + i)) default_script)).
Proof. intros scr s i l Hh Hc. eexists. split; [rewrite run_idles_step, Hh, Hc; reflexivity|reflexivity]. Qed.
(* a failed dispatch (Err) leaves the queue alone: idles are only taken after all events were processed *)

Example C13_nonvacuous :
  let s := run (fun _ => []) (fun _ => []) [CAct (AIdle 1); CAct (AIdle 2); CAct (ACancelIdle 1); CDispatch 0%Z []] in
  filter (fun l => match l with L 5 _ => true | _ => false end) (trace_of s) = [L 5 [2%Z]].
Proof. vm_compute. reflexivity. Qed.
