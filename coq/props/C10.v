(* C10  Executor/StreamSource: no lost wake, results and items delivered exactly once. *)
From CV Require Import Base Consts ConcExec StreamSrc.
From CVP Require Import ConcExec_proofs StreamSrc_proofs.
Open Scope N_scope.

(* For ANY number of tasks with ANY poll scripts, ANY program of schedule/dispatch on the loop thread, ANY number of waker
   threads with ANY wake programs, ANY batch limit and ANY schedule (one enqueue, notified swap/store, eventfd write/read,
   poll or try_recv per step): a queued runnable always has a wake-up on its way (readable eventfd, a sender between its
   enqueue and its ping, or the loop between its drain and the end of its dequeue loop - which ends with Empty or, at the
   batch limit, a self re-ping), and the notified flag is only set while the eventfd is readable, its setter is about to
   ping, or the loop is about to clear it. The #227 regression (clearing the flag after the dequeue loop) breaks this. *)
Theorem C10_no_lost_wake : forall b sc lops wp sched, einv (e_run b sc lops wp sched).
Proof. exact einv_run. Qed.
Theorem C10_step_preserves : forall s k, einv s -> einv (e_step s k).
Proof. exact einv_step. Qed.
(* futures are only polled, and their results only delivered, by steps of the loop thread: a waker thread's step leaves
   every task's poll count, delivered count and remaining script untouched *)
Theorem C10_polled_on_loop_thread_only : forall s i t, nth_error (ethr s) i = Some t ->
  forall j tk tk', nth_error (etasks s) j = Some tk -> nth_error (etasks (wt_step s i t)) j = Some tk' ->
  tk_polls tk' = tk_polls tk /\ tk_delivered tk' = tk_delivered tk /\ tk_script tk' = tk_script tk.
Proof. exact tasks_only_loop. Qed.
(* running a dequeued task polls it once; a completing poll marks it Done and delivers its output exactly once; a poll during
   which the task woke itself leaves it scheduled and has it sent again (by the loop thread, through Sender::send) *)
Theorem C10_result_once : forall l j t, nth_error l j = Some t ->
  match tk_script t with
  | 1 :: _ => exists t', nth_error (fst (fst (run_task l j))) j = Some t' /\ tk_state t' = TDone /\ tk_delivered t' = tk_delivered t + 1 /\ tk_polls t' = tk_polls t + 1
  | 2 :: _ => exists t', nth_error (fst (fst (run_task l j))) j = Some t' /\ tk_state t' = TSched /\ tk_delivered t' = tk_delivered t /\ tk_polls t' = tk_polls t + 1 /\ snd (run_task l j) = true
  | _ => exists t', nth_error (fst (fst (run_task l j))) j = Some t' /\ tk_state t' = TIdle /\ tk_delivered t' = tk_delivered t /\ tk_polls t' = tk_polls t + 1
  end.
Proof. exact run_task_delivers. Qed.

Example C10_nonvacuous :
  let s := e_run 2%nat [[0; 1]; [1]] [ESched 0%nat; ESched 1%nat; EDispatch; EDispatch] [[0%nat]] [0;0;0;0;0;0;0;0;0;0;0;1;1;1;1;0;0;0;0;0;0]%nat in
  map tk_delivered (etasks s) = [1; 1] /\ eq s = [].
Proof. vm_compute. split; reflexivity. Qed.
(* a task that wakes itself while it is polled is sent again by the loop thread and polled again in the same dequeue loop;
   afterwards the notified flag is clear or a ping is pending, so a later cross-thread wake still gets through *)
Example C10_selfwake_nonvacuous :
  let s := e_run 8%nat [[2; 0; 1]] [ESched 0%nat; EDispatch; EDispatch; EDispatch] [[0%nat]]
                 (repeat 0%nat 14 ++ [1; 1; 1; 1] ++ repeat 0%nat 10)%nat in
  map tk_polls (etasks s) = [3] /\ map tk_delivered (etasks s) = [1] /\ eq s = [].
Proof. vm_compute. repeat split; reflexivity. Qed.

(* STREAMSOURCE over ALL histories of an external producer's push / close and the loop's dispatches (coq/theories/StreamSrc.v: a ping
   source plus a poll_next loop; the stream stores the waker of a Pending poll, push and close wake a stored waker; new() pings once):
   every pushed item is delivered exactly once and in order (delivered ++ queued = pushed), None is delivered once, last, together with
   the removal, and whenever something is ready a wake-up is pending - so right after any dispatch nothing is left queued, and if the
   producer is gone the stream has ended. *)
Theorem C10_stream_exactly_once_in_order : forall ops, QINV (q_run ops).
Proof. exact QINV_run. Qed.
Theorem C10_stream_dispatch_leaves_nothing_queued : forall ops, let s := q_run (ops ++ [QDispatch]) in
  qq s = [] /\ items (qdelivered s) = qpushed s /\ (qclosed s = true -> qremoved s = true).
Proof. exact dispatch_drains. Qed.
Example C10_stream_nonvacuous :
  q_obs (q_run [QPush 1; QPush 2; QDispatch; QPush 3; QDispatch; QClose; QPush 4; QDispatch; QDispatch]) = ([Some 1; Some 2; Some 3; None], true).
Proof. reflexivity. Qed.
