(* Model of LoopSignal, EventLoop::run(None, ..) and block_on (loop_logic.rs), one shared effect per step:
   atomic store/load/swap of the stop and future_ready flags, Poller::notify, the (blocking) wait.
   Poller contract assumed: a notification is sticky and consumed by the wait it ends (polling's documented behaviour). *)
From CV Require Import Base.
Open Scope N_scope.

Definition YR_RESET := 130. Definition YR_LOAD := 131. Definition YR_WAIT := 132. Definition YR_STOP := 133.
Definition YR_WAKEUP := 134. Definition YR_WSTORE := 135. Definition YR_WNOTIFY := 136. Definition YR_SWAP := 137. Definition YR_FETCH := 60.

Inductive rop := RStop | RWakeup | RWake.             (* LoopSignal::stop, LoopSignal::wakeup, the block_on waker's wake *)
Inductive rstage := RIdle | RPre | RHalf.             (* RPre: a wake() that has fetched the waker; RHalf: between its store and its notify *)
Record rthread := mkRT { rt_ops : list rop; rt_stage : rstage }.

(* the loop thread *)
Inductive lpc :=
| L0                      (* before the initial stores of run()/block_on() *)
| L1                      (* before the stop-flag load *)
| L2                      (* block_on only: before the future_ready swap *)
| L2a                     (* inside the future's poll, which wakes itself: before the waker's store *)
| L2b                     (* ... before the waker's notify *)
| L3                      (* before the wait *)
| LWaiting                (* blocked in the wait *)
| LDone (ok_some : bool). (* returned: run -> Ok(()); block_on -> Some(out) when true, None when false *)

Inductive rev := RStep (tid : nat) (yid : N) | RPolled | RIter | RWoke | RReturned (some : bool).

Record rst := mkR {
  blockon : bool;           (* false: run(None, ..); true: block_on *)
  stopf : bool; readyf : bool; notif : bool;
  pc : lpc;
  fut : list N;             (* block_on: outcome of each poll of the future: 0 Pending, 1 Ready, 2 Pending after waking itself *)
  rthr : list rthread;
  (* ghosts *)
  stop_req : bool;          (* stop() was called since the initial reset *)
  iters_after_stop : N;     (* complete iterations that began... ended after stop was set and the loop had been told *)
  polls : N; wakes : N;
  rlog : list rev }.

Definition r_log (s : rst) (e : list rev) : list rev := e ++ rlog s.

(* what the loop does once its wait has returned: callbacks, idles, the per-iteration closure, back to the flag check *)
Definition after_wait (s : rst) (lg : list rev) : rst :=
  mkR (blockon s) (stopf s) (readyf s) false L1 (fut s) (rthr s) (stop_req s)
      (if stopf s then iters_after_stop s + 1 else iters_after_stop s) (polls s) (wakes s) (RIter :: lg).

Definition loop_step (s : rst) : rst :=
  match pc s with
  | L0 => mkR (blockon s) false (if blockon s then true else readyf s) (notif s) L1 (fut s) (rthr s) false 0 (polls s) (wakes s)
              (r_log s [RStep 0 YR_RESET])
  | L1 =>
      if stopf s then
        mkR (blockon s) (stopf s) (readyf s) (notif s) (LDone false) (fut s) (rthr s) (stop_req s) (iters_after_stop s) (polls s) (wakes s)
            (r_log s [RReturned false; RStep 0 YR_LOAD])
      else
        mkR (blockon s) (stopf s) (readyf s) (notif s) (if blockon s then L2 else L3) (fut s) (rthr s) (stop_req s) (iters_after_stop s) (polls s) (wakes s)
            (r_log s [RStep 0 YR_LOAD])
  | L2 =>
      if readyf s then
        match fut s with
        | 1 :: r =>
            mkR (blockon s) (stopf s) false (notif s) (LDone true) r (rthr s) (stop_req s) (iters_after_stop s) (polls s + 1) (wakes s)
                (r_log s [RReturned true; RPolled; RStep 0 YR_SWAP])
        | 2 :: r =>
            mkR (blockon s) (stopf s) false (notif s) L2a r (rthr s) (stop_req s) (iters_after_stop s) (polls s + 1) (wakes s)
                (r_log s [RPolled; RStep 0 YR_SWAP])
        | _ :: r =>
            mkR (blockon s) (stopf s) false (notif s) L3 r (rthr s) (stop_req s) (iters_after_stop s) (polls s + 1) (wakes s)
                (r_log s [RPolled; RStep 0 YR_SWAP])
        | [] =>
            mkR (blockon s) (stopf s) false (notif s) L3 [] (rthr s) (stop_req s) (iters_after_stop s) (polls s + 1) (wakes s)
                (r_log s [RPolled; RStep 0 YR_SWAP])
        end
      else
        mkR (blockon s) (stopf s) false (notif s) L3 (fut s) (rthr s) (stop_req s) (iters_after_stop s) (polls s) (wakes s)
            (r_log s [RStep 0 YR_SWAP])
  | L2a =>
      mkR (blockon s) (stopf s) true (notif s) L2b (fut s) (rthr s) (stop_req s) (iters_after_stop s) (polls s) (wakes s + 1)
          (r_log s [RStep 0 YR_WSTORE])
  | L2b =>
      mkR (blockon s) (stopf s) (readyf s) true L3 (fut s) (rthr s) (stop_req s) (iters_after_stop s) (polls s) (wakes s)
          (r_log s [RStep 0 YR_WNOTIFY])
  | L3 =>
      if notif s then after_wait s (r_log s [RStep 0 YR_WAIT])
      else mkR (blockon s) (stopf s) (readyf s) (notif s) LWaiting (fut s) (rthr s) (stop_req s) (iters_after_stop s) (polls s) (wakes s)
               (r_log s [RStep 0 YR_WAIT])
  | LWaiting => s
  | LDone _ => s
  end.

(* Poller::notify: ends a wait in progress, otherwise stays pending for the next one *)
Definition do_notify (s : rst) (lg : list rev) : rst :=
  match pc s with
  | LWaiting => after_wait s (RWoke :: lg)
  | _ => mkR (blockon s) (stopf s) (readyf s) true (pc s) (fut s) (rthr s) (stop_req s) (iters_after_stop s) (polls s) (wakes s) lg
  end.

Fixpoint upd_rt (l : list rthread) (i : nat) (t : rthread) : list rthread :=
  match l, i with
  | [], _ => []
  | _ :: r, O => t :: r
  | x :: r, S j => x :: upd_rt r j t
  end.
Definition set_rthr (s : rst) (l : list rthread) : rst :=
  mkR (blockon s) (stopf s) (readyf s) (notif s) (pc s) (fut s) l (stop_req s) (iters_after_stop s) (polls s) (wakes s) (rlog s).

Definition rt_step (s : rst) (i : nat) (t : rthread) : rst * rthread :=
  match rt_stage t with
  | RHalf => (do_notify s (r_log s [RStep (S i) YR_WNOTIFY]), mkRT (rt_ops t) RIdle)
  | RIdle =>
      match rt_ops t with
      | [] => (s, t)
      | RStop :: r =>
          (mkR (blockon s) true (readyf s) (notif s) (pc s) (fut s) (rthr s) (match pc s with L0 => stop_req s | _ => true end)
               (iters_after_stop s) (polls s) (wakes s) (r_log s [RStep (S i) YR_STOP]), mkRT r RIdle)
      | RWakeup :: r => (do_notify s (r_log s [RStep (S i) YR_WAKEUP]), mkRT r RIdle)
      | RWake :: r =>
          (mkR (blockon s) (stopf s) (readyf s) (notif s) (pc s) (fut s) (rthr s) (stop_req s) (iters_after_stop s) (polls s) (wakes s)
               (r_log s [RStep (S i) YR_FETCH]), mkRT r RPre)
      end
  | RPre =>
      (mkR (blockon s) (stopf s) true (notif s) (pc s) (fut s) (rthr s) (stop_req s) (iters_after_stop s) (polls s) (wakes s + 1)
           (r_log s [RStep (S i) YR_WSTORE]), mkRT (rt_ops t) RHalf)
  end.

Definition r_step (s : rst) (k : nat) : rst :=
  match k with
  | O => loop_step s
  | S i => match nth_error (rthr s) i with
           | Some t => let (s', t') := rt_step s i t in set_rthr s' (upd_rt (rthr s) i t')
           | None => s
           end
  end.

Definition r_init (bo : bool) (futscript : list N) (progs : list (list rop)) : rst :=
  mkR bo false false false L0 futscript (map (fun p => mkRT p RIdle) progs) false 0 0 0 [].
Definition r_run (bo : bool) (futscript : list N) (progs : list (list rop)) (sched : list nat) : rst :=
  fold_left r_step sched (r_init bo futscript progs).
