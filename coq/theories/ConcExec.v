(* Concurrent model of sources/futures.rs (Executor / Scheduler / Sender::send) with wakers on other threads, one shared
   effect per step: mpsc enqueue, `notified` swap / store, eventfd write / read, poll, each try_recv (which also runs the
   task on the loop thread). async-task is assumed: wake on an idle task schedules it once, wake on a scheduled or
   completed task is a no-op (DESIGN.md 6.5). Futures are scripts of poll outcomes. *)
From CV Require Import Base Consts.
Open Scope N_scope.

Definition YE_FETCH := 60. Definition YE_ENQ := 121. Definition YE_SWAP := 122. Definition YE_PING := 102.
Definition YE_POLL := 132. Definition YE_DRAIN := 103. Definition YE_STORE := 123. Definition YE_RECV := 124.

Inductive tstate_e := TIdle | TSched | TDone.
Record task := mkTask { tk_state : tstate_e; tk_script : list N; tk_polls : N; tk_delivered : N }.

Inductive wstage := WIdle | W1 (j : nat) | W2 | W3.               (* a waker thread inside Sender::send *)
Record wthread := mkWT { wt_ops : list nat; wt_stage : wstage }.  (* ops: indices of tasks to wake *)

Inductive eop := ESched (j : nat) | EDispatch.
(* ELS1/2/3: the three effects of Sender::send for a task that woke itself during the poll just made by the dequeue loop
   (async-task reschedules such a task from Runnable::run, on the loop thread, with woken_while_running set) *)
Inductive estage := EI | ES1 (j : nat) | ES2 | ES3 | ED | EF | EL (left : nat) | ER
                  | ELS1 (j : nat) (left : nat) | ELS2 (left : nat) | ELS3 (left : nat).
Record ethread := mkET { et_ops : list eop; et_stage : estage }.

Inductive eev := EStep (tid : nat) (yid : N) | EPolled (j : nat) | EDone (j : nat).

Record est := mkE {
  eq : list nat; enotified : bool; ectr : N;
  etasks : list task; eloop : ethread; ethr : list wthread;
  ebatch : nat;                 (* the per-dispatch batch limit (1024 in the code) *)
  elog : list eev }.

Fixpoint upd_task (l : list task) (j : nat) (t : task) : list task :=
  match l, j with [], _ => [] | _ :: r, O => t :: r | x :: r, S k => x :: upd_task r k t end.
Fixpoint upd_wt (l : list wthread) (i : nat) (t : wthread) : list wthread :=
  match l, i with [], _ => [] | _ :: r, O => t :: r | x :: r, S k => x :: upd_wt r k t end.

Definition set_task_state (l : list task) (j : nat) (st : tstate_e) : list task :=
  match nth_error l j with
  | Some t => upd_task l j (mkTask st (tk_script t) (tk_polls t) (tk_delivered t))
  | None => l
  end.
Definition task_idle (l : list task) (j : nat) : bool :=
  match nth_error l j with Some t => match tk_state t with TIdle => true | _ => false end | None => false end.

(* running a task on the loop thread: one poll, its scripted outcome (0 Pending, 1 Ready, 2 Pending after waking itself:
   the task stays scheduled and Runnable::run sends it again); the flag says whether it has to be sent again *)
Definition run_task (l : list task) (j : nat) : list task * list eev * bool :=
  match nth_error l j with
  | Some t =>
      match tk_script t with
      | 1 :: r => (upd_task l j (mkTask TDone r (tk_polls t + 1) (tk_delivered t + 1)), [EDone j; EPolled j], false)
      | 2 :: r => (upd_task l j (mkTask TSched r (tk_polls t + 1) (tk_delivered t)), [EPolled j], true)
      | _ :: r => (upd_task l j (mkTask TIdle r (tk_polls t + 1) (tk_delivered t)), [EPolled j], false)
      | [] => (upd_task l j (mkTask TIdle [] (tk_polls t + 1) (tk_delivered t)), [EPolled j], false)
      end
  | None => (l, [], false)
  end.
Definition after_task (k : nat) : estage := match k with O => ER | _ => EL k end.

Definition e_set (s : est) q n c tk lp th lg : est := mkE q n c tk lp th (ebatch s) lg.

(* the three effects of Sender::send, performed by thread `who` *)
Definition send_enq (s : est) (who : nat) (j : nat) lp th : est :=
  e_set s (eq s ++ [j]) (enotified s) (ectr s) (etasks s) lp th (EStep who YE_ENQ :: elog s).
Definition send_swap (s : est) (who : nat) lp_if_ping lp_done th_if_ping th_done : est :=
  if enotified s then e_set s (eq s) true (ectr s) (etasks s) lp_done th_done (EStep who YE_SWAP :: elog s)
  else e_set s (eq s) true (ectr s) (etasks s) lp_if_ping th_if_ping (EStep who YE_SWAP :: elog s).
Definition send_ping (s : est) (who : nat) lp th : est :=
  e_set s (eq s) (enotified s) (ectr s + INCREMENT_PING) (etasks s) lp th (EStep who YE_PING :: elog s).

Definition eloop_step (s : est) : est :=
  let l := eloop s in
  let lp st := mkET (et_ops l) st in
  match et_stage l with
  | EI =>
      match et_ops l with
      | [] => s
      | ESched j :: r =>
          (* Scheduler::schedule: the task is created scheduled; runnable.schedule() -> Sender::send *)
          send_enq (e_set s (eq s) (enotified s) (ectr s) (set_task_state (etasks s) j TSched) l (ethr s) (elog s)) 0 j (mkET r ES2) (ethr s)
      | EDispatch :: r =>
          if 0 <? ectr s then e_set s (eq s) (enotified s) (ectr s) (etasks s) (mkET r ED) (ethr s) (EStep 0 YE_POLL :: elog s)
          else e_set s (eq s) (enotified s) (ectr s) (etasks s) (mkET r EI) (ethr s) (EStep 0 YE_POLL :: elog s)
      end
  | ES1 j => send_enq s 0 j (lp ES2) (ethr s)
  | ES2 => send_swap s 0 (lp ES3) (lp EI) (ethr s) (ethr s)
  | ES3 => send_ping s 0 (lp EI) (ethr s)
  | ED => e_set s (eq s) (enotified s) 0 (etasks s) (lp (if 2 <=? ectr s then EF else EI)) (ethr s) (EStep 0 YE_DRAIN :: elog s)
  | EF => e_set s (eq s) false (ectr s) (etasks s) (lp (EL (ebatch s))) (ethr s) (EStep 0 YE_STORE :: elog s)
  | EL O => e_set s (eq s) (enotified s) (ectr s) (etasks s) (lp ER) (ethr s) (elog s)
  | EL (S k) =>
      match eq s with
      | j :: q' =>
          let '(tk', evs, again) := run_task (etasks s) j in
          e_set s q' (enotified s) (ectr s) tk' (lp (if again then ELS1 j k else after_task k)) (ethr s) (evs ++ EStep 0 YE_RECV :: elog s)
      | [] => e_set s [] (enotified s) (ectr s) (etasks s) (lp EI) (ethr s) (EStep 0 YE_RECV :: elog s)
      end
  | ER => send_ping s 0 (lp EI) (ethr s)
  | ELS1 j k => send_enq s 0 j (lp (ELS2 k)) (ethr s)
  | ELS2 k => send_swap s 0 (lp (ELS3 k)) (lp (after_task k)) (ethr s) (ethr s)
  | ELS3 k => send_ping s 0 (lp (after_task k)) (ethr s)
  end.

Definition wt_step (s : est) (i : nat) (t : wthread) : est :=
  let th t' := upd_wt (ethr s) i t' in
  match wt_stage t with
  | WIdle =>
      match wt_ops t with
      | [] => s
      | j :: r =>
          if task_idle (etasks s) j then
            e_set s (eq s) (enotified s) (ectr s) (set_task_state (etasks s) j TSched) (eloop s) (th (mkWT r (W1 j))) (EStep (S i) YE_FETCH :: elog s)
          else e_set s (eq s) (enotified s) (ectr s) (etasks s) (eloop s) (th (mkWT r WIdle)) (EStep (S i) YE_FETCH :: elog s)
      end
  | W1 j => send_enq s (S i) j (eloop s) (th (mkWT (wt_ops t) W2))
  | W2 => send_swap s (S i) (eloop s) (eloop s) (th (mkWT (wt_ops t) W3)) (th (mkWT (wt_ops t) WIdle))
  | W3 => send_ping s (S i) (eloop s) (th (mkWT (wt_ops t) WIdle))
  end.

Definition e_step (s : est) (k : nat) : est :=
  match k with
  | O => eloop_step s
  | S i => match nth_error (ethr s) i with Some t => wt_step s i t | None => s end
  end.

Definition e_init (batch : nat) (scripts : list (list N)) (lops : list eop) (wprogs : list (list nat)) : est :=
  mkE [] false 0 (map (fun sc => mkTask TIdle sc 0 0) scripts) (mkET lops EI) (map (fun p => mkWT p WIdle) wprogs) batch [].
Definition e_run batch scripts lops wprogs (sched : list nat) : est := fold_left e_step sched (e_init batch scripts lops wprogs).
