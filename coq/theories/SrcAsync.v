(* Model of one direction of an Async adapter (io.rs): a task that repeatedly tries the operation on the non-blocking fd and,
   on WouldBlock, stores its waker and re-arms the one-shot registration; the loop's dispatch; the peer making progress.
   The fd is an abstract byte FIFO: `avail` bytes can be transferred right now (6.6). Transfer sizes are inputs. *)
From CV Require Import Base.
Open Scope N_scope.

Inductive tstatus := TRunnable | TSuspended | TFinished.

Record ast := mkA {
  avail : N;             (* bytes the fd can transfer now (readable bytes / free buffer space) *)
  armed : bool;          (* the one-shot registration is armed for the task's interest *)
  waker : bool;          (* IoDispatcher.waker is Some *)
  status : tstatus;
  todo : N;              (* bytes the task still wants to transfer *)
  moved : N;             (* bytes transferred by the task so far *)
  offered : N }.         (* total progress the peer has made *)

Inductive aop :=
| APoll (n : N)          (* the executor polls the task; if the fd can transfer, n is the size the OS reports (clamped) *)
| APeer (k : N)          (* the peer reads/writes k bytes: the fd can transfer k more *)
| ADispatch.             (* one dispatch of the loop *)

Definition clamp (n lo hi : N) : N := N.max lo (N.min n hi).

Definition a_step (s : ast) (o : aop) : ast :=
  match o with
  | APoll n =>
      match status s with
      | TRunnable =>
          if todo s =? 0 then mkA (avail s) (armed s) (waker s) TFinished 0 (moved s) (offered s)
          else if 0 <? avail s then
            (* the read/write succeeds with 1 <= k <= min(todo, avail) *)
            let k := clamp n 1 (N.min (todo s) (avail s)) in
            mkA (avail s - k) (armed s) (waker s) (if todo s - k =? 0 then TFinished else TRunnable) (todo s - k) (moved s + k) (offered s)
          else
            (* WouldBlock: register_waker = store interest + waker, reregister (EPOLL_CTL_MOD re-arms the one-shot entry) *)
            mkA (avail s) true true TSuspended (todo s) (moved s) (offered s)
      | _ => s
      end
  | APeer k => mkA (avail s + k) (armed s) (waker s) (status s) (todo s) (moved s) (offered s + k)
  | ADispatch =>
      (* the poller reports an armed one-shot entry whose interest is ready, and disarms it; process_events stores the
         readiness and wakes the stored waker *)
      if armed s && (0 <? avail s) then
        mkA (avail s) false false (if waker s then match status s with TSuspended => TRunnable | x => x end else status s)
            (todo s) (moved s) (offered s)
      else s
  end.

Definition a_init (todo0 : N) : ast := mkA 0 false false TRunnable todo0 0 0.
Definition a_run (todo0 : N) (ops : list aop) : ast := fold_left a_step ops (a_init todo0).
