(* Model of one direction of an Async adapter (io.rs): a task that repeatedly tries the operation on the non-blocking fd and,
   on WouldBlock, stores its waker and re-arms the one-shot registration; the loop's dispatch; the peer making progress.
   The fd is an abstract byte FIFO: `avail` bytes can be transferred right now (6.6). Transfer sizes are inputs. *)
From CV Require Import Base.
Open Scope N_scope.

Inductive tstatus := TRunnable | TSuspended | TFinished.

Record ast := mkA {
  avail : N;             (* bytes the fd can transfer now (readable bytes / free buffer space) *)
  armed : bool;          (* the one-shot registration is armed for the task's interest *)
  waker : bool;          (* IoDispatcher.waker is Some *)
  status : tstatus;
  todo : N;              (* bytes the task still wants to transfer *)
  moved : N;             (* bytes transferred by the task so far *)
  offered : N }.         (* total progress the peer has made *)

Inductive aop :=
| APoll (n : N)          (* the executor polls the task; if the fd can transfer, n is the size the OS reports (clamped) *)
| APeer (k : N)          (* the peer reads/writes k bytes: the fd can transfer k more *)
| ADispatch.             (* one dispatch of the loop *)

Definition clamp (n lo hi : N) : N := N.max lo (N.min n hi).

Definition a_step (s : ast) (o : aop) : ast :=
  match o with
  | APoll n =>
      match status s with
      | TRunnable =>
          if todo s =? 0 then mkA (avail s) (armed s) (waker s) TFinished 0 (moved s) (offered s)
          else if 0 <? avail s then
            (* the read/write succeeds with 1 <= k <= min(todo, avail) *)
            let k := clamp n 1 (N.min (todo s) (avail s)) in
            mkA (avail s - k) (armed s) (waker s) (if todo s - k =? 0 then TFinished else TRunnable) (todo s - k) (moved s + k) (offered s)
          else
            (* WouldBlock: register_waker = store interest + waker, reregister (EPOLL_CTL_MOD re-arms the one-shot entry) *)
            mkA (avail s) true true TSuspended (todo s) (moved s) (offered s)
      | _ => s
      end
  | APeer k => mkA (avail s + k) (armed s) (waker s) (status s) (todo s) (moved s) (offered s + k)
  | ADispatch =>
      (* the poller reports an armed one-shot entry whose interest is ready, and disarms it; process_events stores the
         readiness and wakes the stored waker *)
      if armed s && (0 <? avail s) then
        mkA (avail s) false false (if waker s then match status s with TSuspended => TRunnable | x => x end else status s)
            (todo s) (moved s) (offered s)
      else s
  end.

Definition a_init (todo0 : N) : ast := mkA 0 false false TRunnable todo0 0 0.
Definition a_run (todo0 : N) (ops : list aop) : ast := fold_left a_step ops (a_init todo0).

(* ================= both directions: readable() / writable() waits that may be abandoned =================
   One task waits on one adapter for either direction; a pending wait may be abandoned (its future dropped: select!,
   timeouts) and followed by a wait for the other direction. IoDispatcher stores the readiness of the last event
   (`last_readiness`, consumed by the next poll of a wait), the waker, and the interest; register_waker stores interest and
   waker and ALWAYS re-registers the one-shot poller entry with that interest. *)
Inductive dir := DR | DW.
Definition dir_eqb (a b : dir) : bool := match a, b with DR, DR | DW, DW => true | _, _ => false end.

Record wst := mkW2 {
  kr : bool; kw : bool;            (* the kernel: the fd is readable / writable now *)
  lr : bool; lw : bool;            (* IoDispatcher.last_readiness *)
  parmed : bool; pint : dir;       (* the poller's one-shot entry: armed, and for which interest *)
  wk : bool;                       (* IoDispatcher.waker is Some *)
  susp : option dir;               (* the task is suspended in a wait for that direction *)
  woken : bool;                    (* the task's waker was called since the task last ran *)
  wout : list N }.                 (* observations, newest first: 1 Ready / 0 Pending per poll, 3 / 2 for a dispatch that did / did not wake *)

Inductive wop :=
| WPoll (d : dir) (stay : bool)    (* the task polls a readable()/writable() future; on Pending it stays suspended in it or abandons it *)
| WEnvR (b : bool) | WEnvW (b : bool)   (* the fd's readiness changes *)
| WDispatch.

Definition kready (s : wst) (d : dir) : bool := match d with DR => kr s | DW => kw s end.

Definition w_step (s : wst) (o : wop) : wst :=
  match o with
  | WPoll d stay =>
      (* readiness() takes last_readiness (and resets it) *)
      let ready := match d with DR => lr s | DW => lw s end in
      if ready then mkW2 (kr s) (kw s) false false (parmed s) (pint s) (wk s) None false (1 :: wout s)
      else mkW2 (kr s) (kw s) false false true d true (if stay then Some d else None) false (0 :: wout s)
  | WEnvR b => mkW2 b (kw s) (lr s) (lw s) (parmed s) (pint s) (wk s) (susp s) (woken s) (wout s)
  | WEnvW b => mkW2 (kr s) b (lr s) (lw s) (parmed s) (pint s) (wk s) (susp s) (woken s) (wout s)
  | WDispatch =>
      if parmed s && kready s (pint s) then
        (* the one-shot entry fires and is spent; process_events stores the readiness and wakes the stored waker *)
        mkW2 (kr s) (kw s) (dir_eqb (pint s) DR) (dir_eqb (pint s) DW) false (pint s) false (susp s)
             (woken s || wk s) ((if wk s then 3 else 2) :: wout s)
      else mkW2 (kr s) (kw s) (lr s) (lw s) (parmed s) (pint s) (wk s) (susp s) (woken s) (2 :: wout s)
  end.
Definition w_init : wst := mkW2 false true false false false DR false None false [].
Definition w_run (ops : list wop) : wst := fold_left w_step ops w_init.
