(* Shared helpers: arithmetic lemmas and list update/lookup. Definitions and small lemmas only. *)
From Coq Require Export List NArith ZArith Lia Bool.
Export ListNotations.
Open Scope N_scope.

Lemma divmod_qa (q a m : N) : a < m -> (q * m + a) / m = q /\ (q * m + a) mod m = a.
Proof.
  intros H. split.
  - symmetry. apply N.div_unique with a; lia.
  - symmetry. apply N.mod_unique with q; lia.
Qed.

Lemma mod_eq_close (r i m : N) : m <> 0 -> r mod m = i mod m -> i <= r -> r - i < m -> r = i.
Proof.
  intros Hm He Hle Hlt.
  pose proof (N.div_mod r m Hm) as Hr. pose proof (N.div_mod i m Hm) as Hi.
  pose proof (N.mod_lt r m Hm) as Lr. rewrite He in Hr.
  assert (r / m = i / m) as Hq.
  { destruct (N.lt_trichotomy (r / m) (i / m)) as [H|[H|H]]; [|assumption|].
    - exfalso. assert (m * (r/m) + m <= m * (i/m)) by nia. pose proof (N.mod_lt i m Hm). lia.
    - exfalso. assert (m * (i/m) + m <= m * (r/m)) by nia. lia. }
  rewrite Hq in Hr. lia.
Qed.

(* list update *)
Fixpoint upd {A} (l : list A) (n : nat) (x : A) : list A :=
  match l, n with
  | [], _ => []
  | _ :: t, O => x :: t
  | h :: t, S n' => h :: upd t n' x
  end.

Lemma upd_length {A} (l : list A) n x : length (upd l n x) = length l.
Proof. revert n; induction l as [|h t IH]; intros [|n]; simpl; auto. Qed.

Lemma nth_error_upd_same {A} (l : list A) n x : (n < length l)%nat -> nth_error (upd l n x) n = Some x.
Proof. revert n; induction l as [|h t IH]; intros [|n] H; simpl in *; try lia; auto. apply IH; lia. Qed.

Lemma nth_error_upd_other {A} (l : list A) n m x : n <> m -> nth_error (upd l n x) m = nth_error l m.
Proof. revert n m; induction l as [|h t IH]; intros [|n] [|m] H; simpl; auto; try congruence. Qed.
