(* Sequential model of calloop's event loop (loop_logic.rs, sources/mod.rs, list.rs, sys.rs) with the
   built-in sources Generic (inside a composite test source), PingSource, Timer and Channel.
   Definitions only; everything is a total computable function. *)
From CV Require Import Base Consts Token PostAction Env.
Open Scope N_scope.

(* ================= source objects ================= *)
Record gen := mkGen { g_fd : N; g_int : interest; g_mode : mode; g_tok : option tok; g_poller : bool }.
(* tm_en: registered to (enabled in) a loop, whether or not a deadline is armed *)
Record timer := mkTimer { tm_reg : option (tok * N); tm_dl : option Z; tm_en : bool }.
Inductive src :=
| SComp (lc : bool) (own : option tok) (subs : list gen) (tmr : option timer)
    (* harness composite over Generic<eventfd> sub-sources and, optionally, a Timer as its last sub-source; it shows every
       event to every sub-source and relies on each of them ignoring foreign tokens *)
| SPing (g : gen)                                          (* PingSource *)
| STimer (t : timer)
| SChan (c : N) (g : gen).                                 (* Channel: mpsc receiver c + PingSource *)
Record obj := mkObj { o_src : src; o_ext : bool (* a Dispatcher clone is held outside the loop *) }.

(* s_gen is a ghost: how many times the slot has been (re)used; the code only stores s_tok *)
Record slot := mkSlot { s_tok : tok; s_obj : option N; s_gen : N }.

(* mpsc channel state *)
Record chan := mkChan { ch_q : list Z; ch_senders : N; ch_bound : option N; ch_rx_alive : bool; ch_pfd : N }.

(* trace lines: a tag and integer arguments *)
Inductive tline := L (tag : N) (args : list Z).
Definition T_OP := 1. Definition T_CB := 2. Definition T_BS := 3. Definition T_BH := 4. Definition T_IDLE := 5.
Definition T_DISP := 6. Definition T_BATCH := 7. Definition T_STATS := 8. Definition T_EP := 9. Definition T_PANIC := 10.
Definition T_REGOP := 16. Definition T_CMD := 17. Definition T_BHEV := 11. Definition T_SLOT := 12. Definition T_LIFE := 13. Definition T_WHEEL := 14. Definition T_DROP := 15.

(* results of operations *)
Inductive res := ROk | RInvalid | RIo | ROther.
Definition res_code (r : res) : Z := match r with ROk => 0 | RInvalid => 1 | RIo => 2 | ROther => 3 end%Z.
(* panic kinds *)
Definition P_BORROW := 1%Z. Definition P_UNREACHABLE := 2%Z. Definition P_STILLREG := 3%Z. Definition P_SUBID := 4%Z. Definition P_OTHER := 5%Z.

(* scripted callbacks: per handle, per invocation: actions and a return code *)
Inductive action :=
| AInsert (h : N) (s : src)
| ARemove (h : N) | ADisable (h : N) | AEnable (h : N) | AUpdate (h : N)
| ASetInt (h : N) (j : nat) (it : interest) (m : mode)
| ASetDl (h : N) (dl : Z)
| AIntoInner (h : N) | ADropDisp (h : N)
| AFdWrite (fd : N) (v : N) | AFdRead (fd : N)
| APing (p : N) | AcloneP (p : N) | ADropP (p : N)
| ASend (c : N) (v : Z) | ATrySend (c : N) (v : Z) | ADropSender (c : N) | ACloneSender (c : N)
| AIdle (i : N) | ACancelIdle (i : N)
| ANewPing (p : N) (fd : N) | ANewChan (c : N) (fd : N) (bound : option N)
| AStopSignal.                                   (* LoopSignal::stop(): only run() looks at the flag, dispatch() does not *)

Inductive cmd :=
| CAct (a : action)
| CDispatch (t : Z) (order : list N)
| CStats | CEpoll.

Record script := mkScript { sc_acts : list action; sc_ret : N; sc_arg : Z }.

Record env := mkEnv {
  epoll : list epent;
  whl : wheel;
  fdc : fmap N;                      (* eventfd counters *)
  pings : fmap (option (N * N));     (* ping id -> (fd, live sender handles) *)
  chans : fmap (option chan) }.

Record st := mkSt {
  slots : list slot;
  objs : fmap (option obj);
  toks : fmap (option tok);          (* registration token issued for handle h *)
  lifecycle : list tok;
  pending : postaction;
  idles : list N;                    (* queued idle ids, in insertion order *)
  idle_cancelled : fmap bool;
  synth : list pevent;
  en : env;
  cbn : fmap nat;                    (* callback invocation counters *)
  bsn : fmap nat;                    (* before_sleep invocation counters *)
  running : option (N * tok);        (* dispatcher mutably borrowed by process_events, and the event's registration token *)
  ridle : option N;                  (* idle whose callback is running *)
  zombies : list N;                  (* objects released while running; dropped when processing ends *)
  halted : bool;                     (* a panic unwound the scenario *)
  log : list tline }.                (* newest first *)

Definition set_epoll (s : env) v := mkEnv v (whl s) (fdc s) (pings s) (chans s).
Definition set_whl (s : env) v := mkEnv (epoll s) v (fdc s) (pings s) (chans s).
Definition set_fdc (s : env) v := mkEnv (epoll s) (whl s) v (pings s) (chans s).
Definition set_pings (s : env) v := mkEnv (epoll s) (whl s) (fdc s) v (chans s).
Definition set_chans (s : env) v := mkEnv (epoll s) (whl s) (fdc s) (pings s) v.
Definition set_slots (s : st) v := mkSt v (objs s) (toks s) (lifecycle s) (pending s) (idles s) (idle_cancelled s) (synth s) (en s) (cbn s) (bsn s) (running s) (ridle s) (zombies s) (halted s) (log s).
Definition set_objs (s : st) v := mkSt (slots s) v (toks s) (lifecycle s) (pending s) (idles s) (idle_cancelled s) (synth s) (en s) (cbn s) (bsn s) (running s) (ridle s) (zombies s) (halted s) (log s).
Definition set_toks (s : st) v := mkSt (slots s) (objs s) v (lifecycle s) (pending s) (idles s) (idle_cancelled s) (synth s) (en s) (cbn s) (bsn s) (running s) (ridle s) (zombies s) (halted s) (log s).
Definition set_lifecycle (s : st) v := mkSt (slots s) (objs s) (toks s) v (pending s) (idles s) (idle_cancelled s) (synth s) (en s) (cbn s) (bsn s) (running s) (ridle s) (zombies s) (halted s) (log s).
Definition set_pending (s : st) v := mkSt (slots s) (objs s) (toks s) (lifecycle s) v (idles s) (idle_cancelled s) (synth s) (en s) (cbn s) (bsn s) (running s) (ridle s) (zombies s) (halted s) (log s).
Definition set_idles (s : st) v := mkSt (slots s) (objs s) (toks s) (lifecycle s) (pending s) v (idle_cancelled s) (synth s) (en s) (cbn s) (bsn s) (running s) (ridle s) (zombies s) (halted s) (log s).
Definition set_idle_cancelled (s : st) v := mkSt (slots s) (objs s) (toks s) (lifecycle s) (pending s) (idles s) v (synth s) (en s) (cbn s) (bsn s) (running s) (ridle s) (zombies s) (halted s) (log s).
Definition set_synth (s : st) v := mkSt (slots s) (objs s) (toks s) (lifecycle s) (pending s) (idles s) (idle_cancelled s) v (en s) (cbn s) (bsn s) (running s) (ridle s) (zombies s) (halted s) (log s).
Definition set_en (s : st) v := mkSt (slots s) (objs s) (toks s) (lifecycle s) (pending s) (idles s) (idle_cancelled s) (synth s) v (cbn s) (bsn s) (running s) (ridle s) (zombies s) (halted s) (log s).
Definition set_cbn (s : st) v := mkSt (slots s) (objs s) (toks s) (lifecycle s) (pending s) (idles s) (idle_cancelled s) (synth s) (en s) v (bsn s) (running s) (ridle s) (zombies s) (halted s) (log s).
Definition set_bsn (s : st) v := mkSt (slots s) (objs s) (toks s) (lifecycle s) (pending s) (idles s) (idle_cancelled s) (synth s) (en s) (cbn s) v (running s) (ridle s) (zombies s) (halted s) (log s).
Definition set_running (s : st) v := mkSt (slots s) (objs s) (toks s) (lifecycle s) (pending s) (idles s) (idle_cancelled s) (synth s) (en s) (cbn s) (bsn s) v (ridle s) (zombies s) (halted s) (log s).
Definition set_ridle (s : st) v := mkSt (slots s) (objs s) (toks s) (lifecycle s) (pending s) (idles s) (idle_cancelled s) (synth s) (en s) (cbn s) (bsn s) (running s) v (zombies s) (halted s) (log s).
Definition set_zombies (s : st) v := mkSt (slots s) (objs s) (toks s) (lifecycle s) (pending s) (idles s) (idle_cancelled s) (synth s) (en s) (cbn s) (bsn s) (running s) (ridle s) v (halted s) (log s).
Definition set_halted (s : st) v := mkSt (slots s) (objs s) (toks s) (lifecycle s) (pending s) (idles s) (idle_cancelled s) (synth s) (en s) (cbn s) (bsn s) (running s) (ridle s) (zombies s) v (log s).
Definition set_log (s : st) v := mkSt (slots s) (objs s) (toks s) (lifecycle s) (pending s) (idles s) (idle_cancelled s) (synth s) (en s) (cbn s) (bsn s) (running s) (ridle s) (zombies s) (halted s) v.
Definition emit (s : st) (l : tline) : st := set_log s (l :: log s).
Definition eenv (s : st) (f : env -> env) : st := set_en s (f (en s)).

Definition init : st :=
  mkSt [] (fun _ => None) (fun _ => None) [] Continue [] (fun _ => false) []
       (mkEnv [] (mkWheel [] 0) (fun _ => 0) (fun _ => None) (fun _ => None))
       (fun _ => O) (fun _ => O) None None [] false [].

Definition panic (s : st) (kind : Z) : st := set_halted (emit s (L T_PANIC [kind])) true.
Definition zN (n : N) : Z := Z.of_N n.

(* ================= fd operations (eventfd + epoll wake) ================= *)
Definition fd_write (e : env) (fd v : N) : env :=
  match efd_write (fdc e fd) v with
  | Some c' => set_epoll (set_fdc e (fupd (fdc e) fd c')) (ep_wake (epoll e) fd true)
  | None => e   (* EAGAIN: ignored by send_ping; the scenario's raw writes ignore it too *)
  end.
Definition fd_read (e : env) (fd : N) : env * N :=
  let c := fdc e fd in
  if c =? 0 then (e, 0)
  else (set_epoll (set_fdc e (fupd (fdc e) fd 0)) (ep_wake (epoll e) fd false), c).

(* ================= Generic ================= *)
(* every source-level operation works on the environment only: (ok?, new source, new environment) *)
Definition gen_register (e : env) (g : gen) (t : tok) : bool * gen * env :=
  match ep_add (epoll e) (g_fd g) (g_int g) (g_mode g) (pack t) (fdc e (g_fd g)) with
  | Some tbl => (true, mkGen (g_fd g) (g_int g) (g_mode g) (Some t) true, set_epoll e tbl)
  | None => (false, g, e)
  end.
Definition gen_reregister (e : env) (g : gen) (t : tok) : bool * gen * env :=
  match ep_mod (epoll e) (g_fd g) (g_int g) (g_mode g) (pack t) (fdc e (g_fd g)) with
  | Some tbl => (true, mkGen (g_fd g) (g_int g) (g_mode g) (Some t) (g_poller g), set_epoll e tbl)
  | None => (false, g, e)
  end.
Definition gen_unregister (e : env) (g : gen) : bool * gen * env :=
  match ep_del (epoll e) (g_fd g) with
  | Some tbl => (true, mkGen (g_fd g) (g_int g) (g_mode g) None false, set_epoll e tbl)
  | None => (false, g, e)
  end.
(* Drop for Generic: delete from the poller if a poller is recorded, ignoring errors *)
Definition gen_drop (e : env) (g : gen) : env :=
  if g_poller g then match ep_del (epoll e) (g_fd g) with Some tbl => set_epoll e tbl | None => e end else e.

(* result of a factory token request: None = sub-id overflow panic *)
Definition ftoken (f : factory) : option (tok * factory) := factory_token f.

(* sequential `?`-short-circuit registration of sub-sources (what batch_register! expands to) *)
Inductive rr := RROk | RRErr | RRPanic.

Fixpoint subs_register (e : env) (subs : list gen) (f : factory) : rr * list gen * factory * env :=
  match subs with
  | [] => (RROk, [], f, e)
  | g :: rest =>
      match ftoken f with
      | None => (RRPanic, subs, f, e)
      | Some (t, f') =>
          let '(ok, g', e') := gen_register e g t in
          if ok then let '(r, rest', f'', e'') := subs_register e' rest f' in (r, g' :: rest', f'', e'')
          else (RRErr, g' :: rest, f', e')
      end
  end.
Fixpoint subs_reregister (e : env) (subs : list gen) (f : factory) : rr * list gen * factory * env :=
  match subs with
  | [] => (RROk, [], f, e)
  | g :: rest =>
      match ftoken f with
      | None => (RRPanic, subs, f, e)
      | Some (t, f') =>
          let '(ok, g', e') := gen_reregister e g t in
          if ok then let '(r, rest', f'', e'') := subs_reregister e' rest f' in (r, g' :: rest', f'', e'')
          else (RRErr, g' :: rest, f', e')
      end
  end.
Fixpoint subs_unregister (e : env) (subs : list gen) : bool * list gen * env :=
  match subs with
  | [] => (true, [], e)
  | g :: rest =>
      let '(ok, g', e') := gen_unregister e g in
      if ok then let '(r, rest', e'') := subs_unregister e' rest in (r, g' :: rest', e'')
      else (false, g' :: rest, e')
  end.

(* ================= EventSource::{register,reregister,unregister} per kind ================= *)
Definition timer_unregister (e : env) (t : timer) : timer * env :=
  match tm_reg t with
  | Some (_, c) => (mkTimer None (tm_dl t) false, set_whl e (wh_cancel (whl e) c))
  | None => (mkTimer None (tm_dl t) false, e)
  end.
(* register first cancels a previous arming (enable() of an enabled timer re-arms it) *)
Definition timer_register (e0 : env) (t0 : timer) (f : factory) : rr * timer * env :=
  let (t, e) := timer_unregister e0 t0 in
  match tm_dl t with
  | Some dl =>
      match ftoken f with
      | None => (RRPanic, t, e)
      | Some (tk, _) =>
          let (w', c) := wh_insert (whl e) dl tk in
          (RROk, mkTimer (Some (tk, c)) (tm_dl t) true, set_whl e w')
      end
  | None => (RROk, mkTimer None None true, e)
  end.

(* reregister: updating a disabled timer must not arm it *)
Definition timer_reregister (e : env) (t : timer) (f : factory) : rr * timer * env :=
  if tm_en t then let (t1, e1) := timer_unregister e t in timer_register e1 t1 f
  else (RROk, t, e).

Definition one_gen (r : bool * gen * env) (k : gen -> src) : rr * src * env :=
  let '(ok, g', e') := r in ((if ok then RROk else RRErr), k g', e').

Definition src_register (e : env) (x : src) (f : factory) : rr * src * env :=
  match x with
  | SComp lc own subs tmr =>
      match ftoken f with
      | None => (RRPanic, x, e)
      | Some (t, f') =>
          let '(r, subs', f'', e') := subs_register e subs f' in
          match r, tmr with
          | RROk, Some tm => let '(r2, tm', e'') := timer_register e' tm f'' in (r2, SComp lc (Some t) subs' (Some tm'), e'')
          | _, _ => (r, SComp lc (Some t) subs' tmr, e')
          end
      end
  | SPing g => match ftoken f with None => (RRPanic, x, e) | Some (t, _) => one_gen (gen_register e g t) SPing end
  | SChan c g => match ftoken f with None => (RRPanic, x, e) | Some (t, _) => one_gen (gen_register e g t) (SChan c) end
  | STimer t => let '(r, t', e') := timer_register e t f in (r, STimer t', e')
  end.
Definition src_reregister (e : env) (x : src) (f : factory) : rr * src * env :=
  match x with
  | SComp lc own subs tmr =>
      match ftoken f with
      | None => (RRPanic, x, e)
      | Some (t, f') =>
          let '(r, subs', f'', e') := subs_reregister e subs f' in
          match r, tmr with
          | RROk, Some tm => let '(r2, tm', e'') := timer_reregister e' tm f'' in (r2, SComp lc (Some t) subs' (Some tm'), e'')
          | _, _ => (r, SComp lc (Some t) subs' tmr, e')
          end
      end
  | SPing g => match ftoken f with None => (RRPanic, x, e) | Some (t, _) => one_gen (gen_reregister e g t) SPing end
  | SChan c g => match ftoken f with None => (RRPanic, x, e) | Some (t, _) => one_gen (gen_reregister e g t) (SChan c) end
  | STimer t => if tm_en t
                then let (t1, e1) := timer_unregister e t in
                     let '(r, t', e') := timer_register e1 t1 f in (r, STimer t', e')
                else (RROk, x, e)
  end.
Definition src_unregister (e : env) (x : src) : bool * src * env :=
  match x with
  | SComp lc own subs tmr =>
      let '(ok, subs', e') := subs_unregister e subs in
      match ok, tmr with
      | true, Some tm => let (tm', e'') := timer_unregister e' tm in (true, SComp lc None subs' (Some tm'), e'')
      | _, _ => (ok, SComp lc None subs' tmr, e')
      end
  | SPing g => let '(ok, g', e') := gen_unregister e g in (ok, SPing g', e')
  | SChan c g => let '(ok, g', e') := gen_unregister e g in (ok, SChan c g', e')
  | STimer t => let (t', e') := timer_unregister e t in (true, STimer t', e')
  end.
Definition src_lc (x : src) : bool := match x with SComp lc _ _ _ => lc | _ => false end.

(* dropping a source object (last Rc gone) *)
Definition src_drop (e : env) (x : src) : env :=
  match x with
  | SComp _ _ subs _ => fold_left gen_drop subs e
  | SPing g => gen_drop e g
  | SChan c g =>
      let e1 := gen_drop e g in
      match chans e1 c with
      | Some ch => set_chans e1 (fupd (chans e1) c (Some (mkChan (ch_q ch) (ch_senders ch) (ch_bound ch) false (ch_pfd ch))))
      | None => e1
      end
  | STimer _ => e
  end.

(* ================= DispatcherInner (sources/mod.rs) ================= *)
Definition lc_register (l : list tok) (t : tok) : list tok :=
  if existsb (tok_eqb t) l then l else l ++ [t].
Definition lc_unregister (l : list tok) (t : tok) : list tok := filter (fun x => negb (tok_eqb x t)) l.

Definition set_obj_src (s : st) (o : N) (x : src) : st :=
  match objs s o with
  | Some ob => set_objs s (fupd (objs s) o (Some (mkObj x (o_ext ob))))
  | None => s
  end.
Definition is_running (s : st) (o : N) : bool := match running s with Some (r, _) => r =? o | None => false end.

(* instrumented composite sources log their register/reregister/unregister calls *)
Definition regop (s : st) (o : N) (x : src) (kind : Z) (ok : bool) : st :=
  match x with
  | SComp _ _ _ _ => emit s (L T_REGOP [zN o; kind; if ok then 0%Z else 1%Z])
  | _ => s
  end.

(* register: borrow_mut (panics when running); the lifecycle entry is recorded after the source registered *)
Definition disp_register (s : st) (o : N) (slot_tok : tok) : res * st :=
  match objs s o with
  | None => (ROther, s)
  | Some ob =>
      if is_running s o then (ROther, panic s P_BORROW)
      else
        let '(r, x', e1) := src_register (en s) (o_src ob) (factory_new slot_tok) in
        let s2 := set_obj_src (set_en s e1) o x' in
        match r with
        | RRPanic => (ROther, panic s2 P_SUBID)
        | RRErr => (RIo, regop s2 o x' 0%Z false)
        | RROk => let s3 := regop s2 o x' 0%Z true in
                  (ROk, if src_lc x' then set_lifecycle s3 (lc_register (lifecycle s3) (forget_sub_id slot_tok)) else s3)
        end
  end.
(* reregister: try_borrow_mut; false = deferred *)
Definition disp_reregister (s : st) (o : N) (slot_tok : tok) : res * bool * st :=
  match objs s o with
  | None => (ROther, true, s)
  | Some ob =>
      if is_running s o then (ROk, false, s)
      else
        let '(r, x', e1) := src_reregister (en s) (o_src ob) (factory_new slot_tok) in
        let s2 := set_obj_src (set_en s e1) o x' in
        match r with
        | RRPanic => (ROther, true, panic s2 P_SUBID)
        | RRErr => (RIo, true, regop s2 o x' 1%Z false)
        | RROk => let s3 := regop s2 o x' 1%Z true in
                  (ROk, true, if src_lc x' then set_lifecycle s3 (lc_register (lifecycle s3) (forget_sub_id slot_tok)) else s3)
        end
  end.
(* unregister: try_borrow_mut; the lifecycle entry is dropped whatever the source answers *)
Definition disp_unregister (s : st) (o : N) (reg_tok : tok) : res * bool * st :=
  match objs s o with
  | None => (ROther, true, s)
  | Some ob =>
      if is_running s o then (ROk, false, s)
      else
        let '(ok, x', e1) := src_unregister (en s) (o_src ob) in
        let s2 := regop (set_obj_src (set_en s e1) o x') o x' 2%Z ok in
        let s3 := if src_lc x' then set_lifecycle s2 (lc_unregister (lifecycle s2) reg_tok) else s2 in
        ((if ok then ROk else RIo), true, s3)
  end.

(* ================= SourceList (list.rs) ================= *)
Fixpoint find_vacant (l : list slot) (i : nat) : option nat :=
  match l with
  | [] => None
  | sl :: t => match s_obj sl with None => Some i | Some _ => find_vacant t (S i) end
  end.
(* vacant_entry: (index, slots with the version bumped / a fresh slot pushed); None = too many sources *)
Definition vacant_entry (l : list slot) : option (nat * list slot) :=
  match find_vacant l O with
  | Some i => match nth_error l i with
              | Some sl => Some (i, upd l i (mkSlot (increment_version (s_tok sl)) None (s_gen sl + 1)))
              | None => None
              end
  | None => match tok_new (N.of_nat (length l)) with
            | Some t => Some (length l, l ++ [mkSlot t None 0])
            | None => None
            end
  end.
(* get: index in range and same_source_as *)
Definition slot_get (l : list slot) (t : tok) : option slot :=
  match nth_error l (N.to_nat (t_id t)) with
  | Some sl => if same_source_as (s_tok sl) t then Some sl else None
  | None => None
  end.
Definition slot_set_obj (l : list slot) (t : tok) (v : option N) : list slot :=
  match nth_error l (N.to_nat (t_id t)) with
  | Some sl => upd l (N.to_nat (t_id t)) (mkSlot (s_tok sl) v (s_gen sl))
  | None => l
  end.

(* object release: an object whose last reference went away is dropped (deferred while it is running) *)
Definition in_slots (l : list slot) (o : N) : bool :=
  existsb (fun sl => match s_obj sl with Some x => x =? o | None => false end) l.
Definition drop_obj (s : st) (o : N) (ob : obj) : st :=
  emit (set_objs (set_en s (src_drop (en s) (o_src ob))) (fupd (objs s) o None)) (L T_DROP [zN o]).
Definition maybe_drop (s : st) (o : N) : st :=
  match objs s o with
  | Some ob =>
      if o_ext ob || in_slots (slots s) o then s
      else if is_running s o then set_zombies s (o :: zombies s)
      else drop_obj s o ob
  | None => s
  end.

(* ================= LoopHandle operations (loop_logic.rs) ================= *)
Definition op_line (code : Z) (h : N) (r : res) : tline := L T_OP [code; zN h; res_code r].
Definition OP_INSERT := 1%Z. Definition OP_REMOVE := 2%Z. Definition OP_DISABLE := 3%Z. Definition OP_ENABLE := 4%Z.
Definition OP_UPDATE := 5%Z. Definition OP_SETINT := 6%Z. Definition OP_SETDL := 7%Z. Definition OP_INTOINNER := 8%Z.
Definition OP_DROPDISP := 9%Z. Definition OP_SEND := 10%Z. Definition OP_TRYSEND := 11%Z.

(* register_dispatcher; the object o = h is created by the scenario (Dispatcher::new) and kept by the harness *)
Definition do_insert (s : st) (h : N) (x : src) : st :=
  match objs s h with
  | Some _ => emit s (op_line OP_INSERT h RInvalid)   (* scenario error: a handle id names one dispatcher object *)
  | None =>
  let s0 := set_objs s (fupd (objs s) h (Some (mkObj x true))) in
  match vacant_entry (slots s0) with
  | None => panic s0 P_OTHER
  | Some (i, sl) =>
      match nth_error sl i with
      | None => panic s0 P_OTHER
      | Some e =>
          let t := s_tok e in
          let s1 := set_slots s0 (upd sl i (mkSlot t (Some h) (s_gen e))) in
          let (r, s2) := disp_register s1 h t in
          if halted s2 then s2 else
          match r with
          | ROk => emit (set_toks s2 (fupd (toks s2) h (Some t))) (L T_OP [OP_INSERT; zN h; res_code ROk; zN (pack t)])
          | _ => emit (set_slots s2 (upd (slots s2) i (mkSlot t None (s_gen e)))) (op_line OP_INSERT h r)
          end
      end
  end
  end.

(* resolve a handle's token to an occupied slot *)
Definition lookup (s : st) (h : N) : option (tok * tok * N) :=
  match toks s h with
  | None => None
  | Some t => match slot_get (slots s) t with
              | Some sl => match s_obj sl with Some o => Some (t, s_tok sl, o) | None => None end
              | None => None
              end
  end.

Definition do_enable (s : st) (h : N) : st :=
  match lookup s h with
  | None => emit s (op_line OP_ENABLE h RInvalid)
  | Some (_, et, o) => let (r, s1) := disp_register s o et in
                       if halted s1 then s1 else emit s1 (op_line OP_ENABLE h r)
  end.
Definition do_update (s : st) (h : N) : st :=
  match lookup s h with
  | None => emit s (op_line OP_UPDATE h RInvalid)
  | Some (_, et, o) =>
      let '(r, done, s1) := disp_reregister s o et in
      if halted s1 then s1 else
      match r with
      | ROk => emit (if done then s1 else set_pending s1 Reregister) (op_line OP_UPDATE h ROk)
      | _ => emit s1 (op_line OP_UPDATE h r)
      end
  end.
Definition do_disable (s : st) (h : N) : st :=
  match lookup s h with
  | None => emit s (op_line OP_DISABLE h RInvalid)
  | Some (t, et, o) =>
      let '(r, done, s1) := disp_unregister s o t in
      match r with
      | ROk => emit (if done then s1 else set_pending s1 Disable) (op_line OP_DISABLE h ROk)
      | _ => emit s1 (op_line OP_DISABLE h r)
      end
  end.
(* remove: infallible; the slot is emptied first, the unregister error only logged *)
Definition do_remove (s : st) (h : N) : st :=
  match lookup s h with
  | None => emit s (op_line OP_REMOVE h ROk)
  | Some (t, et, o) =>
      let s1 := set_slots s (slot_set_obj (slots s) t None) in
      let '(_, _, s2) := disp_unregister s1 o t in
      emit (maybe_drop s2 o) (op_line OP_REMOVE h ROk)
  end.

(* Dispatcher::as_source_mut: borrow_mut -> panics while running *)
Fixpoint set_nth_gen (l : list gen) (j : nat) (it : interest) (m : mode) : list gen :=
  match l, j with
  | [], _ => []
  | g :: t, O => mkGen (g_fd g) it m (g_tok g) (g_poller g) :: t
  | g :: t, S j' => g :: set_nth_gen t j' it m
  end.
Definition do_setint (s : st) (h : N) (j : nat) (it : interest) (m : mode) : st :=
  match objs s h with
  | Some ob =>
      if negb (o_ext ob) then emit s (op_line OP_SETINT h RInvalid) else
      if is_running s h then panic s P_BORROW else
      match o_src ob with
      | SComp lc own subs tmr => emit (set_obj_src s h (SComp lc own (set_nth_gen subs j it m) tmr)) (op_line OP_SETINT h ROk)
      | _ => emit s (op_line OP_SETINT h ROther)
      end
  | None => emit s (op_line OP_SETINT h RInvalid)
  end.
Definition do_setdl (s : st) (h : N) (dl : Z) : st :=
  match objs s h with
  | Some ob =>
      if negb (o_ext ob) then emit s (op_line OP_SETDL h RInvalid) else
      if is_running s h then panic s P_BORROW else
      match o_src ob with
      | STimer t => emit (set_obj_src s h (STimer (mkTimer (tm_reg t) (Some dl) (tm_en t)))) (op_line OP_SETDL h ROk)
      | SComp lc own subs (Some t) =>
          emit (set_obj_src s h (SComp lc own subs (Some (mkTimer (tm_reg t) (Some dl) (tm_en t))))) (op_line OP_SETDL h ROk)
      | _ => emit s (op_line OP_SETDL h ROther)
      end
  | None => emit s (op_line OP_SETDL h RInvalid)
  end.
(* Dispatcher::into_source_inner: Rc::try_unwrap -> panics while another clone exists; the source is then dropped *)
Definition do_intoinner (s : st) (h : N) : st :=
  match objs s h with
  | Some ob =>
      if negb (o_ext ob) then emit s (op_line OP_INTOINNER h RInvalid)
      else if in_slots (slots s) h || is_running s h then panic s P_STILLREG
      else emit (drop_obj s h ob) (op_line OP_INTOINNER h ROk)
  | None => emit s (op_line OP_INTOINNER h RInvalid)
  end.
Definition do_dropdisp (s : st) (h : N) : st :=
  match objs s h with
  | Some ob =>
      if negb (o_ext ob) then emit s (op_line OP_DROPDISP h RInvalid)
      else emit (maybe_drop (set_objs s (fupd (objs s) h (Some (mkObj (o_src ob) false)))) h) (op_line OP_DROPDISP h ROk)
  | None => emit s (op_line OP_DROPDISP h RInvalid)
  end.

(* ================= ping handles and channels (single-threaded histories): environment only ================= *)
Definition do_ping (e : env) (p : N) : env :=
  match pings e p with
  | Some (fd, n) => if 0 <? n then fd_write e fd INCREMENT_PING else e
  | None => e
  end.
Definition do_clonep (e : env) (p : N) : env :=
  match pings e p with
  | Some (fd, n) => if 0 <? n then set_pings e (fupd (pings e) p (Some (fd, n + 1))) else e
  | None => e
  end.
Definition do_dropp (e : env) (p : N) : env :=
  match pings e p with
  | Some (fd, n) =>
      if n =? 0 then e
      else let e1 := set_pings e (fupd (pings e) p (Some (fd, n - 1))) in
           if n =? 1 then fd_write e1 fd INCREMENT_CLOSE else e1
  | None => e
  end.

Definition chan_full (ch : chan) : bool :=
  match ch_bound ch with Some b => b <=? N.of_nat (length (ch_q ch)) | None => false end.
(* Sender::send / SyncSender::try_send on a single thread: result code 0 Ok, 1 Full, 2 Disconnected; None = no sender *)
Definition env_send (e : env) (c : N) (v : Z) : env * option Z :=
  match chans e c with
  | Some ch =>
      if ch_senders ch =? 0 then (e, None)
      else if negb (ch_rx_alive ch) then (e, Some 2%Z)
      else if chan_full ch then (fd_write e (ch_pfd ch) INCREMENT_PING, Some 1%Z)   (* try_send pings on Full too *)
      else
        let ch' := mkChan (ch_q ch ++ [v]) (ch_senders ch) (ch_bound ch) (ch_rx_alive ch) (ch_pfd ch) in
        (fd_write (set_chans e (fupd (chans e) c (Some ch'))) (ch_pfd ch) INCREMENT_PING, Some 0%Z)
  | None => (e, None)
  end.
Definition do_send (s : st) (c : N) (v : Z) (code : Z) : st :=
  let (e', r) := env_send (en s) c v in
  match r with
  | Some rc => emit (set_en s e') (L T_OP [code; zN c; rc])
  | None => set_en s e'
  end.
Definition do_clonesender (e : env) (c : N) : env :=
  match chans e c with
  | Some ch => if ch_senders ch =? 0 then e
               else set_chans e (fupd (chans e) c (Some (mkChan (ch_q ch) (ch_senders ch + 1) (ch_bound ch) (ch_rx_alive ch) (ch_pfd ch))))
  | None => e
  end.
(* dropping a Sender pings (PingOnDrop); a SyncSender clone only pings when it is the last (Arc<PingOnDrop>) *)
Definition do_dropsender (e : env) (c : N) : env :=
  match chans e c with
  | Some ch =>
      if ch_senders ch =? 0 then e
      else
        let e1 := set_chans e (fupd (chans e) c (Some (mkChan (ch_q ch) (ch_senders ch - 1) (ch_bound ch) (ch_rx_alive ch) (ch_pfd ch)))) in
        match ch_bound ch with
        | None => fd_write e1 (ch_pfd ch) INCREMENT_PING
        | Some _ => if ch_senders ch =? 1 then fd_write e1 (ch_pfd ch) INCREMENT_PING else e1
        end
  | None => e
  end.

Definition do_idle (s : st) (i : N) : st := set_idle_cancelled (set_idles s (idles s ++ [i])) (fupd (idle_cancelled s) i false).
(* Idle::cancel borrows the idle's cell mutably: cancelling the idle whose callback is running panics *)
Definition do_cancelidle (s : st) (i : N) : st :=
  if match ridle s with Some r => r =? i | None => false end then panic s P_BORROW
  else set_idle_cancelled s (fupd (idle_cancelled s) i true).

Definition exec_action (s : st) (a : action) : st :=
  if halted s then s else
  match a with
  | AInsert h x => do_insert s h x
  | ARemove h => do_remove s h
  | ADisable h => do_disable s h
  | AEnable h => do_enable s h
  | AUpdate h => do_update s h
  | ASetInt h j it m => do_setint s h j it m
  | ASetDl h dl => do_setdl s h dl
  | AIntoInner h => do_intoinner s h
  | ADropDisp h => do_dropdisp s h
  | AFdWrite fd v => eenv s (fun e => fd_write e fd v)
  | AFdRead fd => eenv s (fun e => fst (fd_read e fd))
  | APing p => eenv s (fun e => do_ping e p)
  | AcloneP p => eenv s (fun e => do_clonep e p)
  | ADropP p => eenv s (fun e => do_dropp e p)
  | ASend c v => do_send s c v OP_SEND
  | ATrySend c v => do_send s c v OP_TRYSEND
  | ADropSender c => eenv s (fun e => do_dropsender e c)
  | ACloneSender c => eenv s (fun e => do_clonesender e c)
  | AIdle i => do_idle s i
  | ACancelIdle i => do_cancelidle s i
  | ANewPing p fd => eenv s (fun e => set_pings e (fupd (pings e) p (Some (fd, 1))))
  | ANewChan c fd b => eenv s (fun e => set_chans e (fupd (chans e) c (Some (mkChan [] 1 b true fd))))
  | AStopSignal => s
  end.
Definition exec_actions (s : st) (l : list action) : st := fold_left exec_action l s.

(* ================= event processing ================= *)
Definition IDLE_BASE : N := 1000000.
Definition scripts := N -> list script.
Definition bscripts := N -> list N.
Definition default_script : script := mkScript [] 0 0%Z.

(* invoke the user callback of handle h: log it, run its scripted actions, return the script entry *)
Definition callback (scr : scripts) (s : st) (h : N) (sub : Z) (payload : Z) : st * script :=
  let k := cbn s h in
  let sc := nth k (scr h) default_script in
  let s1 := emit (set_cbn s (fupd (cbn s) h (S k))) (L T_CB [zN h; sub; payload]) in
  (exec_actions s1 (sc_acts sc), sc).

Definition opt_tok_is (o : option tok) (t : tok) : bool :=
  match o with Some x => tok_eqb x t | None => false end.

Fixpoint find_sub (subs : list gen) (t : tok) (j : nat) : option nat :=
  match subs with
  | [] => None
  | g :: r => if opt_tok_is (g_tok g) t then Some j else find_sub r t (S j)
  end.

(* result of process_events: Some action | None = Err *)
Definition pa_of_ret (n : N) : option postaction :=
  match n with 0 => Some Continue | 1 => Some Reregister | 2 => Some Disable | 3 => Some Remove | _ => None end.

(* PingSource::process_events: token check, drain, decode. Returns (state, result, ping seen) *)
Definition ping_drain (s : st) (g : gen) (t : tok) : st * option postaction * bool :=
  if opt_tok_is (g_tok g) t then
    let (e1, v) := fd_read (en s) (g_fd g) in
    let s1 := set_en s e1 in
    if v =? 0 then (s1, None, false)
    else (s1, Some (if N.odd v then Remove else Continue), 2 <=? v)
  else (s, Some Continue, false).

(* Channel's drain loop; returns (state, clear_readiness, disconnected) *)
Fixpoint chan_loop (scr : scripts) (fuel : nat) (s : st) (h c : N) : st * bool * bool :=
  match fuel with
  | O => (s, false, false)
  | S f =>
      if halted s then (s, true, false) else
      match chans (en s) c with
      | None => (s, true, false)
      | Some ch =>
          match ch_q ch with
          | v :: q' =>
              let s1 := eenv s (fun e => set_chans e (fupd (chans e) c (Some (mkChan q' (ch_senders ch) (ch_bound ch) (ch_rx_alive ch) (ch_pfd ch))))) in
              let (s2, _) := callback scr s1 h 0%Z v in
              chan_loop scr f s2 h c
          | [] =>
              if ch_senders ch =? 0 then
                let (s2, _) := callback scr s h 1%Z 0%Z in (s2, false, true)
              else (s, true, false)
          end
      end
  end.
Definition chan_max (e : env) (c : N) : nat :=
  match chans e c with
  | Some ch => match ch_bound ch with
               | Some b => N.to_nat (N.min (b + 1) MAX_EVENTS_CHECK)
               | None => N.to_nat MAX_EVENTS_CHECK
               end
  | None => O
  end.

(* the Timer sub-source of a composite is shown the event: Timer::process_events; the composite ignores the PostAction it returns *)
Definition timer_sub_fire (scr : scripts) (s : st) (o : N) (tm : timer) (t : tok) (sub : Z) (wrap : timer -> src) : st :=
  match tm_reg tm, tm_dl tm with
  | Some (tk, c), Some dl =>
      if tok_eqb tk t then
        let (s1, sc) := callback scr s o sub dl in
        match sc_ret sc with
        | 0 => s1                                                                      (* TimeoutAction::Drop *)
        | 1 => set_obj_src (eenv s1 (fun e => set_whl e (wh_insert_reuse (whl e) c (sc_arg sc) tk))) o
                           (wrap (mkTimer (Some (tk, c)) (Some (sc_arg sc)) (tm_en tm)))           (* ToInstant *)
        | _ => set_obj_src s1 o (wrap (mkTimer (Some (tk, c)) None (tm_en tm)))            (* ToDuration(MAX) *)
        end
      else s
  | _, _ => s
  end.

Definition obj_process (scr : scripts) (s : st) (o : N) (ev : pevent) : st * option postaction :=
  let t := unpack (ev_key ev) in
  match objs s o with
  | None => (s, Some Continue)
  | Some ob =>
      match o_src ob with
      | SComp lc own subs tmr =>
          let hit := if opt_tok_is own t then Some 0%Z
                     else match find_sub subs t 1 with Some j => Some (Z.of_nat j) | None => None end in
          match hit with
          | Some j => let (s1, sc) := callback scr s o j (zN (rd_code (ev_rd ev))) in (s1, pa_of_ret (sc_ret sc))
          | None =>
              match tmr with
              | Some tm => (timer_sub_fire scr s o tm t (Z.of_nat (S (length subs))) (fun tm' => SComp lc own subs (Some tm')), Some Continue)
              | None => (s, Some Continue)
              end
          end
      | SPing g =>
          let '(s1, r, pinged) := ping_drain s g t in
          (if pinged then fst (callback scr s1 o 0%Z 0%Z) else s1, r)
      | STimer tm =>
          match tm_reg tm, tm_dl tm with
          | Some (tk, c), Some dl =>
              if tok_eqb tk t then
                let (s1, sc) := callback scr s o 0%Z dl in
                match sc_ret sc with
                | 0 => (s1, Some Remove)                                    (* TimeoutAction::Drop *)
                | 1 => (set_obj_src (eenv s1 (fun e => set_whl e (wh_insert_reuse (whl e) c (sc_arg sc) tk))) o
                                    (STimer (mkTimer (Some (tk, c)) (Some (sc_arg sc)) (tm_en tm))), Some Continue)   (* ToInstant *)
                | _ => (set_obj_src s1 o (STimer (mkTimer (Some (tk, c)) None (tm_en tm))), Some Remove)  (* ToDuration(MAX) *)
                end
              else (s, Some Continue)
          | _, _ => (s, Some Continue)
          end
      | SChan c g =>
          let mx := chan_max (en s) c in
          let '(s1, r, pinged) := ping_drain s g t in
          match r with
          | None => (s1, None)
          | Some act =>
              let '(s2, clear, disc) := if pinged then chan_loop scr mx s1 o c else (s1, false, false) in
              if disc then (s2, Some Remove)
              else if clear then (s2, Some act)
              else (eenv s2 (fun e => fd_write e (g_fd g) INCREMENT_PING), Some Continue)
          end
      end
  end.

Fixpoint drop_zombies (s : st) (l : list N) : st :=
  match l with
  | [] => s
  | o :: r => drop_zombies (maybe_drop s o) r
  end.
Definition end_processing (s : st) (o : N) : st :=
  let z := zombies s in
  let s1 := set_zombies (set_running s None) [] in
  drop_zombies (maybe_drop s1 o) z.

Definition slot_vacant_for (s : st) (reg : tok) : bool :=
  match slot_get (slots s) reg with
  | Some sl => match s_obj sl with None => true | Some _ => false end
  | None => true
  end.

(* the post-action switch of dispatch_events; false = `?` returned an error *)
Definition apply_post (s : st) (o : N) (reg : tok) (r : postaction) : bool * st :=
  match r with
  | Reregister => let '(rs, _, sx) := disp_reregister s o reg in
                  (match rs with ROk => true | _ => false end, sx)
  | Disable => let '(rs, _, sx) := disp_unregister s o reg in
               (match rs with ROk => true | _ => false end, sx)
  | Remove => (true, match slot_get (slots s) reg with
                     | Some _ => set_slots s (slot_set_obj (slots s) reg None)
                     | None => s
                     end)
  | Continue => (true, s)
  end.

(* one iteration of the event loop of dispatch_events; false = the dispatch returns Err here *)
Definition process_event (scr : scripts) (s : st) (ev : pevent) : st * bool :=
  let reg := forget_sub_id (unpack (ev_key ev)) in
  match slot_get (slots s) reg with
  | None => (s, true)
  | Some sl =>
      match s_obj sl with
      | None => (s, true)
      | Some o =>
          let (s2, ret) := obj_process scr (set_running s (Some (o, reg))) o ev in
          if halted s2 then (s2, false) else
          let s3 := set_running s2 None in
          let p := pending s3 in
          let s4 := set_pending s3 Continue in
          (* the error of process_events / of the post action is returned after the removal check *)
          let '(ok, s5) := match ret with
                           | None => (false, s4)
                           | Some r => apply_post s4 o reg (match r with Continue => p | _ => r end)
                           end in
          if halted s5 then (s5, false) else
          let s6 := if slot_vacant_for s5 reg
                    then let '(_, _, sx) := disp_unregister s5 o reg in sx else s5 in
          (end_processing s6 o, ok)
      end
  end.

Fixpoint process_events (scr : scripts) (s : st) (evs : list pevent) : st * bool :=
  match evs with
  | [] => (s, true)
  | ev :: r => let (s1, ok) := process_event scr s ev in
               if ok then process_events scr s1 r else (s1, false)
  end.

(* ================= dispatch ================= *)
Definition lc_lookup (s : st) (t : tok) : option N :=
  match slot_get (slots s) t with
  | Some sl => s_obj sl
  | None => None
  end.

(* before_sleep loop: all hooks Ok / one returned Err / unreachable!() *)
Inductive bsres := BSOk | BSErr | BSPanic.
Fixpoint before_sleep_loop (bscr : bscripts) (s : st) (l : list tok) : st * bsres :=
  match l with
  | [] => (s, BSOk)
  | t :: r =>
      match lc_lookup s t with
      | None => (panic s P_UNREACHABLE, BSPanic)
      | Some o =>
          let k := bsn s o in
          let code := nth k (bscr o) 0 in
          let s1 := emit (set_bsn s (fupd (bsn s) o (S k))) (L T_BS [zN o; zN code]) in
          match code with
          | 0 => before_sleep_loop bscr s1 r
          | 1 => let own := match objs s1 o with
                            | Some ob => match o_src ob with SComp _ (Some tk) _ _ => Some tk | _ => None end
                            | None => None
                            end in
                 match own with
                 | Some tk => before_sleep_loop bscr (set_synth s1 (synth s1 ++ [mkEv (pack tk) (mkRd true false)])) r
                 | None => before_sleep_loop bscr s1 r
                 end
          | _ => (s1, BSErr)
          end
      end
  end.

Definition ev_code (e : pevent) : Z := (zN (ev_key e) * 4 + zN (rd_code (ev_rd e)))%Z.
Fixpoint zinsert (x : Z) (l : list Z) : list Z :=
  match l with
  | [] => [x]
  | y :: r => if (x <=? y)%Z then x :: l else y :: zinsert x r
  end.
Definition zsort (l : list Z) : list Z := fold_right zinsert [] l.

Fixpoint before_handle_loop (s : st) (l : list tok) (polled : list pevent) : st * bool :=
  match l with
  | [] => (s, true)
  | t :: r =>
      match lc_lookup s t with
      | None => (panic s P_UNREACHABLE, false)
      | Some o =>
          let mine := filter (fun e => same_source_as (unpack (ev_key e)) t) polled in
          before_handle_loop (emit s (L T_BH (zN o :: map ev_code mine))) r polled
      end
  end.

Fixpoint take_key (k : N) (l : list pevent) : option (pevent * list pevent) :=
  match l with
  | [] => None
  | e :: r => if ev_key e =? k then Some (e, r)
              else match take_key k r with Some (x, r') => Some (x, e :: r') | None => None end
  end.
Fixpoint reorder (order : list N) (l : list pevent) : list pevent :=
  match order with
  | [] => l
  | k :: r => match take_key k l with Some (e, l') => e :: reorder r l' | None => reorder r l end
  end.

Fixpoint run_idles (scr : scripts) (s : st) (l : list N) : st :=
  match l with
  | [] => s
  | i :: r =>
      if halted s then s
      else if idle_cancelled s i then run_idles scr s r
      else
        let sc := nth O (scr (IDLE_BASE + i)) default_script in
        let s1 := set_ridle (emit s (L T_IDLE [zN i])) (Some i) in
        let s2 := exec_actions s1 (sc_acts sc) in
        if halted s2 then s2 else run_idles scr (set_ridle s2 None) r
  end.

Definition DISP_OK := 0%Z. Definition DISP_ERR := 1%Z.

(* Poll::poll: fd events from the poller, then every expired timer; the order is the implementation's *)
Definition poll (e : env) (t : Z) (order : list N) : list pevent * env :=
  let now := (2 * t + 1)%Z in
  let (fdev, tbl) := ep_wait (fdc e) (epoll e) in
  let (expired, rest) := wh_expire (length (wh_heap (whl e))) (wh_heap (whl e)) now in
  let tev := map (fun w => mkEv (pack (w_tok w)) (mkRd true false)) expired in
  (reorder order (fdev ++ tev), set_whl (set_epoll e tbl) (mkWheel rest (wh_ctr (whl e)))).

Definition dispatch (scr : scripts) (bscr : bscripts) (s : st) (t : Z) (order : list N) : st :=
  let '(s1, bs) := before_sleep_loop bscr s (lifecycle s) in
  match bs with
  | BSPanic => s1
  | BSErr => emit s1 (L T_DISP [t; DISP_ERR])
  | BSOk =>
      let (polled, e2) := poll (en s1) t order in
      let s3 := emit (set_en s1 e2) (L T_BATCH (zsort (map ev_code polled))) in
      let (s4, ok) := before_handle_loop s3 (lifecycle s3) polled in
      if negb ok then s4 else
      let evs := synth s4 ++ polled in
      let (s5, ok2) := process_events scr (set_synth s4 []) evs in
      if halted s5 then s5
      else if negb ok2 then emit s5 (L T_DISP [t; DISP_ERR])
      else
        let todo := idles s5 in
        let s6 := run_idles scr (set_idles s5 []) todo in
        if halted s6 then s6 else emit s6 (L T_DISP [t; DISP_OK])
  end.

(* ================= statistics / epoll table dumps ================= *)
Definition stats_lines (s : st) : list tline :=
  map (fun sl => L T_SLOT [zN (pack (s_tok sl)); match s_obj sl with Some _ => 1 | None => 0 end]%Z) (slots s)
  ++ [L T_LIFE (map (fun t => zN (pack t)) (lifecycle s))]
  ++ [L T_WHEEL (zsort (map (fun w => (zN (w_ctr w) * 18446744073709551616 + zN (pack (w_tok w)))%Z) (wh_heap (whl (en s)))))]
  ++ [L T_STATS [zN (pa_code (pending s)); Z.of_nat (length (idles s)); zN (wh_ctr (whl (en s)))]].
Definition ep_line (e : epent) : Z :=
  let shown := match e_mode e with OneShot => if e_q e then int_code (e_int e) else 0 | _ => int_code (e_int e) end in
  (((zN (e_fd e) * 4 + zN shown) * 4 + zN (mode_code (e_mode e))) * 18446744073709551616 + zN (e_key e))%Z.
Definition epoll_lines (s : st) : list tline := [L T_EP (zsort (map ep_line (epoll (en s))))].

Definition emits (s : st) (l : list tline) : st := fold_left emit l s.

Definition exec_cmd (scr : scripts) (bscr : bscripts) (s : st) (c : cmd) : st :=
  if halted s then s else
  let s := emit s (L T_CMD []) in
  match c with
  | CAct a => exec_action s a
  | CDispatch t order => dispatch scr bscr s t order
  | CStats => emits s (stats_lines s)
  | CEpoll => emits s (epoll_lines s)
  end.
Definition run (scr : scripts) (bscr : bscripts) (cmds : list cmd) : st := fold_left (exec_cmd scr bscr) cmds init.
Definition trace_of (s : st) : list tline := rev (log s).
