(* Model of src/token.rs (64-bit configuration) and sys.rs::TokenFactory. Definitions only. *)
From CV Require Import Base Consts.
Open Scope N_scope.

Record tok := mkTok { t_id : N; t_ver : N; t_sub : N }.

Definition MASK_VERSION : N := N.shiftl 1 BITS_VERSION - 1.
Definition MASK_SUBID : N := N.shiftl 1 BITS_SUBID - 1.
Definition U16 : N := 65536.
Definition U32 : N := 4294967296.
Definition USIZE : N := 18446744073709551616.
Definition USIZE_MAX : N := USIZE - 1.

(* the Rust field types: id u32, version u16, sub_id u16 *)
Definition wf_tok (t : tok) : Prop := t_id t < U32 /\ t_ver t < U16 /\ t_sub t < U16.
Definition wf_tokb (t : tok) : bool := (t_id t <? U32) && (t_ver t <? U16) && (t_sub t <? U16).

(* impl From<TokenInner> for usize: shifts and additions on usize (wrapping excluded by wf; the
   model keeps the mod so an overflow would be visible) *)
Definition pack (t : tok) : N :=
  (N.shiftl (t_id t) (BITS_SUBID + BITS_VERSION) + N.shiftl (t_ver t) BITS_SUBID + t_sub t) mod USIZE.

(* impl From<usize> for TokenInner: masks, shifts and `as` truncations *)
Definition unpack (k : N) : tok :=
  {| t_sub := (N.land k MASK_SUBID) mod U16;
     t_ver := (N.land (N.shiftr k BITS_SUBID) MASK_VERSION) mod U16;
     t_id := (N.shiftr k (BITS_SUBID + BITS_VERSION)) mod U32 |}.

(* TokenInner::new : usize -> Result *)
Definition tok_new (id : N) : option tok :=
  if id <? U32 then Some (mkTok id 0 0) else None.

Definition same_source_as (a b : tok) : bool := (t_id a =? t_id b) && (t_ver a =? t_ver b).

Definition increment_version (t : tok) : tok :=
  mkTok (t_id t) (N.land ((t_ver t + 1) mod U16) (MASK_VERSION mod U16)) 0.

(* None = the panic "Maximum number of sub-ids reached" *)
Definition increment_sub_id (t : tok) : option tok :=
  let s := t_sub t + 1 in
  if (s <? U16) && (s <=? MASK_SUBID mod U16) then Some (mkTok (t_id t) (t_ver t) s) else None.

Definition forget_sub_id (t : tok) : tok := mkTok (t_id t) (t_ver t) 0.

Definition tok_eqb (a b : tok) : bool :=
  (t_id a =? t_id b) && (t_ver a =? t_ver b) && (t_sub a =? t_sub b).

(* TokenFactory: holds next_token; token() returns it and stores its successor (computed first,
   so the call that would leave no successor panics) *)
Definition factory := tok.
Definition factory_new (t : tok) : factory := forget_sub_id t.
Definition factory_token (f : factory) : option (tok * factory) :=
  match increment_sub_id f with
  | Some f' => Some (f, f')
  | None => None
  end.

(* ask a fresh factory for n tokens; None = panicked *)
Fixpoint factory_take (f : factory) (n : nat) : option (list tok) :=
  match n with
  | O => Some []
  | S n' => match factory_token f with
            | Some (t, f') => match factory_take f' n' with
                              | Some l => Some (t :: l)
                              | None => None
                              end
            | None => None
            end
  end.
