(* Model of sources/signals.rs: signal-mask bookkeeping of one Signals source in a single-threaded process.
   The kernel side (blocked => pending, unblocking delivers pending signals to their handlers, standard signals coalesce,
   signalfd dequeues pending /\ its mask in ascending number) is the assumed environment (DESIGN.md 6.7). *)
From CV Require Import Base.
Open Scope N_scope.

(* the universe of catchable signals the scenarios use, in ascending signal number *)
Inductive sig := SHUP | SUSR1 | SUSR2 | SCONT | SURG | SWINCH.
Definition all_sigs : list sig := [SHUP; SUSR1; SUSR2; SCONT; SURG; SWINCH].
Definition sig_num (s : sig) : N := match s with SHUP => 1 | SUSR1 => 10 | SUSR2 => 12 | SCONT => 18 | SURG => 23 | SWINCH => 28 end.
Definition sig_eqb (a b : sig) : bool := sig_num a =? sig_num b.

Definition sigset := sig -> bool.
Definition s_empty : sigset := fun _ => false.
Definition s_union (a b : sigset) : sigset := fun x => a x || b x.
Definition s_diff (a b : sigset) : sigset := fun x => a x && negb (b x).
Definition s_inter (a b : sigset) : sigset := fun x => a x && b x.
Definition s_of_list (l : list sig) : sigset := fun x => existsb (sig_eqb x) l.

Record sst := mkS {
  alive : bool;            (* the Signals source exists *)
  mask : sigset;           (* self.mask *)
  blocked : sigset;        (* the thread's blocked set, restricted to the universe *)
  sfd : sigset;            (* the signalfd's mask *)
  pending : sigset;        (* kernel: pending (blocked) signals *)
  handled : sig -> N;      (* how often each signal reached its ordinary handler *)
  reported : list sig;     (* what the source's callback was given, in order *)
  escaped : list sig }.    (* ghost: pending signals that went to the handler although still configured after the call *)

Definition s_init : sst := mkS false s_empty s_empty s_empty s_empty (fun _ => 0) [] [].

(* unblocking a set: pending members are delivered to their handlers *)
Definition deliver (st : sst) (u : sigset) : (sig -> N) * sigset :=
  (fun x => if u x && pending st x then handled st x + 1 else handled st x, s_diff (pending st) u).

Inductive sop := SNew (l : list sig) | SAdd (l : list sig) | SRemove (l : list sig) | SSet (l : list sig) | SDrop
               | SRaise (x : sig) | SDispatch.

Definition s_step (st : sst) (o : sop) : sst :=
  match o with
  | SNew l =>
      if alive st then st else
      let m := s_of_list l in
      mkS true m (s_union (blocked st) m) m (pending st) (handled st) (reported st) (escaped st)
  | SAdd l =>
      if negb (alive st) then st else
      let m := s_union (mask st) (s_of_list l) in
      mkS true m (s_union (blocked st) m) m (pending st) (handled st) (reported st) (escaped st)
  | SRemove l =>
      if negb (alive st) then st else
      let r := s_of_list l in
      let m := s_diff (mask st) r in
      let (h, p) := deliver st r in
      mkS true m (s_diff (blocked st) r) m p h (reported st)
          (escaped st ++ filter (fun x => r x && pending st x && m x) all_sigs)
  | SSet l =>
      if negb (alive st) then st else
      let n := s_of_list l in
      (* new_mask.thread_block(); (mask - new).thread_unblock(); set_mask(new_mask) *)
      let r := s_diff (mask st) n in
      let (h, p) := deliver st r in
      mkS true n (s_diff (s_union (blocked st) n) r) n p h (reported st)
          (escaped st ++ filter (fun x => r x && pending st x && n x) all_sigs)
  | SDrop =>
      if negb (alive st) then st else
      let (h, p) := deliver st (mask st) in
      mkS false s_empty (s_diff (blocked st) (mask st)) s_empty p h (reported st) (escaped st)
  | SRaise x =>
      if blocked st x then mkS (alive st) (mask st) (blocked st) (sfd st) (s_union (pending st) (fun y => sig_eqb y x)) (handled st) (reported st) (escaped st)
      else mkS (alive st) (mask st) (blocked st) (sfd st) (pending st) (fun y => if sig_eqb y x then handled st y + 1 else handled st y) (reported st) (escaped st)
  | SDispatch =>
      if negb (alive st) then st else
      let got := filter (fun x => pending st x && sfd st x) all_sigs in
      mkS true (mask st) (blocked st) (sfd st) (s_diff (pending st) (sfd st)) (handled st) (reported st ++ got) (escaped st)
  end.
Definition s_run (ops : list sop) : sst := fold_left s_step ops s_init.

