(* Environment model used by the sequential loop model: eventfds, the epoll interest table
   (polling's mapping of Interest/Mode), and the timer wheel of sources/timer.rs.
   Definitions only. The kernel rules here are ASSUMED (DESIGN.md 6.2) and validated by correspondence. *)
From CV Require Import Base Consts Token.
Open Scope N_scope.

(* ---------- functional maps keyed by N ---------- *)
Definition fmap (A : Type) := N -> A.
Definition fupd {A} (m : fmap A) (k : N) (v : A) : fmap A := fun x => if x =? k then v else m x.

(* ---------- interest / mode / readiness ---------- *)
Inductive mode := Level | Edge | OneShot.
Record interest := mkInt { i_r : bool; i_w : bool }.
Record readiness := mkRd { r_r : bool; r_w : bool }.

Definition mode_code (m : mode) : N := match m with Level => 0 | Edge => 1 | OneShot => 2 end.
Definition mode_of_code (n : N) : mode := match n with 0 => Level | 1 => Edge | _ => OneShot end.
Definition int_code (i : interest) : N := (if i_r i then 1 else 0) + (if i_w i then 2 else 0).
Definition int_of_code (n : N) : interest := mkInt (N.odd n) (N.odd (n / 2)).
Definition rd_code (r : readiness) : N := (if r_r r then 1 else 0) + (if r_w r then 2 else 0).

(* ---------- eventfds ---------- *)
(* counter is a u64; a write of v fails with EAGAIN when ctr + v > 2^64 - 2; a read returns and zeroes *)
Definition EFD_MAX : N := 18446744073709551614.
Definition efd_readable (c : N) : bool := 0 <? c.
Definition efd_writable (c : N) : bool := c <? EFD_MAX.
Definition efd_write (c v : N) : option N := if c + v <=? EFD_MAX then Some (c + v) else None.

(* ---------- epoll table ---------- *)
(* e_q: for Edge entries "on the ready list"; for OneShot entries "armed". *)
Record epent := mkEp { e_fd : N; e_int : interest; e_mode : mode; e_key : N; e_q : bool }.

Definition ready_for (it : interest) (c : N) : readiness :=
  mkRd (i_r it && efd_readable c) (i_w it && efd_writable c).
Definition rd_nonempty (r : readiness) : bool := r_r r || r_w r.

Fixpoint ep_find (tbl : list epent) (fd : N) : option epent :=
  match tbl with
  | [] => None
  | e :: t => if e_fd e =? fd then Some e else ep_find t fd
  end.
Fixpoint ep_remove (tbl : list epent) (fd : N) : list epent :=
  match tbl with
  | [] => []
  | e :: t => if e_fd e =? fd then ep_remove t fd else e :: ep_remove t fd
  end.

(* initial queue/armed flag at ADD/MOD: OneShot is armed; Edge is queued iff ready for the interest *)
Definition ep_initq (m : mode) (it : interest) (c : N) : bool :=
  match m with
  | OneShot => true
  | Edge => rd_nonempty (ready_for it c)
  | Level => false
  end.

(* EPOLL_CTL_ADD: EEXIST when present *)
Definition ep_add (tbl : list epent) (fd : N) (it : interest) (m : mode) (key c : N) : option (list epent) :=
  match ep_find tbl fd with
  | Some _ => None
  | None => Some (tbl ++ [mkEp fd it m key (ep_initq m it c)])
  end.
(* EPOLL_CTL_MOD: ENOENT when absent *)
Fixpoint ep_replace (tbl : list epent) (e' : epent) : list epent :=
  match tbl with
  | [] => []
  | e :: t => if e_fd e =? e_fd e' then e' :: t else e :: ep_replace t e'
  end.
Definition ep_mod (tbl : list epent) (fd : N) (it : interest) (m : mode) (key c : N) : option (list epent) :=
  match ep_find tbl fd with
  | None => None
  | Some _ => Some (ep_replace tbl (mkEp fd it m key (ep_initq m it c)))
  end.
(* EPOLL_CTL_DEL: ENOENT when absent *)
Definition ep_del (tbl : list epent) (fd : N) : option (list epent) :=
  match ep_find tbl fd with
  | None => None
  | Some _ => Some (ep_remove tbl fd)
  end.

(* a wake on fd's wait queue with key IN (write) or OUT (read): queues Edge entries whose interest meets it *)
Definition ep_wake (tbl : list epent) (fd : N) (is_in : bool) : list epent :=
  map (fun e =>
         if (e_fd e =? fd) && (match e_mode e with Edge => true | _ => false end)
            && (if is_in then i_r (e_int e) else i_w (e_int e))
         then mkEp (e_fd e) (e_int e) (e_mode e) (e_key e) true else e) tbl.

(* one wait: which entries are reported, and the table afterwards *)
Record pevent := mkEv { ev_key : N; ev_rd : readiness }.

Definition ep_report (fdc : fmap N) (e : epent) : option pevent :=
  let r := ready_for (e_int e) (fdc (e_fd e)) in
  if rd_nonempty r then
    match e_mode e with
    | Level => Some (mkEv (e_key e) r)
    | _ => if e_q e then Some (mkEv (e_key e) r) else None
    end
  else None.
Definition ep_after (fdc : fmap N) (e : epent) : epent :=
  match e_mode e with
  | Level => e
  | Edge => mkEp (e_fd e) (e_int e) (e_mode e) (e_key e) false
  | OneShot => match ep_report fdc e with
               | Some _ => mkEp (e_fd e) (e_int e) (e_mode e) (e_key e) false
               | None => e
               end
  end.
Fixpoint ep_wait (fdc : fmap N) (tbl : list epent) : list pevent * list epent :=
  match tbl with
  | [] => ([], [])
  | e :: t => let (evs, t') := ep_wait fdc t in
              (match ep_report fdc e with Some ev => ev :: evs | None => evs end, ep_after fdc e :: t')
  end.

(* ---------- timer wheel ---------- *)
Record went := mkW { w_dl : Z; w_tok : tok; w_ctr : N }.
Record wheel := mkWheel { wh_heap : list went; wh_ctr : N }.
Definition U32MOD : N := 4294967296.

Definition wh_insert (w : wheel) (dl : Z) (t : tok) : wheel * N :=
  (mkWheel (wh_heap w ++ [mkW dl t (wh_ctr w)]) ((wh_ctr w + 1) mod U32MOD), wh_ctr w).
Definition wh_insert_reuse (w : wheel) (c : N) (dl : Z) (t : tok) : wheel :=
  mkWheel (wh_heap w ++ [mkW dl t c]) (wh_ctr w).

(* the heap top: an entry of minimal deadline (first such in list order; ties are the environment's) *)
Fixpoint wh_min (l : list went) : option went :=
  match l with
  | [] => None
  | e :: t => match wh_min t with
              | None => Some e
              | Some m => if (w_dl e <=? w_dl m)%Z then Some e else Some m
              end
  end.
Fixpoint wh_remove_first (l : list went) (c : N) (dl : Z) : list went :=
  match l with
  | [] => []
  | e :: t => if (w_ctr e =? c) && (w_dl e =? w_dl e)%Z && (w_dl e =? dl)%Z then t else e :: wh_remove_first t c dl
  end.
(* cancel: pop the top when it carries the counter, else retain(counter != c) *)
Definition wh_cancel (w : wheel) (c : N) : wheel :=
  match wh_min (wh_heap w) with
  | Some m => if w_ctr m =? c then mkWheel (wh_remove_first (wh_heap w) c (w_dl m)) (wh_ctr w)
              else mkWheel (filter (fun e => negb (w_ctr e =? c)) (wh_heap w)) (wh_ctr w)
  | None => w
  end.
Definition wh_next_deadline (w : wheel) : option Z :=
  match wh_min (wh_heap w) with Some m => Some (w_dl m) | None => None end.
(* next_expired loop of Poll::poll: pops while top.deadline <= now; fuel = heap length *)
Fixpoint wh_expire (fuel : nat) (l : list went) (now : Z) : list went * list went :=
  match fuel with
  | O => ([], l)
  | S f => match wh_min l with
           | Some m => if (w_dl m <=? now)%Z
                       then let (ex, rest) := wh_expire f (wh_remove_first l (w_ctr m) (w_dl m)) now in (m :: ex, rest)
                       else ([], l)
           | None => ([], l)
           end
  end.
