(* Model of sources/mod.rs::PostAction with BitOr / BitOrAssign. *)
From CV Require Import Base.

Inductive postaction := Continue | Reregister | Disable | Remove.

Definition pa_eqb (a b : postaction) : bool :=
  match a, b with
  | Continue, Continue | Reregister, Reregister | Disable, Disable | Remove, Remove => true
  | _, _ => false
  end.

(* fn bitor(self, rhs): if matches!(self, x if x == rhs) { self } else { Reregister } *)
Definition pa_bitor (a b : postaction) : postaction := if pa_eqb a b then a else Reregister.
(* fn bitor_assign(&mut self, rhs): if *self != rhs { *self = Reregister } *)
Definition pa_bitor_assign (a b : postaction) : postaction := if negb (pa_eqb a b) then Reregister else a.

Definition pa_all : list postaction := [Continue; Reregister; Disable; Remove].
Definition pa_code (a : postaction) : N :=
  match a with Continue => 0 | Reregister => 1 | Disable => 2 | Remove => 3 end%N.
Definition pa_of_code (n : N) : postaction :=
  match n with 0 => Continue | 1 => Reregister | 2 => Disable | _ => Remove end%N.
