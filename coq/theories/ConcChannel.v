(* Concurrent model of sources/channel.rs (Sender / SyncSender::try_send against Channel::process_events), one shared
   effect per step: mpsc enqueue / try_send, sender-count change, eventfd write, poll, eventfd drain, each try_recv.
   std::sync::mpsc is assumed to be a linearizable FIFO with the usual disconnect rule (DESIGN.md 6.4). *)
From CV Require Import Base Consts.
Open Scope N_scope.

(* CSendB: SyncSender::send, which blocks while the queue is full (on channel() it is Sender::send) *)
Inductive cop := CSend (v : N) | CClone | CDropS | CSendB (v : N).

Definition YC_SEND := 111. Definition YC_TRYSEND := 112. Definition YC_RECV := 114. Definition YC_PING := 102.
Definition YC_BSEND := 113.
Definition YC_CLOSE := 101. Definition YC_DRAIN := 103. Definition YC_POLL := 132. Definition YC_DROP := 52. Definition YC_CLONE := 53.

(* what a sender thread is in the middle of *)
(* CToPingRelease: the ping of a dropped sender, after which its Ping handle is released; CToClose: that handle was the last one *)
(* blocking send: CToPingB the ping after its enqueue (then send() returns Ok); CB1 the ping of its failed try_send; CB2 before the
   blocking mpsc send; CBlocked inside it, waiting for room *)
Inductive cstage := CIdle | CToPing | CToPingRelease | CToClose | CToPingB | CB1 (v : N) | CB2 (v : N) | CBlocked (v : N).
Record cthread := mkCT { ct_ops : list cop; ct_mine : N; ct_stage : cstage }.

Inductive clstage := CLIdle | CLDrain | CLLoop (left : nat) | CLReping | CLCloseWrite.
Record clthread := mkCL { cl_disp : nat; cl_stage : clstage }.

Inductive ccev := CCStep (tid : nat) (yid : N) | CCMsg (v : N) | CCClosed | CCRemoved | CCFull (tid : nat) | CCDisc (tid : nat) | CCSentOk (tid : nat).

Record ccst := mkCC {
  cq : list N;               (* the mpsc queue *)
  csenders : N;              (* live mpsc senders *)
  cctr : N;                  (* eventfd counter of the channel's ping *)
  creg : bool;               (* channel source still in the loop *)
  cbound : option N;         (* None: channel(); Some n: sync_channel(n), n >= 1 *)
  cph : N;                   (* live Ping handles: the channel's own + one per Sender (one shared by all SyncSenders) *)
  cloop : clthread;
  cthr : list cthread;
  (* ghosts *)
  csent : list N;            (* successfully enqueued messages, in enqueue order *)
  cdelivered : list N;       (* messages handed to the callback, in order *)
  cclosed : N;               (* Closed events delivered *)
  ctr_log : list ccev }.

Definition cc_max (s : ccst) : nat :=
  match cbound s with
  | Some b => N.to_nat (N.min (b + 1) MAX_EVENTS_CHECK)
  | None => N.to_nat MAX_EVENTS_CHECK
  end.
Definition cc_full (s : ccst) : bool :=
  match cbound s with Some b => b <=? N.of_nat (length (cq s)) | None => false end.

Definition set_thr (s : ccst) (l : list cthread) : ccst :=
  mkCC (cq s) (csenders s) (cctr s) (creg s) (cbound s) (cph s) (cloop s) l (csent s) (cdelivered s) (cclosed s) (ctr_log s).

Fixpoint upd_ct (l : list cthread) (i : nat) (t : cthread) : list cthread :=
  match l, i with
  | [], _ => []
  | _ :: r, O => t :: r
  | x :: r, S j => x :: upd_ct r j t
  end.

(* sync senders share one Arc<PingOnDrop>: only the drop of the last one pings *)
Definition drop_pings (s : ccst) : bool :=
  match cbound s with None => true | Some _ => csenders s =? 1 end.

(* the blocking mpsc send of SyncSender::send: SendError once the receiver is gone, waits while the queue is full, else enqueues *)
Definition bsend_attempt (s : ccst) (i : nat) (t : cthread) (v : N) (lg : list ccev) : ccst * cthread :=
  if negb (creg s) then
    (mkCC (cq s) (csenders s) (cctr s) (creg s) (cbound s) (cph s) (cloop s) (cthr s) (csent s) (cdelivered s) (cclosed s)
          (CCDisc (S i) :: lg), mkCT (ct_ops t) (ct_mine t) CIdle)
  else if cc_full s then
    (mkCC (cq s) (csenders s) (cctr s) (creg s) (cbound s) (cph s) (cloop s) (cthr s) (csent s) (cdelivered s) (cclosed s) lg,
     mkCT (ct_ops t) (ct_mine t) (CBlocked v))
  else
    (mkCC (cq s ++ [v]) (csenders s) (cctr s) (creg s) (cbound s) (cph s) (cloop s) (cthr s) (csent s ++ [v]) (cdelivered s) (cclosed s) lg,
     mkCT (ct_ops t) (ct_mine t) CToPingB).

Definition ct_step (s : ccst) (i : nat) (t : cthread) : ccst * cthread :=
  let log e := e :: ctr_log s in
  match ct_stage t with
  | CToPingB =>
      (mkCC (cq s) (csenders s) (cctr s + INCREMENT_PING) (creg s) (cbound s) (cph s) (cloop s) (cthr s) (csent s) (cdelivered s) (cclosed s)
            (CCSentOk (S i) :: log (CCStep (S i) YC_PING)), mkCT (ct_ops t) (ct_mine t) CIdle)
  | CB1 v =>
      (mkCC (cq s) (csenders s) (cctr s + INCREMENT_PING) (creg s) (cbound s) (cph s) (cloop s) (cthr s) (csent s) (cdelivered s) (cclosed s)
            (log (CCStep (S i) YC_PING)), mkCT (ct_ops t) (ct_mine t) (CB2 v))
  | CB2 v => bsend_attempt s i t v (log (CCStep (S i) YC_BSEND))
  | CBlocked v => if cc_full s && creg s then (s, t) else bsend_attempt s i t v (ctr_log s)
  | CToPing =>
      (mkCC (cq s) (csenders s) (cctr s + INCREMENT_PING) (creg s) (cbound s) (cph s) (cloop s) (cthr s) (csent s) (cdelivered s) (cclosed s)
            (log (CCStep (S i) YC_PING)), mkCT (ct_ops t) (ct_mine t) CIdle)
  | CToPingRelease =>
      (mkCC (cq s) (csenders s) (cctr s + INCREMENT_PING) (creg s) (cbound s) (cph s - 1) (cloop s) (cthr s) (csent s) (cdelivered s) (cclosed s)
            (log (CCStep (S i) YC_PING)), mkCT (ct_ops t) (ct_mine t) (if cph s =? 1 then CToClose else CIdle))
  | CToClose =>
      (mkCC (cq s) (csenders s) (cctr s + INCREMENT_CLOSE) (creg s) (cbound s) (cph s) (cloop s) (cthr s) (csent s) (cdelivered s) (cclosed s)
            (log (CCStep (S i) YC_CLOSE)), mkCT (ct_ops t) (ct_mine t) CIdle)
  | CIdle =>
      match ct_ops t with
      | [] => (s, t)
      | CSend v :: r =>
          let y := match cbound s with None => YC_SEND | Some _ => YC_TRYSEND end in
          if negb (creg s) then
            (* receiver dropped: Disconnected / SendError, no ping *)
            (mkCC (cq s) (csenders s) (cctr s) (creg s) (cbound s) (cph s) (cloop s) (cthr s) (csent s) (cdelivered s) (cclosed s)
                  (CCDisc (S i) :: log (CCStep (S i) y)), mkCT r (ct_mine t) CIdle)
          else if cc_full s then
            (* try_send: Full - the sender still pings *)
            (mkCC (cq s) (csenders s) (cctr s) (creg s) (cbound s) (cph s) (cloop s) (cthr s) (csent s) (cdelivered s) (cclosed s)
                  (CCFull (S i) :: log (CCStep (S i) y)), mkCT r (ct_mine t) CToPing)
          else
            (mkCC (cq s ++ [v]) (csenders s) (cctr s) (creg s) (cbound s) (cph s) (cloop s) (cthr s) (csent s ++ [v]) (cdelivered s) (cclosed s)
                  (log (CCStep (S i) y)), mkCT r (ct_mine t) CToPing)
      | CSendB v :: r =>
          let y := match cbound s with None => YC_SEND | Some _ => YC_TRYSEND end in
          if negb (creg s) then
            (mkCC (cq s) (csenders s) (cctr s) (creg s) (cbound s) (cph s) (cloop s) (cthr s) (csent s) (cdelivered s) (cclosed s)
                  (CCDisc (S i) :: log (CCStep (S i) y)), mkCT r (ct_mine t) CIdle)
          else if cc_full s then
            (* the inner try_send: Full - it pings, then the blocking send follows *)
            (mkCC (cq s) (csenders s) (cctr s) (creg s) (cbound s) (cph s) (cloop s) (cthr s) (csent s) (cdelivered s) (cclosed s)
                  (log (CCStep (S i) y)), mkCT r (ct_mine t) (CB1 v))
          else
            (mkCC (cq s ++ [v]) (csenders s) (cctr s) (creg s) (cbound s) (cph s) (cloop s) (cthr s) (csent s ++ [v]) (cdelivered s) (cclosed s)
                  (log (CCStep (S i) y)), mkCT r (ct_mine t) CToPingB)
      | CClone :: r =>
          (mkCC (cq s) (csenders s + 1) (cctr s) (creg s) (cbound s) (match cbound s with None => cph s + 1 | Some _ => cph s end) (cloop s) (cthr s) (csent s) (cdelivered s) (cclosed s)
                (log (CCStep (S i) YC_CLONE)), mkCT r (ct_mine t + 1) CIdle)
      | CDropS :: r =>
          (mkCC (cq s) (csenders s - 1) (cctr s) (creg s) (cbound s) (cph s) (cloop s) (cthr s) (csent s) (cdelivered s) (cclosed s)
                (log (CCStep (S i) YC_DROP)), mkCT r (ct_mine t - 1) (if drop_pings s then CToPingRelease else CIdle))
      end
  end.

Definition set_loop (s : ccst) (l : clthread) (lg : list ccev) : ccst :=
  mkCC (cq s) (csenders s) (cctr s) (creg s) (cbound s) (cph s) l (cthr s) (csent s) (cdelivered s) (cclosed s) lg.

Definition cl_step (s : ccst) : ccst :=
  let l := cloop s in
  match cl_stage l with
  | CLIdle =>
      match cl_disp l with
      | O => s
      | S d =>
          if creg s && (0 <? cctr s) then set_loop s (mkCL d CLDrain) (CCStep 0 YC_POLL :: ctr_log s)
          else set_loop s (mkCL d CLIdle) (CCStep 0 YC_POLL :: ctr_log s)
      end
  | CLDrain =>
      let v := cctr s in
      let lg := CCStep 0 YC_DRAIN :: ctr_log s in
      (* the channel keeps its own Ping handle, so no close marker is ever seen: v is even *)
      if 2 <=? v then
        mkCC (cq s) (csenders s) 0 (creg s) (cbound s) (cph s) (mkCL (cl_disp l) (CLLoop (cc_max s))) (cthr s) (csent s) (cdelivered s) (cclosed s) lg
      else
        mkCC (cq s) (csenders s) 0 (creg s) (cbound s) (cph s) (mkCL (cl_disp l) CLReping) (cthr s) (csent s) (cdelivered s) (cclosed s) lg
  | CLLoop O => set_loop s (mkCL (cl_disp l) CLReping) (ctr_log s)   (* not a step of its own: handled below *)
  | CLLoop (S k) =>
      let lg := CCStep 0 YC_RECV :: ctr_log s in
      match cq s with
      | v :: q' =>
          let next := match k with O => CLReping | _ => CLLoop k end in
          mkCC q' (csenders s) (cctr s) (creg s) (cbound s) (cph s) (mkCL (cl_disp l) next) (cthr s) (csent s) (cdelivered s ++ [v]) (cclosed s)
               (CCMsg v :: lg)
      | [] =>
          if csenders s =? 0 then
            (* the removed Channel is dropped: its own Ping handle is the last one, the close marker is written *)
            mkCC [] (csenders s) (cctr s) false (cbound s) (cph s - 1) (mkCL (cl_disp l) (if cph s =? 1 then CLCloseWrite else CLIdle)) (cthr s) (csent s) (cdelivered s) (cclosed s + 1)
                 (if cph s =? 1 then CCClosed :: lg else CCRemoved :: CCClosed :: lg)
          else set_loop s (mkCL (cl_disp l) CLIdle) lg
      end
  | CLCloseWrite =>
      mkCC (cq s) (csenders s) (cctr s + INCREMENT_CLOSE) (creg s) (cbound s) (cph s) (mkCL (cl_disp l) CLIdle) (cthr s) (csent s) (cdelivered s) (cclosed s)
           (CCRemoved :: CCStep 0 YC_CLOSE :: ctr_log s)
  | CLReping =>
      mkCC (cq s) (csenders s) (cctr s + INCREMENT_PING) (creg s) (cbound s) (cph s) (mkCL (cl_disp l) CLIdle) (cthr s) (csent s) (cdelivered s) (cclosed s)
           (CCStep 0 YC_PING :: ctr_log s)
  end.

Definition cc_step (s : ccst) (k : nat) : ccst :=
  match k with
  | O => cl_step s
  | S i => match nth_error (cthr s) i with
           | Some t => let (s', t') := ct_step s i t in set_thr s' (upd_ct (cthr s) i t')
           | None => s
           end
  end.

Fixpoint wf_cprog (mine : N) (ops : list cop) : bool :=
  match ops with
  | [] => true
  | CSend _ :: r | CSendB _ :: r => (0 <? mine) && wf_cprog mine r
  | CClone :: r => (0 <? mine) && wf_cprog (mine + 1) r
  | CDropS :: r => (0 <? mine) && wf_cprog (mine - 1) r
  end.

Definition cc_init (bound : option N) (progs : list (list cop)) (ndisp : nat) : ccst :=
  mkCC [] (N.of_nat (length progs)) 0 true bound (match bound with None => N.of_nat (length progs) + 1 | Some _ => 2 end) (mkCL ndisp CLIdle) (map (fun p => mkCT p 1 CIdle) progs) [] [] 0 [].
Definition cc_run (bound : option N) (progs : list (list cop)) (ndisp : nat) (sched : list nat) : ccst :=
  fold_left cc_step sched (cc_init bound progs ndisp).
