(* The life of Generic sources against one OS poller (C16): Generic::new / field updates / register / reregister / unregister /
   unwrap / Drop over any number of Generic objects and file descriptors (several objects may wrap the same fd, whose second
   registration then fails with EEXIST). Built from the per-Generic functions of Loop.v; no dispatching happens here.
   Protocol (the loop's own): unregister and reregister are only issued for a Generic that is registered; anything else is
   answered with code 3 and does nothing - on both sides of the correspondence check. *)
From CV Require Import Base Consts Token Env Loop.
Import ListNotations.
Open Scope N_scope.

Inductive gop :=
| GNew (g fd : N) (it : interest) (m : mode)
| GSet (g : N) (it : interest) (m : mode)       (* the public fields `interest` / `mode`: takes effect at the next reregister *)
| GReg (g k : N) | GRereg (g k : N)             (* k = the sub-id of the token handed out by the TokenFactory *)
| GUnreg (g : N) | GUnwrap (g : N) | GDrop (g : N).

(* gl_last is ghost state for the statement of the invariant: what each Generic last (re)registered *)
Record gst := mkG { gl_env : env; gl_gens : N -> option gen; gl_last : N -> option (interest * mode * N) }.
Definition gl_init : gst := mkG (en init) (fun _ => None) (fun _ => None).

Definition G_OK := 0. Definition G_ERR := 1. Definition G_NOOBJ := 2. Definition G_SKIP := 3.

(* Generic::unwrap: hands the file back; deletes it from the poller it was registered with, ignoring errors - the same poller
   contact as Drop *)
Definition gen_unwrap (e : env) (g : gen) : env := gen_drop e g.

Definition gl_step (s : gst) (o : gop) : gst * N :=
  match o with
  | GNew g fd it m =>
      match gl_gens s g with
      | Some _ => (s, G_NOOBJ)
      | None => (mkG (gl_env s) (fupd (gl_gens s) g (Some (mkGen fd it m None false))) (gl_last s), G_OK)
      end
  | GSet g it m =>
      match gl_gens s g with
      | Some gn => (mkG (gl_env s) (fupd (gl_gens s) g (Some (mkGen (g_fd gn) it m (g_tok gn) (g_poller gn)))) (gl_last s), G_OK)
      | None => (s, G_NOOBJ)
      end
  | GReg g k =>
      match gl_gens s g with
      | Some gn =>
          let t := mkTok 0 0 k in
          let '(ok, gn', e') := gen_register (gl_env s) gn t in
          if ok then (mkG e' (fupd (gl_gens s) g (Some gn')) (fupd (gl_last s) g (Some (g_int gn, g_mode gn, pack t))), G_OK)
          else (s, G_ERR)
      | None => (s, G_NOOBJ)
      end
  | GRereg g k =>
      match gl_gens s g with
      | Some gn =>
          match g_tok gn with
          | None => (s, G_SKIP)
          | Some _ =>
              let t := mkTok 0 0 k in
              let '(ok, gn', e') := gen_reregister (gl_env s) gn t in
              if ok then (mkG e' (fupd (gl_gens s) g (Some gn')) (fupd (gl_last s) g (Some (g_int gn, g_mode gn, pack t))), G_OK)
              else (s, G_ERR)
          end
      | None => (s, G_NOOBJ)
      end
  | GUnreg g =>
      match gl_gens s g with
      | Some gn =>
          match g_tok gn with
          | None => (s, G_SKIP)
          | Some _ =>
              let '(ok, gn', e') := gen_unregister (gl_env s) gn in
              if ok then (mkG e' (fupd (gl_gens s) g (Some gn')) (fupd (gl_last s) g None), G_OK)
              else (s, G_ERR)
          end
      | None => (s, G_NOOBJ)
      end
  | GUnwrap g =>
      match gl_gens s g with
      | Some gn => (mkG (gen_unwrap (gl_env s) gn) (fupd (gl_gens s) g None) (fupd (gl_last s) g None), G_OK)
      | None => (s, G_NOOBJ)
      end
  | GDrop g =>
      match gl_gens s g with
      | Some gn => (mkG (gen_drop (gl_env s) gn) (fupd (gl_gens s) g None) (fupd (gl_last s) g None), G_OK)
      | None => (s, G_NOOBJ)
      end
  end.

(* what the correspondence check compares after every operation: its result code and the poller's table, in the line format
   of the sequential model (Loop.ep_line), sorted *)
Definition gl_table (s : gst) : list Z := zsort (map ep_line (epoll (gl_env s))).
Fixpoint gl_run_from (s : gst) (ops : list gop) : list (N * list Z) :=
  match ops with
  | [] => []
  | o :: r => let (s', c) := gl_step s o in (c, gl_table s') :: gl_run_from s' r
  end.
Definition gl_run (ops : list gop) : list (N * list Z) := gl_run_from gl_init ops.
Definition gl_exec (ops : list gop) : gst := fold_left (fun s o => fst (gl_step s o)) ops gl_init.
