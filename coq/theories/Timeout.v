(* Model of the timeout arithmetic of dispatch_events (loop_logic.rs) and Poll::poll (sys.rs).
   Durations and instants are integers (any unit); None = wait forever. *)
From CV Require Import Base Env.
Open Scope Z_scope.

(* deadline.saturating_duration_since(now) *)
Definition sat_since (deadline now : Z) : Z := Z.max 0 (deadline - now).

(* dispatch_events: a synthetic event forces a zero timeout; Poll::poll: min with the time to the next timer deadline *)
Definition eff_timeout (timeout : option Z) (synthetic : bool) (next : option Z) (now : Z) : option Z :=
  let t := if synthetic then Some 0 else timeout in
  let n := match next with Some d => Some (sat_since d now) | None => None end in
  match t, n with
  | Some a, Some b => Some (Z.min a b)
  | Some a, None => Some a
  | None, x => x
  end.
