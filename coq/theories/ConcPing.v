(* Concurrent model of the ping source (sources/ping/eventfd.rs) against a dispatching loop, at the granularity of
   one shared-memory effect per step: eventfd write (ping / close marker), eventfd read (drain), Arc count changes, poll.
   Any number of threads with arbitrary programs; a schedule is an arbitrary list of thread indices. *)
From CV Require Import Base Consts.
Open Scope N_scope.

Inductive pop := PPing | PClone | PDrop.
Inductive lop := LDispatch.

(* yield ids as in the instrumented code *)
Definition Y_CLOSE := 101. Definition Y_PING := 102. Definition Y_DRAIN := 103. Definition Y_POLL := 132.
Definition Y_DROP := 50. Definition Y_CLONE := 51.

Record pthread := mkPT { pt_ops : list pop; pt_mine : N; pt_closing : bool }.
Inductive lstage := LIdle | LDrain | LCbPing.        (* LCbPing: inside the callback, about to ping its own source *)
Record lthread := mkLT { lt_ops : list lop; lt_stage : lstage; lt_cbpings : nat; lt_cbhandle : bool }.
(* lt_cbpings: callbacks that still ping their own source; lt_cbhandle: the callback owns a clone of the handle *)

Inductive cpev := PStep (tid : nat) (yid : N) | PCallback | PRemoved | PReturned (tid : nat).   (* PReturned: a ping() call returned *)

Record cpst := mkCP {
  ctr : N;                 (* eventfd counter *)
  handles : N;             (* strong count of Arc<FlagOnDrop> *)
  registered : bool;       (* the source is still in the loop *)
  lp : lthread;
  thr : list pthread;      (* threads 1.. *)
  (* ghosts *)
  undrained : N;           (* ping writes since the last drain *)
  closemark : bool;        (* close marker written and not yet drained *)
  closes : N;              (* how often the close marker was written *)
  tr : list cpev }.        (* newest first *)

Definition pt_next_yield (t : pthread) : option N :=
  if pt_closing t then Some Y_CLOSE
  else match pt_ops t with
       | [] => None
       | PPing :: _ => Some Y_PING
       | PClone :: _ => Some Y_CLONE
       | PDrop :: _ => Some Y_DROP
       end.

(* one step of pinger thread t (it holds at least one handle whenever it has operations left: wf_prog) *)
Definition pt_step (s : cpst) (i : nat) (t : pthread) : cpst * pthread :=
  let log y := PStep (S i) y :: tr s in
  if pt_closing t then
    (mkCP (ctr s + INCREMENT_CLOSE) (handles s) (registered s) (lp s) (thr s) (undrained s) true (closes s + 1) (log Y_CLOSE),
     mkPT (pt_ops t) (pt_mine t) false)
  else
    match pt_ops t with
    | [] => (s, t)
    | PPing :: r =>
        (mkCP (ctr s + INCREMENT_PING) (handles s) (registered s) (lp s) (thr s) (undrained s + 1) (closemark s) (closes s) (PReturned (S i) :: log Y_PING),
         mkPT r (pt_mine t) false)
    | PClone :: r =>
        (mkCP (ctr s) (handles s + 1) (registered s) (lp s) (thr s) (undrained s) (closemark s) (closes s) (log Y_CLONE),
         mkPT r (pt_mine t + 1) false)
    | PDrop :: r =>
        let last := handles s =? 1 in
        (mkCP (ctr s) (handles s - 1) (registered s) (lp s) (thr s) (undrained s) (closemark s) (closes s) (log Y_DROP),
         mkPT r (pt_mine t - 1) last)
    end.

(* a program is well formed when it never uses a handle it does not hold *)
Fixpoint wf_prog (mine : N) (ops : list pop) : bool :=
  match ops with
  | [] => true
  | PPing :: r => (0 <? mine) && wf_prog mine r
  | PClone :: r => (0 <? mine) && wf_prog (mine + 1) r
  | PDrop :: r => (0 <? mine) && wf_prog (mine - 1) r
  end.

Definition lp_step (s : cpst) : cpst :=
  let l := lp s in
  match lt_stage l with
  | LIdle =>
      match lt_ops l with
      | [] => s
      | LDispatch :: r =>
          (* Poll::poll with a zero timeout: level-triggered readable iff the counter is non-zero *)
          if registered s && (0 <? ctr s) then
            mkCP (ctr s) (handles s) (registered s) (mkLT r LDrain (lt_cbpings l) (lt_cbhandle l)) (thr s) (undrained s) (closemark s) (closes s) (PStep 0 Y_POLL :: tr s)
          else
            mkCP (ctr s) (handles s) (registered s) (mkLT r LIdle (lt_cbpings l) (lt_cbhandle l)) (thr s) (undrained s) (closemark s) (closes s) (PStep 0 Y_POLL :: tr s)
      end
  | LDrain =>
      let v := ctr s in
      let ping := 2 <=? v in
      let close := N.odd v in
      let t1 := PStep 0 Y_DRAIN :: tr s in
      let t2 := if ping then PCallback :: t1 else t1 in
      let t3 := if close then PRemoved :: t2 else t2 in
      let self_ping := ping && negb close && (match lt_cbpings l with O => false | S _ => true end) in
      mkCP 0 (handles s) (if close then false else registered s)
           (if self_ping then mkLT (lt_ops l) LCbPing (pred (lt_cbpings l)) (lt_cbhandle l) else mkLT (lt_ops l) LIdle (lt_cbpings l) (lt_cbhandle l))
           (thr s) 0 false (closes s) t3
  | LCbPing =>
      (* the callback pings its own source (it holds a clone of the handle, counted in `handles`) *)
      mkCP (ctr s + INCREMENT_PING) (handles s) (registered s) (mkLT (lt_ops l) LIdle (lt_cbpings l) (lt_cbhandle l)) (thr s) (undrained s + 1) (closemark s) (closes s)
           (PReturned 0 :: PStep 0 Y_PING :: tr s)
  end.

Fixpoint upd_thr (l : list pthread) (i : nat) (t : pthread) : list pthread :=
  match l, i with
  | [], _ => []
  | _ :: r, O => t :: r
  | x :: r, S j => x :: upd_thr r j t
  end.

(* thread 0 is the loop; thread i+1 is pinger i *)
Definition cp_step (s : cpst) (k : nat) : cpst :=
  match k with
  | O => lp_step s
  | S i => match nth_error (thr s) i with
           | Some t => let (s', t') := pt_step s i t in
                       mkCP (ctr s') (handles s') (registered s') (lp s') (upd_thr (thr s) i t') (undrained s') (closemark s') (closes s') (tr s')
           | None => s
           end
  end.

Definition cp_init (progs : list (list pop)) (ndisp : nat) (cbp : nat) : cpst :=
  mkCP 0 (N.of_nat (length progs) + (match cbp with O => 0 | S _ => 1 end)) true
       (mkLT (repeat LDispatch ndisp) LIdle cbp (match cbp with O => false | S _ => true end))
       (map (fun p => mkPT p 1 false) progs) 0 false 0 [].
Definition cp_run (progs : list (list pop)) (ndisp : nat) (cbp : nat) (sched : list nat) : cpst :=
  fold_left cp_step sched (cp_init progs ndisp cbp).
