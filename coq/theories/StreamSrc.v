(* StreamSource (sources/stream.rs): a PingSource plus a poll_next loop. The stream is driven by an external producer: it has a
   queue of ready items and a closed flag; polled while empty and open it stores the waker and returns Pending; a push or a close
   wakes a stored waker (Waker::wake = Ping::ping). StreamSource::new pings once so that the stream is polled initially.
   process_events: when the ping source fires, poll_next is called until Pending: every ready item is handed to the callback, then
   either None is (end of stream: the callback gets None and the source returns PostAction::Remove) or the waker is stored. *)
From Coq Require Import List NArith Bool.
Import ListNotations.
Open Scope N_scope.

Inductive qop := QPush (v : N) | QClose | QDispatch.
Record qst := mkQ {
  qq : list N;              (* items ready in the stream *)
  qclosed : bool;           (* the producer is gone *)
  qwaker : bool;            (* the stream holds the waker of a Pending poll *)
  qpinged : bool;           (* the ping source's eventfd is readable *)
  qdelivered : list (option N);   (* what the callback has been given, oldest first *)
  qremoved : bool;          (* the source returned PostAction::Remove *)
  qpushed : list N }.       (* ghost: everything the producer pushed while the stream was open *)
Definition q_init : qst := mkQ [] false false true [] false [].

Definition q_wake (s : qst) : qst :=
  if qwaker s then mkQ (qq s) (qclosed s) false true (qdelivered s) (qremoved s) (qpushed s) else s.
Definition q_step (s : qst) (o : qop) : qst :=
  match o with
  | QPush v => if qclosed s then s
               else q_wake (mkQ (qq s ++ [v]) (qclosed s) (qwaker s) (qpinged s) (qdelivered s) (qremoved s) (qpushed s ++ [v]))
  | QClose => if qclosed s then s
              else q_wake (mkQ (qq s) true (qwaker s) (qpinged s) (qdelivered s) (qremoved s) (qpushed s))
  | QDispatch =>
      if qremoved s || negb (qpinged s) then s
      else
        let d := qdelivered s ++ map Some (qq s) in
        if qclosed s then mkQ [] true false false (d ++ [None]) true (qpushed s)
        else mkQ [] false true false d false (qpushed s)
  end.
Definition q_run (ops : list qop) : qst := fold_left q_step ops q_init.
(* what the correspondence check prints: the delivered sequence and whether the source has removed itself *)
Definition q_obs (s : qst) : list (option N) * bool := (qdelivered s, qremoved s).
