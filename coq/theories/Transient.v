(* Model of sources/transient.rs: TransientSource<T> over an abstract child with a `registered` flag.
   Definitions only. Every arm of process_events / register / reregister / unregister / remove / replace is transcribed. *)
From CV Require Import Base PostAction.
Open Scope N_scope.

Record child := mkChild { c_id : N; c_reg : bool }.

Inductive tstate :=
| TKeep (c : child) | TRegister (c : child) | TDisable (c : child) | TRemove (c : child)
| TReplace (new old : child) | TNone.

(* what an instrumented child observes *)
Inductive cev :=
| CReg (id : N) (ok : bool)      (* register called; ok=false: it was already registered (EEXIST) *)
| CRereg (id : N) (ok : bool)    (* reregister called; ok=false: it was not registered (ENOENT) *)
| CUnreg (id : N) (ok : bool)    (* unregister called; ok=false: it was not registered (ENOENT) *)
| CDrop (id : N) (registered : bool)   (* dropped; registered=true: dropped while still registered *)
| CFwd (id : N)                  (* an event was forwarded to this child *)
| CRet (code : N)                (* what TransientSource::process_events returned to the loop *)
| CRes (ok : bool).              (* result of a parent register/reregister/unregister *)

Record tst := mkT { ts : tstate; parent_reg : bool; next_id : N; dirty : bool; evs : list cev }.

Definition c_register (c : child) : bool * child * cev :=
  if c_reg c then (false, c, CReg (c_id c) false) else (true, mkChild (c_id c) true, CReg (c_id c) true).
Definition c_reregister (c : child) : bool * child * cev :=
  if c_reg c then (true, c, CRereg (c_id c) true) else (false, c, CRereg (c_id c) false).
Definition c_unregister (c : child) : bool * child * cev :=
  if c_reg c then (true, mkChild (c_id c) false, CUnreg (c_id c) true) else (false, c, CUnreg (c_id c) false).
Definition c_drop (c : child) : cev := CDrop (c_id c) (c_reg c).

(* EventSource::register *)
Definition t_register (s : tstate) : bool * tstate * list cev :=
  match s with
  | TKeep c => let '(ok, c', e) := c_register c in (ok, TKeep c', [e])
  | TRegister c => let '(ok, c', e) := c_register c in if ok then (true, TKeep c', [e]) else (false, TRegister c', [e])
  | TDisable c => let '(ok, c', e) := c_register c in if ok then (true, TKeep c', [e]) else (false, TDisable c', [e])
  | TReplace n o => let '(ok, n', e) := c_register n in
                    if ok then (true, TKeep n', [e; c_drop o]) else (false, TReplace n' o, [e])
  | TRemove c => (true, TNone, [c_drop c])
  | TNone => (true, TNone, [])
  end.
(* EventSource::reregister *)
Definition t_reregister (s : tstate) : bool * tstate * list cev :=
  match s with
  | TKeep c => let '(ok, c', e) := c_reregister c in (ok, TKeep c', [e])
  | TRegister c => let '(ok, c', e) := c_register c in if ok then (true, TKeep c', [e]) else (false, TRegister c', [e])
  | TDisable c => let '(ok, c', e) := c_unregister c in (ok, TDisable c', [e])
  | TRemove c => let '(ok, c', e) := c_unregister c in if ok then (true, TNone, [e; c_drop c']) else (false, TRemove c', [e])
  | TReplace n o =>
      let '(ok, o', e) := c_unregister o in
      if ok then
        let '(ok2, n', e2) := c_register n in
        if ok2 then (true, TKeep n', [e; e2; c_drop o']) else (false, TReplace n' o', [e; e2])
      else (false, TReplace n o', [e])
  | TNone => (true, TNone, [])
  end.
(* EventSource::unregister *)
Definition t_unregister (s : tstate) : bool * tstate * list cev :=
  match s with
  | TKeep c => let '(ok, c', e) := c_unregister c in (ok, TKeep c', [e])
  | TRegister c => let '(ok, c', e) := c_unregister c in (ok, TRegister c', [e])
  | TDisable c => let '(ok, c', e) := c_unregister c in (ok, TDisable c', [e])
  | TRemove c => let '(ok, c', e) := c_unregister c in if ok then (true, TNone, [e; c_drop c']) else (false, TRemove c', [e])
  | TReplace n o =>
      let '(ok, o', e) := c_unregister o in
      if ok then
        let '(ok2, n', e2) := c_unregister n in
        if ok2 then (true, TRegister n', [e; e2; c_drop o']) else (false, TReplace n' o', [e; e2])
      else (false, TReplace n o', [e])
  | TNone => (true, TNone, [])
  end.
(* process_events with the child's answer a: (new state, returned action, events) *)
Definition t_process (s : tstate) (a : postaction) : tstate * postaction * list cev :=
  match s with
  | TKeep c =>
      match a with
      | Continue => (TKeep c, Continue, [CFwd (c_id c)])
      | Reregister => (TKeep c, Reregister, [CFwd (c_id c)])
      | Disable => (TDisable c, Reregister, [CFwd (c_id c)])
      | Remove => (TRemove c, Reregister, [CFwd (c_id c)])
      end
  | _ => (s, Continue, [])
  end.
(* remove() / replace(new): replace_state keeps the (new) source and drops an `old` one *)
Definition t_remove (s : tstate) : tstate * list cev :=
  match s with
  | TKeep c | TRegister c | TDisable c | TRemove c => (TRemove c, [])
  | TReplace n o => (TRemove n, [c_drop o])
  | TNone => (TNone, [])
  end.
Definition t_replace (s : tstate) (nw : child) : tstate * list cev :=
  match s with
  | TKeep c | TRegister c | TDisable c | TRemove c => (TReplace nw c, [])
  | TReplace n o => (TReplace nw n, [c_drop o])
  | TNone => (TNone, [c_drop nw])
  end.
Definition t_map_some (s : tstate) : bool :=
  match s with TKeep _ | TRegister _ | TDisable _ | TReplace _ _ => true | TRemove _ | TNone => false end.

(* OpEventThen a rp: the child's event (answer a), after which the parent's process_events calls remove() (rp = false) or
   replace(new) (rp = true) and returns Reregister, all before the loop re-registers *)
Inductive top := OpEvent (a : postaction) | OpRemove | OpReplace | OpRegister | OpReregister | OpUnregister
              | OpEventThen (a : postaction) (rp : bool).

Definition pa_ret_code (a : postaction) : N := pa_code a.

(* one operation. OpEvent: the loop delivers an event of the current kept child (if it is registered and the parent is)
   and then applies the returned post action (Reregister -> reregister), as dispatch_events does *)
Definition t_step (s : tst) (o : top) : tst :=
  match o with
  | OpEvent a =>
      match ts s with
      | TKeep c =>
          if parent_reg s && c_reg c then
            let '(st1, ret, e1) := t_process (ts s) a in
            match ret with
            | Reregister => let '(ok, st2, e2) := t_reregister st1 in
                            mkT st2 (parent_reg s) (next_id s) false (evs s ++ e1 ++ [CRet (pa_code ret)] ++ e2 ++ [CRes ok])
            | _ => mkT st1 (parent_reg s) (next_id s) (dirty s) (evs s ++ e1 ++ [CRet (pa_code ret)])
            end
          else s
      | _ => s
      end
  | OpEventThen a rp =>
      match ts s with
      | TKeep c =>
          if parent_reg s && c_reg c then
            let '(st1, ret, e1) := t_process (ts s) a in
            let '(st2, e2) := if rp then t_replace st1 (mkChild (next_id s) false) else t_remove st1 in
            let '(ok, st3, e3) := t_reregister st2 in
            mkT st3 (parent_reg s) (if rp then next_id s + 1 else next_id s) false
                (evs s ++ e1 ++ [CRet (pa_code ret)] ++ e2 ++ e3 ++ [CRes ok])
          else s
      | _ => s
      end
  | OpRemove => let (st1, e) := t_remove (ts s) in mkT st1 (parent_reg s) (next_id s) true (evs s ++ e)
  | OpReplace => let (st1, e) := t_replace (ts s) (mkChild (next_id s) false) in
                 mkT st1 (parent_reg s) (next_id s + 1) true (evs s ++ e)
  | OpRegister => let '(ok, st1, e) := t_register (ts s) in mkT st1 true (next_id s) false (evs s ++ e ++ [CRes ok])
  | OpReregister => let '(ok, st1, e) := t_reregister (ts s) in mkT st1 (parent_reg s) (next_id s) false (evs s ++ e ++ [CRes ok])
  | OpUnregister => let '(ok, st1, e) := t_unregister (ts s) in mkT st1 false (next_id s) false (evs s ++ e ++ [CRes ok])
  end.

Definition t_init (from_child : bool) : tst :=
  if from_child then mkT (TRegister (mkChild 0 false)) false 1 false [] else mkT TNone false 1 false [].
Definition t_run (from_child : bool) (ops : list top) : tst := fold_left t_step ops (t_init from_child).

(* ---- the documented protocol ---- *)
(* parent register/unregister alternate; reregister only while the parent is registered; after remove()/replace() the next
   operation is the parent's reregistration (when it is registered) *)
Definition proto_step (s : tst) (o : top) : bool :=
  match o with
  | OpRegister => negb (parent_reg s)
  | OpUnregister => parent_reg s && negb (dirty s)
  | OpReregister => parent_reg s
  | OpEvent _ | OpEventThen _ _ => parent_reg s && negb (dirty s)
  | OpRemove | OpReplace => negb (dirty s && parent_reg s)
  end.
Fixpoint proto_ok (s : tst) (ops : list top) : bool :=
  match ops with
  | [] => true
  | o :: r => proto_step s o && proto_ok (t_step s o) r
  end.

(* ---- what must hold ---- *)
Definition cev_ok (e : cev) : bool :=
  match e with
  | CReg _ ok | CRereg _ ok | CUnreg _ ok => ok
  | CDrop _ registered => negb registered
  | CRet c => (c =? 0) || (c =? 1)
  | _ => true
  end.
Definition all_ok (l : list cev) : bool := forallb cev_ok l.

(* KNOWN FINDING F7: once a child has returned Disable and the protocol reregistration unregistered it, the wrapper stays in
   `Disable` and unregisters the child AGAIN on every later reregister/unregister of the parent *)
Definition f7_state (s : tstate) : bool := match s with TDisable c => negb (c_reg c) | _ => false end.
(* no state of the run is the F7 state *)
Fixpoint f7_free (s : tst) (ops : list top) : bool :=
  negb (f7_state (ts s)) &&
  match ops with
  | [] => true
  | o :: r => f7_free (t_step s o) r
  end.
