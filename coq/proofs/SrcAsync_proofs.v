From CV Require Import Base SrcAsync.
Open Scope N_scope.

(* a suspended task always has its waker stored and its registration armed: nothing can make the fd ready without the next
   dispatch waking it; bytes are conserved: what the task moved plus what is still transferable is what the peer offered *)
Definition ainv (s : ast) : Prop :=
  (status s = TSuspended -> armed s = true /\ waker s = true) /\
  moved s + avail s = offered s /\
  (status s = TFinished -> todo s = 0).

Lemma clamp_bounds n lo hi : lo <= hi -> lo <= clamp n lo hi <= hi.
Proof. unfold clamp. lia. Qed.

Ltac asplit := unfold ainv; cbn [avail armed waker status todo moved offered]; split; [intros H|split; [|intros H]].

Lemma ainv_step s o : ainv s -> ainv (a_step s o).
Proof.
  intros Hinv. pose proof Hinv as (A & B & C). destruct o as [n|k|]; cbn [a_step].
  - destruct (status s) eqn:Es; try exact Hinv.
    destruct (N.eqb_spec (todo s) 0) as [E0|E0]; [asplit; [discriminate|exact B|reflexivity]|].
    destruct (N.ltb_spec 0 (avail s)) as [Ha|Ha].
    + assert (Hb : 1 <= N.min (todo s) (avail s)) by lia.
      pose proof (clamp_bounds n 1 _ Hb) as [K1 K2].
      asplit.
      * destruct (todo s - clamp n 1 (N.min (todo s) (avail s)) =? 0); discriminate.
      * lia.
      * destruct (N.eqb_spec (todo s - clamp n 1 (N.min (todo s) (avail s))) 0); [assumption|discriminate].
    + asplit; [split; reflexivity|exact B|discriminate].
  - asplit; [exact (A H)|lia|exact (C H)].
  - destruct (armed s && (0 <? avail s)) eqn:E; [|exact Hinv].
    asplit.
    + destruct (waker s) eqn:Ew; [destruct (status s); discriminate|]. destruct (A H) as [_ W]. congruence.
    + exact B.
    + destruct (waker s); [destruct (status s) eqn:Es; try discriminate; auto|auto].
Qed.

Lemma ainv_run todo0 ops : ainv (a_run todo0 ops).
Proof.
  unfold a_run. assert (H : ainv (a_init todo0)) by (unfold ainv, a_init; cbn; repeat split; auto; discriminate).
  revert H. generalize (a_init todo0). induction ops as [|o r IH]; intros s H; cbn; [exact H|]. apply IH. apply ainv_step. exact H.
Qed.

(* no lost wake: a suspended task whose fd can transfer is runnable again after one dispatch *)
Lemma wake_on_ready s : ainv s -> status s = TSuspended -> 0 < avail s -> status (a_step s ADispatch) = TRunnable.
Proof.
  intros (A & _) Hs Ha. destruct (A Hs) as [Ar Aw]. cbn [a_step]. rewrite Ar. destruct (N.ltb_spec 0 (avail s)); [|lia].
  cbn. rewrite Aw, Hs. reflexivity.
Qed.
(* progress never moves more than offered, in order (a FIFO): moved <= offered; and a runnable task with bytes available moves *)
Lemma moved_le_offered s : ainv s -> moved s <= offered s.
Proof. intros (_ & B & _). lia. Qed.
Lemma poll_makes_progress s n : status s = TRunnable -> 0 < todo s -> 0 < avail s ->
  moved s < moved (a_step s (APoll n)) /\ moved (a_step s (APoll n)) - moved s <= N.min (todo s) (avail s).
Proof.
  intros Hs Ht Ha. cbn [a_step]. rewrite Hs. destruct (N.eqb_spec (todo s) 0); [lia|]. destruct (N.ltb_spec 0 (avail s)); [|lia].
  assert (Hb : 1 <= N.min (todo s) (avail s)) by lia. pose proof (clamp_bounds n 1 _ Hb). cbn. lia.
Qed.

(* ---------- both directions, abandoned waits ---------- *)
(* a task suspended in a wait for direction d has either been woken already, or the poller's one-shot entry is armed FOR d
   and the waker is stored *)
Definition winv (s : wst) : Prop :=
  forall d, susp s = Some d -> woken s = true \/ (parmed s = true /\ pint s = d /\ wk s = true).

Lemma winv_step s o : winv s -> winv (w_step s o).
Proof.
  intros H d. destruct o as [d0 stay|b|b|]; cbn [w_step].
  - destruct (match d0 with DR => lr s | DW => lw s end); cbn [susp woken parmed pint wk]; [discriminate|].
    destruct stay; [|discriminate]. intros [= <-]. right. repeat split.
  - cbn [susp woken parmed pint wk]. apply H.
  - cbn [susp woken parmed pint wk]. apply H.
  - destruct (parmed s && kready s (pint s)) eqn:E; cbn [susp woken parmed pint wk]; [|apply H].
    intros Hs. left. destruct (H d Hs) as [W|(_ & _ & W)]; rewrite W; [reflexivity|apply orb_true_r].
Qed.
Lemma winv_run ops : winv (w_run ops).
Proof.
  unfold w_run. assert (H : winv w_init) by (intros d; cbn; discriminate).
  revert H. generalize w_init. induction ops as [|o r IH]; intros s H; cbn; [exact H|]. apply IH. apply winv_step. exact H.
Qed.
(* no lost wake, whatever was waited for and abandoned before: once the fd is ready for the awaited direction, one dispatch
   has the task woken *)
Lemma w_woken_when_ready s d : winv s -> susp s = Some d -> kready s d = true -> woken (w_step s WDispatch) = true.
Proof.
  intros H Hs Hk. cbn [w_step]. destruct (H d Hs) as [W|(A & B & C)].
  - destruct (parmed s && kready s (pint s)); cbn [woken]; rewrite W; reflexivity.
  - rewrite A, B, Hk. cbn. rewrite C. apply orb_true_r.
Qed.
(* and nobody is woken without a cause: a dispatch wakes only when the armed interest is ready *)
Lemma w_no_spurious_wake s : woken s = false -> woken (w_step s WDispatch) = true -> parmed s = true /\ kready s (pint s) = true.
Proof.
  intros H0 H1. cbn [w_step] in H1. destruct (parmed s) eqn:A; destruct (kready s (pint s)) eqn:B; cbn in H1; try congruence. split; reflexivity.
Qed.
