From CV Require Import Base Consts Token PostAction Env Loop.
From CVP Require Import Loop_frames Seq_lemmas C02_deliver.
Open Scope N_scope.

(* every dispatch whose before_sleep hooks succeeded asks the poller, whatever synthetic events the hooks produced: the synthetic events are
   put IN FRONT of what the poller and the wheel reported, never in its place, and the whole list goes to process_events *)
Lemma dispatch_always_polls scr bscr s t order s1 polled e2 s4 :
  before_sleep_loop bscr s (lifecycle s) = (s1, BSOk) ->
  poll (en s1) t order = (polled, e2) ->
  before_handle_loop (emit (set_en s1 e2) (L T_BATCH (zsort (map ev_code polled)))) (lifecycle (emit (set_en s1 e2) (L T_BATCH (zsort (map ev_code polled))))) polled = (s4, true) ->
  dispatch scr bscr s t order =
    let (s5, ok2) := process_events scr (set_synth s4 []) (synth s4 ++ polled) in
    if halted s5 then s5
    else if negb ok2 then emit s5 (L T_DISP [t; DISP_ERR])
    else let s6 := run_idles scr (set_idles s5 []) (idles s5) in if halted s6 then s6 else emit s6 (L T_DISP [t; DISP_OK]).
Proof.
  intros H1 H2 H3. unfold dispatch. rewrite H1, H2. cbv zeta. rewrite H3. cbn [negb]. reflexivity.
Qed.
Lemma polled_events_are_all_handed_on synth_evs polled (ev : pevent) : In ev polled -> In ev (synth_evs ++ polled).
Proof. intros H. apply in_or_app. right. exact H. Qed.
