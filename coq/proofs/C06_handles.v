(* C06 (used by C07): a handle's token only ever resolves to the handle's own object - over whole histories. *)
From CV Require Import Base Consts Token PostAction Env Loop.
From CVP Require Import Loop_frames Seq_lemmas C06_proofs C14_life C14_life2.
Import ListNotations.
Open Scope N_scope.

Definition hobj_at (l : list slot) (h : N) (t : tok) : Prop :=
  issued l t /\ forall sl, slot_get l t = Some sl -> s_obj sl = Some h \/ s_obj sl = None.
Definition HOBJ (s : st) : Prop := forall h t, toks s h = Some t -> hobj_at (slots s) h t.

Lemma hobj_at_sstep l l' h t : sstep l l' -> slots_wf l -> gens_small l' -> hobj_at l h t -> hobj_at l' h t.
Proof.
  intros [W L] Hw Hg [[sl [Hn Hv]] Ho]. specialize (W Hw). destruct (L _ _ Hn) as [sl' [Hn' Hle]]. split.
  - exists sl'. split; [exact Hn'|]. destruct Hle as [Hlt|(Hg' & _)]; lia.
  - intros sl2 Hs. unfold slot_get in *. rewrite Hn' in Hs. rewrite Hn in Ho.
    destruct (same_source_as (s_tok sl') t) eqn:E; [|discriminate]. injection Hs as <-.
    destruct Hle as [Hlt|(Hg' & Ht & Hob)].
    + exfalso. destruct (W _ _ Hn') as (_ & _ & _ & Hver). pose proof (Hg _ _ Hn') as Hsm. rewrite N.mod_small in Hver by exact Hsm.
      unfold same_source_as in E. apply andb_prop in E. destruct E as [_ E]. apply N.eqb_eq in E. lia.
    + rewrite Ht in E. rewrite E in Ho. specialize (Ho sl eq_refl). destruct Hob as [Hob|Hob]; rewrite Hob; [exact Ho|right; reflexivity].
Qed.

Definition TKS (s s' : st) : Prop :=
  sstep (slots s) (slots s') /\
  (slots_wf (slots s) -> gens_small (slots s') -> forall h, toks s' h = toks s h \/ exists t, toks s' h = Some t /\ hobj_at (slots s') h t).

Lemma TKS_frame s s' : sstep (slots s) (slots s') -> toks s' = toks s -> TKS s s'.
Proof. intros S E. split; [exact S|]. intros _ _ h. left. rewrite E. reflexivity. Qed.
Lemma TKS_refl s : TKS s s.
Proof. apply TKS_frame; [apply sstep_refl|reflexivity]. Qed.
Lemma TKS_trans a b c : TKS a b -> TKS b c -> TKS a c.
Proof.
  intros [S1 T1] [S2 T2]. split; [eapply sstep_trans; eassumption|]. intros Hw Hg h.
  assert (Hwb : slots_wf (slots b)) by (apply (proj1 S1); exact Hw).
  assert (Hgb : gens_small (slots b)) by (eapply gens_small_mono; [apply (proj2 S2)|exact Hg]).
  destruct (T2 Hwb Hg h) as [E2|X]; [|right; exact X].
  destruct (T1 Hw Hgb h) as [E1|[t [Et Ht]]]; [left; congruence|].
  right. exists t. split; [congruence|]. eapply hobj_at_sstep; eassumption.
Qed.
(* re-basing on states that agree on slots and toks *)
Lemma TKS_l s0 s s' : slots s0 = slots s -> toks s0 = toks s -> TKS s0 s' -> TKS s s'.
Proof. intros E1 E2 [S T]. split; [rewrite <- E1; exact S|]. rewrite <- E1, <- E2. exact T. Qed.
Lemma TKS_r s s1 s' : slots s' = slots s1 -> toks s' = toks s1 -> TKS s s1 -> TKS s s'.
Proof. intros E1 E2 [S T]. split; [rewrite E1; exact S|]. rewrite E1, E2. exact T. Qed.

Lemma HOBJ_TKS s s' : TKS s s' -> slots_wf (slots s) -> gens_small (slots s') -> HOBJ s -> HOBJ s'.
Proof.
  intros [S T] Hw Hg H h t Ht. destruct (T Hw Hg h) as [E|[t' [Et Hh]]].
  - rewrite E in Ht. eapply hobj_at_sstep; try eassumption. apply H. exact Ht.
  - rewrite Et in Ht. injection Ht as <-. exact Hh.
Qed.

(* the point of it: whatever a handle's token resolves to is the handle's own object *)
Lemma HOBJ_lookup s h t et o : HOBJ s -> lookup s h = Some (t, et, o) -> o = h.
Proof.
  intros H L. unfold lookup in L. destruct (toks s h) as [t0|] eqn:Et; [|discriminate].
  destruct (slot_get (slots s) t0) as [sl|] eqn:Es; [|discriminate]. destruct (s_obj sl) as [o0|] eqn:Eo; [|discriminate].
  injection L as <- <- <-. destruct (H h t0 Et) as [_ X]. destruct (X sl Es) as [Y|Y]; congruence.
Qed.

(* ---------- the chain ---------- *)
Lemma TKS_do_insert s h x : TKS s (do_insert s h x).
Proof.
  split; [apply do_insert_sstep|]. intros Hw Hg h'. unfold do_insert in *. destruct (objs s h); [left; reflexivity|].
  set (s0 := set_objs s _) in *.
  destruct (vacant_entry (slots s0)) as [[i sl]|] eqn:Ev; [|left; reflexivity].
  destruct (vacant_entry_sstep _ _ _ Ev) as [S0 [e [He [Ho [Sh Sn]]]]]. rewrite He in *.
  set (s1 := set_slots s0 (upd sl i (mkSlot (s_tok e) (Some h) (s_gen e)))) in *.
  pose proof (slots_disp_register s1 h (s_tok e)) as F. pose proof (toks_frame_disp_register s1 h (s_tok e)) as FT.
  destruct (disp_register s1 h (s_tok e)) as [r s2]. cbn [snd] in F, FT.
  destruct (halted s2); [left; rewrite FT; reflexivity|].
  destruct r; try (left; cbn [toks emit set_log set_slots]; rewrite FT; reflexivity).
  cbn [toks emit set_log set_toks] in *. unfold fupd. destruct (N.eqb_spec h' h) as [->|]; [|left; rewrite FT; reflexivity].
  right. exists (s_tok e). split; [reflexivity|]. cbn [slots emit set_log set_toks] in *. rewrite F in *. cbn [s1 slots set_slots] in *.
  assert (Wsl : slots_wf sl) by (apply (proj1 S0); exact Hw).
  destruct (Wsl _ _ He) as (_ & Hid & _ & Hver).
  assert (Hi : N.to_nat (t_id (s_tok e)) = i) by (rewrite Hid; apply Nat2N.id).
  split.
  - exists (mkSlot (s_tok e) (Some h) (s_gen e)). split; [rewrite Hi; eapply nth_error_upd_same; exact He|].
    cbn [s_gen]. rewrite Hver. apply N.mod_le. unfold U16. lia.
  - intros sl2 Hs. unfold slot_get in Hs. rewrite Hi in Hs. rewrite (nth_error_upd_same sl i _ e He) in Hs.
    cbn [s_tok] in Hs. destruct (same_source_as (s_tok e) (s_tok e)); [|discriminate]. injection Hs as <-. left. reflexivity.
Qed.
Lemma toks_do_remove s h : toks (do_remove s h) = toks s.
Proof.
  unfold do_remove. destruct (lookup s h) as [[[t et] o]|]; [|reflexivity].
  set (s1 := set_slots s _). pose proof (toks_frame_disp_unregister s1 o t) as F. destruct (disp_unregister s1 o t) as [[r d] s2]. cbn [snd] in F.
  cbn [toks emit set_log]. rewrite toks_maybe_drop, F. reflexivity.
Qed.
Lemma toks_exec_action s a : (forall h x, a <> AInsert h x) -> toks (exec_action s a) = toks s.
Proof.
  intros Hn. unfold exec_action. destruct (halted s); [reflexivity|].
  destruct a; try reflexivity.
  - exfalso. eapply Hn. reflexivity.
  - apply toks_do_remove.
  - unfold do_disable. destruct (lookup s h) as [[[t et] o]|]; [|reflexivity].
    pose proof (toks_frame_disp_unregister s o t) as F. destruct (disp_unregister s o t) as [[r d] s1]. cbn [snd] in F.
    destruct r; [destruct d|..]; cbn; exact F.
  - unfold do_enable. destruct (lookup s h) as [[[t et] o]|]; [|reflexivity].
    pose proof (toks_frame_disp_register s o et) as F. destruct (disp_register s o et) as [r s1]. cbn [snd] in F.
    destruct (halted s1); cbn; exact F.
  - unfold do_update. destruct (lookup s h) as [[[t et] o]|]; [|reflexivity].
    pose proof (toks_frame_disp_reregister s o et) as F. destruct (disp_reregister s o et) as [[r d] s1]. cbn [snd] in F.
    destruct (halted s1); [exact F|]. destruct r; [destruct d|..]; cbn; exact F.
  - unfold do_setint. destruct (objs s h) as [ob|]; [|reflexivity]. destruct (negb (o_ext ob)); [reflexivity|].
    destruct (is_running s h); [reflexivity|]. destruct (o_src ob); cbn; rewrite ?toks_set_obj_src; reflexivity.
  - unfold do_setdl. destruct (objs s h) as [ob|]; [|reflexivity]. destruct (negb (o_ext ob)); [reflexivity|].
    destruct (is_running s h); [reflexivity|]. destruct (o_src ob) as [lc own subs [tm|]|g|tm|c g]; cbn; rewrite ?toks_set_obj_src; reflexivity.
  - unfold do_intoinner. destruct (objs s h) as [ob|]; [|reflexivity]. destruct (negb (o_ext ob)); [reflexivity|].
    destruct (in_slots (slots s) h || is_running s h); reflexivity.
  - unfold do_dropdisp. destruct (objs s h) as [ob|]; [|reflexivity]. destruct (negb (o_ext ob)); [reflexivity|].
    cbn. rewrite toks_maybe_drop. reflexivity.
  - unfold do_send. destruct (env_send _ _ _) as [e' [rc|]]; reflexivity.
  - unfold do_send. destruct (env_send _ _ _) as [e' [rc|]]; reflexivity.
  - unfold do_cancelidle. destruct (match ridle s with Some r => r =? i | None => false end); reflexivity.
Qed.
Lemma TKS_exec_action s a : TKS s (exec_action s a).
Proof.
  destruct a; try (apply TKS_frame; [apply exec_action_sstep|apply toks_exec_action; intros; discriminate]).
  unfold exec_action. destruct (halted s); [apply TKS_refl|apply TKS_do_insert].
Qed.
Lemma TKS_exec_actions l : forall s, TKS s (exec_actions s l).
Proof.
  unfold exec_actions. induction l as [|a l IH]; intros s; cbn; [apply TKS_refl|].
  eapply TKS_trans; [apply TKS_exec_action|apply IH].
Qed.
Lemma TKS_callback scr s h sub p : TKS s (fst (callback scr s h sub p)).
Proof.
  unfold callback. cbn [fst]. match goal with |- context [exec_actions ?x ?a] => apply (TKS_l x); [reflexivity|reflexivity|] end. apply TKS_exec_actions.
Qed.
Lemma TKS_chan_loop scr fuel : forall s h c, TKS s (fst (fst (chan_loop scr fuel s h c))).
Proof.
  induction fuel as [|f IH]; intros s h c; cbn [chan_loop]; [apply TKS_refl|].
  destruct (halted s); [apply TKS_refl|]. destruct (chans (en s) c) as [ch|]; [|apply TKS_refl].
  destruct (ch_q ch) as [|v q'].
  - destruct (ch_senders ch =? 0); [|apply TKS_refl].
    pose proof (TKS_callback scr s h 1%Z 0%Z) as C. destruct (callback scr s h 1%Z 0%Z) as [s2 sc]. exact C.
  - match goal with |- context [callback scr ?x h 0%Z v] => set (s1 := x) end.
    apply (TKS_l s1); [reflexivity|reflexivity|].
    pose proof (TKS_callback scr s1 h 0%Z v) as C. destruct (callback scr s1 h 0%Z v) as [s2 sc]. cbn [fst] in C.
    eapply TKS_trans; [exact C|apply IH].
Qed.
Lemma ping_drain_toks s g t : toks (fst (fst (ping_drain s g t))) = toks s.
Proof. unfold ping_drain. destruct (opt_tok_is (g_tok g) t); [|reflexivity]. destruct (fd_read (en s) (g_fd g)) as [e1 v]. destruct (v =? 0); reflexivity. Qed.

Ltac tks_r C := first [exact C | (eapply TKS_r; [| |exact C]; cbn [slots toks eenv set_en set_objs fst];
  rewrite ?slots_set_obj_src, ?toks_set_obj_src; cbn [slots toks eenv set_en set_objs]; rewrite ?slots_set_obj_src, ?toks_set_obj_src; reflexivity)].
Lemma TKS_obj_process scr s o ev : TKS s (fst (obj_process scr s o ev)).
Proof.
  unfold obj_process. destruct (objs s o) as [ob|]; [|apply TKS_refl].
  destruct (o_src ob) as [lc own subs tmr|g|tm|c g].
  - destruct (if opt_tok_is own _ then _ else _) as [j|].
    + pose proof (TKS_callback scr s o j (zN (rd_code (ev_rd ev)))) as C. destruct (callback scr s o j _) as [s1 sc]. exact C.
    + destruct tmr as [tm|]; [|apply TKS_refl]. cbn [fst]. unfold timer_sub_fire.
      destruct (tm_reg tm) as [[tk c]|]; [|apply TKS_refl]. destruct (tm_dl tm) as [dl|]; [|apply TKS_refl].
      destruct (tok_eqb tk _); [|apply TKS_refl].
      pose proof (TKS_callback scr s o (Z.of_nat (S (length subs))) dl) as C. destruct (callback scr s o _ dl) as [s1 sc]. cbn [fst] in C.
      destruct (sc_ret sc) as [|[[| |]|[| |]|]]; cbn [fst]; tks_r C.
  - pose proof (ping_drain_slots s g (unpack (ev_key ev))) as P. pose proof (ping_drain_toks s g (unpack (ev_key ev))) as PT.
    destruct (ping_drain s g _) as [[s1 r] pinged]. cbn [fst] in *.
    destruct pinged; cbn [fst]; [|apply TKS_frame; [rewrite P; apply sstep_refl|exact PT]].
    apply (TKS_l s1); [exact P|exact PT|]. apply TKS_callback.
  - destruct (tm_reg tm) as [[tk c]|]; [|apply TKS_refl]. destruct (tm_dl tm) as [dl|]; [|apply TKS_refl].
    destruct (tok_eqb tk _); [|apply TKS_refl].
    pose proof (TKS_callback scr s o 0%Z dl) as C. destruct (callback scr s o 0%Z dl) as [s1 sc]. cbn [fst] in C.
    destruct (sc_ret sc) as [|[[| |]|[| |]|]]; cbn [fst]; tks_r C.
  - pose proof (ping_drain_slots s g (unpack (ev_key ev))) as P. pose proof (ping_drain_toks s g (unpack (ev_key ev))) as PT.
    destruct (ping_drain s g _) as [[s1 r] pinged]. cbn [fst] in *.
    destruct r as [act|]; cbn [fst]; [|apply TKS_frame; [rewrite P; apply sstep_refl|exact PT]].
    destruct pinged.
    + pose proof (TKS_chan_loop scr (chan_max (en s) c) s1 o c) as L. destruct (chan_loop scr _ s1 o c) as [[s2 clear] disc]. cbn [fst] in L.
      apply (TKS_l s1); [exact P|exact PT|]. destruct disc; cbn [fst]; [exact L|]. destruct clear; cbn [fst]; [|exact L].
      eapply TKS_r; [| |exact L]; reflexivity.
    + cbn. apply TKS_frame; [cbn; rewrite P; apply sstep_refl|cbn; exact PT].
Qed.

Lemma TKS_apply_post s o reg r : TKS s (snd (apply_post s o reg r)).
Proof.
  apply TKS_frame; [apply apply_post_sstep|]. unfold apply_post. destruct r.
  - reflexivity.
  - pose proof (toks_frame_disp_reregister s o reg) as F. destruct (disp_reregister s o reg) as [[rs d] sx]. exact F.
  - pose proof (toks_frame_disp_unregister s o reg) as F. destruct (disp_unregister s o reg) as [[rs d] sx]. exact F.
  - cbn [snd]. destruct (slot_get (slots s) reg); reflexivity.
Qed.
Lemma toks_end_processing s o : toks (end_processing s o) = toks s.
Proof. unfold end_processing. rewrite toks_drop_zombies, toks_maybe_drop. reflexivity. Qed.

Lemma TKS_process_event scr s ev : TKS s (fst (process_event scr s ev)).
Proof.
  unfold process_event. destruct (slot_get (slots s) _) as [sl|]; [|apply TKS_refl].
  destruct (s_obj sl) as [o|]; [|apply TKS_refl].
  set (reg := forget_sub_id (unpack (ev_key ev))).
  pose proof (TKS_obj_process scr (set_running s (Some (o, reg))) o ev) as P.
  destruct (obj_process scr _ o ev) as [s2 ret]. cbn [fst] in P.
  apply (TKS_l (set_running s (Some (o, reg)))) ; [reflexivity|reflexivity|].
  destruct (halted s2); [exact P|].
  set (s4 := set_pending (set_running s2 None) Continue).
  assert (A : TKS (set_running s (Some (o, reg))) (snd (match ret with None => (false, s4) | Some r => apply_post s4 o reg (match r with Continue => pending (set_running s2 None) | _ => r end) end))).
  { destruct ret as [r|]; [|eapply TKS_r; [| |exact P]; reflexivity]. eapply TKS_trans; [exact P|].
    apply (TKS_l s4); [reflexivity|reflexivity|]. apply TKS_apply_post. }
  destruct (match ret with None => _ | Some r => _ end) as [ok s5]. cbn [snd] in A.
  destruct (halted s5); [exact A|]. cbn [fst].
  destruct (slot_vacant_for s5 reg).
  - pose proof (slots_disp_unregister s5 o reg) as F. pose proof (toks_frame_disp_unregister s5 o reg) as FT.
    destruct (disp_unregister s5 o reg) as [[rs d] sx]. cbn [snd] in F, FT.
    eapply TKS_r; [| |exact A]; [rewrite slots_end_processing; exact F|rewrite toks_end_processing; exact FT].
  - eapply TKS_r; [| |exact A]; [apply slots_end_processing|apply toks_end_processing].
Qed.
Lemma TKS_process_events scr evs : forall s, TKS s (fst (process_events scr s evs)).
Proof.
  induction evs as [|ev r IH]; intros s; cbn [process_events]; [apply TKS_refl|].
  pose proof (TKS_process_event scr s ev) as P. destruct (process_event scr s ev) as [s1 ok]. cbn [fst] in P.
  destruct ok; [eapply TKS_trans; [exact P|apply IH]|exact P].
Qed.
Lemma TKS_run_idles scr l : forall s, TKS s (run_idles scr s l).
Proof.
  induction l as [|i l IH]; intros s; cbn [run_idles]; [apply TKS_refl|].
  destruct (halted s); [apply TKS_refl|]. destruct (idle_cancelled s i); [apply IH|].
  match goal with |- context [exec_actions ?x ?a] => set (s1 := x); set (acts := a) end.
  pose proof (TKS_exec_actions acts s1) as E. apply (TKS_l s1); [reflexivity|reflexivity|].
  destruct (halted (exec_actions s1 acts)); [exact E|].
  eapply TKS_trans; [exact E|]. apply (TKS_l (set_ridle (exec_actions s1 acts) None)); [reflexivity|reflexivity|]. apply IH.
Qed.
Lemma before_sleep_loop_toks bscr l : forall s, toks (fst (before_sleep_loop bscr s l)) = toks s.
Proof.
  induction l as [|t l IH]; intros s; cbn [before_sleep_loop]; [reflexivity|].
  destruct (lc_lookup s t) as [o|]; [|reflexivity].
  destruct (nth _ _ _) as [|p]; [rewrite IH; reflexivity|].
  destruct p; try reflexivity.
  destruct (match objs _ o with Some _ => _ | None => _ end) as [tk|]; rewrite IH; reflexivity.
Qed.
Lemma before_handle_loop_toks l polled : forall s, toks (fst (before_handle_loop s l polled)) = toks s.
Proof.
  induction l as [|t l IH]; intros s; cbn [before_handle_loop]; [reflexivity|].
  destruct (lc_lookup s t) as [o|]; [|reflexivity]. rewrite IH. reflexivity.
Qed.
Lemma emits_toks l : forall s, toks (emits s l) = toks s.
Proof. unfold emits. induction l as [|x l IH]; intros s; cbn; [reflexivity|]. rewrite IH. reflexivity. Qed.

Lemma TKS_dispatch scr bscr s t order : TKS s (dispatch scr bscr s t order).
Proof.
  unfold dispatch. pose proof (before_sleep_loop_slots bscr (lifecycle s) s) as B. pose proof (before_sleep_loop_toks bscr (lifecycle s) s) as BT.
  destruct (before_sleep_loop bscr s (lifecycle s)) as [s1 bs]. cbn [fst] in B, BT.
  apply (TKS_l s1); [exact B|exact BT|].
  destruct bs; [|apply TKS_frame; [apply sstep_refl|reflexivity]|apply TKS_refl].
  destruct (poll (en s1) t order) as [polled e2].
  set (s3 := emit (set_en s1 e2) _). apply (TKS_l s3); [reflexivity|reflexivity|].
  pose proof (before_handle_loop_slots (lifecycle s3) polled s3) as H. pose proof (before_handle_loop_toks (lifecycle s3) polled s3) as HT.
  destruct (before_handle_loop s3 _ polled) as [s4 ok]. cbn [fst] in H, HT.
  apply (TKS_l s4); [exact H|exact HT|].
  destruct ok; cbn [negb]; [|apply TKS_refl].
  pose proof (TKS_process_events scr (synth s4 ++ polled) (set_synth s4 [])) as P.
  destruct (process_events scr _ _) as [s5 ok2]. cbn [fst] in P.
  apply (TKS_l (set_synth s4 [])); [reflexivity|reflexivity|].
  destruct (halted s5); [exact P|]. destruct ok2; cbn [negb]; [|eapply TKS_r; [| |exact P]; reflexivity].
  pose proof (TKS_run_idles scr (idles s5) (set_idles s5 [])) as R.
  assert (R' : TKS (set_synth s4 []) (run_idles scr (set_idles s5 []) (idles s5))).
  { eapply TKS_trans; [exact P|]. apply (TKS_l (set_idles s5 [])); [reflexivity|reflexivity|exact R]. }
  destruct (halted (run_idles scr _ _)); [exact R'|]. eapply TKS_r; [| |exact R']; reflexivity.
Qed.
Lemma TKS_exec_cmd scr bscr s c : TKS s (exec_cmd scr bscr s c).
Proof.
  unfold exec_cmd. destruct (halted s); [apply TKS_refl|]. apply (TKS_l (emit s (L T_CMD []))); [reflexivity|reflexivity|].
  destruct c; [apply TKS_exec_action|apply TKS_dispatch| |]; (apply TKS_frame; [rewrite emits_slots; apply sstep_refl|apply emits_toks]).
Qed.
Lemma TKS_exec_cmds scr bscr cmds : forall s, TKS s (fold_left (exec_cmd scr bscr) cmds s).
Proof.
  induction cmds as [|c r IH]; intros s; cbn; [apply TKS_refl|]. eapply TKS_trans; [apply TKS_exec_cmd|apply IH].
Qed.

(* in every state a scenario reaches, a handle's token is a token of its slot's current or a past generation, and wherever it
   still resolves it finds the handle's own object (or an emptied slot) - never the source that later re-used the slot *)
Theorem HOBJ_run scr bscr cmds : gens_small (slots (run scr bscr cmds)) -> HOBJ (run scr bscr cmds).
Proof.
  intros G. unfold run in *. eapply HOBJ_TKS; [apply TKS_exec_cmds| |exact G|].
  - intros i sl H. destruct i; discriminate.
  - intros h t H. discriminate.
Qed.
Theorem handle_resolves_only_to_own_object scr bscr cmds h t et o :
  gens_small (slots (run scr bscr cmds)) -> lookup (run scr bscr cmds) h = Some (t, et, o) -> o = h.
Proof. intros G L. eapply HOBJ_lookup; [apply HOBJ_run; exact G|exact L]. Qed.
