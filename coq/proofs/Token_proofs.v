From CV Require Import Base Consts Token.
Open Scope N_scope.

Lemma mask_version : MASK_VERSION = 65535. Proof. reflexivity. Qed.
Lemma mask_subid : MASK_SUBID = 65535. Proof. reflexivity. Qed.

Definition pack_a (t : tok) : N := t_id t * U32 + t_ver t * U16 + t_sub t.

Lemma pack_lt (t : tok) : wf_tok t -> pack_a t < USIZE.
Proof. unfold wf_tok, pack_a, U32, U16, USIZE. intros (Hi & Hv & Hs). lia. Qed.

Lemma pack_arith (t : tok) : wf_tok t -> pack t = pack_a t.
Proof.
  intros H. unfold pack. 
  change (BITS_SUBID + BITS_VERSION) with 32. change BITS_SUBID with 16.
  rewrite !N.shiftl_mul_pow2. change (2 ^ 32) with U32. change (2 ^ 16) with U16.
  apply N.mod_small. apply (pack_lt t H).
Qed.

Lemma unpack_arith (k : N) :
  unpack k = mkTok ((k / U32) mod U32) ((k / U16) mod U16) (k mod U16).
Proof.
  unfold unpack. change (BITS_SUBID + BITS_VERSION) with 32. change BITS_SUBID with 16.
  rewrite mask_version, mask_subid. change 65535 with (N.ones 16).
  rewrite !N.land_ones, !N.shiftr_div_pow2.
  change (2 ^ 16) with U16. change (2 ^ 32) with U32.
  rewrite !N.mod_mod by (unfold U16; lia). reflexivity.
Qed.

Lemma unpack_pack (t : tok) : wf_tok t -> unpack (pack t) = t.
Proof.
  intros H. rewrite (pack_arith t H), unpack_arith. destruct t as [i v s]. 
  unfold wf_tok, pack_a in *. cbn [t_id t_ver t_sub] in *. destruct H as (Hi & Hv & Hs).
  assert (E1 : (i * U32 + v * U16 + s) = (i * U16 + v) * U16 + s) by (unfold U32, U16; lia).
  destruct (divmod_qa (i * U16 + v) s U16 Hs) as [D1 M1].
  destruct (divmod_qa i v U16 Hv) as [D2 M2].
  assert (Hvs : v * U16 + s < U32) by (unfold U32, U16 in *; lia).
  destruct (divmod_qa i (v * U16 + s) U32 Hvs) as [D3 M3].
  f_equal.
  - replace (i * U32 + v * U16 + s) with (i * U32 + (v * U16 + s)) by lia.
    rewrite D3. apply N.mod_small; assumption.
  - rewrite E1, D1. exact M2.
  - rewrite E1. exact M1.
Qed.

Lemma unpack_wf (k : N) : wf_tok (unpack k).
Proof.
  rewrite unpack_arith. unfold wf_tok; cbn [t_id t_ver t_sub].
  repeat split; apply N.mod_lt; unfold U32, U16; lia.
Qed.

Lemma pack_unpack (k : N) : k < USIZE -> pack (unpack k) = k.
Proof.
  intros Hk. rewrite (pack_arith _ (unpack_wf k)), unpack_arith. unfold pack_a; cbn [t_id t_ver t_sub].
  assert (Hd : k / U32 < U32).
  { apply N.div_lt_upper_bound; [unfold U32; lia|]. unfold U32, USIZE in *; lia. }
  rewrite (N.mod_small _ _ Hd).
  assert (H16 : U16 <> 0) by (unfold U16; lia).
  assert (E : k / U32 = k / U16 / U16).
  { rewrite N.div_div by assumption. reflexivity. }
  pose proof (N.div_mod k U16 H16) as A.
  pose proof (N.div_mod (k / U16) U16 H16) as B.
  rewrite E.
  remember (k / U16 / U16) as q. remember ((k / U16) mod U16) as r.
  remember (k mod U16) as s. remember (k / U16) as p.
  clear - A B.
  unfold U32, U16 in *. lia.
Qed.

Lemma pack_inj (a b : tok) : wf_tok a -> wf_tok b -> pack a = pack b -> a = b.
Proof. intros Ha Hb E. rewrite <- (unpack_pack a Ha), <- (unpack_pack b Hb), E. reflexivity. Qed.

Lemma pack_not_notify_key (t : tok) : wf_tok t -> t_id t < U32 - 1 -> pack t <> USIZE_MAX.
Proof.
  intros H Hi. rewrite (pack_arith t H). unfold pack_a, wf_tok, USIZE_MAX, USIZE, U32, U16 in *.
  destruct H as (_ & Hv & Hs). lia.
Qed.

Lemma pack_max_id_collides : pack (mkTok (U32 - 1) (U16 - 1) (U16 - 1)) = USIZE_MAX.
Proof. reflexivity. Qed.

Lemma increment_version_spec (t : tok) : wf_tok t ->
  increment_version t = mkTok (t_id t) ((t_ver t + 1) mod U16) 0 /\ wf_tok (increment_version t).
Proof.
  intros (Hi & Hv & Hs). unfold increment_version. rewrite mask_version.
  change (65535 mod U16) with (N.ones 16). rewrite N.land_ones. change (2 ^ 16) with U16.
  rewrite N.mod_mod by (unfold U16; lia). split; [reflexivity|].
  unfold wf_tok; cbn [t_id t_ver t_sub]. repeat split; try assumption.
  apply N.mod_lt. unfold U16; lia.
Qed.

Lemma increment_sub_id_spec (t : tok) : wf_tok t ->
  increment_sub_id t = if t_sub t + 1 <? U16 then Some (mkTok (t_id t) (t_ver t) (t_sub t + 1)) else None.
Proof.
  intros (Hi & Hv & Hs). unfold increment_sub_id. rewrite mask_subid. change (65535 mod U16) with 65535.
  destruct (N.ltb_spec (t_sub t + 1) U16) as [H|H]; cbn [andb]; [|reflexivity].
  destruct (N.leb_spec (t_sub t + 1) 65535) as [H'|H']; [reflexivity|]. unfold U16 in *; lia.
Qed.

(* factory *)
Lemma factory_take_spec (n : nat) : forall (f : factory) (l : list tok), wf_tok f ->
  factory_take f n = Some l ->
  length l = n /\ (forall i t, nth_error l i = Some t -> t = mkTok (t_id f) (t_ver f) (t_sub f + N.of_nat i))
  /\ (n = O \/ t_sub f + N.of_nat n < U16).
Proof.
  induction n as [|n IH]; intros f l Hwf H; cbn [factory_take] in H.
  - injection H as <-. split; [reflexivity|]. split; [|left; reflexivity]. intros [|i] t Hn; discriminate.
  - unfold factory_token in H. rewrite (increment_sub_id_spec f Hwf) in H.
    destruct (N.ltb_spec (t_sub f + 1) U16) as [Hlt|Hge]; [|discriminate].
    destruct (factory_take _ n) as [l'|] eqn:E; [|discriminate]. injection H as <-.
    assert (Hwf' : wf_tok (mkTok (t_id f) (t_ver f) (t_sub f + 1))).
    { destruct Hwf as (Hi & Hv & Hs). unfold wf_tok; cbn [t_id t_ver t_sub]. auto. }
    destruct (IH _ _ Hwf' E) as (Hlen & Hnth & Hb). cbn [t_id t_ver t_sub] in *.
    split; [cbn; congruence|]. split.
    + intros [|i] t Hn; cbn [nth_error] in Hn.
      * injection Hn as <-. destruct f; cbn. f_equal. lia.
      * rewrite (Hnth i t Hn). f_equal. lia.
    + right. destruct Hb as [->|Hb]; lia.
Qed.

Lemma factory_take_fails (n : nat) : forall (f : factory), wf_tok f ->
  U16 <= t_sub f + N.of_nat n -> (0 < n)%nat -> factory_take f n = None.
Proof.
  induction n as [|n IH]; intros f Hwf Hb Hn; [lia|].
  cbn [factory_take]. unfold factory_token. rewrite (increment_sub_id_spec f Hwf).
  destruct (N.ltb_spec (t_sub f + 1) U16) as [Hlt|Hge]; [|reflexivity].
  destruct n as [|n']; [lia|].
  rewrite IH; [reflexivity| | |lia].
  - destruct Hwf as (Hi & Hv & Hs). unfold wf_tok; cbn [t_id t_ver t_sub]. auto.
  - cbn [t_sub]. lia.
Qed.

Lemma factory_take_succeeds (n : nat) : forall (f : factory), wf_tok f ->
  t_sub f + N.of_nat n < U16 -> exists l, factory_take f n = Some l.
Proof.
  induction n as [|n IH]; intros f Hwf Hb; [exists []; reflexivity|].
  cbn [factory_take]. unfold factory_token. rewrite (increment_sub_id_spec f Hwf).
  destruct (N.ltb_spec (t_sub f + 1) U16) as [Hlt|Hge]; [|lia].
  destruct (IH (mkTok (t_id f) (t_ver f) (t_sub f + 1))) as [l Hl].
  - destruct Hwf as (Hi & Hv & Hs). unfold wf_tok; cbn [t_id t_ver t_sub]. auto.
  - cbn [t_sub]. lia.
  - rewrite Hl. eexists; reflexivity.
Qed.
