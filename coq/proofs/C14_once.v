(* C14: each lifecycle source is visited exactly once per lifecycle loop. Part 1: over any history the lifecycle list only changes
   by lc_register (of a token with sub-id 0) and lc_unregister, hence never holds a token twice. No hypothesis at all. *)
From CV Require Import Base Consts Token PostAction Env Loop.
From CVP Require Import Loop_frames Seq_lemmas C06_proofs C14_life C14_life2.
Import ListNotations.
Open Scope N_scope.

Inductive lcstep : list tok -> list tok -> Prop :=
| lcs_refl l : lcstep l l
| lcs_reg l l' t : lcstep l l' -> t_sub t = 0 -> lcstep l (lc_register l' t)
| lcs_unreg l l' t : lcstep l l' -> lcstep l (lc_unregister l' t).

Lemma lcstep_trans a b c : lcstep a b -> lcstep b c -> lcstep a c.
Proof. intros H1 H2. induction H2 as [|l l' t H IH Ht|l l' t H IH]; [exact H1|apply lcs_reg; [apply IH; exact H1|exact Ht]|apply lcs_unreg; apply IH; exact H1]. Qed.
Lemma lcstep_eq l l' : l' = l -> lcstep l l'.
Proof. intros ->. apply lcs_refl. Qed.

Lemma existsb_tok_eqb_In t l : existsb (tok_eqb t) l = true <-> In t l.
Proof.
  rewrite existsb_exists. split.
  - intros [x [Hx E]]. apply tok_eqb_eq in E. subst. exact Hx.
  - intros H. exists t. split; [exact H|apply tok_eqb_refl].
Qed.
Lemma NoDup_lc_register l t : NoDup l -> NoDup (lc_register l t).
Proof.
  intros H. unfold lc_register. destruct (existsb (tok_eqb t) l) eqn:E; [exact H|].
  assert (Hn : ~ In t l) by (intros Hi; apply existsb_tok_eqb_In in Hi; congruence). clear E.
  induction H as [|x l Hx H IH]; cbn; [constructor; [intros []|constructor]|].
  constructor; [|apply IH; intros Hi; apply Hn; right; exact Hi].
  intros Hi. apply in_app_or in Hi. destruct Hi as [Hi|[->|[]]]; [exact (Hx Hi)|apply Hn; left; reflexivity].
Qed.
Lemma NoDup_lc_unregister l t : NoDup l -> NoDup (lc_unregister l t).
Proof. intros H. unfold lc_unregister. apply NoDup_filter. exact H. Qed.
Lemma lcstep_nodup l l' : lcstep l l' -> NoDup l -> NoDup l'.
Proof. intros S H. induction S; [exact H|apply NoDup_lc_register; auto|apply NoDup_lc_unregister; auto]. Qed.
Lemma lcstep_sub0 l l' : lcstep l l' -> Forall (fun t => t_sub t = 0) l -> Forall (fun t => t_sub t = 0) l'.
Proof.
  intros S H. induction S as [|l l' t S IH Ht|l l' t S IH]; [exact H| |].
  - unfold lc_register. destruct (existsb _ _); [auto|]. apply Forall_app. split; [auto|constructor; [exact Ht|constructor]].
  - unfold lc_unregister. specialize (IH H). rewrite Forall_forall in *. intros x Hx. apply filter_In in Hx. apply IH. apply Hx.
Qed.

(* ---------- the three writers ---------- *)
Lemma lc_disp_register s o t : lcstep (lifecycle s) (lifecycle (snd (disp_register s o t))).
Proof.
  unfold disp_register. destruct (objs s o) as [ob|]; [|apply lcs_refl]. destruct (is_running s o); [apply lcs_refl|].
  destruct (src_register _ _ _) as [[r x'] e1]. destruct r; cbn [snd].
  - destruct (src_lc x'); [cbn [lifecycle set_lifecycle]; apply lcs_reg; [|reflexivity]|]; apply lcstep_eq; rewrite lifecycle_regop, lifecycle_set_obj_src; reflexivity.
  - apply lcstep_eq. rewrite lifecycle_regop, lifecycle_set_obj_src. reflexivity.
  - apply lcstep_eq. cbn. rewrite lifecycle_set_obj_src. reflexivity.
Qed.
Lemma lc_disp_reregister s o t : lcstep (lifecycle s) (lifecycle (snd (disp_reregister s o t))).
Proof.
  unfold disp_reregister. destruct (objs s o) as [ob|]; [|apply lcs_refl]. destruct (is_running s o); [apply lcs_refl|].
  destruct (src_reregister _ _ _) as [[r x'] e1]. destruct r; cbn [snd].
  - destruct (src_lc x'); [cbn [lifecycle set_lifecycle]; apply lcs_reg; [|reflexivity]|]; apply lcstep_eq; rewrite lifecycle_regop, lifecycle_set_obj_src; reflexivity.
  - apply lcstep_eq. rewrite lifecycle_regop, lifecycle_set_obj_src. reflexivity.
  - apply lcstep_eq. cbn. rewrite lifecycle_set_obj_src. reflexivity.
Qed.
Lemma lc_disp_unregister s o t : lcstep (lifecycle s) (lifecycle (snd (disp_unregister s o t))).
Proof.
  unfold disp_unregister. destruct (objs s o) as [ob|]; [|apply lcs_refl]. destruct (is_running s o); [apply lcs_refl|].
  destruct (src_unregister _ _) as [[ok x'] e1]. cbn [snd].
  destruct (src_lc x'); [cbn [lifecycle set_lifecycle]; apply lcs_unreg|]; apply lcstep_eq; rewrite lifecycle_regop, lifecycle_set_obj_src; reflexivity.
Qed.

(* ---------- everything else leaves the list alone ---------- *)
Lemma lifecycle_maybe_drop s o : lifecycle (maybe_drop s o) = lifecycle s.
Proof. unfold maybe_drop, drop_obj. destruct (objs s o) as [ob|]; [|reflexivity]. destruct (o_ext ob || in_slots (slots s) o); [reflexivity|]. destruct (is_running s o); reflexivity. Qed.
Lemma lifecycle_drop_zombies l : forall s, lifecycle (drop_zombies s l) = lifecycle s.
Proof. induction l as [|o r IH]; intros s; cbn; [reflexivity|]. rewrite IH. apply lifecycle_maybe_drop. Qed.
Lemma lifecycle_end_processing s o : lifecycle (end_processing s o) = lifecycle s.
Proof. unfold end_processing. rewrite lifecycle_drop_zombies, lifecycle_maybe_drop. reflexivity. Qed.

Lemma lc_do_insert s h x : lcstep (lifecycle s) (lifecycle (do_insert s h x)).
Proof.
  unfold do_insert. destruct (objs s h); [apply lcs_refl|].
  set (s0 := set_objs s _). change (lifecycle s) with (lifecycle s0).
  destruct (vacant_entry (slots s0)) as [[i sl]|]; [|apply lcs_refl].
  destruct (nth_error sl i) as [e|]; [|apply lcs_refl].
  set (s1 := set_slots s0 _). change (lifecycle s0) with (lifecycle s1).
  pose proof (lc_disp_register s1 h (s_tok e)) as F. destruct (disp_register s1 h (s_tok e)) as [r s2]. cbn [snd] in F.
  destruct (halted s2); [exact F|]. destruct r; cbn [lifecycle emit set_log set_toks set_slots]; exact F.
Qed.
Lemma lc_do_remove s h : lcstep (lifecycle s) (lifecycle (do_remove s h)).
Proof.
  unfold do_remove. destruct (lookup s h) as [[[t et] o]|]; [|apply lcs_refl].
  set (s1 := set_slots s _). change (lifecycle s) with (lifecycle s1).
  pose proof (lc_disp_unregister s1 o t) as F. destruct (disp_unregister s1 o t) as [[r d] s2]. cbn [snd] in F.
  cbn [lifecycle emit set_log]. rewrite lifecycle_maybe_drop. exact F.
Qed.
Lemma lc_exec_action s a : lcstep (lifecycle s) (lifecycle (exec_action s a)).
Proof.
  unfold exec_action. destruct (halted s); [apply lcs_refl|].
  destruct a; try (apply lcstep_eq; reflexivity).
  - apply lc_do_insert.
  - apply lc_do_remove.
  - unfold do_disable. destruct (lookup s h) as [[[t et] o]|]; [|apply lcs_refl].
    pose proof (lc_disp_unregister s o t) as F. destruct (disp_unregister s o t) as [[r d] s1]. cbn [snd] in F.
    destruct r; [destruct d|..]; cbn; exact F.
  - unfold do_enable. destruct (lookup s h) as [[[t et] o]|]; [|apply lcs_refl].
    pose proof (lc_disp_register s o et) as F. destruct (disp_register s o et) as [r s1]. cbn [snd] in F.
    destruct (halted s1); cbn; exact F.
  - unfold do_update. destruct (lookup s h) as [[[t et] o]|]; [|apply lcs_refl].
    pose proof (lc_disp_reregister s o et) as F. destruct (disp_reregister s o et) as [[r d] s1]. cbn [snd] in F.
    destruct (halted s1); [exact F|]. destruct r; [destruct d|..]; cbn; exact F.
  - apply lcstep_eq. unfold do_setint. destruct (objs s h) as [ob|]; [|reflexivity]. destruct (negb (o_ext ob)); [reflexivity|].
    destruct (is_running s h); [reflexivity|]. destruct (o_src ob); cbn; rewrite ?lifecycle_set_obj_src; reflexivity.
  - apply lcstep_eq. unfold do_setdl. destruct (objs s h) as [ob|]; [|reflexivity]. destruct (negb (o_ext ob)); [reflexivity|].
    destruct (is_running s h); [reflexivity|]. destruct (o_src ob) as [lc own subs [tm|]|g|tm|c g]; cbn; rewrite ?lifecycle_set_obj_src; reflexivity.
  - apply lcstep_eq. unfold do_intoinner. destruct (objs s h) as [ob|]; [|reflexivity]. destruct (negb (o_ext ob)); [reflexivity|].
    destruct (in_slots (slots s) h || is_running s h); reflexivity.
  - apply lcstep_eq. unfold do_dropdisp. destruct (objs s h) as [ob|]; [|reflexivity]. destruct (negb (o_ext ob)); [reflexivity|].
    cbn. rewrite lifecycle_maybe_drop. reflexivity.
  - apply lcstep_eq. unfold do_send. destruct (env_send _ _ _) as [e' [rc|]]; reflexivity.
  - apply lcstep_eq. unfold do_send. destruct (env_send _ _ _) as [e' [rc|]]; reflexivity.
  - apply lcstep_eq. unfold do_cancelidle. destruct (match ridle s with Some r => r =? i | None => false end); reflexivity.
Qed.
Lemma lc_exec_actions l : forall s, lcstep (lifecycle s) (lifecycle (exec_actions s l)).
Proof.
  unfold exec_actions. induction l as [|a l IH]; intros s; cbn; [apply lcs_refl|].
  eapply lcstep_trans; [apply lc_exec_action|apply IH].
Qed.
Lemma lc_callback scr s h sub p : lcstep (lifecycle s) (lifecycle (fst (callback scr s h sub p))).
Proof. unfold callback. cbn [fst]. match goal with |- context [exec_actions ?x ?a] => change (lifecycle s) with (lifecycle x) end. apply lc_exec_actions. Qed.
Lemma lc_chan_loop scr fuel : forall s h c, lcstep (lifecycle s) (lifecycle (fst (fst (chan_loop scr fuel s h c)))).
Proof.
  induction fuel as [|f IH]; intros s h c; cbn [chan_loop]; [apply lcs_refl|].
  destruct (halted s); [apply lcs_refl|]. destruct (chans (en s) c) as [ch|]; [|apply lcs_refl].
  destruct (ch_q ch) as [|v q'].
  - destruct (ch_senders ch =? 0); [|apply lcs_refl].
    pose proof (lc_callback scr s h 1%Z 0%Z) as C. destruct (callback scr s h 1%Z 0%Z) as [s2 sc]. exact C.
  - match goal with |- context [callback scr ?x h 0%Z v] => set (s1 := x) end.
    change (lifecycle s) with (lifecycle s1).
    pose proof (lc_callback scr s1 h 0%Z v) as C. destruct (callback scr s1 h 0%Z v) as [s2 sc]. cbn [fst] in C.
    eapply lcstep_trans; [exact C|apply IH].
Qed.
Lemma ping_drain_lifecycle s g t : lifecycle (fst (fst (ping_drain s g t))) = lifecycle s.
Proof. unfold ping_drain. destruct (opt_tok_is (g_tok g) t); [|reflexivity]. destruct (fd_read (en s) (g_fd g)) as [e1 v]. destruct (v =? 0); reflexivity. Qed.

Lemma lc_obj_process scr s o ev : lcstep (lifecycle s) (lifecycle (fst (obj_process scr s o ev))).
Proof.
  unfold obj_process. destruct (objs s o) as [ob|]; [|apply lcs_refl].
  destruct (o_src ob) as [lc own subs tmr|g|tm|c g].
  - destruct (if opt_tok_is own _ then _ else _) as [j|].
    + pose proof (lc_callback scr s o j (zN (rd_code (ev_rd ev)))) as C. destruct (callback scr s o j _) as [s1 sc]. exact C.
    + destruct tmr as [tm|]; [|apply lcs_refl]. cbn [fst]. unfold timer_sub_fire.
      destruct (tm_reg tm) as [[tk c]|]; [|apply lcs_refl]. destruct (tm_dl tm) as [dl|]; [|apply lcs_refl].
      destruct (tok_eqb tk _); [|apply lcs_refl].
      pose proof (lc_callback scr s o (Z.of_nat (S (length subs))) dl) as C. destruct (callback scr s o _ dl) as [s1 sc]. cbn [fst] in C.
      destruct (sc_ret sc) as [|[[| |]|[| |]|]]; rewrite ?lifecycle_set_obj_src; exact C.
  - pose proof (ping_drain_lifecycle s g (unpack (ev_key ev))) as P. destruct (ping_drain s g _) as [[s1 r] pinged]. cbn [fst] in *.
    destruct pinged; cbn [fst]; [|rewrite P; apply lcs_refl]. rewrite <- P. apply lc_callback.
  - destruct (tm_reg tm) as [[tk c]|]; [|apply lcs_refl]. destruct (tm_dl tm) as [dl|]; [|apply lcs_refl].
    destruct (tok_eqb tk _); [|apply lcs_refl].
    pose proof (lc_callback scr s o 0%Z dl) as C. destruct (callback scr s o 0%Z dl) as [s1 sc]. cbn [fst] in C.
    destruct (sc_ret sc) as [|[[| |]|[| |]|]]; cbn [fst]; rewrite ?lifecycle_set_obj_src; exact C.
  - pose proof (ping_drain_lifecycle s g (unpack (ev_key ev))) as P. destruct (ping_drain s g _) as [[s1 r] pinged]. cbn [fst] in *.
    destruct r as [act|]; cbn [fst]; [|rewrite P; apply lcs_refl].
    destruct pinged.
    + pose proof (lc_chan_loop scr (chan_max (en s) c) s1 o c) as L. destruct (chan_loop scr _ s1 o c) as [[s2 clear] disc]. cbn [fst] in L.
      rewrite <- P. destruct disc; cbn [fst]; [exact L|]. destruct clear; cbn [fst lifecycle eenv set_en]; exact L.
    + rewrite <- P. cbn. apply lcs_refl.
Qed.
Lemma lc_apply_post s o reg r : lcstep (lifecycle s) (lifecycle (snd (apply_post s o reg r))).
Proof.
  unfold apply_post. destruct r.
  - apply lcs_refl.
  - pose proof (lc_disp_reregister s o reg) as F. destruct (disp_reregister s o reg) as [[rs d] sx]. cbn [snd] in *. exact F.
  - pose proof (lc_disp_unregister s o reg) as F. destruct (disp_unregister s o reg) as [[rs d] sx]. cbn [snd] in *. exact F.
  - cbn [snd]. destruct (slot_get (slots s) reg); apply lcs_refl.
Qed.
Lemma lc_process_event scr s ev : lcstep (lifecycle s) (lifecycle (fst (process_event scr s ev))).
Proof.
  unfold process_event. destruct (slot_get (slots s) _) as [sl|]; [|apply lcs_refl].
  destruct (s_obj sl) as [o|]; [|apply lcs_refl].
  set (reg := forget_sub_id (unpack (ev_key ev))).
  pose proof (lc_obj_process scr (set_running s (Some (o, reg))) o ev) as P.
  destruct (obj_process scr _ o ev) as [s2 ret]. cbn [fst] in P. change (lifecycle (set_running s (Some (o, reg)))) with (lifecycle s) in P.
  destruct (halted s2); [exact P|].
  set (s4 := set_pending (set_running s2 None) Continue).
  assert (A : lcstep (lifecycle s) (lifecycle (snd (match ret with None => (false, s4) | Some r => apply_post s4 o reg (match r with Continue => pending (set_running s2 None) | _ => r end) end)))).
  { destruct ret as [r|]; [|exact P]. eapply lcstep_trans; [exact P|]. change (lifecycle s2) with (lifecycle s4). apply lc_apply_post. }
  destruct (match ret with None => _ | Some r => _ end) as [ok s5]. cbn [snd] in A.
  destruct (halted s5); [exact A|]. cbn [fst]. rewrite lifecycle_end_processing.
  destruct (slot_vacant_for s5 reg); [|exact A].
  pose proof (lc_disp_unregister s5 o reg) as F. destruct (disp_unregister s5 o reg) as [[rs d] sx]. cbn [snd] in F. eapply lcstep_trans; [exact A|exact F].
Qed.
Lemma lc_process_events scr evs : forall s, lcstep (lifecycle s) (lifecycle (fst (process_events scr s evs))).
Proof.
  induction evs as [|ev r IH]; intros s; cbn [process_events]; [apply lcs_refl|].
  pose proof (lc_process_event scr s ev) as P. destruct (process_event scr s ev) as [s1 ok]. cbn [fst] in P.
  destruct ok; [eapply lcstep_trans; [exact P|apply IH]|exact P].
Qed.
Lemma lc_run_idles scr l : forall s, lcstep (lifecycle s) (lifecycle (run_idles scr s l)).
Proof.
  induction l as [|i l IH]; intros s; cbn [run_idles]; [apply lcs_refl|].
  destruct (halted s); [apply lcs_refl|]. destruct (idle_cancelled s i); [apply IH|].
  match goal with |- context [exec_actions ?x ?a] => set (s1 := x); set (acts := a) end.
  pose proof (lc_exec_actions acts s1) as E. change (lifecycle s1) with (lifecycle s) in E.
  destruct (halted (exec_actions s1 acts)); [exact E|].
  eapply lcstep_trans; [exact E|]. change (lifecycle (exec_actions s1 acts)) with (lifecycle (set_ridle (exec_actions s1 acts) None)). apply IH.
Qed.
Lemma emits_lifecycle l : forall s, lifecycle (emits s l) = lifecycle s.
Proof. unfold emits. induction l as [|x l IH]; intros s; cbn; [reflexivity|]. rewrite IH. reflexivity. Qed.
Lemma before_handle_loop_lifecycle l polled : forall s, lifecycle (fst (before_handle_loop s l polled)) = lifecycle s.
Proof.
  induction l as [|t l IH]; intros s; cbn [before_handle_loop]; [reflexivity|].
  destruct (lc_lookup s t) as [o|]; [|reflexivity]. rewrite IH. reflexivity.
Qed.

Lemma lc_dispatch scr bscr s t order : lcstep (lifecycle s) (lifecycle (dispatch scr bscr s t order)).
Proof.
  unfold dispatch. pose proof (before_sleep_loop_lifecycle bscr (lifecycle s) s) as B.
  destruct (before_sleep_loop bscr s (lifecycle s)) as [s1 bs]. cbn [fst] in B. rewrite <- B.
  destruct bs; [|apply lcs_refl|apply lcs_refl].
  destruct (poll (en s1) t order) as [polled e2].
  set (s3 := emit (set_en s1 e2) _). change (lifecycle s1) with (lifecycle s3).
  pose proof (before_handle_loop_lifecycle (lifecycle s3) polled s3) as H. destruct (before_handle_loop s3 _ polled) as [s4 ok]. cbn [fst] in H. rewrite <- H.
  destruct ok; cbn [negb]; [|apply lcs_refl].
  pose proof (lc_process_events scr (synth s4 ++ polled) (set_synth s4 [])) as P.
  destruct (process_events scr _ _) as [s5 ok2]. cbn [fst] in P. change (lifecycle (set_synth s4 [])) with (lifecycle s4) in P.
  destruct (halted s5); [exact P|]. destruct ok2; cbn [negb]; [|exact P].
  pose proof (lc_run_idles scr (idles s5) (set_idles s5 [])) as R. change (lifecycle (set_idles s5 [])) with (lifecycle s5) in R.
  destruct (halted (run_idles scr _ _)); cbn [lifecycle emit set_log]; eapply lcstep_trans; eassumption.
Qed.
Lemma lc_exec_cmd scr bscr s c : lcstep (lifecycle s) (lifecycle (exec_cmd scr bscr s c)).
Proof.
  unfold exec_cmd. destruct (halted s); [apply lcs_refl|]. change (lifecycle s) with (lifecycle (emit s (L T_CMD []))).
  destruct c; [apply lc_exec_action|apply lc_dispatch|rewrite emits_lifecycle; apply lcs_refl|rewrite emits_lifecycle; apply lcs_refl].
Qed.
Lemma lc_exec_cmds scr bscr cmds : forall s, lcstep (lifecycle s) (lifecycle (fold_left (exec_cmd scr bscr) cmds s)).
Proof.
  induction cmds as [|c r IH]; intros s; cbn; [apply lcs_refl|]. eapply lcstep_trans; [apply lc_exec_cmd|apply IH].
Qed.

Theorem lifecycle_nodup_run scr bscr cmds : NoDup (lifecycle (run scr bscr cmds)).
Proof. unfold run. eapply lcstep_nodup; [apply lc_exec_cmds|constructor]. Qed.

(* ================= Part 2: the lifecycle loops visit each source once ================= *)
(* two lifecycle tokens (sub-id 0) that resolve to the same object are the same token *)
Lemma lc_lookup_inj s t1 t2 o : UNIQ s -> t_sub t1 = 0 -> t_sub t2 = 0 ->
  lc_lookup s t1 = Some o -> lc_lookup s t2 = Some o -> t1 = t2.
Proof.
  intros U S1 S2 L1 L2. unfold lc_lookup, slot_get in *.
  destruct (nth_error (slots s) (N.to_nat (t_id t1))) as [sl1|] eqn:E1; [|discriminate].
  destruct (nth_error (slots s) (N.to_nat (t_id t2))) as [sl2|] eqn:E2; [|discriminate].
  destruct (same_source_as (s_tok sl1) t1) eqn:A1; [|discriminate].
  destruct (same_source_as (s_tok sl2) t2) eqn:A2; [|discriminate].
  pose proof (U _ _ _ _ _ E1 E2 L1 L2) as Hi. apply N2Nat.inj in Hi.
  rewrite Hi in E1. rewrite E1 in E2. injection E2 as <-.
  unfold same_source_as in *. apply andb_prop in A1. apply andb_prop in A2. destruct A1 as [_ V1]. destruct A2 as [_ V2].
  apply N.eqb_eq in V1. apply N.eqb_eq in V2. destruct t1 as [i1 v1 b1]. destruct t2 as [i2 v2 b2]. cbn in *. congruence.
Qed.

(* how many entries of l resolve to object o *)
Definition visits (s : st) (l : list tok) (o : N) : nat :=
  length (filter (fun t => match lc_lookup s t with Some o' => o' =? o | None => false end) l).

Lemma visits_0_of_fresh s l o t : UNIQ s -> t_sub t = 0 -> lc_lookup s t = Some o -> ~ In t l -> Forall (fun t => t_sub t = 0) l ->
  visits s l o = 0%nat.
Proof.
  intros U St Lt. unfold visits. induction l as [|x l IH]; intros Hn F; cbn [filter]; [reflexivity|].
  inversion F as [|? ? Sx F']; subst.
  assert (Hn' : ~ In t l) by (intros Hi; apply Hn; right; exact Hi).
  destruct (lc_lookup s x) as [ox|] eqn:Lx; [|apply IH; assumption].
  destruct (N.eqb_spec ox o) as [->|]; [|apply IH; assumption].
  exfalso. apply Hn. left. symmetry. apply (lc_lookup_inj s t x o); assumption.
Qed.
Lemma visits_le_1 s l o : UNIQ s -> NoDup l -> Forall (fun t => t_sub t = 0) l -> (visits s l o <= 1)%nat.
Proof.
  intros U. induction l as [|t l IH]; intros Nd F; [unfold visits; cbn; lia|].
  inversion Nd as [|? ? Hn Nd']; subst. inversion F as [|? ? St F']; subst. specialize (IH Nd' F').
  unfold visits in *. cbn [filter].
  destruct (lc_lookup s t) as [o'|] eqn:Lt; [|exact IH]. destruct (N.eqb_spec o' o) as [->|]; [|exact IH].
  cbn [length]. pose proof (visits_0_of_fresh s l o t U St Lt Hn F') as Z. unfold visits in Z. rewrite Z. lia.
Qed.
Lemma visits_ge_1 s l o t : In t l -> lc_lookup s t = Some o -> (1 <= visits s l o)%nat.
Proof.
  intros Hi L. unfold visits. induction l as [|x l IH]; [destruct Hi|]. cbn [filter].
  destruct Hi as [->|Hi].
  - rewrite L, N.eqb_refl. cbn. lia.
  - specialize (IH Hi). destruct (match lc_lookup s x with Some o' => o' =? o | None => false end); cbn [length]; lia.
Qed.
Lemma visits_slots s s' l o : slots s' = slots s -> visits s' l o = visits s l o.
Proof. intros E. unfold visits, lc_lookup. rewrite E. reflexivity. Qed.

(* before_sleep: the per-object counter of before_sleep invocations grows by the number of entries resolving to the object
   (when the loop runs to its end), and never by more *)
Lemma before_sleep_loop_bsn bscr l : forall s o,
  (bsn (fst (before_sleep_loop bscr s l)) o <= bsn s o + visits s l o)%nat /\
  (snd (before_sleep_loop bscr s l) = BSOk -> bsn (fst (before_sleep_loop bscr s l)) o = (bsn s o + visits s l o)%nat).
Proof.
  induction l as [|t l IH]; intros s o; cbn [before_sleep_loop]; [unfold visits; cbn; split; [lia|intros _; lia]|].
  set (d := if N.eqb (match lc_lookup s t with Some o' => o' | None => o + 1 end) o then 1%nat else 0%nat).
  assert (Vd : visits s (t :: l) o = (d + visits s l o)%nat).
  { unfold visits, d. cbn [filter]. destruct (lc_lookup s t) as [o'|]; [destruct (N.eqb o' o); reflexivity|].
    destruct (N.eqb_spec (o + 1) o); [lia|reflexivity]. }
  rewrite Vd. clear Vd.
  destruct (lc_lookup s t) as [o'|] eqn:Lt; [|cbn; split; [lia|discriminate]].
  set (s1 := emit (set_bsn s (fupd (bsn s) o' (S (bsn s o')))) _).
  assert (B1 : bsn s1 o = (bsn s o + d)%nat).
  { unfold d. change (bsn s1 o) with (if N.eqb o o' then S (bsn s o') else bsn s o). rewrite (N.eqb_sym o' o).
    destruct (N.eqb_spec o o') as [->|]; lia. }
  assert (K : forall sx, slots sx = slots s -> bsn sx o = bsn s1 o ->
     (bsn (fst (before_sleep_loop bscr sx l)) o <= bsn s o + (d + visits s l o))%nat /\
     (snd (before_sleep_loop bscr sx l) = BSOk -> bsn (fst (before_sleep_loop bscr sx l)) o = (bsn s o + (d + visits s l o))%nat)).
  { intros sx E Eb. destruct (IH sx o) as [I1 I2]. rewrite (visits_slots s sx l o E) in I1, I2. rewrite Eb, B1 in I1, I2.
    split; [lia|intros H; specialize (I2 H); lia]. }
  destruct (nth (bsn s o') (bscr o') 0) as [|p] eqn:Ec.
  - apply K; reflexivity.
  - destruct p; try (cbn [fst snd]; split; [rewrite B1; lia|discriminate]).
    destruct (match objs s1 o' with Some ob => _ | None => None end) as [tk|]; apply K; reflexivity.
Qed.

(* before_handle: one BH line per lifecycle entry, in list order, carrying exactly the polled events of that entry's token *)
Definition bh_line (s : st) (polled : list pevent) (t : tok) : tline :=
  L T_BH (zN (match lc_lookup s t with Some o => o | None => 0 end) :: map ev_code (filter (fun e => same_source_as (unpack (ev_key e)) t) polled)).
Lemma before_handle_loop_log l polled : forall s, snd (before_handle_loop s l polled) = true ->
  log (fst (before_handle_loop s l polled)) = rev (map (bh_line s polled) l) ++ log s.
Proof.
  induction l as [|t l IH]; intros s H; cbn [before_handle_loop] in *; [reflexivity|].
  destruct (lc_lookup s t) as [o|] eqn:Lt; [|discriminate].
  rewrite (IH _ H). cbn [map rev]. rewrite <- app_assoc. cbn [app log emit set_log].
  assert (E : forall x y, bh_line (emit s y) polled x = bh_line s polled x) by reflexivity.
  rewrite (map_ext _ _ (fun x => E x _)). f_equal. unfold bh_line. rewrite Lt. reflexivity.
Qed.
(* ... and the objects named by those lines are pairwise distinct *)
Lemma visited_objs_nodup s l : UNIQ s -> NoDup l -> Forall (fun t => t_sub t = 0) l -> (forall t, In t l -> lc_lookup s t <> None) ->
  NoDup (map (lc_lookup s) l).
Proof.
  intros U. induction l as [|t l IH]; intros Nd F R; cbn [map]; [constructor|].
  inversion Nd as [|? ? Hn Nd']; subst. inversion F as [|? ? St F']; subst.
  constructor; [|apply IH; [exact Nd'|exact F'|intros x Hx; apply R; right; exact Hx]].
  intros Hi. apply in_map_iff in Hi. destruct Hi as [x [Ex Hx]].
  destruct (lc_lookup s t) as [o|] eqn:Lt; [|apply (R t); [left; reflexivity|exact Lt]].
  apply Hn. rewrite Forall_forall in F'. rewrite (lc_lookup_inj s t x o U St (F' x Hx) Lt Ex). exact Hx.
Qed.

(* ================= over whole histories ================= *)
Lemma reachable_lifecycle_facts scr bscr cmds : let s := run scr bscr cmds in gens_small (slots s) -> halted s = false ->
  UNIQ s /\ NoDup (lifecycle s) /\ Forall (fun t => t_sub t = 0) (lifecycle s) /\ (forall t, In t (lifecycle s) -> lc_lookup s t <> None).
Proof.
  cbv zeta. intros G Hh. destruct (run_TOP scr bscr cmds G) as [X|[Qs Hr]]; [congruence|].
  destruct Qs as (Li & _ & _ & U & _). split; [exact U|]. split; [apply lifecycle_nodup_run|].
  rewrite Hr in Li. split.
  - apply Forall_forall. intros t Ht. destruct Li as (A & _). apply (A t Ht).
  - intros t Ht. destruct (LI_resolves _ Li t Ht) as [o Ho]. rewrite Ho. discriminate.
Qed.

Theorem before_sleep_once_per_dispatch scr bscr cmds o : let s := run scr bscr cmds in gens_small (slots s) -> halted s = false ->
  let r := before_sleep_loop bscr s (lifecycle s) in
  (bsn (fst r) o <= S (bsn s o))%nat /\
  (snd r = BSOk -> (exists t, In t (lifecycle s) /\ lc_lookup s t = Some o) -> bsn (fst r) o = S (bsn s o)) /\
  (snd r = BSOk -> (forall t, In t (lifecycle s) -> lc_lookup s t <> Some o) -> bsn (fst r) o = bsn s o).
Proof.
  cbv zeta. intros G Hh. destruct (reachable_lifecycle_facts scr bscr cmds G Hh) as (U & Nd & F & R).
  set (s := run scr bscr cmds) in *.
  destruct (before_sleep_loop_bsn bscr (lifecycle s) s o) as [B1 B2].
  pose proof (visits_le_1 s (lifecycle s) o U Nd F) as V1.
  split; [lia|split].
  - intros Hok [t [Ht Lt]]. pose proof (visits_ge_1 s (lifecycle s) o t Ht Lt). rewrite (B2 Hok). lia.
  - intros Hok Hno. rewrite (B2 Hok). assert (Z : visits s (lifecycle s) o = 0%nat); [|lia].
    unfold visits. clear -Hno. induction (lifecycle s) as [|x l IH]; cbn [filter]; [reflexivity|].
    destruct (lc_lookup s x) as [ox|] eqn:Lx.
    + destruct (N.eqb_spec ox o) as [->|]; [exfalso; apply (Hno x); [left; reflexivity|exact Lx]|]. apply IH. intros t Ht. apply Hno. right. exact Ht.
    + apply IH. intros t Ht. apply Hno. right. exact Ht.
Qed.

Theorem before_handle_once_per_dispatch scr bscr cmds e2 line polled : let s := run scr bscr cmds in gens_small (slots s) -> halted s = false ->
  let s3 := emit (set_en (fst (before_sleep_loop bscr s (lifecycle s))) e2) line in
  let r := before_handle_loop s3 (lifecycle s3) polled in
  snd r = true /\ lifecycle s3 = lifecycle s /\
  log (fst r) = rev (map (bh_line s3 polled) (lifecycle s3)) ++ log s3 /\
  NoDup (map (lc_lookup s3) (lifecycle s3)) /\ (forall t, In t (lifecycle s3) -> lc_lookup s3 t <> None).
Proof.
  cbv zeta. intros G Hh. destruct (reachable_lifecycle_facts scr bscr cmds G Hh) as (U & Nd & F & R).
  destruct (never_unreachable scr bscr cmds G Hh) as [_ NU]. cbv zeta in NU. specialize (NU e2 line polled).
  set (s := run scr bscr cmds) in *.
  set (s3 := emit (set_en (fst (before_sleep_loop bscr s (lifecycle s))) e2) line) in *.
  assert (El : lifecycle s3 = lifecycle s) by (unfold s3; cbn [lifecycle emit set_log set_en]; apply before_sleep_loop_lifecycle).
  assert (Es : slots s3 = slots s) by (unfold s3; cbn [slots emit set_log set_en]; apply before_sleep_loop_slots).
  assert (Ll : forall t, lc_lookup s3 t = lc_lookup s t) by (intros t; unfold lc_lookup; rewrite Es; reflexivity).
  split; [exact NU|]. split; [exact El|]. split; [apply before_handle_loop_log; exact NU|].
  assert (U3 : UNIQ s3) by (unfold UNIQ; rewrite Es; exact U).
  rewrite El. split.
  - apply visited_objs_nodup; [exact U3|exact Nd|exact F|intros t Ht; rewrite Ll; apply R; exact Ht].
  - intros t Ht. rewrite Ll. apply R. exact Ht.
Qed.
