(* C01, whole histories: callbacks are attributable. The callback counter of an object changes only while an event whose token
   resolved to that object (generation-checked) is being processed; operations, lifecycle loops and idles never run a source
   callback. Together with C06_token_dead_forever: a removed source is never called back through a stale token. *)
From CV Require Import Base Consts Token PostAction Env Loop.
From CVP Require Import Loop_frames C06_proofs.
Open Scope N_scope.

Notation cbc := Loop.cbn.

Lemma cbc_set_obj_src s o x : cbc (set_obj_src s o x) = cbc s.
Proof. unfold set_obj_src. destruct (objs s o); reflexivity. Qed.
Lemma cbc_regop s o x k b : cbc (regop s o x k b) = cbc s.
Proof. unfold regop. destruct x; reflexivity. Qed.
Lemma cbc_disp_register s o t : cbc (snd (disp_register s o t)) = cbc s.
Proof.
  unfold disp_register. destruct (objs s o) as [ob|]; [|reflexivity]. destruct (is_running s o); [reflexivity|].
  destruct (src_register _ _ _) as [[r x'] e1]. destruct r; cbn [snd]; try destruct (src_lc x'); cbn [Loop.cbn set_lifecycle panic set_halted emit set_log];
    rewrite ?cbc_regop, ?cbc_set_obj_src; reflexivity.
Qed.
Lemma cbc_disp_reregister s o t : cbc (snd (disp_reregister s o t)) = cbc s.
Proof.
  unfold disp_reregister. destruct (objs s o) as [ob|]; [|reflexivity]. destruct (is_running s o); [reflexivity|].
  destruct (src_reregister _ _ _) as [[r x'] e1]. destruct r; cbn [snd]; try destruct (src_lc x'); cbn [Loop.cbn set_lifecycle panic set_halted emit set_log];
    rewrite ?cbc_regop, ?cbc_set_obj_src; reflexivity.
Qed.
Lemma cbc_disp_unregister s o t : cbc (snd (disp_unregister s o t)) = cbc s.
Proof.
  unfold disp_unregister. destruct (objs s o) as [ob|]; [|reflexivity]. destruct (is_running s o); [reflexivity|].
  destruct (src_unregister _ _) as [[ok x'] e1]. cbn [snd]. destruct (src_lc x'); cbn [Loop.cbn set_lifecycle]; rewrite ?cbc_regop, ?cbc_set_obj_src; reflexivity.
Qed.
Lemma cbc_maybe_drop s o : cbc (maybe_drop s o) = cbc s.
Proof. unfold maybe_drop, drop_obj. destruct (objs s o) as [ob|]; [|reflexivity]. destruct (o_ext ob || in_slots (slots s) o); [reflexivity|]. destruct (is_running s o); reflexivity. Qed.
Lemma cbc_drop_zombies l : forall s, cbc (drop_zombies s l) = cbc s.
Proof. induction l as [|o r IH]; intros s; cbn [drop_zombies]; [reflexivity|]. rewrite IH. apply cbc_maybe_drop. Qed.
Lemma cbc_end_processing s o : cbc (end_processing s o) = cbc s.
Proof. unfold end_processing. rewrite cbc_drop_zombies, cbc_maybe_drop. reflexivity. Qed.

(* no operation runs a source callback *)
Lemma cbc_exec_action s a : cbc (exec_action s a) = cbc s.
Proof.
  unfold exec_action. destruct (halted s); [reflexivity|]. destruct a; try reflexivity.
  - unfold do_insert. destruct (objs s h); [reflexivity|]. destruct (vacant_entry _) as [[i sl]|]; [|reflexivity].
    destruct (nth_error sl i) as [e|]; [|reflexivity].
    match goal with |- context [disp_register ?a ?b ?c] => pose proof (cbc_disp_register a b c) as F; destruct (disp_register a b c) as [r s2] end.
    cbn [snd] in F. destruct (halted s2); [exact F|]. destruct r; cbn [Loop.cbn emit set_log set_toks set_slots]; exact F.
  - unfold do_remove. destruct (lookup s h) as [[[t et] o]|]; [|reflexivity].
    match goal with |- context [disp_unregister ?a ?b ?c] => pose proof (cbc_disp_unregister a b c) as F; destruct (disp_unregister a b c) as [[r d] s2] end.
    cbn [snd] in F. cbn [Loop.cbn emit set_log]. rewrite cbc_maybe_drop. exact F.
  - unfold do_disable. destruct (lookup s h) as [[[t et] o]|]; [|reflexivity].
    pose proof (cbc_disp_unregister s o t) as F. destruct (disp_unregister s o t) as [[r d] s1]. cbn [snd] in F.
    destruct r; [destruct d|..]; cbn [Loop.cbn emit set_log set_pending]; exact F.
  - unfold do_enable. destruct (lookup s h) as [[[t et] o]|]; [|reflexivity].
    pose proof (cbc_disp_register s o et) as F. destruct (disp_register s o et) as [r s1]. cbn [snd] in F.
    destruct (halted s1); cbn [Loop.cbn emit set_log]; exact F.
  - unfold do_update. destruct (lookup s h) as [[[t et] o]|]; [|reflexivity].
    pose proof (cbc_disp_reregister s o et) as F. destruct (disp_reregister s o et) as [[r d] s1]. cbn [snd] in F.
    destruct (halted s1); [exact F|]. destruct r; [destruct d|..]; cbn [Loop.cbn emit set_log set_pending]; exact F.
  - unfold do_setint. destruct (objs s h) as [ob|]; [|reflexivity]. destruct (negb (o_ext ob)); [reflexivity|].
    destruct (is_running s h); [reflexivity|]. destruct (o_src ob); cbn [Loop.cbn emit set_log]; rewrite ?cbc_set_obj_src; reflexivity.
  - unfold do_setdl. destruct (objs s h) as [ob|]; [|reflexivity]. destruct (negb (o_ext ob)); [reflexivity|].
    destruct (is_running s h); [reflexivity|]. destruct (o_src ob) as [lc own subs [tm|]|g|tm|c g]; cbn [Loop.cbn emit set_log]; rewrite ?cbc_set_obj_src; reflexivity.
  - unfold do_intoinner. destruct (objs s h) as [ob|]; [|reflexivity]. destruct (negb (o_ext ob)); [reflexivity|].
    destruct (in_slots (slots s) h || is_running s h); reflexivity.
  - unfold do_dropdisp. destruct (objs s h) as [ob|]; [|reflexivity]. destruct (negb (o_ext ob)); [reflexivity|].
    cbn [Loop.cbn emit set_log]. rewrite cbc_maybe_drop. reflexivity.
  - unfold do_send. destruct (env_send _ _ _) as [e' [rc|]]; reflexivity.
  - unfold do_send. destruct (env_send _ _ _) as [e' [rc|]]; reflexivity.
  - unfold do_cancelidle. destruct (match ridle s with Some r => r =? i | None => false end); reflexivity.
Qed.
Lemma cbc_exec_actions l : forall s, cbc (exec_actions s l) = cbc s.
Proof. unfold exec_actions. induction l as [|a l IH]; intros s; cbn [fold_left]; [reflexivity|]. rewrite IH. apply cbc_exec_action. Qed.

(* a callback of h counts for h and for nobody else *)
Lemma cbc_callback_other scr s h sub p o' : o' <> h -> cbc (fst (callback scr s h sub p)) o' = cbc s o'.
Proof. intros Hne. unfold callback. cbn [fst]. rewrite cbc_exec_actions. cbn [Loop.cbn emit set_log set_cbn]. unfold fupd. destruct (N.eqb_spec o' h); [contradiction|reflexivity]. Qed.

Lemma cbc_chan_loop_other scr fuel : forall s h c o', o' <> h -> cbc (fst (fst (chan_loop scr fuel s h c))) o' = cbc s o'.
Proof.
  induction fuel as [|f IH]; intros s h c o' Hne; cbn [chan_loop]; [reflexivity|].
  destruct (halted s); [reflexivity|]. destruct (chans (en s) c) as [ch|]; [|reflexivity].
  destruct (ch_q ch) as [|v q'].
  - destruct (ch_senders ch =? 0); [|reflexivity].
    pose proof (cbc_callback_other scr s h 1%Z 0%Z o' Hne) as C. destruct (callback scr s h 1%Z 0%Z) as [s2 sc]. exact C.
  - match goal with |- context [callback scr ?x h 0%Z v] => set (s1 := x) end.
    pose proof (cbc_callback_other scr s1 h 0%Z v o' Hne) as C. destruct (callback scr s1 h 0%Z v) as [s2 sc]. cbn [fst] in C.
    rewrite IH by exact Hne. exact C.
Qed.
Lemma cbc_ping_drain s g t : cbc (fst (fst (ping_drain s g t))) = cbc s.
Proof. unfold ping_drain. destruct (opt_tok_is (g_tok g) t); [|reflexivity]. destruct (fd_read (en s) (g_fd g)) as [e1 v]. destruct (v =? 0); reflexivity. Qed.

(* processing an event at object o runs callbacks of o only *)
Lemma cbc_obj_process_other scr s o ev o' : o' <> o -> cbc (fst (obj_process scr s o ev)) o' = cbc s o'.
Proof.
  intros Hne. unfold obj_process. destruct (objs s o) as [ob|]; [|reflexivity].
  destruct (o_src ob) as [lc own subs tmr|g|tm|c g].
  - destruct (if opt_tok_is own _ then _ else _) as [j|].
    + pose proof (cbc_callback_other scr s o j (zN (rd_code (ev_rd ev))) o' Hne) as C. destruct (callback scr s o j _) as [s1 sc]. exact C.
    + destruct tmr as [tm|]; [|reflexivity]. cbn [fst]. unfold timer_sub_fire.
      destruct (tm_reg tm) as [[tk c]|]; [|reflexivity]. destruct (tm_dl tm) as [dl|]; [|reflexivity].
      destruct (tok_eqb tk _); [|reflexivity].
      pose proof (cbc_callback_other scr s o (Z.of_nat (S (length subs))) dl o' Hne) as C. destruct (callback scr s o _ dl) as [s1 sc]. cbn [fst] in C.
      destruct (sc_ret sc) as [|[[| |]|[| |]|]]; rewrite ?cbc_set_obj_src; cbn [Loop.cbn eenv set_en]; exact C.
  - pose proof (cbc_ping_drain s g (unpack (ev_key ev))) as P. destruct (ping_drain s g _) as [[s1 r] pinged]. cbn [fst] in *.
    destruct pinged; cbn [fst]; [|rewrite P; reflexivity]. rewrite cbc_callback_other by exact Hne. rewrite P. reflexivity.
  - destruct (tm_reg tm) as [[tk c]|]; [|reflexivity]. destruct (tm_dl tm) as [dl|]; [|reflexivity].
    destruct (tok_eqb tk _); [|reflexivity].
    pose proof (cbc_callback_other scr s o 0%Z dl o' Hne) as C. destruct (callback scr s o 0%Z dl) as [s1 sc]. cbn [fst] in C.
    destruct (sc_ret sc) as [|[[| |]|[| |]|]]; cbn [fst]; rewrite ?cbc_set_obj_src; cbn [Loop.cbn eenv set_en]; exact C.
  - pose proof (cbc_ping_drain s g (unpack (ev_key ev))) as P. destruct (ping_drain s g _) as [[s1 r] pinged]. cbn [fst] in *.
    destruct r as [act|]; cbn [fst]; [|rewrite P; reflexivity].
    destruct pinged.
    + pose proof (cbc_chan_loop_other scr (chan_max (en s) c) s1 o c o' Hne) as L. destruct (chan_loop scr _ s1 o c) as [[s2 clear] disc]. cbn [fst] in L.
      destruct disc; cbn [fst]; [rewrite L, P; reflexivity|]. destruct clear; cbn [fst Loop.cbn eenv set_en]; rewrite L, P; reflexivity.
    + cbn [fst Loop.cbn eenv set_en]. rewrite P. reflexivity.
Qed.

Lemma cbc_apply_post s o reg r : cbc (snd (apply_post s o reg r)) = cbc s.
Proof.
  unfold apply_post. destruct r.
  - reflexivity.
  - pose proof (cbc_disp_reregister s o reg) as F. destruct (disp_reregister s o reg) as [[rs d] sx]. exact F.
  - pose proof (cbc_disp_unregister s o reg) as F. destruct (disp_unregister s o reg) as [[rs d] sx]. exact F.
  - cbn [snd]. destruct (slot_get (slots s) reg); reflexivity.
Qed.

(* THE ATTRIBUTION STEP: if the callback counter of o' changed while an event was processed, the event's token resolved
   (generation-checked) to o' when its processing began *)
Theorem process_event_attributed scr s ev o' :
  cbc (fst (process_event scr s ev)) o' <> cbc s o' -> lc_lookup s (forget_sub_id (unpack (ev_key ev))) = Some o'.
Proof.
  unfold process_event, lc_lookup. destruct (slot_get (slots s) _) as [sl|]; [|intros H; exfalso; apply H; reflexivity].
  destruct (s_obj sl) as [o|]; [|intros H; exfalso; apply H; reflexivity].
  intros H. destruct (N.eq_dec o' o) as [->|Hne]; [reflexivity|]. exfalso. apply H. clear H.
  set (reg := forget_sub_id (unpack (ev_key ev))).
  pose proof (cbc_obj_process_other scr (set_running s (Some (o, reg))) o ev o' Hne) as P.
  destruct (obj_process scr _ o ev) as [s2 ret]. cbn [fst] in P. change (cbc (set_running s (Some (o, reg)))) with (cbc s) in P.
  destruct (halted s2); [exact P|].
  set (s4 := set_pending (set_running s2 None) Continue).
  assert (A : cbc (snd (match ret with None => (false, s4) | Some r => apply_post s4 o reg (match r with Continue => pending (set_running s2 None) | _ => r end) end)) = cbc s2).
  { destruct ret as [r|]; [rewrite cbc_apply_post; reflexivity|reflexivity]. }
  destruct (match ret with None => _ | Some r => _ end) as [ok s5]. cbn [snd] in A.
  destruct (halted s5); [cbn [fst]; rewrite A; exact P|]. cbn [fst]. rewrite cbc_end_processing.
  destruct (slot_vacant_for s5 reg); [|rewrite A; exact P].
  pose proof (cbc_disp_unregister s5 o reg) as F. destruct (disp_unregister s5 o reg) as [[rs d] sx]. cbn [snd] in F. rewrite F, A. exact P.
Qed.

(* nothing else in a dispatch runs source callbacks: the lifecycle loops and the idle phase leave every counter alone *)
Lemma cbc_before_sleep_loop bscr l : forall s, cbc (fst (before_sleep_loop bscr s l)) = cbc s.
Proof.
  induction l as [|t l IH]; intros s; cbn [before_sleep_loop]; [reflexivity|].
  destruct (lc_lookup s t) as [o|]; [|reflexivity].
  destruct (nth _ _ _) as [|p]; [rewrite IH; reflexivity|].
  destruct p; try reflexivity.
  destruct (match objs _ o with Some _ => _ | None => _ end) as [tk|]; rewrite IH; reflexivity.
Qed.
Lemma cbc_before_handle_loop l polled : forall s, cbc (fst (before_handle_loop s l polled)) = cbc s.
Proof.
  induction l as [|t l IH]; intros s; cbn [before_handle_loop]; [reflexivity|].
  destruct (lc_lookup s t) as [o|]; [|reflexivity]. rewrite IH. reflexivity.
Qed.
Lemma cbc_run_idles scr l : forall s, cbc (run_idles scr s l) = cbc s.
Proof.
  induction l as [|i l IH]; intros s; cbn [run_idles]; [reflexivity|].
  destruct (halted s); [reflexivity|]. destruct (idle_cancelled s i); [apply IH|].
  match goal with |- context [exec_actions ?x ?a] => set (s1 := x); set (acts := a) end.
  pose proof (cbc_exec_actions acts s1) as E. change (cbc s1) with (cbc s) in E.
  destruct (halted (exec_actions s1 acts)); [exact E|]. rewrite IH. exact E.
Qed.
