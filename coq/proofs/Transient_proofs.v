From CV Require Import Base PostAction Transient.
Open Scope N_scope.

(* the invariant between two operations *)
Definition tinv (s : tst) : Prop :=
  all_ok (evs s) = true /\
  match ts s with
  | TKeep c => c_reg c = parent_reg s
  | TRegister c => c_reg c = false /\ parent_reg s = false
  | TDisable c => c_reg c = false
  | TRemove c => c_reg c = parent_reg s /\ (parent_reg s = true -> dirty s = true)
  | TReplace n o => c_reg n = false /\ c_reg o = parent_reg s /\ (parent_reg s = true -> dirty s = true)
  | TNone => True
  end.

Lemma all_ok_app a b : all_ok (a ++ b) = all_ok a && all_ok b.
Proof. unfold all_ok. apply forallb_app. Qed.

Ltac crush :=
  repeat match goal with
         | c : child |- _ => destruct c
         | H : _ /\ _ |- _ => destruct H
         end;
  cbn in *; subst;
  repeat match goal with
         | b : bool |- _ => destruct b
         end;
  cbn in *; rewrite ?N.eqb_refl in *; cbn in *;
  repeat split; intros; try discriminate; try reflexivity; try assumption; try congruence;
  try (match goal with H : true = true -> _ |- _ => specialize (H eq_refl) end; try discriminate; try congruence).

Lemma tinv_step s o :
  tinv s -> f7_state (ts s) = false -> proto_step s o = true -> f7_state (ts (t_step s o)) = false -> tinv (t_step s o).
Proof.
  destruct s as [st p n d ev]. unfold tinv. cbn [ts parent_reg dirty evs next_id].
  intros [Hev Hst] Hf Hp Hf'.
  destruct o as [a| | | | | |a rp]; destruct st as [c|c|c|c|nw od|]; try destruct a; try destruct rp;
    cbn [t_step ts parent_reg dirty evs next_id] in *.
  all: try (split; [exact Hev|exact Hst]).
  all: try solve [crush; rewrite ?all_ok_app, ?Hev; crush].
Qed.

Lemma tinv_init b : tinv (t_init b).
Proof. destruct b; unfold tinv; cbn; repeat split; reflexivity. Qed.

Lemma t_run_inv ops : forall s,
  tinv s -> proto_ok s ops = true -> f7_free s ops = true -> tinv (fold_left t_step ops s).
Proof.
  induction ops as [|o r IH]; intros s Hi Hp Hf; cbn [fold_left]; [exact Hi|].
  cbn [proto_ok f7_free] in Hp, Hf. apply andb_prop in Hp as [Hp1 Hp2]. apply andb_prop in Hf as [Hf1 Hf2].
  apply negb_true_iff in Hf1.
  assert (Hf' : f7_state (ts (t_step s o)) = false).
  { destruct r; cbn [f7_free] in Hf2; apply andb_prop in Hf2 as [A _]; apply negb_true_iff in A; exact A. }
  apply IH; [apply tinv_step; assumption|exact Hp2|exact Hf2].
Qed.

Theorem transient_ok from ops :
  proto_ok (t_init from) ops = true -> f7_free (t_init from) ops = true -> tinv (t_run from ops).
Proof. intros Hp Hf. unfold t_run. apply t_run_inv; [apply tinv_init|exact Hp|exact Hf]. Qed.

(* TransientSource itself only ever returns Continue or Reregister *)
Lemma t_process_ret s a : let '(_, r, _) := t_process s a in r = Continue \/ r = Reregister.
Proof. destruct s; try destruct a; cbn; auto. Qed.
(* events are forwarded only to the child held in Keep; anything else (in particular the empty wrapper) is a no-op *)
Lemma t_process_fwd s a : forall id, In (CFwd id) (snd (t_process s a)) -> exists c, s = TKeep c /\ c_id c = id.
Proof. intros id. destruct s; try destruct a; cbn; intros H; try contradiction; destruct H as [[= <-]|[]]; eexists; split; reflexivity. Qed.
Lemma t_process_not_keep s a : (forall c, s <> TKeep c) -> t_process s a = (s, Continue, []).
Proof. intros H. destruct s; try reflexivity. exfalso. eapply H. reflexivity. Qed.

(* F7: a child that returned Disable is unregistered a second time by the next reregister / unregister of the parent *)
Lemma f7_refuted :
  proto_ok (t_init true) [OpRegister; OpEvent Disable; OpReregister] = true /\
  all_ok (evs (t_run true [OpRegister; OpEvent Disable; OpReregister])) = false /\
  proto_ok (t_init true) [OpRegister; OpEvent Disable; OpUnregister] = true /\
  all_ok (evs (t_run true [OpRegister; OpEvent Disable; OpUnregister])) = false.
Proof. vm_compute. repeat split. Qed.
