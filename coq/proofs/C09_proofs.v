(* C09: no deferred or returned post-action leaks to another source or to a later event. *)
From CV Require Import Base Consts Token PostAction Env Loop.
From CVP Require Import Loop_frames.
Open Scope N_scope.

(* between two events (and between two commands) nothing is being processed and no action is pending *)
Definition quiet (s : st) : Prop := running s = None /\ pending s = Continue.

Lemma process_event_quiet scr s ev :
  quiet s -> halted (fst (process_event scr s ev)) = false -> quiet (fst (process_event scr s ev)).
Proof.
  intros [Hr Hp] Hh. unfold process_event in *.
  destruct (slot_get (slots s) _) as [sl|]; [|split; assumption].
  destruct (s_obj sl) as [o|]; [|split; assumption].
  destruct (obj_process scr _ o ev) as [s2 ret] eqn:E.
  destruct (halted s2) eqn:H2; [cbn in Hh; congruence|].
  set (s4 := set_pending (set_running s2 None) Continue) in *.
  set (reg := forget_sub_id (unpack (ev_key ev))) in *.
  assert (P5 : forall x, pending (snd (match ret with None => (false, s4) | Some r => apply_post s4 o reg (x r) end)) = Continue).
  { intros x. destruct ret as [r|]; [rewrite pending_apply_post|]; reflexivity. }
  specialize (P5 (fun r => match r with Continue => pending (set_running s2 None) | _ => r end)). cbv beta in P5.
  destruct (match ret with None => (false, s4) | Some r => apply_post s4 o reg _ end) as [ok s5]. cbn [snd] in P5.
  destruct (halted s5) eqn:H5; [cbn in Hh; congruence|].
  cbn [fst]. split; [apply running_end_processing|]. rewrite pending_end_processing.
  destruct (slot_vacant_for s5 reg); [|exact P5].
  destruct (disp_unregister s5 o reg) as [[rs dn] sx] eqn:EU.
  pose proof (pending_disp_unregister s5 o reg) as PU. rewrite EU in PU. cbn in PU. congruence.
Qed.

(* an event whose processing went through (no error, no panic) leaves a running loop *)
Lemma process_event_ok_not_halted scr s ev :
  halted s = false -> snd (process_event scr s ev) = true -> halted (fst (process_event scr s ev)) = false.
Proof.
  intros Hs Hok. unfold process_event in *.
  destruct (slot_get (slots s) _) as [sl|]; [|exact Hs].
  destruct (s_obj sl) as [o|]; [|exact Hs].
  destruct (obj_process scr _ o ev) as [s2 ret].
  destruct (halted s2) eqn:H2; [cbn in Hok; discriminate|].
  destruct (match ret with None => _ | Some r => _ end) as [ok s5].
  destruct (halted s5) eqn:H5; [cbn in Hok; discriminate|].
  cbn [fst]. rewrite halted_end_processing.
  destruct (slot_vacant_for s5 _); [|exact H5].
  destruct (disp_unregister s5 o _) as [[rs dn] sx] eqn:EU.
  pose proof (halted_disp_unregister s5 o (forget_sub_id (unpack (ev_key ev)))) as HU. rewrite EU in HU. cbn in HU. congruence.
Qed.

Lemma process_events_quiet scr evs : forall s,
  halted s = false -> quiet s ->
  halted (fst (process_events scr s evs)) = false -> quiet (fst (process_events scr s evs)).
Proof.
  induction evs as [|ev evs IH]; intros s Hs Q H; cbn in *; [exact Q|].
  pose proof (process_event_quiet scr s ev Q) as Q1.
  pose proof (process_event_ok_not_halted scr s ev Hs) as N1.
  destruct (process_event scr s ev) as [s1 ok]. cbn [fst snd] in *.
  destruct ok.
  - specialize (N1 eq_refl). apply IH; [exact N1|apply Q1; exact N1|exact H].
  - cbn [fst] in H. apply Q1; exact H.
Qed.

Lemma before_sleep_loop_frame bscr l : forall s,
  running (fst (before_sleep_loop bscr s l)) = running s /\ pending (fst (before_sleep_loop bscr s l)) = pending s
  /\ (snd (before_sleep_loop bscr s l) <> BSPanic -> halted (fst (before_sleep_loop bscr s l)) = halted s).
Proof.
  induction l as [|t l IH]; intros s; cbn; [repeat split; reflexivity|].
  destruct (lc_lookup s t) as [o|]; [|repeat split; try reflexivity; cbn; congruence].
  destruct (nth _ _ _) as [|p] eqn:En.
  - match goal with |- context [before_sleep_loop bscr ?x l] => destruct (IH x) as (A & B & C) end. rewrite A, B. repeat split. exact C.
  - destruct p; try (repeat split; reflexivity).
    destruct (match objs _ o with Some _ => _ | None => _ end) as [tk|].
    + match goal with |- context [before_sleep_loop bscr ?x l] => destruct (IH x) as (A & B & C) end. rewrite A, B. repeat split. exact C.
    + match goal with |- context [before_sleep_loop bscr ?x l] => destruct (IH x) as (A & B & C) end. rewrite A, B. repeat split. exact C.
Qed.

Lemma before_handle_loop_frame l polled : forall s,
  running (fst (before_handle_loop s l polled)) = running s /\ pending (fst (before_handle_loop s l polled)) = pending s
  /\ (snd (before_handle_loop s l polled) = true -> halted (fst (before_handle_loop s l polled)) = halted s).
Proof.
  induction l as [|t l IH]; intros s; cbn; [repeat split; reflexivity|].
  destruct (lc_lookup s t) as [o|]; [|repeat split; try reflexivity; cbn; congruence].
  match goal with |- context [before_handle_loop ?x l polled] => destruct (IH x) as (A & B & C) end. rewrite A, B. repeat split. exact C.
Qed.

Lemma run_idles_quiet scr l : forall s, quiet s -> quiet (run_idles scr s l).
Proof.
  induction l as [|i l IH]; intros s Q; cbn; [exact Q|].
  destruct (halted s); [exact Q|].
  destruct (idle_cancelled s i); [apply IH; exact Q|].
  match goal with |- context [exec_actions ?x ?a] => set (s1 := x); set (acts := a) end.
  destruct Q as [Qr Qp].
  assert (R1 : running s1 = None) by exact Qr.
  assert (P1 : pending s1 = Continue) by exact Qp.
  pose proof (running_exec_actions acts s1) as R2. pose proof (pending_exec_actions acts s1 R1) as P2.
  destruct (halted (exec_actions s1 acts)).
  - split; congruence.
  - apply IH. split; cbn; congruence.
Qed.

Lemma dispatch_quiet scr bscr s t order :
  halted s = false -> quiet s -> halted (dispatch scr bscr s t order) = false -> quiet (dispatch scr bscr s t order).
Proof.
  intros Hs [Qr Qp] Hh. unfold dispatch in *.
  destruct (before_sleep_loop_frame bscr (lifecycle s) s) as (A & B & C).
  destruct (before_sleep_loop bscr s (lifecycle s)) as [s1 bs]. cbn [fst snd] in A, B, C.
  assert (Q1 : quiet s1) by (split; congruence).
  destruct bs; [|exact Q1|exact Q1].
  assert (H1 : halted s1 = false) by (rewrite C; [exact Hs|discriminate]).
  destruct (poll (en s1) t order) as [polled e2].
  set (s3 := emit (set_en s1 e2) (L T_BATCH (zsort (map ev_code polled)))) in *.
  destruct (before_handle_loop_frame (lifecycle s3) polled s3) as (A4 & B4 & C4).
  destruct (before_handle_loop s3 (lifecycle s3) polled) as [s4 ok].
  cbn [fst snd] in A4, B4, C4.
  assert (Q4 : quiet s4) by (destruct Q1; split; [rewrite A4|rewrite B4]; assumption).
  destruct ok; cbn [negb] in *; [|exact Q4].
  assert (H4 : halted s4 = false) by (rewrite C4; [exact H1|reflexivity]).
  pose proof (process_events_quiet scr (synth s4 ++ polled) (set_synth s4 [])) as PE.
  destruct (process_events scr (set_synth s4 []) (synth s4 ++ polled)) as [s5 ok2]. cbn [fst] in PE.
  destruct (halted s5) eqn:H5; [congruence|].
  specialize (PE H4 Q4 eq_refl).
  destruct ok2; cbn [negb] in *; [|exact PE].
  assert (Q6 : quiet (run_idles scr (set_idles s5 []) (idles s5))) by (apply run_idles_quiet; exact PE).
  destruct (halted (run_idles scr (set_idles s5 []) (idles s5))); [congruence|exact Q6].
Qed.

Lemma emits_frame l : forall s, running (emits s l) = running s /\ pending (emits s l) = pending s /\ halted (emits s l) = halted s.
Proof. unfold emits. induction l as [|x l IH]; intros s; cbn; [repeat split|]. destruct (IH (emit s x)) as (A & B & C). rewrite A, B, C. repeat split. Qed.

Lemma exec_cmd_quiet scr bscr s c :
  quiet s -> halted (exec_cmd scr bscr s c) = false -> quiet (exec_cmd scr bscr s c).
Proof.
  intros Q H. unfold exec_cmd in *. destruct (halted s) eqn:Hs; [exact Q|].
  assert (Q' : quiet (emit s (L T_CMD []))) by exact Q.
  assert (Hs' : halted (emit s (L T_CMD [])) = false) by exact Hs.
  revert Q' Hs' H. generalize (emit s (L T_CMD [])). clear s Q Hs. intros s Q Hs H.
  destruct c.
  - destruct Q as [Qr Qp]. split; [rewrite running_exec_action; exact Qr|rewrite pending_exec_action; assumption].
  - apply dispatch_quiet; assumption.
  - destruct (emits_frame (stats_lines s) s) as (A & B & _). destruct Q; split; congruence.
  - destruct (emits_frame (epoll_lines s) s) as (A & B & _). destruct Q; split; congruence.
Qed.

Lemma exec_cmds_quiet scr bscr cmds : forall s,
  quiet s -> halted (fold_left (exec_cmd scr bscr) cmds s) = false -> quiet (fold_left (exec_cmd scr bscr) cmds s).
Proof.
  induction cmds as [|c cmds IH]; intros s Q H; cbn in *; [exact Q|].
  apply IH; [|exact H].
  destruct (halted (exec_cmd scr bscr s c)) eqn:Hc.
  - exfalso. clear - H Hc. revert H. generalize (exec_cmd scr bscr s c) Hc. clear.
    induction cmds as [|c cmds IH]; intros s Hc H; cbn in *; [congruence|].
    apply (IH s); [exact Hc|]. unfold exec_cmd in H at 2. rewrite Hc in H. exact H.
  - apply exec_cmd_quiet; assumption.
Qed.

(* every reachable top-level state of a scenario that did not panic has no post action pending *)
Lemma run_quiet scr bscr cmds : halted (run scr bscr cmds) = false -> quiet (run scr bscr cmds).
Proof. unfold run. apply exec_cmds_quiet. split; reflexivity. Qed.

(* only update() and disable() ever record a deferred action ... *)
Lemma pending_exec_action_other s a :
  (forall h, a <> AUpdate h) -> (forall h, a <> ADisable h) -> pending (exec_action s a) = pending s.
Proof.
  intros NU ND. unfold exec_action. destruct (halted s); [reflexivity|].
  destruct a; try (exfalso; eapply NU; reflexivity); try (exfalso; eapply ND; reflexivity); cbn;
    unfold do_insert, do_remove, do_enable, do_setint, do_setdl, do_intoinner, do_dropdisp,
           do_send, do_idle, do_cancelidle, drop_obj, eenv;
    dmatch; cbn; use_frames;
    rewrite ?pending_maybe_drop, ?pending_set_obj_src; cbn; try reflexivity; try congruence.
Qed.

(* ... and only when the target is the very source whose callback is running *)
Lemma disp_reregister_done' s o t : is_running s o = false -> snd (fst (disp_reregister s o t)) = true.
Proof. intros H. unfold disp_reregister. rewrite H. dmatch; reflexivity. Qed.
Lemma disp_unregister_done' s o t : is_running s o = false -> snd (fst (disp_unregister s o t)) = true.
Proof. intros H. unfold disp_unregister. rewrite H. dmatch; reflexivity. Qed.
Lemma disp_reregister_running s o t : is_running s o = true -> (exists ob, objs s o = Some ob) -> disp_reregister s o t = (ROk, false, s).
Proof. intros H [ob E]. unfold disp_reregister. rewrite E, H. reflexivity. Qed.
Lemma disp_unregister_running s o t : is_running s o = true -> (exists ob, objs s o = Some ob) -> disp_unregister s o t = (ROk, false, s).
Proof. intros H [ob E]. unfold disp_unregister. rewrite E, H. reflexivity. Qed.
Lemma disp_reregister_noobj s o t : objs s o = None -> disp_reregister s o t = (ROther, true, s).
Proof. intros E. unfold disp_reregister. rewrite E. reflexivity. Qed.
Lemma disp_unregister_noobj s o t : objs s o = None -> disp_unregister s o t = (ROther, true, s).
Proof. intros E. unfold disp_unregister. rewrite E. reflexivity. Qed.

Lemma pending_update_self s h :
  pending (exec_action s (AUpdate h)) = pending s \/
  exists t et o reg, lookup s h = Some (t, et, o) /\ running s = Some (o, reg) /\ pending (exec_action s (AUpdate h)) = Reregister.
Proof.
  unfold exec_action. destruct (halted s) eqn:Hh; [left; reflexivity|]. unfold do_update.
  destruct (lookup s h) as [[[t et] o]|] eqn:El; [|left; reflexivity].
  destruct (objs s o) as [ob|] eqn:Eo.
  2:{ left. rewrite (disp_reregister_noobj s o et Eo). rewrite Hh. reflexivity. }
  destruct (is_running s o) eqn:Er.
  - right. rewrite (disp_reregister_running s o et Er (ex_intro _ ob Eo)). rewrite Hh. cbn.
    unfold is_running in Er. destruct (running s) as [[r reg]|]; [|discriminate].
    apply N.eqb_eq in Er. subst r. exists t, et, o, reg. repeat split.
  - left. pose proof (pending_disp_reregister s o et) as P. pose proof (disp_reregister_done' s o et Er) as D.
    destruct (disp_reregister s o et) as [[r d] s1]. cbn in P, D. subst d.
    destruct (halted s1); [exact P|]. destruct r; cbn; exact P.
Qed.
Lemma pending_disable_self s h :
  pending (exec_action s (ADisable h)) = pending s \/
  exists t et o reg, lookup s h = Some (t, et, o) /\ running s = Some (o, reg) /\ pending (exec_action s (ADisable h)) = Disable.
Proof.
  unfold exec_action. destruct (halted s) eqn:Hh; [left; reflexivity|]. unfold do_disable.
  destruct (lookup s h) as [[[t et] o]|] eqn:El; [|left; reflexivity].
  destruct (objs s o) as [ob|] eqn:Eo.
  2:{ left. rewrite (disp_unregister_noobj s o t Eo). reflexivity. }
  destruct (is_running s o) eqn:Er.
  - right. rewrite (disp_unregister_running s o t Er (ex_intro _ ob Eo)). cbn.
    unfold is_running in Er. destruct (running s) as [[r reg]|]; [|discriminate].
    apply N.eqb_eq in Er. subst r. exists t, et, o, reg. repeat split.
  - left. pose proof (pending_disp_unregister s o t) as P. pose proof (disp_unregister_done' s o t Er) as D.
    destruct (disp_unregister s o t) as [[r d] s1]. cbn in P, D. subst d.
    destruct r; cbn; exact P.
Qed.
