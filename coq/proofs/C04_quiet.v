From CV Require Import Base Consts ConcChannel.
From CVP Require Import ConcChannel_proofs.
Open Scope N_scope.

(* a state in which nothing is on its way any more: the eventfd is not readable, no sender is between its enqueue and its ping, and
   the loop is not inside a drain *)
Definition cc_quiet (s : ccst) : Prop := creg s = false \/ (cctr s < 2 /\ ntoping (cthr s) = 0 /\ loop_busy s = false).

Lemma quiet_all_delivered s : ccinv s -> cc_quiet s ->
  cdelivered s = csent s /\ cq s = [] /\ (csenders s = 0 -> cclosed s = 1 /\ creg s = false).
Proof.
  intros (Hd & _ & _ & Hw & _ & Hc & Hr & _) Q.
  destruct (creg s) eqn:R.
  - destruct Q as [Q|(Q1 & Q2 & Q3)]; [congruence|].
    assert (NW : ~ wake_pending s) by (unfold wake_pending; intros [X|[X|X]]; [lia|lia|congruence]).
    assert (Hq : cq s = []) by (destruct (cq s) as [|m r] eqn:E; [reflexivity|exfalso; apply NW, Hw; [reflexivity|left; discriminate]]).
    split; [rewrite Hq, app_nil_r in Hd; exact Hd|]. split; [exact Hq|].
    intros S0. exfalso. apply NW, Hw; [reflexivity|right; exact S0].
  - destruct (Hr eq_refl) as [S0 Hq]. split; [rewrite Hq, app_nil_r in Hd; exact Hd|]. split; [exact Hq|].
    intros _. split; [apply Hc; reflexivity|reflexivity].
Qed.
Theorem quiescent_run_delivered_everything b progs nd sched : progs <> [] -> Forall (fun p => wf_cprog 1 p = true) progs ->
  cc_quiet (cc_run b progs nd sched) ->
  let s := cc_run b progs nd sched in
  cdelivered s = csent s /\ cq s = [] /\ (csenders s = 0 -> cclosed s = 1 /\ creg s = false).
Proof. intros H1 H2 Q. exact (quiet_all_delivered _ (ccinv_run b progs nd sched H1 H2) Q). Qed.
Example quiet_somewhere :
  cc_quiet (cc_run None [[CSend 7; CSend 8; CDropS]] 3 [1; 1; 1; 0; 0; 0; 1; 1; 1; 0; 0; 0; 0; 0; 0; 0]%nat).
Proof. left. vm_compute. reflexivity. Qed.
Example quiet_somewhere_open :
  let s := cc_run None [[CSend 7; CSend 8]] 3 [1; 1; 1; 0; 0; 0; 1; 1; 1; 0; 0; 0; 0; 0; 0; 0]%nat in cc_quiet s /\ creg s = true /\ cdelivered s = [7; 8].
Proof. vm_compute. split; [right; repeat split|split; reflexivity]. Qed.
