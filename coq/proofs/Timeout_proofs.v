From CV Require Import Base Token Env Timeout.
From CVP Require Import Env_lemmas.
Open Scope Z_scope.

Lemma eff_none timeout syn next now : eff_timeout timeout syn next now = None <-> (syn = false /\ timeout = None /\ next = None).
Proof. unfold eff_timeout. destruct syn, timeout, next; cbn; split; intros H; try discriminate; try tauto; destruct H as (A & B & C); discriminate. Qed.

Lemma eff_spec timeout syn next now e : eff_timeout timeout syn next now = Some e ->
  let t := if syn then Some 0 else timeout in
  (forall x, t = Some x -> e <= x) /\ (forall d, next = Some d -> e <= sat_since d now) /\
  (t = Some e \/ exists d, next = Some d /\ e = sat_since d now).
Proof.
  unfold eff_timeout. destruct (if syn then Some 0 else timeout) as [a|], next as [d|]; cbn; intros [= <-].
  - split; [intros x [= <-]; lia|]. split; [intros d' [= <-]; lia|].
    destruct (Z.min_spec a (sat_since d now)) as [[? ->]|[? ->]]; [left; reflexivity|right; eexists; split; reflexivity].
  - split; [intros x [= <-]; lia|]. split; [intros d' H; discriminate|left; reflexivity].
  - split; [intros x H; discriminate|]. split; [intros d' [= <-]; lia|right; eexists; split; reflexivity].
Qed.
Lemma sat_since_nonneg d now : 0 <= sat_since d now /\ (now <= d -> sat_since d now = d - now) /\ (d <= now -> sat_since d now = 0).
Proof. unfold sat_since. lia. Qed.

(* a zero timeout never blocks *)
Lemma eff_zero syn next now : eff_timeout (Some 0) syn next now = Some 0.
Proof. unfold eff_timeout, sat_since. destruct syn, next; cbn; try reflexivity; f_equal; lia. Qed.

(* if the wait ends at or after the earliest deadline, that deadline's timer is in the batch *)
Lemma limit_fires l d now' : wh_next_deadline (mkWheel l 0%N) = Some d -> d <= now' ->
  exists e, In e (fst (wh_expire (length l) l now')) /\ w_dl e = d.
Proof.
  unfold wh_next_deadline. cbn. destruct (wh_min l) as [m|] eqn:Em; [|discriminate]. intros [= <-] Hle.
  destruct l as [|x t]; [discriminate|]. cbn [length wh_expire]. rewrite Em.
  destruct (Z.leb_spec (w_dl m) now'); [|lia].
  destruct (wh_expire _ _ _) as [ex rest]. exists m. split; [left; reflexivity|reflexivity].
Qed.
