(* Step-level lemmas about the sequential loop model (Loop.v) used by several properties. *)
From CV Require Import Base Consts Token PostAction Env Loop.
From CVP Require Import Token_proofs Loop_frames Env_lemmas.
Open Scope N_scope.

Lemma tok_eqb_eq a b : tok_eqb a b = true <-> a = b.
Proof.
  unfold tok_eqb. destruct a as [i v s], b as [i' v' s']; cbn. split.
  - intros H. apply andb_prop in H as [H H3]. apply andb_prop in H as [H1 H2].
    apply N.eqb_eq in H1, H2, H3. congruence.
  - intros [= -> -> ->]. rewrite !N.eqb_refl. reflexivity.
Qed.
Lemma tok_eqb_refl a : tok_eqb a a = true. Proof. apply tok_eqb_eq; reflexivity. Qed.

(* ---------- the lifecycle set stays duplicate-free (C14) ---------- *)
Lemma existsb_tok_in t l : existsb (tok_eqb t) l = true <-> In t l.
Proof.
  rewrite existsb_exists. split.
  - intros [x [Hin He]]. apply tok_eqb_eq in He. subst. exact Hin.
  - intros H. exists t. split; [exact H|apply tok_eqb_refl].
Qed.
Lemma lc_register_nodup l t : NoDup l -> NoDup (lc_register l t).
Proof.
  intros H. unfold lc_register. destruct (existsb (tok_eqb t) l) eqn:E; [exact H|].
  assert (Hn : ~ In t l) by (intros Hin; apply existsb_tok_in in Hin; congruence).
  clear E. induction l as [|x r IH]; cbn.
  - constructor; [intros []|constructor].
  - inversion H as [|? ? Hx Hr]; subst. constructor.
    + intros Hin. apply in_app_or in Hin as [Hin|[<-|[]]]; [contradiction|apply Hn; left; reflexivity].
    + apply IH; [exact Hr|intros Hin; apply Hn; right; exact Hin].
Qed.
Lemma lc_register_in l t : In t (lc_register l t).
Proof.
  unfold lc_register. destruct (existsb (tok_eqb t) l) eqn:E; [apply existsb_tok_in; exact E|].
  apply in_or_app. right. left. reflexivity.
Qed.
Lemma lc_unregister_nodup l t : NoDup l -> NoDup (lc_unregister l t).
Proof. intros H. unfold lc_unregister. apply NoDup_filter. exact H. Qed.
Lemma lc_unregister_not_in l t : ~ In t (lc_unregister l t).
Proof. unfold lc_unregister. rewrite filter_In. intros [_ H]. rewrite tok_eqb_refl in H. discriminate. Qed.
Lemma lc_unregister_other l t x : x <> t -> In x l -> In x (lc_unregister l t).
Proof.
  intros Hne Hin. unfold lc_unregister. rewrite filter_In. split; [exact Hin|].
  destruct (tok_eqb x t) eqn:E; [apply tok_eqb_eq in E; contradiction|reflexivity].
Qed.

(* ---------- token check: a source only reacts to events carrying one of its own tokens (C01, C07) ---------- *)
Definition src_has_tok (x : src) (t : tok) : bool :=
  match x with
  | SComp _ own subs tmr =>
      opt_tok_is own t || existsb (fun g => opt_tok_is (g_tok g) t) subs ||
      match tmr with Some tm => match tm_reg tm with Some (tk, _) => tok_eqb tk t | None => false end | None => false end
  | SPing g => opt_tok_is (g_tok g) t
  | SChan _ g => opt_tok_is (g_tok g) t
  | STimer tm => match tm_reg tm with Some (tk, _) => tok_eqb tk t | None => false end
  end.
(* a source without any registration token: unregistered / disabled *)
Definition src_silent (x : src) : Prop := forall t, src_has_tok x t = false.

Lemma find_sub_none subs t : forall j, existsb (fun g => opt_tok_is (g_tok g) t) subs = false -> find_sub subs t j = None.
Proof.
  induction subs as [|g r IH]; intros j H; cbn in *; [reflexivity|].
  apply orb_false_iff in H as [H1 H2]. rewrite H1. apply IH. exact H2.
Qed.

Lemma obj_process_no_token scr s o ob ev :
  objs s o = Some ob -> src_has_tok (o_src ob) (unpack (ev_key ev)) = false ->
  log (fst (obj_process scr s o ev)) = log s /\ snd (obj_process scr s o ev) = Some Continue.
Proof.
  intros Ho Ht. unfold obj_process. rewrite Ho. destruct (o_src ob) as [lc own subs tmr|g|tm|c g]; cbn in Ht.
  - apply orb_false_iff in Ht as [Ht H3]. apply orb_false_iff in Ht as [H1 H2]. rewrite H1, (find_sub_none subs _ 1%nat H2).
    destruct tmr as [tm|]; [|split; reflexivity]. unfold timer_sub_fire.
    destruct (tm_reg tm) as [[tk c]|]; [|split; reflexivity]. destruct (tm_dl tm); [|split; reflexivity].
    rewrite H3. split; reflexivity.
  - unfold ping_drain. rewrite Ht. split; reflexivity.
  - destruct (tm_reg tm) as [[tk c]|]; [|split; reflexivity]. destruct (tm_dl tm); [|split; reflexivity].
    rewrite Ht. split; reflexivity.
  - unfold ping_drain. rewrite Ht. cbn. split; reflexivity.
Qed.

(* a successful unregister leaves the source without tokens *)
Lemma subs_unregister_silent subs : forall e subs' e',
  subs_unregister e subs = (true, subs', e') -> forall t, existsb (fun g => opt_tok_is (g_tok g) t) subs' = false.
Proof.
  induction subs as [|g r IH]; intros e subs' e' H t; cbn in H.
  - injection H as <- <-. reflexivity.
  - unfold gen_unregister in H. destruct (ep_del (epoll e) (g_fd g)) as [tbl|]; [|discriminate].
    destruct (subs_unregister _ r) as [[ok r'] e''] eqn:E. injection H as -> <- <-.
    cbn. apply (IH _ _ _ E).
Qed.

Lemma src_unregister_silent e x x' e' : src_unregister e x = (true, x', e') -> src_silent x'.
Proof.
  intros H t. destruct x as [lc own subs tmr|g|tm|c g]; cbn in H.
  - destruct (subs_unregister e subs) as [[ok subs'] e''] eqn:E. destruct ok; [|destruct tmr; discriminate].
    destruct tmr as [tm|].
    + unfold timer_unregister in H. destruct (tm_reg tm) as [[tk c]|]; injection H as <- <-; cbn;
        rewrite (subs_unregister_silent _ _ _ _ E); reflexivity.
    + injection H as <- <-. cbn. rewrite (subs_unregister_silent _ _ _ _ E). reflexivity.
  - unfold gen_unregister in H. destruct (ep_del _ _); [|discriminate]. injection H as <- <-. reflexivity.
  - unfold timer_unregister in H. destruct (tm_reg tm) as [[tk c]|]; injection H as <- <-; reflexivity.
  - unfold gen_unregister in H. destruct (ep_del _ _); [|discriminate]. injection H as <- <-. reflexivity.
Qed.

(* a completed disable (or a processed PostAction::Disable): from that state on every event aimed at the source
   is ignored - no callback, whatever token the event carries - even one already collected in the current batch *)
Lemma disp_unregister_silences scr s o t s' :
  disp_unregister s o t = (ROk, true, s') -> is_running s o = false ->
  exists ob', objs s' o = Some ob' /\ src_silent (o_src ob') /\
              forall ev, log (fst (obj_process scr s' o ev)) = log s' /\ snd (obj_process scr s' o ev) = Some Continue.
Proof.
  intros H Hr. unfold disp_unregister in H. destruct (objs s o) as [ob|] eqn:Eo; [|discriminate].
  rewrite Hr in H. destruct (src_unregister (en s) (o_src ob)) as [[ok x'] e1] eqn:Eu.
  destruct ok; [|discriminate]. injection H as <-.
  pose proof (src_unregister_silent _ _ _ _ Eu) as Hs.
  assert (Ho : objs (if src_lc x'
                     then set_lifecycle (regop (set_obj_src (set_en s e1) o x') o x' 2%Z true)
                            (lc_unregister (lifecycle (regop (set_obj_src (set_en s e1) o x') o x' 2%Z true)) t)
                     else regop (set_obj_src (set_en s e1) o x') o x' 2%Z true) o = Some (mkObj x' (o_ext ob))).
  { destruct (src_lc x'); cbn; rewrite objs_regop; unfold set_obj_src; cbn; rewrite Eo; cbn; unfold fupd; rewrite N.eqb_refl; reflexivity. }
  eexists. split; [exact Ho|]. split; [exact Hs|].
  intros ev. eapply obj_process_no_token; [exact Ho|apply Hs].
Qed.

(* ---------- removal: the token of a removed source no longer resolves (C06) ---------- *)
Lemma slot_get_set_none l t : slot_get (slot_set_obj l t None) t = None \/
  exists sl, slot_get (slot_set_obj l t None) t = Some sl /\ s_obj sl = None.
Proof.
  unfold slot_set_obj, slot_get. destruct (nth_error l (N.to_nat (t_id t))) as [sl|] eqn:E.
  - rewrite nth_error_upd_same by (apply nth_error_Some; congruence). cbn.
    destruct (same_source_as (s_tok sl) t); [right; eexists; split; reflexivity|left; reflexivity].
  - rewrite E. left; reflexivity.
Qed.

Lemma slots_disp_unregister s o t : slots (snd (disp_unregister s o t)) = slots s.
Proof. unfold disp_unregister; dmatch; cbn; rewrite ?slots_regop; unfold set_obj_src; dmatch; reflexivity. Qed.
Lemma toks_disp_unregister s o t : toks (snd (disp_unregister s o t)) = toks s.
Proof. unfold disp_unregister; dmatch; cbn; unfold regop, set_obj_src; dmatch; reflexivity. Qed.
Lemma slots_maybe_drop s o : slots (maybe_drop s o) = slots s.
Proof. unfold maybe_drop, drop_obj; dmatch; reflexivity. Qed.
Lemma toks_maybe_drop s o : toks (maybe_drop s o) = toks s.
Proof. unfold maybe_drop, drop_obj; dmatch; reflexivity. Qed.

Lemma lookup_after_remove s h : halted s = false -> lookup (exec_action s (ARemove h)) h = None.
Proof.
  intros Hh. unfold exec_action. rewrite Hh. unfold do_remove.
  destruct (lookup s h) as [[[t et] o]|] eqn:El; [|cbn; unfold lookup in *; cbn; exact El].
  destruct (disp_unregister _ o t) as [[r d] s2] eqn:Eu.
  pose proof (slots_disp_unregister (set_slots s (slot_set_obj (slots s) t None)) o t) as S2.
  pose proof (toks_disp_unregister (set_slots s (slot_set_obj (slots s) t None)) o t) as T2.
  rewrite Eu in S2, T2. cbn in S2, T2.
  unfold lookup. cbn. rewrite toks_maybe_drop, slots_maybe_drop, T2, S2.
  unfold lookup in El. destruct (toks s h) as [t'|]; [|discriminate].
  destruct (slot_get (slots s) t') as [sl|]; [|discriminate]. destruct (s_obj sl); [|discriminate].
  injection El as -> _ _.
  destruct (slot_get_set_none (slots s) t) as [->|[sl' [-> ->]]]; reflexivity.
Qed.

(* operations with a token that does not resolve change nothing but the log: InvalidToken, no other source touched *)
Lemma invalid_token_noop s h : halted s = false -> lookup s h = None ->
  exec_action s (AEnable h) = emit s (op_line OP_ENABLE h RInvalid) /\
  exec_action s (ADisable h) = emit s (op_line OP_DISABLE h RInvalid) /\
  exec_action s (AUpdate h) = emit s (op_line OP_UPDATE h RInvalid) /\
  exec_action s (ARemove h) = emit s (op_line OP_REMOVE h ROk).
Proof.
  intros Hh Hl. unfold exec_action, do_enable, do_disable, do_update, do_remove. rewrite Hh, Hl. repeat split.
Qed.

(* ---------- failed registration leaves the lifecycle set alone (C15) ---------- *)
Lemma lifecycle_set_obj_src s o x : lifecycle (set_obj_src s o x) = lifecycle s.
Proof. unfold set_obj_src; dmatch; reflexivity. Qed.
Lemma disp_register_fail_lifecycle s o t r s' :
  disp_register s o t = (r, s') -> r <> ROk -> lifecycle s' = lifecycle s.
Proof.
  unfold disp_register. intros H Hr. dmatch_in H; injection H as <- <-; cbn;
    rewrite ?lifecycle_regop, ?lifecycle_set_obj_src; try reflexivity; congruence.
Qed.

(* ---------- idles: the queue only grows while callbacks run (C13) ---------- *)
Lemma idles_set_obj_src s o x : idles (set_obj_src s o x) = idles s.
Proof. unfold set_obj_src; dmatch; reflexivity. Qed.
Lemma idles_disp_register s o t : idles (snd (disp_register s o t)) = idles s.
Proof. unfold disp_register; dmatch; cbn; unfold regop; dmatch; cbn; rewrite ?idles_set_obj_src; reflexivity. Qed.
Lemma idles_disp_reregister s o t : idles (snd (disp_reregister s o t)) = idles s.
Proof. unfold disp_reregister; dmatch; cbn; unfold regop; dmatch; cbn; rewrite ?idles_set_obj_src; reflexivity. Qed.
Lemma idles_disp_unregister s o t : idles (snd (disp_unregister s o t)) = idles s.
Proof. unfold disp_unregister; dmatch; cbn; unfold regop; dmatch; cbn; rewrite ?idles_set_obj_src; reflexivity. Qed.
Lemma idles_maybe_drop s o : idles (maybe_drop s o) = idles s.
Proof. unfold maybe_drop, drop_obj; dmatch; reflexivity. Qed.

Lemma idles_exec_action s a :
  idles (exec_action s a) = idles s \/ exists i, a = AIdle i /\ idles (exec_action s a) = idles s ++ [i].
Proof.
  unfold exec_action. destruct (halted s); [left; reflexivity|].
  destruct a; try (right; eexists; split; reflexivity); left; cbn;
    unfold do_insert, do_remove, do_disable, do_enable, do_update, do_setint, do_setdl, do_intoinner, do_dropdisp,
           do_send, do_cancelidle, drop_obj, eenv;
    dmatch; cbn;
    repeat match goal with
           | H : disp_register ?s ?o ?t = (_, ?s') |- _ =>
               let E := fresh in pose proof (idles_disp_register s o t) as E; rewrite H in E; cbn in E; clear H
           | H : disp_reregister ?s ?o ?t = (_, _, ?s') |- _ =>
               let E := fresh in pose proof (idles_disp_reregister s o t) as E; rewrite H in E; cbn in E; clear H
           | H : disp_unregister ?s ?o ?t = (_, _, ?s') |- _ =>
               let E := fresh in pose proof (idles_disp_unregister s o t) as E; rewrite H in E; cbn in E; clear H
           end;
    rewrite ?idles_maybe_drop, ?idles_set_obj_src; cbn; try congruence; try reflexivity.
Qed.

(* ---------- registration failures are atomic at the Generic level (C15, C16) ---------- *)
Lemma gen_register_fail e g t g' e' : gen_register e g t = (false, g', e') -> g' = g /\ e' = e.
Proof. unfold gen_register. destruct (ep_add _ _ _ _ _ _); [discriminate|]. intros [= <- <-]. split; reflexivity. Qed.
Lemma gen_reregister_fail e g t g' e' : gen_reregister e g t = (false, g', e') -> g' = g /\ e' = e.
Proof. unfold gen_reregister. destruct (ep_mod _ _ _ _ _ _); [discriminate|]. intros [= <- <-]. split; reflexivity. Qed.
Lemma gen_unregister_fail e g g' e' : gen_unregister e g = (false, g', e') -> g' = g /\ e' = e.
Proof. unfold gen_unregister. destruct (ep_del _ _); [discriminate|]. intros [= <- <-]. split; reflexivity. Qed.

Lemma gen_register_ok e g t g' e' : gen_register e g t = (true, g', e') ->
  ep_find (epoll e) (g_fd g) = None /\
  (exists q, ep_find (epoll e') (g_fd g) = Some (mkEp (g_fd g) (g_int g) (g_mode g) (pack t) q)) /\
  (forall fd', fd' <> g_fd g -> ep_find (epoll e') fd' = ep_find (epoll e) fd') /\
  g_tok g' = Some t /\ g_poller g' = true.
Proof.
  unfold gen_register. pose proof (ep_add_spec (epoll e) (g_fd g) (g_int g) (g_mode g) (pack t) (fdc e (g_fd g))) as S.
  destruct (ep_add _ _ _ _ _ _) as [tbl|]; [|discriminate]. intros [= <- <-]. cbn.
  destruct S as (A & B & C). repeat split; assumption.
Qed.
Lemma gen_unregister_ok e g g' e' : gen_unregister e g = (true, g', e') ->
  ep_find (epoll e') (g_fd g) = None /\ (forall fd', fd' <> g_fd g -> ep_find (epoll e') fd' = ep_find (epoll e) fd') /\
  g_tok g' = None /\ g_poller g' = false.
Proof.
  unfold gen_unregister. destruct (ep_del (epoll e) (g_fd g)) as [tbl|] eqn:E; [|discriminate]. intros [= <- <-]. cbn.
  destruct (ep_del_spec _ _ _ E) as [A B]. repeat split; assumption.
Qed.
(* Drop of a Generic that still records a poller deletes its fd: nothing stale stays behind *)
Lemma gen_drop_clears e g : g_poller g = true -> ep_find (epoll (gen_drop e g)) (g_fd g) = None.
Proof.
  intros H. unfold gen_drop. rewrite H. destruct (ep_del (epoll e) (g_fd g)) as [tbl|] eqn:E.
  - cbn. apply (ep_del_spec _ _ _ E).
  - unfold ep_del in E. destruct (ep_find (epoll e) (g_fd g)); [discriminate|reflexivity].
Qed.

(* unregister always drops the lifecycle entry of a lifecycle source, whatever the source answered *)
Lemma disp_unregister_drops_lifecycle s o t r s' ob :
  objs s o = Some ob -> src_lc (o_src ob) = true -> disp_unregister s o t = (r, true, s') -> is_running s o = false ->
  ~ In t (lifecycle s').
Proof.
  intros Eo Hlc H Hr. unfold disp_unregister in H. rewrite Eo, Hr in H.
  destruct (src_unregister (en s) (o_src ob)) as [[ok x'] e1] eqn:Eu.
  assert (Hlc' : src_lc x' = true).
  { destruct (o_src ob); cbn in Eu, Hlc; try discriminate.
    destruct (subs_unregister _ _) as [[a b] c]. destruct a; [destruct tmr as [tm|]; [destruct (timer_unregister c tm)|]|];
      injection Eu as _ <- _; exact Hlc. }
  rewrite Hlc' in H. injection H as _ <-. cbn. apply lc_unregister_not_in.
Qed.
