From CV Require Import Base Consts ConcChannel.
Open Scope N_scope.

Fixpoint csum (l : list cthread) : N := match l with [] => 0 | t :: r => ct_mine t + csum r end.
Definition is_toping (t : cthread) : bool := match ct_stage t with CToPing | CToPingRelease | CToPingB | CB1 _ => true | _ => false end.
Fixpoint ntoping (l : list cthread) : N := match l with [] => 0 | t :: r => (if is_toping t then 1 else 0) + ntoping r end.

Definition loop_busy (s : ccst) : bool := match cl_stage (cloop s) with CLIdle | CLCloseWrite => false | _ => true end.
(* some wake-up is on its way: the eventfd is readable, or a sender is between its enqueue/drop and its ping, or the loop
   is inside its drain (and will either see Empty/Closed or re-ping itself) *)
Definition wake_pending (s : ccst) : Prop := 2 <= cctr s \/ 1 <= ntoping (cthr s) \/ loop_busy s = true.

Definition ccinv (s : ccst) : Prop :=
  (* exactly once, in order: what was delivered followed by what is queued is what was sent *)
  cdelivered s ++ cq s = csent s /\
  csenders s = csum (cthr s) /\
  Forall (fun t => wf_cprog (ct_mine t) (ct_ops t) = true) (cthr s) /\
  (* no message, and no pending disconnect, is ever left without a wake-up on its way *)
  (creg s = true -> (cq s <> [] \/ csenders s = 0) -> wake_pending s) /\
  (* Closed: at most once, only after the last sender is gone and the queue is empty; then the source is gone *)
  cclosed s <= 1 /\ (cclosed s = 1 <-> creg s = false) /\ (creg s = false -> csenders s = 0 /\ cq s = []) /\
  (* the loop drains only while the source is registered *)
  (loop_busy s = true -> creg s = true).

Lemma csum_upd l : forall i t t', nth_error l i = Some t -> csum (upd_ct l i t') + ct_mine t = csum l + ct_mine t'.
Proof. induction l as [|x r IH]; intros [|i] t t' H; cbn in *; try discriminate; [injection H as ->; lia|specialize (IH i t t' H); lia]. Qed.
Lemma ntoping_upd l : forall i t t', nth_error l i = Some t ->
  ntoping (upd_ct l i t') + (if is_toping t then 1 else 0) = ntoping l + (if is_toping t' then 1 else 0).
Proof. induction l as [|x r IH]; intros [|i] t t' H; cbn in *; try discriminate; [injection H as ->; lia|specialize (IH i t t' H); lia]. Qed.
Lemma forall_upd_ct (P : cthread -> Prop) l : forall i t', Forall P l -> P t' -> Forall P (upd_ct l i t').
Proof. induction l as [|x r IH]; intros [|i] t' H Ht; cbn; inversion H; subst; constructor; auto. Qed.
Lemma csum_ge l i t : nth_error l i = Some t -> ct_mine t <= csum l.
Proof. revert i; induction l as [|x r IH]; intros [|i] H; cbn in *; try discriminate; [injection H as ->; lia|specialize (IH i H); lia]. Qed.
Lemma upd_ct_same l : forall i t, nth_error l i = Some t -> upd_ct l i t = l.
Proof. induction l as [|x r IH]; intros [|i] t H; cbn in *; try discriminate; [congruence|f_equal; auto]. Qed.

Ltac kcbn := cbn [cq csenders cctr creg cbound cph cloop cthr csent cdelivered cclosed ctr_log cl_stage cl_disp ct_mine ct_ops ct_stage set_thr set_loop].
Ltac ksplit := unfold ccinv; kcbn; split; [|split; [|split; [|split; [|split; [|split; [|split]]]]]].

Lemma wp_mono s s' : wake_pending s -> cctr s <= cctr s' -> ntoping (cthr s) <= ntoping (cthr s') ->
  (loop_busy s = true -> loop_busy s' = true) -> wake_pending s'.
Proof. intros [H|[H|H]] A B C; [left; lia|right; left; lia|right; right; auto]. Qed.

Lemma ccinv_loop_step s : ccinv s -> ccinv (cl_step s).
Proof.
  intros Hinv. pose proof Hinv as (K1 & K2 & K3 & K4 & K5 & K6 & K7 & K8).
  unfold cl_step. destruct (cl_stage (cloop s)) as [| |[|k]| |] eqn:Est.
  - (* idle: poll *)
    destruct (cl_disp (cloop s)) as [|d]; [exact Hinv|].
    destruct (creg s && (0 <? cctr s)) eqn:Ec.
    + apply andb_prop in Ec as [Er _]. ksplit; try assumption.
      * intros _ _. right; right. reflexivity.
      * intros _. exact Er.
    + ksplit; try assumption.
      * intros Hr Ha. destruct (K4 Hr Ha) as [H|[H|H]]; [left; exact H|right; left; exact H|].
        unfold loop_busy in H. rewrite Est in H. discriminate.
      * intros H. discriminate.
  - (* drain *)
    assert (Hr : creg s = true) by (apply K8; unfold loop_busy; rewrite Est; reflexivity).
    destruct (2 <=? cctr s); ksplit; try assumption; try (intros _ _; right; right; reflexivity); intros _; exact Hr.
  - (* CLLoop 0 *) ksplit; try assumption.
    + intros Hr Ha. right; right. reflexivity.
    + intros _. apply K8. unfold loop_busy. rewrite Est. reflexivity.
  - (* one try_recv *)
    assert (Hr : creg s = true) by (apply K8; unfold loop_busy; rewrite Est; reflexivity).
    destruct (cq s) as [|v q'] eqn:Eq.
    + destruct (N.eqb_spec (csenders s) 0) as [E0|E0].
      * (* disconnected: Closed, Remove *)
        assert (Hc : cclosed s = 0).
        { destruct (N.eq_dec (cclosed s) 1) as [E|E]; [apply K6 in E; congruence|lia]. }
        destruct (cph s =? 1); ksplit; try assumption.
        all: try (intros H; discriminate); try lia; try (split; intros _; [reflexivity|lia]); try (intros _; split; [exact E0|reflexivity]).
      * ksplit; try assumption.
        -- rewrite Eq. exact K1.
        -- intros _ [H|H]; [exfalso; apply H; exact Eq|contradiction].
        -- rewrite Eq. exact K7.
        -- intros H; discriminate.
    + ksplit; try assumption.
      * rewrite <- K1, <- app_assoc. reflexivity.
      * intros _ _. right; right. destruct k; reflexivity.
      * intros Hf. destruct (K7 Hf) as [A B]. discriminate.
      * intros _. exact Hr.
  - (* re-ping *)
    ksplit; try assumption.
    + intros _ _. left. kcbn. unfold INCREMENT_PING. lia.
    + intros H; discriminate.
  - (* the dropped channel's close marker *)
    ksplit; try assumption.
    + intros Hr Ha. destruct (K4 Hr Ha) as [H|[H|H]]; [left; kcbn; lia|right; left; exact H|].
      unfold loop_busy in H. rewrite Est in H. discriminate.
    + intros H; discriminate.
Qed.

Lemma bsend_inv s i t v lg : ccinv s -> nth_error (cthr s) i = Some t -> is_toping t = false ->
  ccinv (let (s', t') := bsend_attempt s i t v lg in set_thr s' (upd_ct (cthr s) i t')).
Proof.
  intros Hinv En Hnt. pose proof Hinv as (K1 & K2 & K3 & K4 & K5 & K6 & K7 & K8).
  pose proof (csum_upd (cthr s) i t) as SU. pose proof (ntoping_upd (cthr s) i t) as NU.
  assert (Wt : wf_cprog (ct_mine t) (ct_ops t) = true) by (rewrite Forall_forall in K3; apply K3; eapply nth_error_In; exact En).
  rewrite Hnt in NU.
  unfold bsend_attempt. destruct (creg s) eqn:Hreg; cbn [negb]; [destruct (cc_full s)|].
  - specialize (SU (mkCT (ct_ops t) (ct_mine t) (CBlocked v)) En). specialize (NU (mkCT (ct_ops t) (ct_mine t) (CBlocked v)) En).
    unfold is_toping in NU. cbn in SU, NU.
    ksplit; try assumption; try (intros _; reflexivity).
    + lia.
    + apply forall_upd_ct; [exact K3|exact Wt].
    + intros _ Ha. destruct (K4 eq_refl Ha) as [H|[H|H]]; [left; exact H|right; left; kcbn; lia|right; right; exact H].
  - specialize (SU (mkCT (ct_ops t) (ct_mine t) CToPingB) En). specialize (NU (mkCT (ct_ops t) (ct_mine t) CToPingB) En).
    unfold is_toping in NU. cbn in SU, NU.
    ksplit; try assumption; try (intros _; reflexivity).
    + rewrite app_assoc, K1. reflexivity.
    + lia.
    + apply forall_upd_ct; [exact K3|exact Wt].
    + intros _ _. right; left. kcbn. lia.
    + intros Hf. congruence.
  - specialize (SU (mkCT (ct_ops t) (ct_mine t) CIdle) En). specialize (NU (mkCT (ct_ops t) (ct_mine t) CIdle) En).
    unfold is_toping in NU. cbn in SU, NU.
    ksplit; try assumption; try lia; try (apply forall_upd_ct; [exact K3|exact Wt]); try (intros Hf; congruence).
Qed.

Lemma ccinv_thread_step s i t : ccinv s -> nth_error (cthr s) i = Some t ->
  ccinv (let (s', t') := ct_step s i t in set_thr s' (upd_ct (cthr s) i t')).
Proof.
  intros Hinv En. pose proof Hinv as (K1 & K2 & K3 & K4 & K5 & K6 & K7 & K8).
  pose proof (csum_upd (cthr s) i t) as SU. pose proof (ntoping_upd (cthr s) i t) as NU. pose proof (csum_ge _ _ _ En) as SG.
  assert (Wt : wf_cprog (ct_mine t) (ct_ops t) = true) by (rewrite Forall_forall in K3; apply K3; eapply nth_error_In; exact En).
  assert (BUSY : forall s', cloop s' = cloop s -> loop_busy s' = loop_busy s) by (intros s' E; unfold loop_busy; rewrite E; reflexivity).
  unfold ct_step. destruct (ct_stage t) eqn:Es.
  - (* idle: next operation *)
    destruct (ct_ops t) as [|[v| | |v] r] eqn:Eo.
    + (* finished *) kcbn. rewrite (upd_ct_same _ _ _ En). destruct s; exact Hinv.
    + (* send *)
      cbn in Wt. apply andb_prop in Wt as [Wm Wr]. apply N.ltb_lt in Wm.
      assert (Hreg : creg s = true).
      { destruct (creg s) eqn:E; [reflexivity|]. destruct (K7 eq_refl) as [A _]. lia. }
      replace (negb (creg s)) with false by (rewrite Hreg; reflexivity).
      destruct (cc_full s).
      * specialize (SU (mkCT r (ct_mine t) CToPing) En). specialize (NU (mkCT r (ct_mine t) CToPing) En).
        unfold is_toping in NU. rewrite Es in NU. cbn in SU, NU.
        ksplit; try assumption; try (intros _; exact Hreg).
        -- lia.
        -- apply forall_upd_ct; [exact K3|exact Wr].
        -- intros _ _. right; left. kcbn. lia.
      * specialize (SU (mkCT r (ct_mine t) CToPing) En). specialize (NU (mkCT r (ct_mine t) CToPing) En).
        unfold is_toping in NU. rewrite Es in NU. cbn in SU, NU.
        ksplit; try assumption; try (intros _; exact Hreg).
        -- rewrite app_assoc, K1. reflexivity.
        -- lia.
        -- apply forall_upd_ct; [exact K3|exact Wr].
        -- intros _ _. right; left. kcbn. lia.
        -- intros Hf. congruence.
    + (* clone *)
      cbn in Wt. apply andb_prop in Wt as [Wm Wr]. apply N.ltb_lt in Wm.
      assert (Hreg : creg s = true).
      { destruct (creg s) eqn:E; [reflexivity|]. destruct (K7 eq_refl) as [A _]. lia. }
      specialize (SU (mkCT r (ct_mine t + 1) CIdle) En). specialize (NU (mkCT r (ct_mine t + 1) CIdle) En).
      unfold is_toping in NU. rewrite Es in NU. cbn in SU, NU.
      ksplit; try assumption; try (intros _; exact Hreg).
      * lia.
      * apply forall_upd_ct; [exact K3|exact Wr].
      * intros Hr [Ha|Ha]; [|lia].
        destruct (K4 Hr (or_introl Ha)) as [H|[H|H]]; [left; exact H|right; left; kcbn; lia|right; right; exact H].
      * intros Hf. congruence.
    + (* drop a sender *)
      cbn in Wt. apply andb_prop in Wt as [Wm Wr]. apply N.ltb_lt in Wm.
      assert (Hreg : creg s = true).
      { destruct (creg s) eqn:E; [reflexivity|]. destruct (K7 eq_refl) as [A _]. lia. }
      destruct (drop_pings s) eqn:Ed.
      * specialize (SU (mkCT r (ct_mine t - 1) CToPingRelease) En). specialize (NU (mkCT r (ct_mine t - 1) CToPingRelease) En).
        unfold is_toping in NU. rewrite Es in NU. cbn in SU, NU.
        ksplit; try assumption; try (intros _; exact Hreg).
        -- lia.
        -- apply forall_upd_ct; [exact K3|exact Wr].
        -- intros _ _. right; left. kcbn. lia.
        -- intros Hf. congruence.
      * specialize (SU (mkCT r (ct_mine t - 1) CIdle) En). specialize (NU (mkCT r (ct_mine t - 1) CIdle) En).
        unfold is_toping in NU. rewrite Es in NU. cbn in SU, NU.
        assert (Hn1 : csenders s <> 1).
        { unfold drop_pings in Ed. destruct (cbound s); [apply N.eqb_neq; exact Ed|discriminate]. }
        ksplit; try assumption; try (intros _; exact Hreg).
        -- lia.
        -- apply forall_upd_ct; [exact K3|exact Wr].
        -- intros Hr [Ha|Ha]; [|lia].
           destruct (K4 Hr (or_introl Ha)) as [H|[H|H]]; [left; exact H|right; left; kcbn; lia|right; right; exact H].
        -- intros Hf. congruence.
    + (* blocking send: its try_send *)
      cbn in Wt. apply andb_prop in Wt as [Wm Wr]. apply N.ltb_lt in Wm.
      assert (Hreg : creg s = true).
      { destruct (creg s) eqn:E; [reflexivity|]. destruct (K7 eq_refl) as [A _]. lia. }
      replace (negb (creg s)) with false by (rewrite Hreg; reflexivity).
      destruct (cc_full s).
      * specialize (SU (mkCT r (ct_mine t) (CB1 v)) En). specialize (NU (mkCT r (ct_mine t) (CB1 v)) En).
        unfold is_toping in NU. rewrite Es in NU. cbn in SU, NU.
        ksplit; try assumption; try (intros _; exact Hreg).
        -- lia.
        -- apply forall_upd_ct; [exact K3|exact Wr].
        -- intros _ _. right; left. kcbn. lia.
      * specialize (SU (mkCT r (ct_mine t) CToPingB) En). specialize (NU (mkCT r (ct_mine t) CToPingB) En).
        unfold is_toping in NU. rewrite Es in NU. cbn in SU, NU.
        ksplit; try assumption; try (intros _; exact Hreg).
        -- rewrite app_assoc, K1. reflexivity.
        -- lia.
        -- apply forall_upd_ct; [exact K3|exact Wr].
        -- intros _ _. right; left. kcbn. lia.
        -- intros Hf. congruence.
  - (* the ping after an enqueue *)
    specialize (SU (mkCT (ct_ops t) (ct_mine t) CIdle) En). specialize (NU (mkCT (ct_ops t) (ct_mine t) CIdle) En).
    unfold is_toping in NU. rewrite Es in NU. cbn in SU, NU.
    ksplit; try assumption.
    + lia.
    + apply forall_upd_ct; [exact K3|exact Wt].
    + intros _ _. left. kcbn. unfold INCREMENT_PING. lia.
  - (* the ping of a dropped sender, which then releases its Ping handle *)
    specialize (SU (mkCT (ct_ops t) (ct_mine t) (if cph s =? 1 then CToClose else CIdle)) En).
    specialize (NU (mkCT (ct_ops t) (ct_mine t) (if cph s =? 1 then CToClose else CIdle)) En).
    unfold is_toping in NU. rewrite Es in NU. cbn in SU, NU.
    assert (NU' : ntoping (upd_ct (cthr s) i (mkCT (ct_ops t) (ct_mine t) (if cph s =? 1 then CToClose else CIdle))) + 1 = ntoping (cthr s))
      by (destruct (cph s =? 1); cbn in NU; lia).
    ksplit; try assumption.
    + lia.
    + apply forall_upd_ct; [exact K3|exact Wt].
    + intros _ _. left. kcbn. unfold INCREMENT_PING. lia.
  - (* the close marker written by the thread that released the last Ping handle *)
    specialize (SU (mkCT (ct_ops t) (ct_mine t) CIdle) En). specialize (NU (mkCT (ct_ops t) (ct_mine t) CIdle) En).
    unfold is_toping in NU. rewrite Es in NU. cbn in SU, NU.
    ksplit; try assumption.
    + lia.
    + apply forall_upd_ct; [exact K3|exact Wt].
    + intros Hr Ha. destruct (K4 Hr Ha) as [H|[H|H]]; [left; kcbn; lia|right; left; kcbn; lia|right; right; exact H].
  - (* the ping after the enqueue of a blocking send *)
    specialize (SU (mkCT (ct_ops t) (ct_mine t) CIdle) En). specialize (NU (mkCT (ct_ops t) (ct_mine t) CIdle) En).
    unfold is_toping in NU. rewrite Es in NU. cbn in SU, NU.
    ksplit; try assumption.
    + lia.
    + apply forall_upd_ct; [exact K3|exact Wt].
    + intros _ _. left. kcbn. unfold INCREMENT_PING. lia.
  - (* the ping of the failed try_send inside a blocking send *)
    specialize (SU (mkCT (ct_ops t) (ct_mine t) (CB2 v)) En). specialize (NU (mkCT (ct_ops t) (ct_mine t) (CB2 v)) En).
    unfold is_toping in NU. rewrite Es in NU. cbn in SU, NU.
    ksplit; try assumption.
    + lia.
    + apply forall_upd_ct; [exact K3|exact Wt].
    + intros _ _. left. kcbn. unfold INCREMENT_PING. lia.
  - (* the blocking mpsc send *)
    apply bsend_inv; [exact Hinv|exact En|unfold is_toping; rewrite Es; reflexivity].
  - (* blocked in it *)
    destruct (cc_full s && creg s).
    + kcbn. rewrite (upd_ct_same _ _ _ En). destruct s; exact Hinv.
    + apply bsend_inv; [exact Hinv|exact En|unfold is_toping; rewrite Es; reflexivity].
Qed.

Lemma ccinv_step s k : ccinv s -> ccinv (cc_step s k).
Proof.
  intros H. destruct k as [|i]; cbn [cc_step]; [apply ccinv_loop_step; exact H|].
  destruct (nth_error (cthr s) i) as [t|] eqn:En; [|exact H]. apply ccinv_thread_step; assumption.
Qed.

Lemma csum_init progs : csum (map (fun p => mkCT p 1 CIdle) progs) = N.of_nat (length progs).
Proof. induction progs as [|p r IH]; cbn [map csum length ct_mine]; [reflexivity|]. rewrite IH. lia. Qed.

Lemma ccinv_init b progs nd : progs <> [] -> Forall (fun p => wf_cprog 1 p = true) progs -> ccinv (cc_init b progs nd).
Proof.
  intros Hne H. unfold cc_init. ksplit.
  - reflexivity.
  - rewrite csum_init. reflexivity.
  - apply Forall_forall. intros t Ht. apply in_map_iff in Ht as [p [<- Hp]]. rewrite Forall_forall in H. apply H. exact Hp.
  - intros _ [Ha|Ha]; [exfalso; apply Ha; reflexivity|]. destruct progs; [contradiction|cbn [length] in Ha; lia].
  - lia.
  - split; intros Hd; discriminate.
  - intros Hd; discriminate.
  - intros Hd; discriminate.
Qed.

Lemma ccinv_run b progs nd sched : progs <> [] -> Forall (fun p => wf_cprog 1 p = true) progs -> ccinv (cc_run b progs nd sched).
Proof.
  intros Hne H. unfold cc_run. generalize (ccinv_init b progs nd Hne H). generalize (cc_init b progs nd).
  induction sched as [|k r IH]; intros s Hs; cbn; [exact Hs|]. apply IH. apply ccinv_step. exact Hs.
Qed.

(* a readable eventfd of the registered channel makes the next poll lead to a drain *)
Lemma cc_poll_progress s d : creg s = true -> 2 <= cctr s -> cloop s = mkCL (S d) CLIdle ->
  cl_stage (cloop (cl_step s)) = CLDrain.
Proof.
  intros Hr Hc Hl. unfold cl_step. rewrite Hl. cbn. rewrite Hr. destruct (N.ltb_spec 0 (cctr s)); [reflexivity|lia].
Qed.
