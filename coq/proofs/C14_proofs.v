From CV Require Import Base Consts Token PostAction Env Loop.
From CVP Require Import Loop_frames Seq_lemmas.
Open Scope N_scope.

Lemma before_sleep_loop_no_panic bscr l : forall s,
  (forall t, In t l -> exists o, lc_lookup s t = Some o) -> snd (before_sleep_loop bscr s l) <> BSPanic.
Proof.
  induction l as [|t r IH]; intros s H; cbn [before_sleep_loop]; [discriminate|].
  destruct (H t (or_introl eq_refl)) as [o Ho]. rewrite Ho.
  assert (Hr : forall s', slots s' = slots s -> forall t', In t' r -> exists o', lc_lookup s' t' = Some o').
  { intros s' Hs t' Hin. destruct (H t' (or_intror Hin)) as [o' Ho']. exists o'. unfold lc_lookup in *. rewrite Hs. exact Ho'. }
  destruct (nth (bsn s o) (bscr o) 0) as [|p].
  - apply IH. apply Hr. reflexivity.
  - destruct p; try (cbn; discriminate).
    destruct (match objs _ o with Some _ => _ | None => _ end); apply IH; apply Hr; reflexivity.
Qed.
