(* C14 / C08 / C15, whole histories: every lifecycle entry resolves to an occupied slot holding a lifecycle source, except -
   while a callback runs - the entry of the source being processed; hence the lifecycle loops of a dispatch never reach
   unreachable!(). *)
From CV Require Import Base Consts Token PostAction Env Loop.
From CVP Require Import Token_proofs Loop_frames Seq_lemmas C06_proofs C14_proofs.
Open Scope N_scope.

Definition good (s : st) (t : tok) : Prop :=
  exists sl o ob, slot_get (slots s) t = Some sl /\ s_obj sl = Some o /\ objs s o = Some ob /\ src_lc (o_src ob) = true.
(* the source being processed may have vacated its slot: its entry goes when its processing ends *)
Definition excused (s : st) (ex : option (N * tok)) (t : tok) : Prop :=
  exists o ob, ex = Some (o, t) /\ objs s o = Some ob /\ src_lc (o_src ob) = true.
Definition LI (s : st) (ex : option (N * tok)) : Prop :=
  (forall t, In t (lifecycle s) -> t_sub t = 0 /\ (good s t \/ excused s ex t)) /\
  (* objects held by a slot exist *)
  (forall i sl o, nth_error (slots s) i = Some sl -> s_obj sl = Some o -> objs s o <> None) /\
  (* the excused object exists *)
  (forall o t, ex = Some (o, t) -> objs s o <> None).

(* ---------- the lc flag of a source never changes ---------- *)
Lemma src_lc_register e x f : src_lc (snd (fst (src_register e x f))) = src_lc x.
Proof.
  destruct x as [lc own subs tmr|g|tm|c g]; cbn [src_register].
  - destruct (ftoken f) as [[t f']|]; [|reflexivity]. destruct (subs_register e subs f') as [[[r subs'] f''] e'].
    destruct r; try reflexivity. destruct tmr as [tm|]; [|reflexivity]. destruct (timer_register e' tm f'') as [[r2 tm'] e'']. reflexivity.
  - destruct (ftoken f) as [[t f']|]; [|reflexivity]. unfold one_gen. destruct (gen_register e g t) as [[ok g'] e']. reflexivity.
  - destruct (timer_register e tm f) as [[r t'] e']. reflexivity.
  - destruct (ftoken f) as [[t f']|]; [|reflexivity]. unfold one_gen. destruct (gen_register e g t) as [[ok g'] e']. reflexivity.
Qed.
Lemma src_lc_reregister e x f : src_lc (snd (fst (src_reregister e x f))) = src_lc x.
Proof.
  destruct x as [lc own subs tmr|g|tm|c g]; cbn [src_reregister].
  - destruct (ftoken f) as [[t f']|]; [|reflexivity]. destruct (subs_reregister e subs f') as [[[r subs'] f''] e'].
    destruct r; try reflexivity. destruct tmr as [tm|]; [|reflexivity]. destruct (timer_reregister e' tm f'') as [[r2 tm'] e'']. reflexivity.
  - destruct (ftoken f) as [[t f']|]; [|reflexivity]. unfold one_gen. destruct (gen_reregister e g t) as [[ok g'] e']. reflexivity.
  - destruct (tm_en tm); [|reflexivity]. destruct (timer_unregister e tm) as [t1 e1]. destruct (timer_register e1 t1 f) as [[r t'] e']. reflexivity.
  - destruct (ftoken f) as [[t f']|]; [|reflexivity]. unfold one_gen. destruct (gen_reregister e g t) as [[ok g'] e']. reflexivity.
Qed.
Lemma src_lc_unregister e x : src_lc (snd (fst (src_unregister e x))) = src_lc x.
Proof.
  destruct x as [lc own subs tmr|g|tm|c g]; cbn [src_unregister].
  - destruct (subs_unregister e subs) as [[ok subs'] e']. destruct ok; [|reflexivity]. destruct tmr as [tm|]; [|reflexivity].
    destruct (timer_unregister e' tm) as [tm' e'']. reflexivity.
  - destruct (gen_unregister e g) as [[ok g'] e']. reflexivity.
  - destruct (timer_unregister e tm) as [t' e']. reflexivity.
  - destruct (gen_unregister e g) as [[ok g'] e']. reflexivity.
Qed.

(* ---------- frames for good / excused / LI ---------- *)
Lemma good_frame s s' t : slots s' = slots s -> (forall o ob, objs s o = Some ob -> exists ob', objs s' o = Some ob' /\ src_lc (o_src ob') = src_lc (o_src ob)) ->
  good s t -> good s' t.
Proof.
  intros Hs Ho (sl & o & ob & A & B & C & D). destruct (Ho o ob C) as [ob' [C' D']].
  exists sl, o, ob'. rewrite Hs. repeat split; try assumption. congruence.
Qed.
Lemma excused_frame s s' ex t : (forall o ob, objs s o = Some ob -> exists ob', objs s' o = Some ob' /\ src_lc (o_src ob') = src_lc (o_src ob)) ->
  excused s ex t -> excused s' ex t.
Proof. intros Ho (o & ob & A & B & C). destruct (Ho o ob B) as [ob' [B' C']]. exists o, ob'. repeat split; try assumption. congruence. Qed.

(* objs preserved up to the lc flag *)
Definition objs_keep (s s' : st) : Prop :=
  forall o ob, objs s o = Some ob -> exists ob', objs s' o = Some ob' /\ src_lc (o_src ob') = src_lc (o_src ob).
Lemma objs_keep_refl s : objs_keep s s.
Proof. intros o ob H. exists ob. split; [exact H|reflexivity]. Qed.
Lemma objs_keep_eq s s' : objs s' = objs s -> objs_keep s s'.
Proof. intros E o ob H. exists ob. rewrite E. split; [exact H|reflexivity]. Qed.
Lemma objs_keep_trans a b c : objs_keep a b -> objs_keep b c -> objs_keep a c.
Proof. intros H1 H2 o ob H. destruct (H1 o ob H) as [ob1 [A B]]. destruct (H2 o ob1 A) as [ob2 [C D]]. exists ob2. split; [exact C|congruence]. Qed.

Lemma LI_frame s s' ex : slots s' = slots s -> lifecycle s' = lifecycle s -> objs_keep s s' -> LI s ex -> LI s' ex.
Proof.
  intros Hs Hl Ho (A & B & C). split; [|split].
  - intros t Ht. rewrite Hl in Ht. destruct (A t Ht) as [S [G|E]]; (split; [exact S|]); [left; eapply good_frame; eassumption|right; eapply excused_frame; eassumption].
  - intros i sl o Hn Hob. rewrite Hs in Hn. specialize (B i sl o Hn Hob). destruct (objs s o) as [ob|] eqn:E; [|congruence].
    destruct (Ho o ob E) as [ob' [E' _]]. congruence.
  - intros o t He. specialize (C o t He). destruct (objs s o) as [ob|] eqn:E; [|congruence]. destruct (Ho o ob E) as [ob' [E' _]]. congruence.
Qed.

Lemma objs_keep_set_obj_src s o x : (forall ob, objs s o = Some ob -> src_lc x = src_lc (o_src ob)) -> objs_keep s (set_obj_src s o x).
Proof.
  intros H o' ob' H'. unfold set_obj_src. destruct (objs s o) as [ob|] eqn:E; [|exists ob'; split; [exact H'|reflexivity]].
  cbn [objs set_objs]. unfold fupd. destruct (N.eqb_spec o' o) as [->|Hne].
  - rewrite E in H'. injection H' as <-. eexists. split; [reflexivity|]. cbn. apply H. reflexivity.
  - exists ob'. split; [exact H'|reflexivity].
Qed.

(* ---------- lifecycle-set membership ---------- *)
Lemma in_lc_register l t x : In x (lc_register l t) -> In x l \/ x = t.
Proof.
  unfold lc_register. destruct (existsb (tok_eqb t) l); [left; assumption|]. intros H. apply in_app_or in H. destruct H as [H|H]; [left; exact H|]. destruct H as [H|H]; [right; symmetry; exact H|contradiction].
Qed.
Lemma in_lc_unregister l t x : In x (lc_unregister l t) -> In x l /\ tok_eqb x t = false.
Proof. unfold lc_unregister. intros H. apply filter_In in H as [A B]. split; [exact A|]. destruct (tok_eqb x t); [discriminate|reflexivity]. Qed.

Lemma tok_eqb_of_same a b : same_source_as a b = true -> t_sub a = 0 -> t_sub b = 0 -> tok_eqb a b = true.
Proof. unfold same_source_as, tok_eqb. intros H A B. rewrite H, A, B. reflexivity. Qed.
Lemma same_source_trans_l sl a b : same_source_as sl a = true -> same_source_as sl b = true -> same_source_as a b = true.
Proof.
  unfold same_source_as. intros H1 H2. apply andb_prop in H1 as [A1 B1]. apply andb_prop in H2 as [A2 B2].
  apply N.eqb_eq in A1, B1, A2, B2. rewrite <- A1, <- B1, A2, B2, !N.eqb_refl. reflexivity.
Qed.

(* ---------- the dispatcher-level operations, when nothing is being processed ---------- *)
(* the bundle that holds between events *)
Definition TS (s : st) : Prop := forall h t, toks s h = Some t -> t_sub t = 0.
Definition INV (s : st) : Prop := LI s None /\ slots_wf (slots s) /\ TS s /\ running s = None.

Lemma excused_none s t : ~ excused s None t.
Proof. intros (o & ob & H & _). discriminate. Qed.

(* registering o under the token of the slot that holds it *)
Lemma LI_disp_register s o t sl : LI s None -> running s = None ->
  slot_get (slots s) t = Some sl -> s_obj sl = Some o -> t_sub t = 0 -> LI (snd (disp_register s o t)) None.
Proof.
  intros L Hr Hg Ho Hs. unfold disp_register. destruct (objs s o) as [ob|] eqn:Eo; [|exact L].
  rewrite (is_running_none s o Hr).
  pose proof (src_lc_register (en s) (o_src ob) (factory_new t)) as LC.
  destruct (src_register _ _ _) as [[r x'] e1]. cbn [fst snd] in LC.
  assert (K : objs_keep s (set_obj_src (set_en s e1) o x')).
  { eapply objs_keep_trans; [apply (objs_keep_eq s (set_en s e1)); reflexivity|]. apply objs_keep_set_obj_src. cbn. intros ob0 E. rewrite Eo in E. injection E as <-. exact LC. }
  assert (L2 : LI (set_obj_src (set_en s e1) o x') None).
  { eapply LI_frame; [rewrite slots_set_obj_src; reflexivity| |exact K|exact L]. unfold set_obj_src. cbn. destruct (objs s o); reflexivity. }
  destruct r; cbn [snd].
  - (* registered: the entry of this slot is recorded for a lifecycle source *)
    set (s3 := regop (set_obj_src (set_en s e1) o x') o x' 0%Z true).
    assert (L3 : LI s3 None) by (eapply LI_frame; [apply slots_regop|apply lifecycle_regop|apply objs_keep_eq; apply objs_regop|exact L2]).
    destruct (src_lc x') eqn:Elc; [|exact L3].
    destruct L3 as (A & B & C). split; [|split]; [|exact B|exact C].
    intros e He. cbn [lifecycle set_lifecycle] in He. apply in_lc_register in He. destruct He as [He|He]; [apply A; exact He|]. subst e.
    split; [reflexivity|]. left.
    assert (F : forget_sub_id t = t) by (destruct t; cbn in *; subst; reflexivity). rewrite F.
    destruct (K o ob Eo) as [ob' [Eo' LC']].
    exists sl, o, ob'. unfold s3. cbn [slots objs set_lifecycle]. rewrite slots_regop, slots_set_obj_src, objs_regop. cbn [slots set_en].
    repeat split; try assumption. congruence.
  - eapply LI_frame; [apply slots_regop|apply lifecycle_regop|apply objs_keep_eq; apply objs_regop|exact L2].
  - exact L2.
Qed.

Lemma LI_disp_reregister s o t sl : LI s None -> running s = None ->
  slot_get (slots s) t = Some sl -> s_obj sl = Some o -> t_sub t = 0 -> LI (snd (disp_reregister s o t)) None.
Proof.
  intros L Hr Hg Ho Hs. unfold disp_reregister. destruct (objs s o) as [ob|] eqn:Eo; [|exact L].
  rewrite (is_running_none s o Hr).
  pose proof (src_lc_reregister (en s) (o_src ob) (factory_new t)) as LC.
  destruct (src_reregister _ _ _) as [[r x'] e1]. cbn [fst snd] in LC.
  assert (K : objs_keep s (set_obj_src (set_en s e1) o x')).
  { eapply objs_keep_trans; [apply (objs_keep_eq s (set_en s e1)); reflexivity|]. apply objs_keep_set_obj_src. cbn. intros ob0 E. rewrite Eo in E. injection E as <-. exact LC. }
  assert (L2 : LI (set_obj_src (set_en s e1) o x') None).
  { eapply LI_frame; [rewrite slots_set_obj_src; reflexivity| |exact K|exact L]. unfold set_obj_src. cbn. destruct (objs s o); reflexivity. }
  destruct r; cbn [snd].
  - set (s3 := regop (set_obj_src (set_en s e1) o x') o x' 1%Z true).
    assert (L3 : LI s3 None) by (eapply LI_frame; [apply slots_regop|apply lifecycle_regop|apply objs_keep_eq; apply objs_regop|exact L2]).
    destruct (src_lc x') eqn:Elc; [|exact L3].
    destruct L3 as (A & B & C). split; [|split]; [|exact B|exact C].
    intros e He. cbn [lifecycle set_lifecycle] in He. apply in_lc_register in He. destruct He as [He|He]; [apply A; exact He|]. subst e.
    split; [reflexivity|]. left.
    assert (F : forget_sub_id t = t) by (destruct t; cbn in *; subst; reflexivity). rewrite F.
    destruct (K o ob Eo) as [ob' [Eo' LC']].
    exists sl, o, ob'. unfold s3. cbn [slots objs set_lifecycle]. rewrite slots_regop, slots_set_obj_src, objs_regop. cbn [slots set_en].
    repeat split; try assumption. congruence.
  - eapply LI_frame; [apply slots_regop|apply lifecycle_regop|apply objs_keep_eq; apply objs_regop|exact L2].
  - exact L2.
Qed.

(* unregistering only removes entries *)
Lemma LI_disp_unregister s o t : LI s None -> running s = None -> LI (snd (disp_unregister s o t)) None.
Proof.
  intros L Hr. unfold disp_unregister. destruct (objs s o) as [ob|] eqn:Eo; [|exact L].
  rewrite (is_running_none s o Hr).
  pose proof (src_lc_unregister (en s) (o_src ob)) as LC.
  destruct (src_unregister _ _) as [[ok x'] e1]. cbn [fst snd] in LC.
  assert (K : objs_keep s (set_obj_src (set_en s e1) o x')).
  { eapply objs_keep_trans; [apply (objs_keep_eq s (set_en s e1)); reflexivity|]. apply objs_keep_set_obj_src. cbn. intros ob0 E. rewrite Eo in E. injection E as <-. exact LC. }
  set (s2 := regop (set_obj_src (set_en s e1) o x') o x' 2%Z ok).
  assert (L2 : LI s2 None).
  { eapply LI_frame; [unfold s2; rewrite slots_regop, slots_set_obj_src; reflexivity| | |exact L].
    - unfold s2. rewrite lifecycle_regop. unfold set_obj_src. cbn. destruct (objs s o); reflexivity.
    - intros o' ob' H'. destruct (K o' ob' H') as [ob2 [A B]]. exists ob2. unfold s2. rewrite objs_regop. split; assumption. }
  cbn [snd]. destruct (src_lc x'); [|exact L2].
  destruct L2 as (A & B & C). split; [|split]; [|exact B|exact C].
  intros e He. cbn [lifecycle set_lifecycle] in He. apply in_lc_unregister in He as [He _]. destruct (A e He) as [S [G|E]]; (split; [exact S|]); [left|right].
  - destruct G as (sl & o' & ob' & G1 & G2 & G3 & G4). exists sl, o', ob'. repeat split; assumption.
  - destruct E as (o' & ob' & E1 & _). discriminate.
Qed.
(* ... and the entry of a lifecycle source is gone afterwards *)
Lemma disp_unregister_removes s o t ob : running s = None -> objs s o = Some ob -> src_lc (o_src ob) = true ->
  forall e, In e (lifecycle (snd (disp_unregister s o t))) -> tok_eqb e t = false.
Proof.
  intros Hr Eo Hlc e He. unfold disp_unregister in He. rewrite Eo, (is_running_none s o Hr) in He.
  pose proof (src_lc_unregister (en s) (o_src ob)) as LC.
  destruct (src_unregister _ _) as [[ok x'] e1]. cbn [fst snd] in *. rewrite LC, Hlc in He. cbn [lifecycle set_lifecycle] in He.
  apply in_lc_unregister in He as [_ H]. exact H.
Qed.
Lemma disp_unregister_objs_keep s o t : objs_keep s (snd (disp_unregister s o t)).
Proof.
  unfold disp_unregister. destruct (objs s o) as [ob|] eqn:Eo; [|apply objs_keep_refl]. destruct (is_running s o); [apply objs_keep_refl|].
  pose proof (src_lc_unregister (en s) (o_src ob)) as LC.
  destruct (src_unregister _ _) as [[ok x'] e1]. cbn [fst snd] in *.
  assert (K : objs_keep s (set_obj_src (set_en s e1) o x')).
  { eapply objs_keep_trans; [apply (objs_keep_eq s (set_en s e1)); reflexivity|]. apply objs_keep_set_obj_src. cbn. intros ob0 E. rewrite Eo in E. injection E as <-. exact LC. }
  intros o' ob' H'. destruct (K o' ob' H') as [ob2 [A B]]. exists ob2. destruct (src_lc x'); cbn [objs set_lifecycle]; rewrite objs_regop; split; assumption.
Qed.

(* ---------- entries resolving to slots that stay as they are ---------- *)
Lemma good_keep s s' e : good s e ->
  (forall j sl, nth_error (slots s) j = Some sl -> s_obj sl <> None -> nth_error (slots s') j = Some sl) ->
  objs_keep s s' -> good s' e.
Proof.
  intros (sl & o & ob & A & B & C & D) Hs Ho. destruct (Ho o ob C) as [ob' [C' D']].
  exists sl, o, ob'. repeat split; try assumption; [|congruence].
  unfold slot_get in *. destruct (nth_error (slots s) (N.to_nat (t_id e))) as [sl0|] eqn:En; [|discriminate].
  destruct (same_source_as (s_tok sl0) e) eqn:Es; [|discriminate]. injection A as ->.
  rewrite (Hs _ _ En) by congruence. rewrite Es. reflexivity.
Qed.

Lemma in_slots_spec l o : in_slots l o = true <-> exists i sl, nth_error l i = Some sl /\ s_obj sl = Some o.
Proof.
  unfold in_slots. rewrite existsb_exists. split.
  - intros [sl [Hin H]]. destruct (s_obj sl) as [x|] eqn:E; [|discriminate]. apply N.eqb_eq in H. subst x.
    apply In_nth_error in Hin as [i Hi]. exists i, sl. split; assumption.
  - intros (i & sl & Hi & Ho). exists sl. split; [eapply nth_error_In; exact Hi|]. rewrite Ho. apply N.eqb_refl.
Qed.

Lemma maybe_drop_objs s o o' ob' : objs s o' = Some ob' -> (o' <> o \/ in_slots (slots s) o = true) -> objs (maybe_drop s o) o' = Some ob'.
Proof.
  intros H Hc. unfold maybe_drop. destruct (objs s o) as [ob|]; [|exact H].
  destruct (o_ext ob || in_slots (slots s) o) eqn:E; [exact H|]. destruct (is_running s o); [exact H|].
  unfold drop_obj. cbn [objs emit set_log set_objs set_en]. unfold fupd. destruct (N.eqb_spec o' o) as [->|Hne]; [|exact H].
  destruct Hc as [Hc|Hc]; [congruence|]. rewrite Hc, orb_true_r in E. discriminate.
Qed.
Lemma lifecycle_maybe_drop s o : lifecycle (maybe_drop s o) = lifecycle s.
Proof. unfold maybe_drop, drop_obj. destruct (objs s o) as [ob|]; [|reflexivity]. destruct (o_ext ob || in_slots (slots s) o); [reflexivity|]. destruct (is_running s o); reflexivity. Qed.
Lemma toks_maybe_drop s o : toks (maybe_drop s o) = toks s.
Proof. unfold maybe_drop, drop_obj. destruct (objs s o) as [ob|]; [|reflexivity]. destruct (o_ext ob || in_slots (slots s) o); [reflexivity|]. destruct (is_running s o); reflexivity. Qed.

(* dropping an object that no slot holds keeps LI *)
Lemma LI_maybe_drop s o : LI s None -> LI (maybe_drop s o) None.
Proof.
  intros (A & B & C). split; [|split].
  - intros e He. rewrite lifecycle_maybe_drop in He. destruct (A e He) as [S [G|E]]; [|destruct (excused_none _ _ E)]. split; [exact S|]. left.
    destruct G as (sl & o' & ob' & G1 & G2 & G3 & G4). exists sl, o', ob'. rewrite slots_maybe_drop. repeat split; try assumption.
    apply maybe_drop_objs; [exact G3|]. destruct (N.eq_dec o' o) as [->|Hne]; [right|left; exact Hne].
    apply in_slots_spec. unfold slot_get in G1. destruct (nth_error (slots s) (N.to_nat (t_id e))) as [sl0|] eqn:En; [|discriminate].
    destruct (same_source_as (s_tok sl0) e); [|discriminate]. injection G1 as ->. exists (N.to_nat (t_id e)), sl. split; assumption.
  - intros i sl o' Hn Ho. rewrite slots_maybe_drop in Hn. specialize (B i sl o' Hn Ho). destruct (objs s o') as [ob'|] eqn:E; [|congruence].
    rewrite (maybe_drop_objs s o o' ob' E); [discriminate|]. destruct (N.eq_dec o' o) as [->|Hne]; [right|left; exact Hne].
    apply in_slots_spec. exists i, sl. split; assumption.
  - intros o' t H. discriminate.
Qed.

(* ---------- remove ---------- *)
Lemma lookup_spec s h t et o : lookup s h = Some (t, et, o) ->
  toks s h = Some t /\ exists sl, nth_error (slots s) (N.to_nat (t_id t)) = Some sl /\ same_source_as (s_tok sl) t = true /\ s_obj sl = Some o /\ et = s_tok sl.
Proof.
  unfold lookup. destruct (toks s h) as [t0|]; [|discriminate]. unfold slot_get.
  destruct (nth_error (slots s) (N.to_nat (t_id t0))) as [sl|] eqn:En; [|discriminate].
  destruct (same_source_as (s_tok sl) t0) eqn:Es; [|discriminate]. destruct (s_obj sl) as [o0|] eqn:Eo; [|discriminate].
  intros [= <- <- <-]. split; [reflexivity|]. exists sl. repeat split; assumption.
Qed.

Lemma LI_do_remove s h : INV s -> LI (do_remove s h) None.
Proof.
  intros (L & W & T & Hr). unfold do_remove. destruct (lookup s h) as [[[t et] o]|] eqn:El.
  2:{ eapply LI_frame; [reflexivity|reflexivity|apply objs_keep_refl|exact L]. }
  destruct (lookup_spec _ _ _ _ _ El) as (Ht & sl & Hn & Hss & Hob & _).
  pose proof (T h t Ht) as Tsub.
  set (s1 := set_slots s (slot_set_obj (slots s) t None)).
  assert (Hr1 : running s1 = None) by exact Hr.
  pose proof (disp_unregister_objs_keep s1 o t) as K.
  pose proof (slots_disp_unregister s1 o t) as FS.
  assert (FL : forall e, In e (lifecycle (snd (disp_unregister s1 o t))) -> In e (lifecycle s)).
  { intros e He. unfold disp_unregister in He. destruct (objs s1 o) as [ob|]; [|exact He]. rewrite (is_running_none s1 o Hr1) in He.
    destruct (src_unregister _ _) as [[ok x'] e1]. cbn [snd] in He. destruct (src_lc x'); cbn [lifecycle set_lifecycle] in He;
      [apply in_lc_unregister in He as [He _]|]; rewrite lifecycle_regop in He; unfold set_obj_src in He; cbn in He; destruct (objs s o); exact He. }
  pose proof (fun ob E L => disp_unregister_removes s1 o t ob Hr1 E L) as RM.
  destruct (disp_unregister s1 o t) as [[r d] s2]. cbn [snd] in *.
  cbn [slots lifecycle objs emit set_log]. 
  destruct L as (A & B & C).
  assert (SL1 : slots s1 = upd (slots s) (N.to_nat (t_id t)) (mkSlot (s_tok sl) None (s_gen sl))).
  { unfold s1. cbn [slots set_slots]. unfold slot_set_obj. rewrite Hn. reflexivity. }
  assert (L2 : LI s2 None).
  { split; [|split].
    - intros e He. pose proof (FL e He) as He0. destruct (A e He0) as [S [G|E]]; [|destruct (excused_none _ _ E)]. split; [exact S|]. left.
      destruct G as (sle & oe & obe & G1 & G2 & G3 & G4).
      unfold slot_get in G1. destruct (nth_error (slots s) (N.to_nat (t_id e))) as [sl0|] eqn:En0; [|discriminate].
      destruct (same_source_as (s_tok sl0) e) eqn:Es0; [|discriminate]. injection G1 as ->.
      destruct (Nat.eq_dec (N.to_nat (t_id e)) (N.to_nat (t_id t))) as [Eq|Ne].
      + (* the entry of the vacated slot has been removed *)
        exfalso. rewrite Eq, Hn in En0. injection En0 as <-.
        rewrite Hob in G2. injection G2 as <-.
        assert (Eo1 : objs s1 o = Some obe) by exact G3.
        specialize (RM obe Eo1 G4 e He).
        rewrite (tok_eqb_of_same e t) in RM; [discriminate| |exact S|exact Tsub].
        eapply same_source_trans_l; eassumption.
      + destruct (K oe obe G3) as [ob2 [K1 K2]]. exists sle, oe, ob2. repeat split; try assumption; [|congruence].
        unfold slot_get. rewrite FS, SL1, nth_error_upd_other by (intros X; apply Ne; symmetry; exact X). rewrite En0, Es0. reflexivity.
    - intros i sli oi Hni Hoi. rewrite FS, SL1 in Hni.
      destruct (Nat.eq_dec (N.to_nat (t_id t)) i) as [<-|Ne].
      + rewrite (nth_error_upd_same _ _ _ _ Hn) in Hni. injection Hni as <-. discriminate.
      + rewrite nth_error_upd_other in Hni by exact Ne. specialize (B i sli oi Hni Hoi). destruct (objs s oi) as [obi|] eqn:E; [|congruence].
        destruct (K oi obi E) as [ob2 [K1 _]]. congruence.
    - intros o' t' H. discriminate. }
  apply (LI_maybe_drop s2 o) in L2. eapply LI_frame; [reflexivity|reflexivity|apply objs_keep_refl|exact L2].
Qed.

(* ---------- toks / running frames ---------- *)
Lemma lifecycle_set_obj_src s o x : lifecycle (set_obj_src s o x) = lifecycle s.
Proof. unfold set_obj_src. destruct (objs s o); reflexivity. Qed.
Lemma toks_set_obj_src s o x : toks (set_obj_src s o x) = toks s.
Proof. unfold set_obj_src. destruct (objs s o); reflexivity. Qed.
Lemma toks_regop s o x k b : toks (regop s o x k b) = toks s.
Proof. unfold regop. destruct x; reflexivity. Qed.
Lemma toks_frame_disp_register s o t : toks (snd (disp_register s o t)) = toks s.
Proof.
  unfold disp_register. destruct (objs s o) as [ob|]; [|reflexivity]. destruct (is_running s o); [reflexivity|].
  destruct (src_register _ _ _) as [[r x'] e1]. destruct r; cbn [snd]; try destruct (src_lc x'); cbn [toks set_lifecycle panic set_halted emit set_log];
    rewrite ?toks_regop, ?toks_set_obj_src; reflexivity.
Qed.
Lemma toks_frame_disp_reregister s o t : toks (snd (disp_reregister s o t)) = toks s.
Proof.
  unfold disp_reregister. destruct (objs s o) as [ob|]; [|reflexivity]. destruct (is_running s o); [reflexivity|].
  destruct (src_reregister _ _ _) as [[r x'] e1]. destruct r; cbn [snd]; try destruct (src_lc x'); cbn [toks set_lifecycle panic set_halted emit set_log];
    rewrite ?toks_regop, ?toks_set_obj_src; reflexivity.
Qed.
Lemma toks_frame_disp_unregister s o t : toks (snd (disp_unregister s o t)) = toks s.
Proof.
  unfold disp_unregister. destruct (objs s o) as [ob|]; [|reflexivity]. destruct (is_running s o); [reflexivity|].
  destruct (src_unregister _ _) as [[ok x'] e1]. cbn [snd]. destruct (src_lc x'); cbn [toks set_lifecycle]; rewrite ?toks_regop, ?toks_set_obj_src; reflexivity.
Qed.
Lemma running_do_insert s h x : running (do_insert s h x) = running s.
Proof.
  unfold do_insert. destruct (objs s h); [reflexivity|]. destruct (vacant_entry _) as [[i sl]|]; [|reflexivity].
  destruct (nth_error sl i) as [e|]; [|reflexivity].
  match goal with |- context [disp_register ?a ?b ?c] => pose proof (running_disp_register a b c) as F; destruct (disp_register a b c) as [r s2] end.
  cbn [snd] in F. destruct (halted s2); [exact F|]. destruct r; cbn; exact F.
Qed.

(* ---------- insert ---------- *)
Lemma LI_occupied_keep s s' : LI s None -> lifecycle s' = lifecycle s ->
  (forall j sl, nth_error (slots s) j = Some sl -> s_obj sl <> None -> nth_error (slots s') j = Some sl) ->
  objs_keep s s' ->
  (forall i sl o, nth_error (slots s') i = Some sl -> s_obj sl = Some o -> objs s' o <> None) -> LI s' None.
Proof.
  intros (A & B & C) Hl Hs Ho HB. split; [|split]; [|exact HB|intros o t H; discriminate].
  intros e He. rewrite Hl in He. destruct (A e He) as [S [G|E]]; [|destruct (excused_none _ _ E)]. split; [exact S|]. left.
  eapply good_keep; eassumption.
Qed.

Lemma vacant_entry_spec l i l' : vacant_entry l = Some (i, l') ->
  (forall j sl, nth_error l j = Some sl -> s_obj sl <> None -> j <> i /\ nth_error l' j = Some sl) /\
  (forall j, j <> i -> nth_error l' j = nth_error l j) /\
  exists e, nth_error l' i = Some e /\ s_obj e = None.
Proof.
  unfold vacant_entry. destruct (find_vacant l 0) as [k|] eqn:Ef.
  - destruct (nth_error l k) as [sl|] eqn:En; [|discriminate]. intros [= <- <-].
    destruct (find_vacant_spec l 0 k Ef) as [_ [sl0 [Hn Ho]]]. rewrite Nat.sub_0_r, En in Hn. injection Hn as <-.
    split; [|split].
    + intros j slj Hj Hne. assert (j <> k) by (intros ->; rewrite En in Hj; injection Hj as <-; congruence).
      split; [assumption|]. rewrite nth_error_upd_other by (intros X; apply H; symmetry; exact X). exact Hj.
    + intros j Hj. apply nth_error_upd_other. intros X. apply Hj. symmetry. exact X.
    + eexists. split; [eapply nth_error_upd_same; exact En|reflexivity].
  - destruct (tok_new (N.of_nat (length l))) as [t|]; [|discriminate]. intros [= <- <-].
    split; [|split].
    + intros j slj Hj Hne. assert (Hlt : (j < length l)%nat) by (apply nth_error_Some; congruence).
      split; [lia|]. rewrite nth_error_app1 by exact Hlt. exact Hj.
    + intros j Hj. destruct (Nat.lt_ge_cases j (length l)) as [Hlt|Hge]; [apply nth_error_app1; exact Hlt|].
      rewrite nth_error_app2 by exact Hge. destruct (j - length l)%nat as [|n] eqn:E; [lia|]. cbn. destruct n; cbn; symmetry; apply nth_error_None; lia.
    + eexists. split; [rewrite nth_error_app2 by lia; rewrite Nat.sub_diag; reflexivity|reflexivity].
Qed.

Lemma INV_do_insert s h x : INV s -> INV (do_insert s h x).
Proof.
  intros (L & W & T & Hr).
  assert (WF' : slots_wf (slots (do_insert s h x))) by (apply (proj1 (do_insert_sstep s h x)); exact W).
  unfold INV. split; [|split; [exact WF'|split]].
  - (* LI *)
    clear WF'. unfold do_insert. destruct (objs s h) eqn:Eh; [eapply LI_frame; [reflexivity|reflexivity|apply objs_keep_refl|exact L]|].
    set (s0 := set_objs s (fupd (objs s) h (Some (mkObj x true)))).
    assert (K0 : objs_keep s s0).
    { intros o ob H. exists ob. split; [|reflexivity]. unfold s0. cbn [objs set_objs]. unfold fupd. destruct (N.eqb_spec o h) as [->|]; [congruence|exact H]. }
    assert (Hh0 : objs s0 h = Some (mkObj x true)) by (unfold s0; cbn [objs set_objs]; unfold fupd; rewrite N.eqb_refl; reflexivity).
    destruct (vacant_entry (slots s0)) as [[i sl]|] eqn:Ev.
    2:{ apply (LI_frame s); [reflexivity|reflexivity|exact K0|exact L]. }
    change (slots s0) with (slots s) in Ev.
    destruct (vacant_entry_spec _ _ _ Ev) as (V1 & V2 & e & He & Heo). rewrite He.
    destruct (vacant_entry_sstep _ _ _ Ev) as [[Wv _] _]. specialize (Wv W). destruct (Wv i e He) as (We & Wid & Wsub & _).
    set (t := s_tok e).
    set (s1 := set_slots s0 (upd sl i (mkSlot t (Some h) (s_gen e)))).
    assert (Hr1 : running s1 = None) by exact Hr.
    assert (L1 : LI s1 None).
    { apply (LI_occupied_keep s); [exact L|reflexivity| |exact K0|].
      - intros j slj Hj Hne. destruct (V1 j slj Hj Hne) as [Hji Hj']. unfold s1. cbn [slots set_slots].
        rewrite nth_error_upd_other by (intros X; apply Hji; symmetry; exact X). exact Hj'.
      - intros j slj oj Hj Hoj. unfold s1 in Hj. cbn [slots set_slots] in Hj. destruct (Nat.eq_dec i j) as [<-|Ne].
        + rewrite (nth_error_upd_same _ _ _ _ He) in Hj. injection Hj as <-. cbn in Hoj. injection Hoj as <-. change (objs s1 h) with (objs s0 h). rewrite Hh0. discriminate.
        + rewrite nth_error_upd_other in Hj by exact Ne. rewrite V2 in Hj by (intros X; apply Ne; symmetry; exact X).
          destruct L as (_ & B & _). specialize (B j slj oj Hj Hoj). destruct (objs s oj) as [obj|] eqn:E; [|congruence].
          destruct (K0 oj obj E) as [ob' [E' _]]. change (objs s1 oj) with (objs s0 oj). congruence. }
    assert (G1 : slot_get (slots s1) t = Some (mkSlot t (Some h) (s_gen e))).
    { unfold slot_get, s1. cbn [slots set_slots]. unfold t. rewrite Wid, Nat2N.id, (nth_error_upd_same _ _ _ _ He). cbn [s_tok].
      unfold same_source_as. rewrite !N.eqb_refl. reflexivity. }
    pose proof (LI_disp_register s1 h t _ L1 Hr1 G1 eq_refl Wsub) as L2.
    pose proof (slots_disp_register s1 h t) as FS.
    assert (FLerr : fst (disp_register s1 h t) <> ROk -> lifecycle (snd (disp_register s1 h t)) = lifecycle s1).
    { unfold disp_register. destruct (objs s1 h) as [ob|]; [|reflexivity]. destruct (is_running s1 h); [reflexivity|].
      destruct (src_register _ _ _) as [[r x'] e1]. destruct r; cbn [fst snd]; intros Hne; try congruence;
        cbn [lifecycle panic set_halted emit set_log]; rewrite ?lifecycle_regop, ?lifecycle_set_obj_src; reflexivity. }
    assert (KR : objs_keep s1 (snd (disp_register s1 h t))).
    { unfold disp_register. destruct (objs s1 h) as [ob|] eqn:Eo; [|apply objs_keep_refl]. destruct (is_running s1 h); [apply objs_keep_eq; reflexivity|].
      pose proof (src_lc_register (en s1) (o_src ob) (factory_new t)) as LC.
      destruct (src_register _ _ _) as [[r x'] e1]. cbn [fst snd] in LC.
      assert (K : objs_keep s1 (set_obj_src (set_en s1 e1) h x')).
      { eapply objs_keep_trans; [apply (objs_keep_eq s1 (set_en s1 e1)); reflexivity|]. apply objs_keep_set_obj_src. intros ob0 E. change (objs s1 h = Some ob0) in E. rewrite Eo in E. injection E as <-. exact LC. }
      destruct r; cbn [snd]; try destruct (src_lc x'); intros o' ob' H'; destruct (K o' ob' H') as [ob2 [A2 B2]]; exists ob2;
        cbn [objs set_lifecycle panic set_halted emit set_log]; rewrite ?objs_regop; split; assumption. }
    destruct (disp_register s1 h t) as [r s2]. cbn [fst snd] in *.
    destruct (halted s2); [exact L2|].
    assert (FAIL : forall r', r <> ROk ->
              LI (emit (set_slots s2 (upd (slots s2) i (mkSlot t None (s_gen e)))) (op_line OP_INSERT h r')) None).
    { intros r' Hnok.
      cbn [slots lifecycle objs emit set_log set_slots].
      apply (LI_occupied_keep s); [exact L| | | |].
      + cbn [lifecycle set_slots emit set_log]. rewrite FLerr by exact Hnok. reflexivity.
      + intros j slj Hj Hne. destruct (V1 j slj Hj Hne) as [Hji Hj']. cbn [slots set_slots emit set_log]. rewrite FS. unfold s1. cbn [slots set_slots].
        rewrite !nth_error_upd_other by (intros X; apply Hji; symmetry; exact X). exact Hj'.
      + eapply objs_keep_trans; [exact K0|]. eapply objs_keep_trans; [apply (objs_keep_eq s0 s1); reflexivity|]. intros o' ob' H'. destruct (KR o' ob' H') as [ob2 [A2 B2]]. exists ob2. split; assumption.
      + intros j slj oj Hj Hoj. cbn [slots set_slots emit set_log] in Hj. rewrite FS in Hj. unfold s1 in Hj. cbn [slots set_slots] in Hj.
        destruct (Nat.eq_dec i j) as [<-|Ne].
        * assert (Hu : nth_error (upd sl i (mkSlot t (Some h) (s_gen e))) i = Some (mkSlot t (Some h) (s_gen e))) by (eapply nth_error_upd_same; exact He).
          rewrite (nth_error_upd_same _ _ _ _ Hu) in Hj. injection Hj as <-. discriminate.
        * rewrite !nth_error_upd_other in Hj by exact Ne. rewrite V2 in Hj by (intros X; apply Ne; symmetry; exact X).
          destruct L as (_ & B & _). specialize (B j slj oj Hj Hoj). destruct (objs s oj) as [obj|] eqn:E; [|congruence].
          destruct (K0 oj obj E) as [ob' [E' _]]. destruct (KR oj ob' E') as [ob2 [E2 _]]. cbn [objs set_slots emit set_log]. congruence. }
    destruct r; [eapply LI_frame; [reflexivity|reflexivity|apply objs_keep_refl|exact L2]|apply FAIL; discriminate..].
  - (* TS *)
    intros h' t' Ht'. unfold do_insert in Ht'. destruct (objs s h); [exact (T h' t' Ht')|].
    destruct (vacant_entry _) as [[i sl]|] eqn:Ev; [|exact (T h' t' Ht')].
    destruct (vacant_entry_sstep _ _ _ Ev) as [[Wv _] [e [He _]]]. rewrite He in Ht'.
    cbn [slots set_objs] in Wv. specialize (Wv W). destruct (Wv i e He) as (_ & _ & Wsub & _).
    match type of Ht' with context [disp_register ?a ?b ?c] => pose proof (toks_frame_disp_register a b c) as FT; destruct (disp_register a b c) as [r s2] end.
    cbn [snd] in FT. destruct (halted s2); [rewrite FT in Ht'; exact (T h' t' Ht')|].
    destruct r; cbn [toks emit set_log set_toks set_slots] in Ht'; try (rewrite FT in Ht'; exact (T h' t' Ht')).
    unfold fupd in Ht'. destruct (h' =? h); [injection Ht' as <-; exact Wsub|rewrite FT in Ht'; exact (T h' t' Ht')].
  - rewrite running_do_insert. exact Hr.
Qed.

(* ---------- the other operations ---------- *)
Lemma slot_get_of_lookup s h t et o : slots_wf (slots s) -> lookup s h = Some (t, et, o) ->
  exists sl, slot_get (slots s) et = Some sl /\ s_obj sl = Some o /\ t_sub et = 0.
Proof.
  intros W El. destruct (lookup_spec _ _ _ _ _ El) as (_ & sl & Hn & Hss & Hob & ->).
  destruct (W _ _ Hn) as (_ & Wid & Wsub & _).
  exists sl. unfold slot_get. assert (E : t_id (s_tok sl) = t_id t) by (unfold same_source_as in Hss; apply andb_prop in Hss as [A _]; apply N.eqb_eq in A; exact A).
  rewrite E, Hn. unfold same_source_as. rewrite !N.eqb_refl. repeat split; assumption.
Qed.

Lemma LI_drop_obj s o ob : LI s None -> in_slots (slots s) o = false -> LI (drop_obj s o ob) None.
Proof.
  intros (A & B & C) Hns. split; [|split]; [| |intros o' t H; discriminate].
  - intros e He. destruct (A e He) as [S [G|E]]; [|destruct (excused_none _ _ E)]. split; [exact S|]. left.
    destruct G as (sl & o' & ob' & G1 & G2 & G3 & G4). exists sl, o', ob'. repeat split; try assumption.
    unfold drop_obj. cbn [objs emit set_log set_objs set_en]. unfold fupd. destruct (N.eqb_spec o' o) as [->|]; [|exact G3].
    exfalso. assert (X : in_slots (slots s) o = true); [|congruence]. apply in_slots_spec.
    unfold slot_get in G1. destruct (nth_error (slots s) (N.to_nat (t_id e))) as [sl0|] eqn:En; [|discriminate].
    destruct (same_source_as (s_tok sl0) e); [|discriminate]. injection G1 as ->. exists (N.to_nat (t_id e)), sl. split; assumption.
  - intros i sl o' Hn Ho. unfold drop_obj. cbn [objs emit set_log set_objs set_en]. unfold fupd. destruct (N.eqb_spec o' o) as [->|]; [|exact (B i sl o' Hn Ho)].
    exfalso. assert (X : in_slots (slots s) o = true); [|congruence]. apply in_slots_spec. exists i, sl. split; assumption.
Qed.

Lemma LI_exec_action s a : INV s -> LI (exec_action s a) None.
Proof.
  intros I. pose proof I as (L & W & T & Hr). unfold exec_action. destruct (halted s); [exact L|].
  destruct a.
  - apply INV_do_insert. exact I.
  - apply LI_do_remove. exact I.
  - (* disable *)
    unfold do_disable. destruct (lookup s h) as [[[t et] o]|] eqn:El; [|eapply LI_frame; [reflexivity|reflexivity|apply objs_keep_refl|exact L]].
    pose proof (LI_disp_unregister s o t L Hr) as L1. destruct (disp_unregister s o t) as [[r d] s1]. cbn [snd] in L1.
    destruct r; [destruct d|..]; (eapply LI_frame; [reflexivity|reflexivity|apply objs_keep_refl|exact L1]).
  - (* enable *)
    unfold do_enable. destruct (lookup s h) as [[[t et] o]|] eqn:El; [|eapply LI_frame; [reflexivity|reflexivity|apply objs_keep_refl|exact L]].
    destruct (slot_get_of_lookup _ _ _ _ _ W El) as (sl & G & Ho & Hs).
    pose proof (LI_disp_register s o et sl L Hr G Ho Hs) as L1. destruct (disp_register s o et) as [r s1]. cbn [snd] in L1.
    destruct (halted s1); [exact L1|]. eapply LI_frame; [reflexivity|reflexivity|apply objs_keep_refl|exact L1].
  - (* update *)
    unfold do_update. destruct (lookup s h) as [[[t et] o]|] eqn:El; [|eapply LI_frame; [reflexivity|reflexivity|apply objs_keep_refl|exact L]].
    destruct (slot_get_of_lookup _ _ _ _ _ W El) as (sl & G & Ho & Hs).
    pose proof (LI_disp_reregister s o et sl L Hr G Ho Hs) as L1. destruct (disp_reregister s o et) as [[r d] s1]. cbn [snd] in L1.
    destruct (halted s1); [exact L1|]. destruct r; [destruct d|..]; (eapply LI_frame; [reflexivity|reflexivity|apply objs_keep_refl|exact L1]).
  - (* setint *)
    unfold do_setint. destruct (objs s h) as [ob|] eqn:Eo; [|eapply LI_frame; [reflexivity|reflexivity|apply objs_keep_refl|exact L]].
    destruct (negb (o_ext ob)); [eapply LI_frame; [reflexivity|reflexivity|apply objs_keep_refl|exact L]|].
    destruct (is_running s h); [eapply LI_frame; [reflexivity|reflexivity|apply objs_keep_refl|exact L]|].
    destruct (o_src ob) as [lc own subs tmr|g|tm|c g] eqn:Es; try (eapply LI_frame; [reflexivity|reflexivity|apply objs_keep_refl|exact L]).
    eapply LI_frame; [cbn; apply slots_set_obj_src|cbn; apply lifecycle_set_obj_src| |exact L].
    eapply objs_keep_trans; [apply objs_keep_set_obj_src|apply objs_keep_eq; reflexivity]. intros ob0 E. rewrite Eo in E. injection E as <-. rewrite Es. reflexivity.
  - (* setdl *)
    unfold do_setdl. destruct (objs s h) as [ob|] eqn:Eo; [|eapply LI_frame; [reflexivity|reflexivity|apply objs_keep_refl|exact L]].
    destruct (negb (o_ext ob)); [eapply LI_frame; [reflexivity|reflexivity|apply objs_keep_refl|exact L]|].
    destruct (is_running s h); [eapply LI_frame; [reflexivity|reflexivity|apply objs_keep_refl|exact L]|].
    destruct (o_src ob) as [lc own subs [tm|]|g|tm|c g] eqn:Es; try (eapply LI_frame; [reflexivity|reflexivity|apply objs_keep_refl|exact L]).
    + eapply LI_frame; [cbn; apply slots_set_obj_src|cbn; apply lifecycle_set_obj_src| |exact L].
      eapply objs_keep_trans; [apply objs_keep_set_obj_src|apply objs_keep_eq; reflexivity]. intros ob0 E. rewrite Eo in E. injection E as <-. rewrite Es. reflexivity.
    + eapply LI_frame; [cbn; apply slots_set_obj_src|cbn; apply lifecycle_set_obj_src| |exact L].
      eapply objs_keep_trans; [apply objs_keep_set_obj_src|apply objs_keep_eq; reflexivity]. intros ob0 E. rewrite Eo in E. injection E as <-. rewrite Es. reflexivity.
  - (* intoinner *)
    unfold do_intoinner. destruct (objs s h) as [ob|] eqn:Eo; [|eapply LI_frame; [reflexivity|reflexivity|apply objs_keep_refl|exact L]].
    destruct (negb (o_ext ob)); [eapply LI_frame; [reflexivity|reflexivity|apply objs_keep_refl|exact L]|].
    destruct (in_slots (slots s) h || is_running s h) eqn:E; [eapply LI_frame; [reflexivity|reflexivity|apply objs_keep_refl|exact L]|].
    apply orb_false_iff in E as [E1 _].
    pose proof (LI_drop_obj s h ob L E1) as L1. eapply LI_frame; [reflexivity|reflexivity|apply objs_keep_refl|exact L1].
  - (* dropdisp *)
    unfold do_dropdisp. destruct (objs s h) as [ob|] eqn:Eo; [|eapply LI_frame; [reflexivity|reflexivity|apply objs_keep_refl|exact L]].
    destruct (negb (o_ext ob)); [eapply LI_frame; [reflexivity|reflexivity|apply objs_keep_refl|exact L]|].
    set (s1 := set_objs s (fupd (objs s) h (Some (mkObj (o_src ob) false)))).
    assert (L1 : LI s1 None).
    { apply (LI_frame s); [reflexivity|reflexivity| |exact L]. intros o' ob' H'. unfold s1. cbn [objs set_objs]. unfold fupd.
      destruct (N.eqb_spec o' h) as [->|]; [|exists ob'; split; [exact H'|reflexivity]]. rewrite Eo in H'. injection H' as <-. eexists. split; reflexivity. }
    apply (LI_maybe_drop s1 h) in L1. eapply LI_frame; [reflexivity|reflexivity|apply objs_keep_refl|exact L1].
  - eapply LI_frame; [reflexivity|reflexivity|apply objs_keep_refl|exact L].
  - eapply LI_frame; [reflexivity|reflexivity|apply objs_keep_refl|exact L].
  - eapply LI_frame; [reflexivity|reflexivity|apply objs_keep_refl|exact L].
  - eapply LI_frame; [reflexivity|reflexivity|apply objs_keep_refl|exact L].
  - eapply LI_frame; [reflexivity|reflexivity|apply objs_keep_refl|exact L].
  - unfold do_send. destruct (env_send _ _ _) as [e' [rc|]]; (eapply LI_frame; [reflexivity|reflexivity|apply objs_keep_refl|exact L]).
  - unfold do_send. destruct (env_send _ _ _) as [e' [rc|]]; (eapply LI_frame; [reflexivity|reflexivity|apply objs_keep_refl|exact L]).
  - eapply LI_frame; [reflexivity|reflexivity|apply objs_keep_refl|exact L].
  - eapply LI_frame; [reflexivity|reflexivity|apply objs_keep_refl|exact L].
  - eapply LI_frame; [reflexivity|reflexivity|apply objs_keep_refl|exact L].
  - unfold do_cancelidle. destruct (match ridle s with Some r => r =? i | None => false end); (eapply LI_frame; [reflexivity|reflexivity|apply objs_keep_refl|exact L]).
  - eapply LI_frame; [reflexivity|reflexivity|apply objs_keep_refl|exact L].
  - eapply LI_frame; [reflexivity|reflexivity|apply objs_keep_refl|exact L].
  - exact L.
Qed.

Lemma TS_exec_action s a : INV s -> TS (exec_action s a).
Proof.
  intros I. pose proof I as (L & W & T & Hr). unfold exec_action. destruct (halted s); [exact T|].
  destruct a; try exact T.
  - apply INV_do_insert. exact I.
  - intros h' t' H. apply (T h' t'). unfold do_remove in H. destruct (lookup s h) as [[[t et] o]|]; [|exact H].
    match type of H with context [disp_unregister ?a ?b ?c] => pose proof (toks_frame_disp_unregister a b c) as F; destruct (disp_unregister a b c) as [[r d] s2] end.
    cbn [snd] in F. cbn [toks emit set_log] in H. rewrite toks_maybe_drop, F in H. exact H.
  - intros h' t' H. apply (T h' t'). unfold do_disable in H. destruct (lookup s h) as [[[t et] o]|]; [|exact H].
    pose proof (toks_frame_disp_unregister s o t) as F. destruct (disp_unregister s o t) as [[r d] s1]. cbn [snd] in F.
    destruct r; [destruct d|..]; cbn [toks emit set_log set_pending] in H; rewrite F in H; exact H.
  - intros h' t' H. apply (T h' t'). unfold do_enable in H. destruct (lookup s h) as [[[t et] o]|]; [|exact H].
    pose proof (toks_frame_disp_register s o et) as F. destruct (disp_register s o et) as [r s1]. cbn [snd] in F.
    destruct (halted s1); cbn [toks emit set_log] in H; rewrite F in H; exact H.
  - intros h' t' H. apply (T h' t'). unfold do_update in H. destruct (lookup s h) as [[[t et] o]|]; [|exact H].
    pose proof (toks_frame_disp_reregister s o et) as F. destruct (disp_reregister s o et) as [[r d] s1]. cbn [snd] in F.
    destruct (halted s1); [rewrite F in H; exact H|]. destruct r; [destruct d|..]; cbn [toks emit set_log set_pending] in H; rewrite F in H; exact H.
  - intros h' t' H. apply (T h' t'). unfold do_setint in H. destruct (objs s h) as [ob|]; [|exact H]. destruct (negb (o_ext ob)); [exact H|].
    destruct (is_running s h); [exact H|]. destruct (o_src ob); cbn [toks emit set_log] in H; rewrite ?toks_set_obj_src in H; exact H.
  - intros h' t' H. apply (T h' t'). unfold do_setdl in H. destruct (objs s h) as [ob|]; [|exact H]. destruct (negb (o_ext ob)); [exact H|].
    destruct (is_running s h); [exact H|]. destruct (o_src ob) as [lc own subs [tm|]|g|tm|c g]; cbn [toks emit set_log] in H; rewrite ?toks_set_obj_src in H; exact H.
  - intros h' t' H. apply (T h' t'). unfold do_intoinner in H. destruct (objs s h) as [ob|]; [|exact H]. destruct (negb (o_ext ob)); [exact H|].
    destruct (in_slots (slots s) h || is_running s h); exact H.
  - intros h' t' H. apply (T h' t'). unfold do_dropdisp in H. destruct (objs s h) as [ob|]; [|exact H]. destruct (negb (o_ext ob)); [exact H|].
    cbn [toks emit set_log] in H. rewrite toks_maybe_drop in H. exact H.
  - intros h' t' H. apply (T h' t'). unfold do_send in H. destruct (env_send _ _ _) as [e' [rc|]]; exact H.
  - intros h' t' H. apply (T h' t'). unfold do_send in H. destruct (env_send _ _ _) as [e' [rc|]]; exact H.
  - intros h' t' H. apply (T h' t'). unfold do_cancelidle in H. destruct (match ridle s with Some r => r =? i | None => false end); exact H.
Qed.

Lemma INV_exec_action s a : INV s -> INV (exec_action s a).
Proof.
  intros I. split; [apply LI_exec_action; exact I|]. split; [|split].
  - destruct I as (_ & W & _). apply (proj1 (exec_action_sstep s a)). exact W.
  - apply TS_exec_action. exact I.
  - rewrite running_exec_action. apply I.
Qed.
Lemma INV_exec_actions l : forall s, INV s -> INV (exec_actions s l).
Proof. unfold exec_actions. induction l as [|a l IH]; intros s I; cbn; [exact I|]. apply IH. apply INV_exec_action. exact I. Qed.
Lemma INV_init : INV init.
Proof.
  split; [|split; [|split]].
  - split; [|split]; [intros t []|intros [|i] sl o H; discriminate|intros o t H; discriminate].
  - intros [|i] sl H; discriminate.
  - intros h t H. discriminate.
  - reflexivity.
Qed.

(* every entry resolves, so the lifecycle loops of the next dispatch cannot reach unreachable!() *)
Lemma LI_resolves s : LI s None -> forall t, In t (lifecycle s) -> exists o, lc_lookup s t = Some o.
Proof.
  intros (A & _) t Ht. destruct (A t Ht) as [_ [G|E]]; [|destruct (excused_none _ _ E)].
  destruct G as (sl & o & ob & G1 & G2 & _). exists o. unfold lc_lookup. rewrite G1. exact G2.
Qed.
Lemma before_handle_loop_no_panic l polled : forall s,
  (forall t, In t l -> exists o, lc_lookup s t = Some o) -> snd (before_handle_loop s l polled) = true.
Proof.
  induction l as [|t r IH]; intros s H; cbn [before_handle_loop]; [reflexivity|].
  destruct (H t (or_introl eq_refl)) as [o Ho]. rewrite Ho. apply IH.
  intros t' Hin. destruct (H t' (or_intror Hin)) as [o' Ho']. exists o'. exact Ho'.
Qed.
Lemma before_sleep_loop_lifecycle bscr l : forall s, lifecycle (fst (before_sleep_loop bscr s l)) = lifecycle s.
Proof.
  induction l as [|t l IH]; intros s; cbn [before_sleep_loop]; [reflexivity|].
  destruct (lc_lookup s t) as [o|]; [|reflexivity].
  destruct (nth _ _ _) as [|p]; [rewrite IH; reflexivity|].
  destruct p; try reflexivity.
  destruct (match objs _ o with Some _ => _ | None => _ end) as [tk|]; rewrite IH; reflexivity.
Qed.

(* ANY sequence of top-level operations from the empty loop (insert - also failing ones -, remove, enable, disable, update,
   set_interest, set_deadline, into_inner, dropping dispatchers, pings, sends, idles ...) leaves a state in which the next
   dispatch goes through both lifecycle loops without reaching unreachable!() *)
Theorem lifecycle_loops_safe acts bscr : let s := exec_actions init acts in
  snd (before_sleep_loop bscr s (lifecycle s)) <> BSPanic /\
  forall e2 line polled, let s1 := fst (before_sleep_loop bscr s (lifecycle s)) in
    snd (before_handle_loop (emit (set_en s1 e2) line) (lifecycle (emit (set_en s1 e2) line)) polled) = true.
Proof.
  cbv zeta. pose proof (INV_exec_actions acts init INV_init) as (L & _).
  pose proof (LI_resolves _ L) as R. split.
  - apply CVP.C14_proofs.before_sleep_loop_no_panic. exact R.
  - intros e2 line polled. apply before_handle_loop_no_panic. intros t Ht.
    cbn [lifecycle emit set_log set_en] in Ht. rewrite before_sleep_loop_lifecycle in Ht. destruct (R t Ht) as [o Ho]. exists o.
    unfold lc_lookup in *. cbn [slots emit set_log set_en]. rewrite before_sleep_loop_slots. exact Ho.
Qed.
