From CV Require Import Base Timeout.
From CVP Require Import Timeout_proofs.
Open Scope Z_scope.
(* no spinning: the wait handed to the poller is zero only for a reason - the caller asked for zero, a synthetic event (idle
   callback queued, readiness the poller missed) is pending, or a timer is already due *)
Lemma eff_zero_only_for_cause timeout syn next now : (forall x, timeout = Some x -> 0 <= x) ->
  eff_timeout timeout syn next now = Some 0 ->
  syn = true \/ timeout = Some 0 \/ exists d, next = Some d /\ d <= now.
Proof.
  intros Hx H. destruct (eff_spec _ _ _ _ _ H) as (_ & _ & [E|(d & E1 & E2)]).
  - destruct syn; [left; reflexivity|right; left; exact E].
  - right; right. exists d. split; [exact E1|]. unfold sat_since in E2. lia.
Qed.
(* no oversleeping: a positive wait never ends later than the caller's timeout nor later than the earliest deadline *)
Lemma eff_never_late timeout next now e : eff_timeout timeout false next now = Some e ->
  (forall x, timeout = Some x -> e <= x) /\ (forall d, next = Some d -> now + e <= Z.max now d).
Proof.
  intros H. destruct (eff_spec _ _ _ _ _ H) as (A & B & _). split; [exact A|].
  intros d Hd. specialize (B d Hd). unfold sat_since in B. lia.
Qed.
(* and it is not shorter than needed either: it ends exactly at the caller's timeout or exactly at the earliest deadline *)
Lemma eff_never_early timeout next now e : eff_timeout timeout false next now = Some e ->
  timeout = Some e \/ exists d, next = Some d /\ now + e = Z.max now d.
Proof.
  intros H. destruct (eff_spec _ _ _ _ _ H) as (_ & _ & [E|(d & E1 & E2)]); [left; exact E|].
  right. exists d. split; [exact E1|]. unfold sat_since in E2. lia.
Qed.
