(* C07, whole histories: a source that holds no registration token (disabled / unregistered) runs no callback and keeps holding
   no token, whatever else happens - other sources' events and callbacks, removals, slot reuse, set_interest / set_deadline on
   it, dispatches, idles - until an action names its own handle in insert / enable / update. *)
From CV Require Import Base Consts Token PostAction Env Loop.
From CVP Require Import Loop_frames Seq_lemmas C06_proofs C14_life C14_life2 C06_release C01_attr C09_proofs C06_handles.
Import ListNotations.
Open Scope N_scope.

(* ---------- "holds no token", as a boolean ---------- *)
Definition gen_notok (g : gen) : bool := match g_tok g with None => true | Some _ => false end.
Definition tm_notok (t : timer) : bool := match tm_reg t with None => true | Some _ => false end.
Definition src_notok (x : src) : bool :=
  match x with
  | SComp _ own subs tmr => match own with None => true | Some _ => false end && forallb gen_notok subs &&
                            match tmr with Some tm => tm_notok tm | None => true end
  | SPing g => gen_notok g
  | SChan _ g => gen_notok g
  | STimer tm => tm_notok tm
  end.
Lemma notok_silent x : src_notok x = true -> src_silent x.
Proof.
  intros H t. destruct x as [lc own subs tmr|g|tm|c g]; cbn in *.
  - apply andb_prop in H. destruct H as [H Ht]. apply andb_prop in H. destruct H as [Ho Hs].
    destruct own; [discriminate|]. cbn [opt_tok_is orb].
    assert (E : existsb (fun g => opt_tok_is (g_tok g) t) subs = false).
    { clear -Hs. induction subs as [|g r IH]; cbn in *; [reflexivity|]. apply andb_prop in Hs. destruct Hs as [Hg Hr].
      unfold gen_notok in Hg. destruct (g_tok g); [discriminate|]. cbn. apply IH. exact Hr. }
    rewrite E. cbn. destruct tmr as [tm|]; [|reflexivity]. unfold tm_notok in Ht. destruct (tm_reg tm); [discriminate|reflexivity].
  - unfold gen_notok in H. destruct (g_tok g); [discriminate|reflexivity].
  - unfold tm_notok in H. destruct (tm_reg tm); [discriminate|reflexivity].
  - unfold gen_notok in H. destruct (g_tok g); [discriminate|reflexivity].
Qed.
Lemma silent_notok x : src_silent x -> src_notok x = true.
Proof.
  intros H. destruct x as [lc own subs tmr|g|tm|c g]; cbn.
  - assert (Ho : own = None).
    { destruct own as [tk|]; [|reflexivity]. specialize (H tk). cbn in H. rewrite tok_eqb_refl in H. discriminate. }
    subst own. cbn.
    assert (Hs : forallb gen_notok subs = true).
    { apply forallb_forall. intros g Hg. unfold gen_notok. destruct (g_tok g) as [tk|] eqn:E; [|reflexivity].
      specialize (H tk). cbn in H. apply orb_false_iff in H. destruct H as [H _].
      assert (X : existsb (fun g0 => opt_tok_is (g_tok g0) tk) subs = true).
      { apply existsb_exists. exists g. split; [exact Hg|]. rewrite E. cbn. apply tok_eqb_refl. }
      rewrite X in H. discriminate. }
    rewrite Hs. cbn. destruct tmr as [tm|]; [|reflexivity]. unfold tm_notok. destruct (tm_reg tm) as [[tk c]|] eqn:E; [|reflexivity].
    specialize (H tk). cbn in H. rewrite E, tok_eqb_refl in H. rewrite orb_true_r in H. discriminate.
  - unfold gen_notok. destruct (g_tok g) as [tk|] eqn:E; [|reflexivity]. specialize (H tk). cbn in H. rewrite E in H. cbn in H. rewrite tok_eqb_refl in H. discriminate.
  - unfold tm_notok. destruct (tm_reg tm) as [[tk c]|] eqn:E; [|reflexivity]. specialize (H tk). cbn in H. rewrite E, tok_eqb_refl in H. discriminate.
  - unfold gen_notok. destruct (g_tok g) as [tk|] eqn:E; [|reflexivity]. specialize (H tk). cbn in H. rewrite E in H. cbn in H. rewrite tok_eqb_refl in H. discriminate.
Qed.

(* unregistering keeps a token-less source token-less, whatever the poller answers *)
Lemma gen_unregister_notok e g : gen_notok g = true -> gen_notok (snd (fst (gen_unregister e g))) = true.
Proof. intros H. unfold gen_unregister. destruct (ep_del _ _); [reflexivity|exact H]. Qed.
Lemma subs_unregister_notok subs : forall e, forallb gen_notok subs = true -> forallb gen_notok (snd (fst (subs_unregister e subs))) = true.
Proof.
  induction subs as [|g r IH]; intros e H; cbn in *; [reflexivity|]. apply andb_prop in H. destruct H as [Hg Hr].
  pose proof (gen_unregister_notok e g Hg) as G. destruct (gen_unregister e g) as [[ok g'] e']. cbn [fst snd] in G.
  destruct ok.
  - specialize (IH e' Hr). destruct (subs_unregister e' r) as [[r0 rest'] e'']. cbn [fst snd forallb] in *. rewrite G, IH. reflexivity.
  - cbn [fst snd forallb]. rewrite G, Hr. reflexivity.
Qed.
Lemma src_unregister_notok e x : src_notok x = true -> src_notok (snd (fst (src_unregister e x))) = true.
Proof.
  intros H. destruct x as [lc own subs tmr|g|tm|c g]; cbn in *.
  - apply andb_prop in H. destruct H as [H Ht]. apply andb_prop in H. destruct H as [Ho Hs].
    pose proof (subs_unregister_notok subs e Hs) as S. destruct (subs_unregister e subs) as [[ok subs'] e']. cbn [fst snd] in S.
    destruct ok, tmr as [tm|]; cbn; try (rewrite S; cbn; try exact Ht; reflexivity).
    destruct (timer_unregister e' tm) as [tm' e''] eqn:Et. cbn. rewrite S. cbn.
    unfold timer_unregister in Et. destruct (tm_reg tm) as [[tk c]|]; injection Et as <- _; reflexivity.
  - pose proof (gen_unregister_notok e g H) as G. destruct (gen_unregister e g) as [[ok g'] e']. exact G.
  - unfold timer_unregister. destruct (tm_reg tm) as [[tk c]|]; reflexivity.
  - pose proof (gen_unregister_notok e g H) as G. destruct (gen_unregister e g) as [[ok g'] e']. exact G.
Qed.
Lemma set_nth_gen_notok subs : forall j it m, forallb gen_notok (set_nth_gen subs j it m) = forallb gen_notok subs.
Proof. induction subs as [|g r IH]; intros [|j] it m; cbn; try reflexivity. rewrite IH. reflexivity. Qed.

(* ---------- NT s o: object o, if it exists, holds no token ---------- *)
Definition NT (s : st) (o : N) : Prop := forall ob, objs s o = Some ob -> src_notok (o_src ob) = true.
Lemma NT_eq s s' o : objs s' o = objs s o \/ objs s' o = None -> NT s o -> NT s' o.
Proof. intros [E|E] H ob Ho; rewrite E in Ho; [apply H; exact Ho|discriminate]. Qed.
Lemma objs_set_obj_src_other s o' x o : o <> o' -> objs (set_obj_src s o' x) o = objs s o.
Proof. intros Hne. unfold set_obj_src. destruct (objs s o'); [|reflexivity]. cbn. unfold fupd. destruct (N.eqb_spec o o'); [contradiction|reflexivity]. Qed.
Lemma NT_set_obj_src s o' x o : (o' = o -> src_notok x = true) -> NT s o -> NT (set_obj_src s o' x) o.
Proof.
  intros Hx H. destruct (N.eq_dec o' o) as [->|Hne].
  - intros ob Ho. unfold set_obj_src in Ho. destruct (objs s o) as [ob0|] eqn:E; [|rewrite E in Ho; discriminate].
    cbn in Ho. unfold fupd in Ho. rewrite N.eqb_refl in Ho. injection Ho as <-. cbn. apply Hx. reflexivity.
  - apply (NT_eq s); [left; apply objs_set_obj_src_other; congruence|exact H].
Qed.
Lemma objs_regop s o x k b : objs (regop s o x k b) = objs s. Proof. unfold regop; destruct x; reflexivity. Qed.

Lemma NT_disp_unregister s o' t o : NT s o -> NT (snd (disp_unregister s o' t)) o.
Proof.
  intros H. unfold disp_unregister. destruct (objs s o') as [ob|] eqn:Eo; [|exact H]. destruct (is_running s o'); [exact H|].
  pose proof (src_unregister_notok (en s) (o_src ob)) as U.
  destruct (src_unregister _ _) as [[ok x'] e1]. cbn [fst snd] in *.
  assert (N1 : NT (regop (set_obj_src (set_en s e1) o' x') o' x' 2%Z ok) o).
  { apply (NT_eq (set_obj_src (set_en s e1) o' x')); [left; rewrite objs_regop; reflexivity|].
    apply NT_set_obj_src; [|exact H]. intros ->. apply U. apply H. exact Eo. }
  destruct (src_lc x'); exact N1.
Qed.
Lemma NT_disp_register s o' t o : o' <> o -> NT s o -> NT (snd (disp_register s o' t)) o.
Proof.
  intros Hne H. unfold disp_register. destruct (objs s o') as [ob|]; [|exact H]. destruct (is_running s o'); [exact H|].
  destruct (src_register _ _ _) as [[r x'] e1].
  assert (N0 : NT (set_obj_src (set_en s e1) o' x') o) by (apply NT_set_obj_src; [intros; contradiction|exact H]).
  destruct r; cbn [snd]; try destruct (src_lc x'); (eapply NT_eq; [|exact N0]); left; cbn [objs set_lifecycle panic set_halted emit set_log]; rewrite ?objs_regop; reflexivity.
Qed.
Lemma NT_disp_reregister s o' t o : o' <> o -> NT s o -> NT (snd (disp_reregister s o' t)) o.
Proof.
  intros Hne H. unfold disp_reregister. destruct (objs s o') as [ob|]; [|exact H]. destruct (is_running s o'); [exact H|].
  destruct (src_reregister _ _ _) as [[r x'] e1].
  assert (N0 : NT (set_obj_src (set_en s e1) o' x') o) by (apply NT_set_obj_src; [intros; contradiction|exact H]).
  destruct r; cbn [snd]; try destruct (src_lc x'); (eapply NT_eq; [|exact N0]); left; cbn [objs set_lifecycle panic set_halted emit set_log]; rewrite ?objs_regop; reflexivity.
Qed.
Lemma objs_maybe_drop_or s o' o : objs (maybe_drop s o') o = objs s o \/ objs (maybe_drop s o') o = None.
Proof.
  unfold maybe_drop, drop_obj. destruct (objs s o') as [ob|] eqn:E; [|left; reflexivity]. destruct (o_ext ob || in_slots (slots s) o'); [left; reflexivity|].
  destruct (is_running s o'); [left; reflexivity|]. cbn. unfold fupd. destruct (N.eqb_spec o o'); [right|left]; reflexivity.
Qed.
Lemma NT_maybe_drop s o' o : NT s o -> NT (maybe_drop s o') o.
Proof. apply NT_eq. apply objs_maybe_drop_or. Qed.
Lemma NT_drop_zombies l o : forall s, NT s o -> NT (drop_zombies s l) o.
Proof. induction l as [|x r IH]; intros s H; cbn; [exact H|]. apply IH. apply NT_maybe_drop. exact H. Qed.
Lemma NT_end_processing s o' o : NT s o -> NT (end_processing s o') o.
Proof. intros H. unfold end_processing. apply NT_drop_zombies. apply NT_maybe_drop. apply (NT_eq s); [left; reflexivity|exact H]. Qed.

(* ---------- actions ---------- *)
Definition no_reg (o : N) (a : action) : Prop :=
  match a with AInsert h _ => h <> o | AEnable h => h <> o | AUpdate h => h <> o | _ => True end.

Lemma NT_do_insert s h x o : h <> o -> NT s o -> NT (do_insert s h x) o.
Proof.
  intros Hne H. unfold do_insert. destruct (objs s h) eqn:Eh; [exact H|].
  set (s0 := set_objs s _).
  assert (N0 : NT s0 o) by (apply (NT_eq s); [left; unfold s0; cbn; unfold fupd; destruct (N.eqb_spec o h); [congruence|reflexivity]|exact H]).
  destruct (vacant_entry (slots s0)) as [[i sl]|]; [|exact N0].
  destruct (nth_error sl i) as [e|]; [|exact N0].
  set (s1 := set_slots s0 _). assert (N1 : NT s1 o) by exact N0.
  pose proof (NT_disp_register s1 h (s_tok e) o Hne N1) as F. destruct (disp_register s1 h (s_tok e)) as [r s2]. cbn [snd] in F.
  destruct (halted s2); [exact F|]. destruct r; exact F.
Qed.
Lemma NT_do_remove s h o : NT s o -> NT (do_remove s h) o.
Proof.
  intros H. unfold do_remove. destruct (lookup s h) as [[[t et] o']|]; [|exact H].
  set (s1 := set_slots s _). assert (N1 : NT s1 o) by exact H.
  pose proof (NT_disp_unregister s1 o' t o N1) as F. destruct (disp_unregister s1 o' t) as [[r d] s2]. cbn [snd] in F.
  apply (NT_eq (maybe_drop s2 o')); [left; reflexivity|]. apply NT_maybe_drop. exact F.
Qed.
Lemma NT_exec_action s a o : HOBJ s -> no_reg o a -> NT s o -> NT (exec_action s a) o.
Proof.
  intros HO Hn H. unfold exec_action. destruct (halted s); [exact H|].
  destruct a; cbn [no_reg] in Hn; try exact H.
  - apply NT_do_insert; assumption.
  - apply NT_do_remove; assumption.
  - unfold do_disable. destruct (lookup s h) as [[[t et] o']|]; [|exact H].
    pose proof (NT_disp_unregister s o' t o H) as F. destruct (disp_unregister s o' t) as [[r d] s1]. cbn [snd] in F.
    destruct r; [destruct d|..]; exact F.
  - unfold do_enable. destruct (lookup s h) as [[[t et] o']|] eqn:L; [|exact H].
    pose proof (HOBJ_lookup s h t et o' HO L) as ->.
    pose proof (NT_disp_register s h et o Hn H) as F. destruct (disp_register s h et) as [r s1]. cbn [snd] in F.
    destruct (halted s1); exact F.
  - unfold do_update. destruct (lookup s h) as [[[t et] o']|] eqn:L; [|exact H].
    pose proof (HOBJ_lookup s h t et o' HO L) as ->.
    pose proof (NT_disp_reregister s h et o Hn H) as F. destruct (disp_reregister s h et) as [[r d] s1]. cbn [snd] in F.
    destruct (halted s1); [exact F|]. destruct r; [destruct d|..]; exact F.
  - unfold do_setint. destruct (objs s h) as [ob|] eqn:Eh; [|exact H]. destruct (negb (o_ext ob)); [exact H|].
    destruct (is_running s h); [exact H|]. destruct (o_src ob) as [lc own subs tmr|g|tm|c g] eqn:Es; try exact H.
    apply (NT_eq (set_obj_src s h (SComp lc own (set_nth_gen subs j it m) tmr))); [left; reflexivity|].
    apply NT_set_obj_src; [|exact H]. intros ->. specialize (H ob Eh). rewrite Es in H. cbn in *. rewrite set_nth_gen_notok. exact H.
  - unfold do_setdl. destruct (objs s h) as [ob|] eqn:Eh; [|exact H]. destruct (negb (o_ext ob)); [exact H|].
    destruct (is_running s h); [exact H|]. destruct (o_src ob) as [lc own subs [tm|]|g|tm|c g] eqn:Es; try exact H.
    + apply (NT_eq (set_obj_src s h (SComp lc own subs (Some (mkTimer (tm_reg tm) (Some dl) (tm_en tm)))))); [left; reflexivity|].
      apply NT_set_obj_src; [|exact H]. intros ->. specialize (H ob Eh). rewrite Es in H. exact H.
    + apply (NT_eq (set_obj_src s h (STimer (mkTimer (tm_reg tm) (Some dl) (tm_en tm))))); [left; reflexivity|].
      apply NT_set_obj_src; [|exact H]. intros ->. specialize (H ob Eh). rewrite Es in H. exact H.
  - unfold do_intoinner. destruct (objs s h) as [ob|] eqn:Eh; [|exact H]. destruct (negb (o_ext ob)); [exact H|].
    destruct (in_slots (slots s) h || is_running s h); [exact H|].
    eapply NT_eq; [|exact H]. cbn. unfold fupd. destruct (N.eqb_spec o h); [right|left]; reflexivity.
  - unfold do_dropdisp. destruct (objs s h) as [ob|] eqn:Eh; [|exact H]. destruct (negb (o_ext ob)); [exact H|].
    apply (NT_eq (maybe_drop (set_objs s (fupd (objs s) h (Some (mkObj (o_src ob) false)))) h)); [left; reflexivity|]. apply NT_maybe_drop.
    intros ob' Ho. cbn in Ho. unfold fupd in Ho. destruct (N.eqb_spec o h) as [->|]; [|apply H; exact Ho].
    injection Ho as <-. cbn. apply H. exact Eh.
  - unfold do_send. destruct (env_send _ _ _) as [e' [rc|]]; exact H.
  - unfold do_send. destruct (env_send _ _ _) as [e' [rc|]]; exact H.
  - unfold do_cancelidle. destruct (match ridle s with Some r => r =? i | None => false end); exact H.
Qed.

(* ---------- a token-less object ignores every event: nothing but the environment (a channel's self-ping) changes ---------- *)
Lemma find_sub_notok subs t : forall j, forallb gen_notok subs = true -> find_sub subs t j = None.
Proof.
  induction subs as [|g r IH]; intros j H; cbn in *; [reflexivity|]. apply andb_prop in H. destruct H as [Hg Hr].
  unfold gen_notok in Hg. destruct (g_tok g); [discriminate|]. cbn. apply IH. exact Hr.
Qed.
Lemma obj_process_notok scr s o ob ev : objs s o = Some ob -> src_notok (o_src ob) = true ->
  let r := obj_process scr s o ev in
  snd r = Some Continue /\ slots (fst r) = slots s /\ toks (fst r) = toks s /\ objs (fst r) = objs s /\ cbn (fst r) = cbn s /\
  pending (fst r) = pending s /\ halted (fst r) = halted s /\ lifecycle (fst r) = lifecycle s /\ running (fst r) = running s /\
  zombies (fst r) = zombies s.
Proof.
  intros Ho Hn. cbv zeta. unfold obj_process. rewrite Ho. destruct (o_src ob) as [lc own subs tmr|g|tm|c g]; cbn in Hn.
  - apply andb_prop in Hn. destruct Hn as [Hn Ht]. apply andb_prop in Hn. destruct Hn as [Hown Hs].
    destruct own; [discriminate|]. cbn [opt_tok_is]. rewrite (find_sub_notok subs _ 1%nat Hs).
    destruct tmr as [tm|]; [|repeat split]. unfold timer_sub_fire, tm_notok in *. destruct (tm_reg tm); [discriminate|]. repeat split.
  - unfold ping_drain, gen_notok in *. destruct (g_tok g); [discriminate|]. cbn. repeat split.
  - unfold tm_notok in Hn. destruct (tm_reg tm); [discriminate|]. repeat split.
  - unfold ping_drain, gen_notok in *. destruct (g_tok g); [discriminate|]. cbn. repeat split.
Qed.

(* ---------- the invariant ---------- *)
Definition J (s : st) (o : N) (c : nat) : Prop := slots_wf (slots s) /\ HOBJ s /\ NT s o /\ cbn s o = c.

Lemma J_of s s' o c : TKS s s' -> gens_small (slots s') -> J s o c -> NT s' o -> cbn s' o = c -> J s' o c.
Proof.
  intros T G (W & HO & _ & _) N C. split; [apply (proj1 (proj1 T)); exact W|]. split; [eapply HOBJ_TKS; eassumption|]. split; assumption.
Qed.
Lemma J_frame s s' o c : slots s' = slots s -> toks s' = toks s -> (objs s' o = objs s o \/ objs s' o = None) -> cbn s' o = cbn s o -> J s o c -> J s' o c.
Proof.
  intros E1 E2 E3 E4 (W & HO & N & C). split; [rewrite E1; exact W|]. split; [intros h t Ht; rewrite E1; apply HO; rewrite <- E2; exact Ht|].
  split; [eapply NT_eq; eassumption|congruence].
Qed.

Lemma J_exec_action s a o c : J s o c -> no_reg o a -> gens_small (slots (exec_action s a)) -> J (exec_action s a) o c.
Proof.
  intros Js Hn G. apply (J_of s); [apply TKS_exec_action|exact G|exact Js| |].
  - destruct Js as (_ & HO & N & _). apply NT_exec_action; assumption.
  - rewrite cbc_exec_action. apply Js.
Qed.
Lemma J_exec_actions l o c : forall s, J s o c -> Forall (no_reg o) l -> gens_small (slots (exec_actions s l)) -> J (exec_actions s l) o c.
Proof.
  unfold exec_actions. induction l as [|a l IH]; intros s Js F G; cbn [fold_left] in *; [exact Js|].
  inversion F as [|? ? Fa Fl]; subst. apply IH; [|exact Fl|exact G]. apply J_exec_action; [exact Js|exact Fa|].
  eapply gens_small_mono; [apply (proj2 (exec_actions_sstep l (exec_action s a)))|exact G].
Qed.

(* scripts that never name o in insert / enable / update *)
Definition scr_ok (o : N) (scr : scripts) : Prop := forall k sc, In sc (scr k) -> Forall (no_reg o) (sc_acts sc).
Lemma scr_ok_nth o scr k n : scr_ok o scr -> Forall (no_reg o) (sc_acts (nth n (scr k) default_script)).
Proof. intros H. destruct (nth_in_or_default n (scr k) default_script) as [Hi|E]; [apply (H k); exact Hi|rewrite E; constructor]. Qed.

Lemma J_callback scr s h sub p o c : h <> o -> scr_ok o scr -> J s o c -> gens_small (slots (fst (callback scr s h sub p))) ->
  J (fst (callback scr s h sub p)) o c.
Proof.
  intros Hne Hs Js G. unfold callback in *. cbn [fst] in *. apply J_exec_actions; [|apply scr_ok_nth; exact Hs|exact G].
  apply (J_frame s); try reflexivity; [left; reflexivity| |exact Js].
  cbn. unfold fupd. destruct (N.eqb_spec o h); [congruence|reflexivity].
Qed.
Lemma J_chan_loop scr fuel o c0 : forall s h c, h <> o -> scr_ok o scr -> J s o c0 -> gens_small (slots (fst (fst (chan_loop scr fuel s h c)))) ->
  J (fst (fst (chan_loop scr fuel s h c))) o c0.
Proof.
  induction fuel as [|f IH]; intros s h c Hne Hs Js G; cbn [chan_loop] in *; [exact Js|].
  destruct (halted s); [exact Js|]. destruct (chans (en s) c) as [ch|]; [|exact Js].
  destruct (ch_q ch) as [|v q'].
  - destruct (ch_senders ch =? 0); [|exact Js].
    pose proof (J_callback scr s h 1%Z 0%Z o c0 Hne Hs Js) as C. destruct (callback scr s h 1%Z 0%Z) as [s2 sc]. cbn [fst] in *. apply C. exact G.
  - match goal with |- context [callback scr ?x h 0%Z v] => set (s1 := x) in * end.
    assert (J1 : J s1 o c0) by (apply (J_frame s); try reflexivity; [left; reflexivity|exact Js]).
    pose proof (J_callback scr s1 h 0%Z v o c0 Hne Hs J1) as C. pose proof (chan_loop_sstep scr f) as SS.
    destruct (callback scr s1 h 0%Z v) as [s2 sc]. cbn [fst] in *.
    apply IH; [exact Hne|exact Hs| |exact G]. apply C. eapply gens_small_mono; [apply (proj2 (SS s2 h c))|exact G].
Qed.

Lemma J_set_obj_src_other s o' x o c : o' <> o -> J s o c -> J (set_obj_src s o' x) o c.
Proof.
  intros Hne Js. apply (J_frame s); [apply slots_set_obj_src|apply toks_set_obj_src|left; apply objs_set_obj_src_other; congruence|rewrite cbc_set_obj_src; reflexivity|exact Js].
Qed.

Lemma J_obj_process scr s o' ev o c : o' <> o -> scr_ok o scr -> J s o c -> gens_small (slots (fst (obj_process scr s o' ev))) ->
  J (fst (obj_process scr s o' ev)) o c.
Proof.
  intros Hne Hs Js. unfold obj_process. destruct (objs s o') as [ob|]; [|intros _; exact Js].
  destruct (o_src ob) as [lc own subs tmr|g|tm|c0 g].
  - destruct (if opt_tok_is own _ then _ else _) as [j|].
    + pose proof (J_callback scr s o' j (zN (rd_code (ev_rd ev))) o c Hne Hs Js) as C. destruct (callback scr s o' j _) as [s1 sc]. exact C.
    + destruct tmr as [tm|]; [|intros _; exact Js]. cbn [fst]. unfold timer_sub_fire.
      destruct (tm_reg tm) as [[tk c1]|]; [|intros _; exact Js]. destruct (tm_dl tm) as [dl|]; [|intros _; exact Js].
      destruct (tok_eqb tk _); [|intros _; exact Js].
      pose proof (J_callback scr s o' (Z.of_nat (S (length subs))) dl o c Hne Hs Js) as C. destruct (callback scr s o' _ dl) as [s1 sc]. cbn [fst] in C.
      destruct (sc_ret sc) as [|[[| |]|[| |]|]]; cbn [fst]; rewrite ?slots_set_obj_src; intros G;
        try (apply C; exact G); apply J_set_obj_src_other; try exact Hne;
        try (apply C; exact G); (apply (J_frame s1); try reflexivity; [left; reflexivity|apply C; exact G]).
  - pose proof (ping_drain_slots s g (unpack (ev_key ev))) as P. pose proof (ping_drain_toks s g (unpack (ev_key ev))) as PT.
    assert (PO : objs (fst (fst (ping_drain s g (unpack (ev_key ev))))) = objs s /\ cbn (fst (fst (ping_drain s g (unpack (ev_key ev))))) = cbn s).
    { unfold ping_drain. destruct (opt_tok_is (g_tok g) _); [|split; reflexivity]. destruct (fd_read (en s) (g_fd g)) as [e1 v]. destruct (v =? 0); split; reflexivity. }
    destruct (ping_drain s g _) as [[s1 r] pinged]. cbn [fst] in *. destruct PO as [PO PC].
    assert (J1 : J s1 o c) by (apply (J_frame s); [exact P|exact PT|left; rewrite PO; reflexivity|rewrite PC; reflexivity|exact Js]).
    destruct pinged; cbn [fst]; [|intros _; exact J1]. apply J_callback; assumption.
  - destruct (tm_reg tm) as [[tk c1]|]; [|intros _; exact Js]. destruct (tm_dl tm) as [dl|]; [|intros _; exact Js].
    destruct (tok_eqb tk _); [|intros _; exact Js].
    pose proof (J_callback scr s o' 0%Z dl o c Hne Hs Js) as C. destruct (callback scr s o' 0%Z dl) as [s1 sc]. cbn [fst] in C.
    destruct (sc_ret sc) as [|[[| |]|[| |]|]]; cbn [fst]; rewrite ?slots_set_obj_src; intros G;
      try (apply C; exact G); apply J_set_obj_src_other; try exact Hne;
      try (apply C; exact G); (apply (J_frame s1); try reflexivity; [left; reflexivity|apply C; exact G]).
  - pose proof (ping_drain_slots s g (unpack (ev_key ev))) as P. pose proof (ping_drain_toks s g (unpack (ev_key ev))) as PT.
    assert (PO : objs (fst (fst (ping_drain s g (unpack (ev_key ev))))) = objs s /\ cbn (fst (fst (ping_drain s g (unpack (ev_key ev))))) = cbn s).
    { unfold ping_drain. destruct (opt_tok_is (g_tok g) _); [|split; reflexivity]. destruct (fd_read (en s) (g_fd g)) as [e1 v]. destruct (v =? 0); split; reflexivity. }
    destruct (ping_drain s g _) as [[s1 r] pinged]. cbn [fst] in *. destruct PO as [PO PC].
    assert (J1 : J s1 o c) by (apply (J_frame s); [exact P|exact PT|left; rewrite PO; reflexivity|rewrite PC; reflexivity|exact Js]).
    destruct r as [act|]; cbn [fst]; [|intros _; exact J1].
    destruct pinged.
    + pose proof (J_chan_loop scr (chan_max (en s) c0) o c s1 o' c0 Hne Hs J1) as L. destruct (chan_loop scr _ s1 o' c0) as [[s2 clear] disc]. cbn [fst] in L.
      destruct disc; cbn [fst]; [exact L|]. destruct clear; cbn [fst]; [exact L|]. intros G.
      apply (J_frame s2); try reflexivity; [left; reflexivity|apply L; exact G].
    + intros _. cbn. apply (J_frame s1); try reflexivity; [left; reflexivity|exact J1].
Qed.

Lemma J_apply_post s o' reg r o c : (o' = o -> r = Continue) -> J s o c -> gens_small (slots (snd (apply_post s o' reg r))) -> J (snd (apply_post s o' reg r)) o c.
Proof.
  intros Hr Js G. apply (J_of s); [apply TKS_apply_post|exact G|exact Js| |rewrite cbc_apply_post; apply Js].
  destruct Js as (_ & _ & N & _). unfold apply_post. destruct r.
  - exact N.
  - assert (Hne : o' <> o) by (intros E; specialize (Hr E); discriminate).
    pose proof (NT_disp_reregister s o' reg o Hne N) as F. destruct (disp_reregister s o' reg) as [[rs d] sx]. exact F.
  - pose proof (NT_disp_unregister s o' reg o N) as F. destruct (disp_unregister s o' reg) as [[rs d] sx]. exact F.
  - cbn [snd]. destruct (slot_get (slots s) reg); exact N.
Qed.

Lemma obj_process_NT scr s o ev : NT s o ->
  let r := obj_process scr s o ev in
  snd r = Some Continue /\ slots (fst r) = slots s /\ toks (fst r) = toks s /\ objs (fst r) = objs s /\ cbn (fst r) = cbn s /\
  pending (fst r) = pending s /\ halted (fst r) = halted s.
Proof.
  intros N. destruct (objs s o) as [ob|] eqn:Eo.
  - destruct (obj_process_notok scr s o ob ev Eo (N ob Eo)) as (A & B & C & D & E & F & G & _). cbv zeta. repeat split; assumption.
  - cbv zeta. unfold obj_process. rewrite Eo. repeat split.
Qed.
Lemma J_end_processing s o' o c : J s o c -> J (end_processing s o') o c.
Proof.
  intros (W & HO & N & C). split; [rewrite slots_end_processing; exact W|]. split.
  - intros h t Ht. rewrite slots_end_processing. apply HO. rewrite toks_end_processing in Ht. exact Ht.
  - split; [apply NT_end_processing; exact N|rewrite cbc_end_processing; exact C].
Qed.
Lemma J_disp_unregister s o' t o c : J s o c -> J (snd (disp_unregister s o' t)) o c.
Proof.
  intros (W & HO & N & C). split; [rewrite slots_disp_unregister; exact W|]. split.
  - intros h tk Ht. rewrite slots_disp_unregister. apply HO. rewrite toks_frame_disp_unregister in Ht. exact Ht.
  - split; [apply NT_disp_unregister; exact N|rewrite cbc_disp_unregister; exact C].
Qed.

Lemma J_process_event scr s ev o c : scr_ok o scr -> J s o c -> pending s = Continue ->
  gens_small (slots (fst (process_event scr s ev))) -> J (fst (process_event scr s ev)) o c.
Proof.
  intros Hs Js Hp. unfold process_event. destruct (slot_get (slots s) _) as [sl|] eqn:Esl; [|intros _; exact Js].
  destruct (s_obj sl) as [o'|] eqn:Eo'; [|intros _; exact Js].
  set (reg := forget_sub_id (unpack (ev_key ev))) in *.
  assert (Jr : J (set_running s (Some (o', reg))) o c) by (apply (J_frame s); try reflexivity; [left; reflexivity|exact Js]).
  destruct (N.eq_dec o' o) as [->|Hne].
  - (* the token-less source itself: the event is ignored, nothing is pending, it stays in its slot *)
    destruct Jr as (Wr & HOr & Nr & Cr).
    destruct (obj_process_NT scr (set_running s (Some (o, reg))) o ev Nr) as (R & S2 & T2 & O2 & C2 & P2 & H2).
    destruct (obj_process scr _ o ev) as [s2 ret]. cbn [fst snd] in *. subst ret.
    assert (J2 : J s2 o c).
    { split; [rewrite S2; exact Wr|]. split; [intros h t Ht; rewrite S2; apply HOr; rewrite <- T2; exact Ht|].
      split; [intros ob Ho; rewrite O2 in Ho; apply Nr; exact Ho|rewrite C2; exact Cr]. }
    destruct (halted s2); [intros _; exact J2|].
    change (pending (set_running s2 None)) with (pending s2). rewrite P2. change (pending (set_running s (Some (o, reg)))) with (pending s). rewrite Hp.
    cbn [apply_post]. set (s4 := set_pending (set_running s2 None) Continue).
    assert (J4 : J s4 o c) by (apply (J_frame s2); try reflexivity; [left; reflexivity|exact J2]).
    destruct (halted s4); [intros _; exact J4|].
    assert (V : slot_vacant_for s4 reg = false).
    { unfold slot_vacant_for. change (slots s4) with (slots s2). rewrite S2. change (slots (set_running s (Some (o, reg)))) with (slots s). rewrite Esl, Eo'. reflexivity. }
    rewrite V. intros _. apply J_end_processing. exact J4.
  - pose proof (J_obj_process scr (set_running s (Some (o', reg))) o' ev o c Hne Hs Jr) as P.
    pose proof (obj_process_sstep scr (set_running s (Some (o', reg))) o' ev) as SS.
    destruct (obj_process scr _ o' ev) as [s2 ret]. cbn [fst] in P, SS.
    destruct (halted s2); [exact P|].
    set (s4 := set_pending (set_running s2 None) Continue).
    set (pr := match ret with None => (false, s4) | Some r => apply_post s4 o' reg (match r with Continue => pending (set_running s2 None) | _ => r end) end).
    assert (S5 : sstep (slots s2) (slots (snd pr))).
    { unfold pr. destruct ret as [r|]; [|apply sstep_refl]. change (slots s2) with (slots s4). apply apply_post_sstep. }
    assert (A : gens_small (slots (snd pr)) -> J (snd pr) o c).
    { intros G. assert (J2 : J s2 o c) by (apply P; eapply gens_small_mono; [apply (proj2 S5)|exact G]).
      assert (J4 : J s4 o c) by (apply (J_frame s2); try reflexivity; [left; reflexivity|exact J2]).
      unfold pr in *. destruct ret as [r|]; [|exact J4]. apply J_apply_post; [intros E; contradiction|exact J4|exact G]. }
    destruct pr as [ok s5]. cbn [snd] in *.
    destruct (halted s5); [exact A|]. cbn [fst]. rewrite slots_end_processing.
    destruct (slot_vacant_for s5 reg).
    + pose proof (slots_disp_unregister s5 o' reg) as F. pose proof (J_disp_unregister s5 o' reg o c) as JD.
      destruct (disp_unregister s5 o' reg) as [[rs d] sx]. cbn [snd] in *. rewrite F. intros G. apply J_end_processing. apply JD. apply A. exact G.
    + intros G. apply J_end_processing. apply A. exact G.
Qed.

Lemma J_process_events scr evs o c : forall s, scr_ok o scr -> halted s = false -> quiet s -> J s o c ->
  gens_small (slots (fst (process_events scr s evs))) -> J (fst (process_events scr s evs)) o c.
Proof.
  induction evs as [|ev r IH]; intros s Hs Hh Qs Js; cbn [process_events]; [intros _; exact Js|].
  pose proof (J_process_event scr s ev o c Hs Js (proj2 Qs)) as P.
  pose proof (process_event_ok_not_halted scr s ev Hh) as NH. pose proof (process_event_quiet scr s ev Qs) as PQ.
  pose proof (process_events_sstep scr r) as SS.
  destruct (process_event scr s ev) as [s1 ok]. cbn [fst snd] in *.
  destruct ok; [|exact P]. intros G. specialize (NH eq_refl).
  apply IH; [exact Hs|exact NH|apply PQ; exact NH| |exact G]. apply P. eapply gens_small_mono; [apply (proj2 (SS s1))|exact G].
Qed.
Lemma J_run_idles scr l o c : forall s, scr_ok o scr -> J s o c -> gens_small (slots (run_idles scr s l)) -> J (run_idles scr s l) o c.
Proof.
  induction l as [|i l IH]; intros s Hs Js; cbn [run_idles]; [intros _; exact Js|].
  destruct (halted s); [intros _; exact Js|]. destruct (idle_cancelled s i); [apply IH; assumption|].
  match goal with |- context [exec_actions ?x ?a] => set (s1 := x); set (acts := a) end.
  assert (J1 : J s1 o c) by (apply (J_frame s); try reflexivity; [left; reflexivity|exact Js]).
  pose proof (J_exec_actions acts o c s1 J1 (scr_ok_nth o scr _ _ Hs)) as E. pose proof (run_idles_sstep scr l) as SS.
  destruct (halted (exec_actions s1 acts)); [exact E|]. intros G.
  apply IH; [exact Hs| |exact G].
  apply (J_frame (exec_actions s1 acts)); try reflexivity; [left; reflexivity|]. apply E.
  eapply gens_small_mono; [apply (proj2 (SS (set_ridle (exec_actions s1 acts) None)))|exact G].
Qed.

Lemma J_dispatch scr bscr s t order o c : scr_ok o scr -> halted s = false -> quiet s -> J s o c ->
  gens_small (slots (dispatch scr bscr s t order)) -> J (dispatch scr bscr s t order) o c.
Proof.
  intros Hs Hh Qs Js. unfold dispatch.
  pose proof (before_sleep_loop_slots bscr (lifecycle s) s) as B. pose proof (before_sleep_loop_toks bscr (lifecycle s) s) as BT.
  destruct (before_sleep_loop_rel bscr (lifecycle s) s) as [BO _]. pose proof (cbc_before_sleep_loop bscr (lifecycle s) s) as BC.
  destruct (before_sleep_loop_frame bscr (lifecycle s) s) as (BR & BP & BH).
  destruct (before_sleep_loop bscr s (lifecycle s)) as [s1 bs]. cbn [fst snd] in *.
  assert (J1 : J s1 o c) by (apply (J_frame s); [exact B|exact BT|left; rewrite BO; reflexivity|rewrite BC; reflexivity|exact Js]).
  destruct bs; [|intros _; apply (J_frame s1); try reflexivity; [left; reflexivity|exact J1]|intros _; exact J1].
  assert (H1 : halted s1 = false) by (rewrite BH; [exact Hh|discriminate]).
  assert (Q1 : quiet s1) by (destruct Qs; split; congruence).
  destruct (poll (en s1) t order) as [polled e2].
  set (s3 := emit (set_en s1 e2) _).
  assert (J3 : J s3 o c) by (apply (J_frame s1); try reflexivity; [left; reflexivity|exact J1]).
  pose proof (before_handle_loop_slots (lifecycle s3) polled s3) as H. pose proof (before_handle_loop_toks (lifecycle s3) polled s3) as HT.
  destruct (before_handle_loop_rel (lifecycle s3) polled s3) as [HO _]. pose proof (cbc_before_handle_loop (lifecycle s3) polled s3) as HC.
  destruct (before_handle_loop_frame (lifecycle s3) polled s3) as (HR & HP & HH).
  destruct (before_handle_loop s3 _ polled) as [s4 ok]. cbn [fst snd] in *.
  assert (J4 : J s4 o c) by (apply (J_frame s3); [exact H|exact HT|left; rewrite HO; reflexivity|rewrite HC; reflexivity|exact J3]).
  destruct ok; cbn [negb]; [|intros _; exact J4].
  assert (H4 : halted s4 = false) by (rewrite HH; [exact H1|reflexivity]).
  assert (Q4 : quiet (set_synth s4 [])) by (destruct Q1 as [Qa Qb]; split; cbn; [rewrite HR; exact Qa|rewrite HP; exact Qb]).
  assert (J4' : J (set_synth s4 []) o c) by (apply (J_frame s4); try reflexivity; [left; reflexivity|exact J4]).
  pose proof (J_process_events scr (synth s4 ++ polled) o c (set_synth s4 []) Hs H4 Q4 J4') as P.
  pose proof (run_idles_sstep scr) as SI.
  destruct (process_events scr _ _) as [s5 ok2]. cbn [fst] in P.
  destruct (halted s5); [exact P|]. destruct ok2; cbn [negb].
  2:{ intros G. apply (J_frame s5); try reflexivity; [left; reflexivity|apply P; exact G]. }
  assert (E : forall X, gens_small (slots X) -> slots X = slots (run_idles scr (set_idles s5 []) (idles s5)) -> J (run_idles scr (set_idles s5 []) (idles s5)) o c).
  { intros X G EX. rewrite EX in G. apply J_run_idles; [exact Hs| |exact G].
    apply (J_frame s5); try reflexivity; [left; reflexivity|]. apply P.
    eapply gens_small_mono; [apply (proj2 (SI (idles s5) (set_idles s5 [])))|exact G]. }
  destruct (halted (run_idles scr _ _)).
  - intros G. apply (E _ G). reflexivity.
  - intros G. apply (J_frame (run_idles scr (set_idles s5 []) (idles s5))); try reflexivity; [left; reflexivity|]. apply (E _ G). reflexivity.
Qed.

Definition cmd_ok (o : N) (c : cmd) : Prop := match c with CAct a => no_reg o a | _ => True end.
Definition JT (s : st) (o : N) (c : nat) : Prop := J s o c /\ (halted s = true \/ quiet s).

Lemma objs_emits l : forall s, objs (emits s l) = objs s.
Proof. unfold emits. induction l as [|x l IH]; intros s; cbn; [reflexivity|]. rewrite IH. reflexivity. Qed.
Lemma cbn_emits l : forall s, cbn (emits s l) = cbn s.
Proof. unfold emits. induction l as [|x l IH]; intros s; cbn; [reflexivity|]. rewrite IH. reflexivity. Qed.

Lemma JT_exec_cmd scr bscr s cm o c : scr_ok o scr -> cmd_ok o cm -> JT s o c -> gens_small (slots (exec_cmd scr bscr s cm)) -> JT (exec_cmd scr bscr s cm) o c.
Proof.
  intros Hs Hc [Js Hq] G.
  assert (Q2 : halted (exec_cmd scr bscr s cm) = true \/ quiet (exec_cmd scr bscr s cm)).
  { destruct (halted (exec_cmd scr bscr s cm)) eqn:E; [left; reflexivity|right].
    destruct Hq as [Hh|Qs]; [unfold exec_cmd in E; rewrite Hh in E; congruence|apply exec_cmd_quiet; assumption]. }
  split; [|exact Q2]. clear Q2. unfold exec_cmd in *. destruct (halted s) eqn:Hh; [exact Js|].
  destruct Hq as [X|Qs]; [discriminate|].
  assert (J1 : J (emit s (L T_CMD [])) o c) by (apply (J_frame s); try reflexivity; [left; reflexivity|exact Js]).
  destruct cm.
  - apply J_exec_action; assumption.
  - apply J_dispatch; try assumption.
  - apply (J_frame (emit s (L T_CMD []))); [apply emits_slots|apply emits_toks|left; rewrite objs_emits; reflexivity|rewrite cbn_emits; reflexivity|exact J1].
  - apply (J_frame (emit s (L T_CMD []))); [apply emits_slots|apply emits_toks|left; rewrite objs_emits; reflexivity|rewrite cbn_emits; reflexivity|exact J1].
Qed.
Lemma JT_exec_cmds scr bscr cmds o c : forall s, scr_ok o scr -> Forall (cmd_ok o) cmds -> JT s o c ->
  gens_small (slots (fold_left (exec_cmd scr bscr) cmds s)) -> JT (fold_left (exec_cmd scr bscr) cmds s) o c.
Proof.
  induction cmds as [|cm r IH]; intros s Hs F Js G; cbn [fold_left] in *; [exact Js|].
  inversion F as [|? ? Fc Fr]; subst. apply IH; [exact Hs|exact Fr| |exact G].
  apply JT_exec_cmd; [exact Hs|exact Fc|exact Js|]. eapply gens_small_mono; [apply (proj2 (exec_cmds_sstep scr bscr r (exec_cmd scr bscr s cm)))|exact G].
Qed.

(* ================= the statements ================= *)
(* from any state with consistent handles in which o holds no token: whatever commands follow - with callbacks scripted by any
   scr2 - as long as none of them names handle o in insert / enable / update, o still holds no token and has run no callback *)
Theorem silent_until_named scr2 bscr2 cmds2 s o :
  slots_wf (slots s) -> HOBJ s -> (halted s = true \/ quiet s) -> NT s o ->
  scr_ok o scr2 -> Forall (cmd_ok o) cmds2 ->
  let s' := fold_left (exec_cmd scr2 bscr2) cmds2 s in
  gens_small (slots s') -> NT s' o /\ cbn s' o = cbn s o.
Proof.
  intros W HO Hq N Hs F. cbv zeta. intros G.
  destruct (JT_exec_cmds scr2 bscr2 cmds2 o (cbn s o) s Hs F) as [(_ & _ & N' & C') _]; [|exact G|split; assumption].
  split; [|exact Hq]. split; [exact W|]. split; [exact HO|]. split; [exact N|reflexivity].
Qed.
(* ... in particular from every state a scenario reaches *)
Theorem silent_until_named_run scr1 bscr1 cmds1 scr2 bscr2 cmds2 o :
  let s := run scr1 bscr1 cmds1 in let s' := fold_left (exec_cmd scr2 bscr2) cmds2 s in
  gens_small (slots s') -> NT s o -> scr_ok o scr2 -> Forall (cmd_ok o) cmds2 ->
  NT s' o /\ cbn s' o = cbn s o.
Proof.
  cbv zeta. intros G N Hs F.
  assert (G1 : gens_small (slots (run scr1 bscr1 cmds1))) by (eapply gens_small_mono; [apply (proj2 (exec_cmds_sstep scr2 bscr2 cmds2 _))|exact G]).
  apply silent_until_named; try assumption.
  - apply run_slots_wf.
  - apply HOBJ_run. exact G1.
  - destruct (halted (run scr1 bscr1 cmds1)) eqn:E; [left; reflexivity|right; apply run_quiet; exact E].
Qed.
