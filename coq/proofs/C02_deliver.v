(* C02: nothing that the poller or the wheel reports is dropped on the way to its source, and an event a source holds the token of
   does invoke that source's callback *)
From Coq Require Import Permutation.
From CV Require Import Base Consts Token PostAction Env Loop.
From CVP Require Import Loop_frames Seq_lemmas Env_lemmas C05_perm C01_attr.
Import ListNotations.
Open Scope N_scope.

Lemma take_key_perm k l : forall e l', take_key k l = Some (e, l') -> Permutation l (e :: l') /\ ev_key e = k.
Proof.
  induction l as [|x r IH]; intros e l' H; cbn in H; [discriminate|].
  destruct (N.eqb_spec (ev_key x) k) as [E|_]; [injection H as <- <-; split; [apply Permutation_refl|exact E]|].
  destruct (take_key k r) as [[y r']|] eqn:T; [|discriminate]. injection H as <- <-. destruct (IH y r' eq_refl) as [P K].
  split; [|exact K]. eapply Permutation_trans; [apply perm_skip; exact P|apply perm_swap].
Qed.
(* the batch order is the implementation's, but whatever order is asked for nothing is lost or duplicated *)
Lemma reorder_perm order : forall l, Permutation (reorder order l) l.
Proof.
  induction order as [|k r IH]; intros l; cbn; [apply Permutation_refl|].
  destruct (take_key k l) as [[e l']|] eqn:T; [|apply IH].
  destruct (take_key_perm k l e l' T) as [P _]. eapply Permutation_trans; [apply perm_skip; apply IH|symmetry; exact P].
Qed.

(* what one poll hands to the loop: every level-triggered entry that is ready for its interest, and every due timer *)
Theorem poll_reports_level e t order ent : In ent (epoll e) -> e_mode ent = Level ->
  rd_nonempty (ready_for (e_int ent) (fdc e (e_fd ent))) = true ->
  In (mkEv (e_key ent) (ready_for (e_int ent) (fdc e (e_fd ent)))) (fst (poll e t order)).
Proof.
  intros Hi Hm Hr. unfold poll. pose proof (ep_wait_level (fdc e) (epoll e) ent Hi Hm Hr) as W.
  destruct (ep_wait (fdc e) (epoll e)) as [fdev tbl]. cbn [fst] in W. destruct (wh_expire _ _ _) as [ex rest]. cbn [fst].
  eapply Permutation_in; [symmetry; apply reorder_perm|]. apply in_or_app. left. exact W.
Qed.
Theorem poll_reports_due_timer e t order w : In w (wh_heap (whl e)) -> (w_dl w <= 2 * t + 1)%Z ->
  In (mkEv (pack (w_tok w)) (mkRd true false)) (fst (poll e t order)).
Proof.
  intros Hi Hd. unfold poll. destruct (ep_wait (fdc e) (epoll e)) as [fdev tbl].
  destruct (wh_expire (length (wh_heap (whl e))) (wh_heap (whl e)) (2 * t + 1)%Z) as [ex rest] eqn:E. cbn [fst].
  eapply Permutation_in; [symmetry; apply reorder_perm|]. apply in_or_app. right. apply in_map_iff. exists w. split; [reflexivity|].
  pose proof (wh_expire_perm _ _ _ _ _ E) as P. destruct (wh_expire_spec _ _ _ _ _ E) as (_ & _ & _ & _ & F).
  pose proof (Permutation_in _ P Hi) as Hin. apply in_app_or in Hin. destruct Hin as [H|H]; [exact H|].
  specialize (F (le_n _)). rewrite Forall_forall in F. specialize (F w H). lia.
Qed.

(* a batch that is processed without an error is processed event by event, in order *)
Lemma process_events_app scr a : forall s b,
  process_events scr s (a ++ b) = let (s1, ok) := process_events scr s a in if ok then process_events scr s1 b else (s1, false).
Proof.
  induction a as [|ev r IH]; intros s b; cbn [app process_events]; [reflexivity|].
  destruct (process_event scr s ev) as [s1 ok]. destruct ok; [apply IH|reflexivity].
Qed.
Theorem ok_batch_processes_every_event scr s a ev b : snd (process_events scr s (a ++ ev :: b)) = true ->
  exists s1, process_events scr s a = (s1, true) /\ snd (process_event scr s1 ev) = true /\
             process_events scr s (a ++ ev :: b) = process_events scr (fst (process_event scr s1 ev)) b.
Proof.
  rewrite process_events_app. destruct (process_events scr s a) as [s1 ok]. destruct ok; [|discriminate]. cbn [process_events].
  destruct (process_event scr s1 ev) as [s2 ok2] eqn:E. destruct ok2; [|discriminate]. intros _. exists s1.
  rewrite E. split; [reflexivity|]. split; reflexivity.
Qed.

(* the callback counter of a source goes up by exactly one when an event it holds the token of is handed to it *)
Lemma cbn_callback scr s h sub p : cbc (fst (callback scr s h sub p)) h = S (cbc s h).
Proof. unfold callback. cbn [fst]. rewrite cbc_exec_actions. cbn. unfold fupd. rewrite N.eqb_refl. reflexivity. Qed.
Theorem composite_event_invokes_callback scr s o ob ev lc own subs tmr :
  objs s o = Some ob -> o_src ob = SComp lc own subs tmr ->
  (opt_tok_is own (unpack (ev_key ev)) = true \/ find_sub subs (unpack (ev_key ev)) 1 <> None) ->
  cbc (fst (obj_process scr s o ev)) o = S (cbc s o).
Proof.
  intros Ho Hs Hc. unfold obj_process. rewrite Ho, Hs.
  assert (X : exists j, (if opt_tok_is own (unpack (ev_key ev)) then Some 0%Z else match find_sub subs (unpack (ev_key ev)) 1 with Some j => Some (Z.of_nat j) | None => None end) = Some j).
  { destruct (opt_tok_is own _); [eexists; reflexivity|]. destruct Hc as [X|X]; [discriminate|]. destruct (find_sub subs _ 1); [eexists; reflexivity|contradiction]. }
  destruct X as [j ->]. pose proof (cbn_callback scr s o j (zN (rd_code (ev_rd ev)))) as C. destruct (callback scr s o j _) as [s1 sc]. exact C.
Qed.
Theorem timer_event_invokes_callback scr s o ob ev tm tk c dl :
  objs s o = Some ob -> o_src ob = STimer tm -> tm_reg tm = Some (tk, c) -> tm_dl tm = Some dl -> tok_eqb tk (unpack (ev_key ev)) = true ->
  cbc (fst (obj_process scr s o ev)) o = S (cbc s o).
Proof.
  intros Ho Hs Hr Hd Ht. unfold obj_process. rewrite Ho, Hs, Hr, Hd, Ht.
  pose proof (cbn_callback scr s o 0%Z dl) as C. destruct (callback scr s o 0%Z dl) as [s1 sc]. cbn [fst] in C.
  destruct (sc_ret sc) as [|[[| |]|[| |]|]]; cbn [fst]; rewrite ?cbc_set_obj_src; exact C.
Qed.
Theorem ping_event_invokes_callback scr s o ob ev g :
  objs s o = Some ob -> o_src ob = SPing g -> opt_tok_is (g_tok g) (unpack (ev_key ev)) = true -> 2 <= fdc (en s) (g_fd g) ->
  cbc (fst (obj_process scr s o ev)) o = S (cbc s o).
Proof.
  intros Ho Hs Ht Hc. unfold obj_process. rewrite Ho, Hs. unfold ping_drain. rewrite Ht. unfold fd_read.
  destruct (N.eqb_spec (fdc (en s) (g_fd g)) 0) as [E|_]; [lia|]. cbn [fst snd].
  destruct (N.eqb_spec (fdc (en s) (g_fd g)) 0) as [E|_]; [lia|].
  destruct (N.leb_spec 2 (fdc (en s) (g_fd g))) as [_|L]; [|lia]. cbn [fst]. rewrite cbn_callback. reflexivity.
Qed.
(* ... and the rest of process_event (post action, deferred unregistration, end of processing) does not touch the counter *)
Theorem process_event_keeps_count_of_obj_process scr s ev sl o :
  slot_get (slots s) (forget_sub_id (unpack (ev_key ev))) = Some sl -> s_obj sl = Some o ->
  cbc (fst (process_event scr s ev)) = cbc (fst (obj_process scr (set_running s (Some (o, forget_sub_id (unpack (ev_key ev))))) o ev)).
Proof.
  intros Hsl Ho. unfold process_event. rewrite Hsl, Ho.
  destruct (obj_process scr _ o ev) as [s2 ret]. cbn [fst]. destruct (halted s2); [reflexivity|].
  set (s4 := set_pending (set_running s2 None) Continue).
  assert (A : cbc (snd (match ret with None => (false, s4) | Some r => apply_post s4 o (forget_sub_id (unpack (ev_key ev))) (match r with Continue => pending (set_running s2 None) | _ => r end) end)) = cbc s2).
  { destruct ret as [r|]; [rewrite cbc_apply_post; reflexivity|reflexivity]. }
  destruct (match ret with None => _ | Some r => _ end) as [ok s5]. cbn [snd] in A.
  destruct (halted s5); [exact A|]. cbn [fst]. rewrite cbc_end_processing.
  destruct (slot_vacant_for s5 _); [|exact A].
  match goal with |- context [disp_unregister ?a ?b ?c] => pose proof (cbc_disp_unregister a b c) as F; destruct (disp_unregister a b c) as [[rs d] sx] end.
  cbn [snd] in F. rewrite F. exact A.
Qed.
