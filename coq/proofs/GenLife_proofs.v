(* C16 at the level of Generic: after ANY history of new / set / register / reregister / unregister / unwrap / drop - including
   registrations that fail because two Generics wrap one fd - the poller's table holds exactly the fds of the registered
   Generics, each with the key, interest and mode it last (re)registered; nothing stale, nothing missing. *)
From CV Require Import Base Consts Token Env Loop GenLife.
From CVP Require Import Env_lemmas.
Import ListNotations.
Open Scope N_scope.

Lemma ep_find_fd tbl : forall fd e, ep_find tbl fd = Some e -> e_fd e = fd.
Proof. induction tbl as [|x t IH]; intros fd e H; cbn in H; [discriminate|]. destruct (N.eqb_spec (e_fd x) fd) as [E|]; [injection H as <-; exact E|apply IH; exact H]. Qed.
Lemma ep_find_replace tbl e' : forall fd', ep_find (ep_replace tbl e') fd' =
  if e_fd e' =? fd' then match ep_find tbl fd' with Some _ => Some e' | None => None end else ep_find tbl fd'.
Proof.
  induction tbl as [|x t IH]; intros fd'; cbn; [destruct (e_fd e' =? fd'); reflexivity|].
  destruct (N.eqb_spec (e_fd x) (e_fd e')) as [E|NE]; cbn.
  - destruct (N.eqb_spec (e_fd e') fd') as [E2|NE2].
    + rewrite E, E2, N.eqb_refl. reflexivity.
    + rewrite E. destruct (N.eqb_spec (e_fd e') fd'); [contradiction|reflexivity].
  - rewrite IH. destruct (N.eqb_spec (e_fd x) fd') as [E3|NE3].
    + destruct (N.eqb_spec (e_fd e') fd'); [congruence|reflexivity].
    + reflexivity.
Qed.
Lemma ep_mod_spec tbl fd it m key c tbl' : ep_mod tbl fd it m key c = Some tbl' ->
  (exists old, ep_find tbl fd = Some old) /\ (exists q, ep_find tbl' fd = Some (mkEp fd it m key q)) /\
  forall fd', fd' <> fd -> ep_find tbl' fd' = ep_find tbl fd'.
Proof.
  unfold ep_mod. destruct (ep_find tbl fd) as [old|] eqn:E; [|discriminate]. intros [= <-].
  split; [exists old; reflexivity|]. split.
  - eexists. rewrite ep_find_replace. cbn. rewrite N.eqb_refl, E. reflexivity.
  - intros fd' H. rewrite ep_find_replace. cbn. destruct (N.eqb_spec fd fd'); [congruence|reflexivity].
Qed.

Definition registered (gn : gen) : Prop := g_tok gn <> None.
Record INVG (s : gst) : Prop := {
  ig_obj : forall g gn, gl_gens s g = Some gn ->
             match g_tok gn with
             | Some t => g_poller gn = true /\ exists ent, ep_find (epoll (gl_env s)) (g_fd gn) = Some ent /\ e_key ent = pack t /\
                                                        gl_last s g = Some (e_int ent, e_mode ent, e_key ent)
             | None => g_poller gn = false /\ gl_last s g = None
             end;
  ig_tbl : forall fd ent, ep_find (epoll (gl_env s)) fd = Some ent -> exists g gn, gl_gens s g = Some gn /\ g_fd gn = fd /\ registered gn;
  ig_uniq : forall g1 g2 gn1 gn2, gl_gens s g1 = Some gn1 -> gl_gens s g2 = Some gn2 -> registered gn1 -> registered gn2 ->
             g_fd gn1 = g_fd gn2 -> g1 = g2;
  ig_none : forall g, gl_gens s g = None -> gl_last s g = None }.

Lemma INVG_init : INVG gl_init.
Proof. split; intros; try discriminate; reflexivity. Qed.

Ltac fupd_cases g g' := unfold fupd in *; let E := fresh "E" in destruct (N.eqb_spec g' g) as [E|n]; [subst g'|].

Lemma INVG_step s o : INVG s -> INVG (fst (gl_step s o)).
Proof.
  intros [A B C D]. destruct o as [g fd it m|g it m|g k|g k|g|g|g]; cbn [gl_step].
  - (* new *) destruct (gl_gens s g) as [gn0|] eqn:Eg; [split; assumption|]. cbn [fst]. split; cbn [gl_env gl_gens gl_last].
    + intros g' gn H. fupd_cases g g'; [injection H as <-; cbn; split; [reflexivity|apply D; exact Eg]|apply A; exact H].
    + intros fd' ent H. destruct (B fd' ent H) as (g1 & gn1 & H1 & H2 & H3). exists g1, gn1. split; [|split; assumption].
      fupd_cases g g1; [congruence|exact H1].
    + intros g1 g2 gn1 gn2 H1 H2 R1 R2 E. unfold fupd in H1, H2.
      destruct (N.eqb_spec g1 g) as [->|]; [injection H1 as <-; exfalso; apply R1; reflexivity|].
      destruct (N.eqb_spec g2 g) as [->|]; [injection H2 as <-; exfalso; apply R2; reflexivity|]. eapply C; eassumption.
    + intros g' H. fupd_cases g g'; [discriminate|apply D; exact H].
  - (* set *) destruct (gl_gens s g) as [gn0|] eqn:Eg; [|split; assumption]. cbn [fst]. split; cbn [gl_env gl_gens gl_last].
    + intros g' gn H. fupd_cases g g'; [injection H as <-; cbn; apply (A g gn0 Eg)|apply A; exact H].
    + intros fd' ent H. destruct (B fd' ent H) as (g1 & gn1 & H1 & H2 & H3).
      destruct (N.eq_dec g1 g) as [->|Hne].
      * exists g, (mkGen (g_fd gn0) it m (g_tok gn0) (g_poller gn0)). rewrite Eg in H1. injection H1 as <-.
        split; [unfold fupd; rewrite N.eqb_refl; reflexivity|split; [exact H2|exact H3]].
      * exists g1, gn1. split; [unfold fupd; destruct (N.eqb_spec g1 g); [contradiction|exact H1]|split; assumption].
    + intros g1 g2 gn1 gn2 H1 H2 R1 R2 E. unfold fupd in H1, H2.
      destruct (N.eqb_spec g1 g) as [->|N1]; destruct (N.eqb_spec g2 g) as [->|N2]; try reflexivity.
      * injection H1 as <-. cbn in *. eapply (C g g2 gn0 gn2); eassumption.
      * injection H2 as <-. cbn in *. eapply (C g1 g gn1 gn0); eassumption.
      * eapply C; eassumption.
    + intros g' H. fupd_cases g g'; [discriminate|apply D; exact H].
  - (* register *) destruct (gl_gens s g) as [gn0|] eqn:Eg; [|split; assumption].
    unfold gen_register. pose proof (ep_add_spec (epoll (gl_env s)) (g_fd gn0) (g_int gn0) (g_mode gn0) (pack (mkTok 0 0 k)) (fdc (gl_env s) (g_fd gn0))) as S.
    destruct (ep_add _ _ _ _ _ _) as [tbl|]; cbn [fst]; [|split; assumption].
    destruct S as (Hnone & [q Hq] & Hoth). split; cbn [gl_env gl_gens gl_last epoll set_epoll].
    + intros g' gn H. fupd_cases g g'.
      * injection H as <-. cbn. split; [reflexivity|]. eexists. split; [exact Hq|]. split; reflexivity.
      * specialize (A g' gn H). destruct (g_tok gn) as [t|] eqn:Et; [|exact A]. destruct A as (P & ent & F & K & L).
        split; [exact P|]. exists ent. split; [|split; assumption]. rewrite Hoth; [exact F|]. intros E. rewrite E in F. congruence.
    + intros fd' ent H. destruct (N.eq_dec fd' (g_fd gn0)) as [->|Hne].
      * exists g, (mkGen (g_fd gn0) (g_int gn0) (g_mode gn0) (Some (mkTok 0 0 k)) true). split; [unfold fupd; rewrite N.eqb_refl; reflexivity|]. split; [reflexivity|discriminate].
      * rewrite Hoth in H by exact Hne. destruct (B fd' ent H) as (g1 & gn1 & H1 & H2 & H3). exists g1, gn1.
        split; [|split; assumption]. unfold fupd. destruct (N.eqb_spec g1 g) as [->|]; [|exact H1].
        exfalso. rewrite Eg in H1. injection H1 as <-. apply Hne. symmetry. exact H2.
    + intros g1 g2 gn1 gn2 H1 H2 R1 R2 E. unfold fupd in H1, H2.
      assert (X : forall g' gn', g' <> g -> gl_gens s g' = Some gn' -> registered gn' -> g_fd gn' <> g_fd gn0).
      { intros g' gn' _ Hg' R' Ef. pose proof (A g' gn' Hg') as A1. unfold registered in R'. destruct (g_tok gn') as [t|]; [|congruence].
        destruct A1 as (_ & ent & F & _). rewrite Ef in F. congruence. }
      destruct (N.eqb_spec g1 g) as [->|N1]; destruct (N.eqb_spec g2 g) as [->|N2]; try reflexivity.
      * injection H1 as <-. cbn in E. exfalso. eapply (X g2 gn2); eauto.
      * injection H2 as <-. cbn in E. exfalso. eapply (X g1 gn1); eauto.
      * eapply C; eassumption.
    + intros g' H. fupd_cases g g'; [discriminate|apply D; exact H].
  - (* reregister *) destruct (gl_gens s g) as [gn0|] eqn:Eg; [|split; assumption].
    destruct (g_tok gn0) as [t0|] eqn:Et0; [|split; assumption].
    unfold gen_reregister. pose proof (ep_mod_spec (epoll (gl_env s)) (g_fd gn0) (g_int gn0) (g_mode gn0) (pack (mkTok 0 0 k)) (fdc (gl_env s) (g_fd gn0))) as S.
    destruct (ep_mod _ _ _ _ _ _) as [tbl|]; cbn [fst]; [|split; assumption].
    destruct (S tbl eq_refl) as ([old Hold] & [q Hq] & Hoth). clear S.
    pose proof (A g gn0 Eg) as A0. rewrite Et0 in A0. destruct A0 as (P0 & _).
    split; cbn [gl_env gl_gens gl_last epoll set_epoll].
    + intros g' gn H. fupd_cases g g'.
      * injection H as <-. cbn. split; [exact P0|]. eexists. split; [exact Hq|]. split; reflexivity.
      * pose proof (A g' gn H) as A1. destruct (g_tok gn) as [t|] eqn:Et; [|exact A1]. destruct A1 as (P & ent & F & K & L).
        split; [exact P|]. exists ent. split; [|split; assumption]. rewrite Hoth; [exact F|].
        intros E. apply n. eapply (C g' g gn gn0); try eassumption; unfold registered; congruence.
    + intros fd' ent H. destruct (N.eq_dec fd' (g_fd gn0)) as [->|Hne].
      * exists g, (mkGen (g_fd gn0) (g_int gn0) (g_mode gn0) (Some (mkTok 0 0 k)) (g_poller gn0)). split; [unfold fupd; rewrite N.eqb_refl; reflexivity|]. split; [reflexivity|discriminate].
      * rewrite Hoth in H by exact Hne. destruct (B fd' ent H) as (g1 & gn1 & H1 & H2 & H3). exists g1, gn1.
        split; [|split; assumption]. unfold fupd. destruct (N.eqb_spec g1 g) as [->|]; [|exact H1].
        exfalso. rewrite Eg in H1. injection H1 as <-. apply Hne. symmetry. exact H2.
    + intros g1 g2 gn1 gn2 H1 H2 R1 R2 E. unfold fupd in H1, H2.
      destruct (N.eqb_spec g1 g) as [->|N1]; destruct (N.eqb_spec g2 g) as [->|N2]; try reflexivity.
      * injection H1 as <-. cbn in E. eapply (C g g2 gn0 gn2); try eassumption. unfold registered; congruence.
      * injection H2 as <-. cbn in E. eapply (C g1 g gn1 gn0); try eassumption. unfold registered; congruence.
      * eapply C; eassumption.
    + intros g' H. fupd_cases g g'; [discriminate|apply D; exact H].
  - (* unregister *) destruct (gl_gens s g) as [gn0|] eqn:Eg; [|split; assumption].
    destruct (g_tok gn0) as [t0|] eqn:Et0; [|split; assumption].
    unfold gen_unregister. pose proof (ep_del_spec (epoll (gl_env s)) (g_fd gn0)) as S.
    destruct (ep_del _ _) as [tbl|]; cbn [fst]; [|split; assumption].
    destruct (S tbl eq_refl) as (Hgone & Hoth). clear S.
    split; cbn [gl_env gl_gens gl_last epoll set_epoll].
    + intros g' gn H. fupd_cases g g'.
      * injection H as <-. cbn. split; reflexivity.
      * pose proof (A g' gn H) as A1. destruct (g_tok gn) as [t|] eqn:Et; [|exact A1]. destruct A1 as (P & ent & F & K & L).
        split; [exact P|]. exists ent. split; [|split; assumption]. rewrite Hoth; [exact F|].
        intros E. apply n. eapply (C g' g gn gn0); try eassumption; unfold registered; congruence.
    + intros fd' ent H. destruct (N.eq_dec fd' (g_fd gn0)) as [->|Hne]; [congruence|].
      rewrite Hoth in H by exact Hne. destruct (B fd' ent H) as (g1 & gn1 & H1 & H2 & H3). exists g1, gn1.
      split; [|split; assumption]. unfold fupd. destruct (N.eqb_spec g1 g) as [->|]; [|exact H1].
      exfalso. rewrite Eg in H1. injection H1 as <-. apply Hne. symmetry. exact H2.
    + intros g1 g2 gn1 gn2 H1 H2 R1 R2 E. unfold fupd in H1, H2.
      destruct (N.eqb_spec g1 g) as [->|N1]; [injection H1 as <-; exfalso; apply R1; reflexivity|].
      destruct (N.eqb_spec g2 g) as [->|N2]; [injection H2 as <-; exfalso; apply R2; reflexivity|]. eapply C; eassumption.
    + intros g' H. fupd_cases g g'; [discriminate|apply D; exact H].
  - (* unwrap = drop *) destruct (gl_gens s g) as [gn0|] eqn:Eg; [|split; assumption]. cbn [fst].
    assert (K : (g_tok gn0 = None /\ gen_unwrap (gl_env s) gn0 = gl_env s) \/
                (registered gn0 /\ ep_find (epoll (gen_unwrap (gl_env s) gn0)) (g_fd gn0) = None /\
                 forall fd', fd' <> g_fd gn0 -> ep_find (epoll (gen_unwrap (gl_env s) gn0)) fd' = ep_find (epoll (gl_env s)) fd')).
    { pose proof (A g gn0 Eg) as A0. unfold gen_unwrap, gen_drop. destruct (g_tok gn0) as [t0|] eqn:Et0.
      - right. destruct A0 as (P & ent & F & _). rewrite P. pose proof (ep_del_spec (epoll (gl_env s)) (g_fd gn0)) as S.
        destruct (ep_del _ _) as [tbl|] eqn:Ed; [|unfold ep_del in Ed; rewrite F in Ed; discriminate].
        destruct (S tbl eq_refl) as (X & Y). split; [unfold registered; congruence|split; assumption].
      - left. destruct A0 as (P & _). rewrite P. split; reflexivity. }
    split; cbn [gl_env gl_gens gl_last].
    + intros g' gn H. fupd_cases g g'; [discriminate|].
      pose proof (A g' gn H) as A1. destruct (g_tok gn) as [t|] eqn:Et; [|exact A1]. destruct A1 as (P & ent & F & KK & L).
      split; [exact P|]. exists ent. split; [|split; assumption].
      destruct K as [[_ ->]|(R0 & _ & Hoth)]; [exact F|]. rewrite Hoth; [exact F|].
      intros E. apply n. eapply (C g' g gn gn0); try eassumption. unfold registered; congruence.
    + intros fd' ent H.
      assert (H' : ep_find (epoll (gl_env s)) fd' = Some ent /\ (registered gn0 -> fd' <> g_fd gn0)).
      { destruct K as [[T0 E]|(R0 & Hg & Hoth)]; [rewrite E in H; split; [exact H|intros R; exfalso; apply R; exact T0]|].
        destruct (N.eq_dec fd' (g_fd gn0)) as [->|Hne]; [congruence|]. rewrite Hoth in H by exact Hne. split; [exact H|intros _; exact Hne]. }
      destruct H' as [H' Hn]. destruct (B fd' ent H') as (g1 & gn1 & H1 & H2 & H3). exists g1, gn1. split; [|split; assumption].
      unfold fupd. destruct (N.eqb_spec g1 g) as [->|]; [|exact H1]. exfalso. rewrite Eg in H1. injection H1 as <-. apply (Hn H3). symmetry. exact H2.
    + intros g1 g2 gn1 gn2 H1 H2 R1 R2 E. unfold fupd in H1, H2.
      destruct (N.eqb_spec g1 g); [discriminate|]. destruct (N.eqb_spec g2 g); [discriminate|]. eapply C; eassumption.
    + intros g' H. fupd_cases g g'; [reflexivity|apply D; exact H].
  - (* drop *) destruct (gl_gens s g) as [gn0|] eqn:Eg; [|split; assumption]. cbn [fst].
    assert (K : (g_tok gn0 = None /\ gen_drop (gl_env s) gn0 = gl_env s) \/
                (registered gn0 /\ ep_find (epoll (gen_drop (gl_env s) gn0)) (g_fd gn0) = None /\
                 forall fd', fd' <> g_fd gn0 -> ep_find (epoll (gen_drop (gl_env s) gn0)) fd' = ep_find (epoll (gl_env s)) fd')).
    { pose proof (A g gn0 Eg) as A0. unfold gen_drop. destruct (g_tok gn0) as [t0|] eqn:Et0.
      - right. destruct A0 as (P & ent & F & _). rewrite P. pose proof (ep_del_spec (epoll (gl_env s)) (g_fd gn0)) as S.
        destruct (ep_del _ _) as [tbl|] eqn:Ed; [|unfold ep_del in Ed; rewrite F in Ed; discriminate].
        destruct (S tbl eq_refl) as (X & Y). split; [unfold registered; congruence|split; assumption].
      - left. destruct A0 as (P & _). rewrite P. split; reflexivity. }
    split; cbn [gl_env gl_gens gl_last].
    + intros g' gn H. fupd_cases g g'; [discriminate|].
      pose proof (A g' gn H) as A1. destruct (g_tok gn) as [t|] eqn:Et; [|exact A1]. destruct A1 as (P & ent & F & KK & L).
      split; [exact P|]. exists ent. split; [|split; assumption].
      destruct K as [[_ ->]|(R0 & _ & Hoth)]; [exact F|]. rewrite Hoth; [exact F|].
      intros E. apply n. eapply (C g' g gn gn0); try eassumption. unfold registered; congruence.
    + intros fd' ent H.
      assert (H' : ep_find (epoll (gl_env s)) fd' = Some ent /\ (registered gn0 -> fd' <> g_fd gn0)).
      { destruct K as [[T0 E]|(R0 & Hg & Hoth)]; [rewrite E in H; split; [exact H|intros R; exfalso; apply R; exact T0]|].
        destruct (N.eq_dec fd' (g_fd gn0)) as [->|Hne]; [congruence|]. rewrite Hoth in H by exact Hne. split; [exact H|intros _; exact Hne]. }
      destruct H' as [H' Hn]. destruct (B fd' ent H') as (g1 & gn1 & H1 & H2 & H3). exists g1, gn1. split; [|split; assumption].
      unfold fupd. destruct (N.eqb_spec g1 g) as [->|]; [|exact H1]. exfalso. rewrite Eg in H1. injection H1 as <-. apply (Hn H3). symmetry. exact H2.
    + intros g1 g2 gn1 gn2 H1 H2 R1 R2 E. unfold fupd in H1, H2.
      destruct (N.eqb_spec g1 g); [discriminate|]. destruct (N.eqb_spec g2 g); [discriminate|]. eapply C; eassumption.
    + intros g' H. fupd_cases g g'; [reflexivity|apply D; exact H].
Qed.

Theorem INVG_exec ops : INVG (gl_exec ops).
Proof.
  unfold gl_exec. assert (H : forall s, INVG s -> INVG (fold_left (fun s o => fst (gl_step s o)) ops s)).
  { induction ops as [|o r IH]; intros s Hs; cbn; [exact Hs|]. apply IH. apply INVG_step. exact Hs. }
  apply H. apply INVG_init.
Qed.

(* ---------- the statements a user reads ---------- *)
(* exactly: every entry of the table belongs to a registered Generic and shows what that Generic last (re)registered; every
   registered Generic has its entry; a Generic that is not registered has recorded nothing *)
Theorem table_exact ops : let s := gl_exec ops in
  (forall fd ent, ep_find (epoll (gl_env s)) fd = Some ent ->
     exists g gn, gl_gens s g = Some gn /\ g_fd gn = fd /\ registered gn /\ gl_last s g = Some (e_int ent, e_mode ent, e_key ent)) /\
  (forall g gn, gl_gens s g = Some gn -> registered gn ->
     exists ent, ep_find (epoll (gl_env s)) (g_fd gn) = Some ent /\ gl_last s g = Some (e_int ent, e_mode ent, e_key ent)) /\
  (forall g1 g2 gn1 gn2, gl_gens s g1 = Some gn1 -> gl_gens s g2 = Some gn2 -> registered gn1 -> registered gn2 ->
     g_fd gn1 = g_fd gn2 -> g1 = g2).
Proof.
  cbv zeta. destruct (INVG_exec ops) as [A B C D]. split; [|split; [|exact C]].
  - intros fd ent H. destruct (B fd ent H) as (g & gn & Hg & Hf & R). exists g, gn. split; [exact Hg|]. split; [exact Hf|]. split; [exact R|].
    pose proof (A g gn Hg) as A1. unfold registered in R. destruct (g_tok gn) as [t|]; [|congruence].
    destruct A1 as (_ & ent' & F & _ & L). rewrite Hf in F. rewrite H in F. injection F as <-. exact L.
  - intros g gn Hg R. pose proof (A g gn Hg) as A1. unfold registered in R. destruct (g_tok gn) as [t|]; [|congruence].
    destruct A1 as (_ & ent & F & _ & L). exists ent. split; assumption.
Qed.

(* by the time a registered Generic has been unregistered, unwrapped or dropped its fd is gone from the table ... *)
Lemma released_fd_gone s o g gn : INVG s -> gl_gens s g = Some gn -> registered gn ->
  (o = GUnreg g \/ o = GUnwrap g \/ o = GDrop g) -> snd (gl_step s o) = G_OK ->
  ep_find (epoll (gl_env (fst (gl_step s o)))) (g_fd gn) = None.
Proof.
  intros I Hg R Ho Hok. pose proof (INVG_step s o I) as I'. destruct I as [A B C D].
  destruct (ep_find (epoll (gl_env (fst (gl_step s o)))) (g_fd gn)) as [ent|] eqn:F; [|reflexivity]. exfalso.
  destruct (ig_tbl _ I' _ _ F) as (g1 & gn1 & H1 & H2 & R1).
  assert (X : g1 <> g /\ gl_gens s g1 = Some gn1).
  { unfold registered in R. destruct Ho as [-> | [-> | ->]]; cbn [gl_step] in *; rewrite Hg in *.
    - destruct (g_tok gn) as [t|] eqn:Et; [|congruence]. unfold gen_unregister in *. destruct (ep_del _ _) as [tbl|]; cbn [fst snd] in *; [|discriminate].
      cbn [gl_gens] in H1. unfold fupd in H1. destruct (N.eqb_spec g1 g) as [->|Hne]; [injection H1 as <-; exfalso; apply R1; reflexivity|]. split; assumption.
    - cbn [fst gl_gens] in H1. unfold fupd in H1. destruct (N.eqb_spec g1 g); [discriminate|]. split; assumption.
    - cbn [fst gl_gens] in H1. unfold fupd in H1. destruct (N.eqb_spec g1 g); [discriminate|]. split; assumption. }
  destruct X as [Hne Hs1]. apply Hne. eapply (C g1 g gn1 gn); eassumption.
Qed.
(* ... so a fresh Generic over the same fd registers without error *)
Theorem released_fd_reinsertable ops o g gn g2 it m k :
  let s := gl_exec ops in gl_gens s g = Some gn -> registered gn -> (o = GUnreg g \/ o = GUnwrap g \/ o = GDrop g) ->
  snd (gl_step s o) = G_OK -> g2 <> g -> gl_gens s g2 = None ->
  let s1 := fst (gl_step s o) in let s2 := fst (gl_step s1 (GNew g2 (g_fd gn) it m)) in
  snd (gl_step s2 (GReg g2 k)) = G_OK.
Proof.
  cbv zeta. intros Hg R Ho Hok Hne Hn.
  pose proof (released_fd_gone _ o g gn (INVG_exec ops) Hg R Ho Hok) as Gone.
  set (s1 := fst (gl_step (gl_exec ops) o)) in *.
  assert (N1 : gl_gens s1 g2 = None).
  { unfold s1. destruct Ho as [-> | [-> | ->]]; cbn [gl_step]; rewrite Hg.
    - destruct (g_tok gn); [|exact Hn]. destruct (gen_unregister _ _) as [[ok gn'] e']. destruct ok; cbn [fst gl_gens]; [|exact Hn].
      unfold fupd. destruct (N.eqb_spec g2 g); [contradiction|exact Hn].
    - cbn [fst gl_gens]. unfold fupd. destruct (N.eqb_spec g2 g); [contradiction|exact Hn].
    - cbn [fst gl_gens]. unfold fupd. destruct (N.eqb_spec g2 g); [contradiction|exact Hn]. }
  cbn [gl_step]. rewrite N1. cbn [fst gl_step gl_gens gl_env]. unfold fupd at 1. rewrite N.eqb_refl.
  unfold gen_register. cbn [g_fd g_int g_mode]. unfold ep_add. rewrite Gone. reflexivity.
Qed.
