From CV Require Import Base Consts ConcPing.
Open Scope N_scope.

Fixpoint sum_mine (l : list pthread) : N := match l with [] => 0 | t :: r => pt_mine t + sum_mine r end.
Fixpoint nclosing (l : list pthread) : N := match l with [] => 0 | t :: r => (if pt_closing t then 1 else 0) + nclosing r end.

(* the counter encodes exactly the undrained pings and the close marker; the strong count is the number of handles the
   threads hold; at most one close marker is ever written (or about to be), and only when no handle is left *)
Definition cinv (s : cpst) : Prop :=
  ctr s = 2 * undrained s + (if closemark s then 1 else 0) /\
  handles s = sum_mine (thr s) + (if lt_cbhandle (lp s) then 1 else 0) /\
  Forall (fun t => wf_prog (pt_mine t) (pt_ops t) = true) (thr s) /\
  nclosing (thr s) + closes s <= 1 /\
  (0 < nclosing (thr s) + closes s -> handles s = 0) /\
  (closemark s = true -> closes s = 1) /\
  (registered s = false -> closes s = 1 /\ closemark s = false /\ undrained s = 0) /\
  (lt_stage (lp s) <> LIdle -> registered s = true).

Lemma sum_mine_upd l : forall i t t', nth_error l i = Some t ->
  sum_mine (upd_thr l i t') + pt_mine t = sum_mine l + pt_mine t'.
Proof.
  induction l as [|x r IH]; intros [|i] t t' H; cbn in *; try discriminate.
  - injection H as ->. lia.
  - specialize (IH i t t' H). lia.
Qed.
Lemma nclosing_upd l : forall i t t', nth_error l i = Some t ->
  nclosing (upd_thr l i t') + (if pt_closing t then 1 else 0) = nclosing l + (if pt_closing t' then 1 else 0).
Proof.
  induction l as [|x r IH]; intros [|i] t t' H; cbn in *; try discriminate.
  - injection H as ->. lia.
  - specialize (IH i t t' H). lia.
Qed.
Lemma forall_upd (P : pthread -> Prop) l : forall i t', Forall P l -> P t' -> Forall P (upd_thr l i t').
Proof.
  induction l as [|x r IH]; intros [|i] t' H Ht; cbn; inversion H; subst; constructor; auto.
Qed.
Lemma sum_mine_ge l i t : nth_error l i = Some t -> pt_mine t <= sum_mine l.
Proof. revert i; induction l as [|x r IH]; intros [|i] H; cbn in *; try discriminate; [injection H as ->; lia|specialize (IH i H); lia]. Qed.
Lemma nclosing_ge l i t : nth_error l i = Some t -> pt_closing t = true -> 1 <= nclosing l.
Proof. revert i; induction l as [|x r IH]; intros [|i] H Hc; cbn in *; try discriminate; [injection H as ->; rewrite Hc; lia|specialize (IH i H Hc); lia]. Qed.

Ltac pcbn := cbn [ctr handles registered lp thr undrained closemark closes tr pt_mine pt_ops pt_closing lt_stage lt_ops lt_cbpings lt_cbhandle].
Ltac csplit := unfold cinv; pcbn; split; [|split; [|split; [|split; [|split; [|split; [|split]]]]]].

Lemma cinv_step s k : cinv s -> cinv (cp_step s k).
Proof.
  intros Hinv. pose proof Hinv as (I1 & I2 & I3 & I4 & I5 & I6 & I7 & I8). destruct k as [|i]; cbn [cp_step].
  - (* the loop thread *)
    unfold lp_step. destruct (lt_stage (lp s)) eqn:Est.
    + destruct (lt_ops (lp s)) as [|[] r]; [exact Hinv|].
      destruct (registered s && (0 <? ctr s)) eqn:Ec.
      * apply andb_prop in Ec as [Er _]. csplit; try assumption; try (intros; discriminate). intros _. exact Er.
      * csplit; try assumption; try (intros H; exfalso; apply H; reflexivity).
    + (* drain *)
      assert (Hr : registered s = true) by (apply I8; discriminate).
      assert (Hodd : N.odd (ctr s) = closemark s).
      { rewrite I1. destruct (closemark s); [rewrite N.add_1_r, N.odd_succ, N.even_mul; reflexivity|rewrite N.add_0_r, N.odd_mul; reflexivity]. }
      rewrite Hodd. destruct (closemark s) eqn:Ecm.
      * (* the close marker: the source removes itself *)
        rewrite andb_false_r. cbn [negb andb]. csplit; try assumption; try reflexivity; try discriminate.
        -- intros _. split; [apply I6; reflexivity|split; reflexivity].
        -- intros H. exfalso. apply H. reflexivity.
      * cbn [negb]. rewrite andb_true_r.
        destruct (2 <=? ctr s); destruct (lt_cbpings (lp s)) as [|lcb']; cbn [andb pred];
          csplit; try assumption; try reflexivity; try discriminate;
          try (intros H; exfalso; apply H; reflexivity); try (intros _; exact Hr); try (intros Hf; congruence).
    + (* the callback's own ping *)
      assert (Hr : registered s = true) by (apply I8; discriminate).
      csplit; try assumption; try discriminate.
      * rewrite I1. unfold INCREMENT_PING. lia.
      * intros Hf. congruence.
      * intros H. exfalso. apply H. reflexivity.
  - (* a pinger thread *)
    destruct (nth_error (thr s) i) as [t|] eqn:En; [|exact Hinv].
    pose proof (sum_mine_upd (thr s) i t) as SU. pose proof (nclosing_upd (thr s) i t) as NU.
    pose proof (sum_mine_ge _ _ _ En) as SG.
    assert (Wt : wf_prog (pt_mine t) (pt_ops t) = true) by (rewrite Forall_forall in I3; apply I3; eapply nth_error_In; exact En).
    unfold pt_step. destruct (pt_closing t) eqn:Ec.
    + (* writes the close marker *)
      pose proof (nclosing_ge _ _ _ En Ec) as NG.
      specialize (SU (mkPT (pt_ops t) (pt_mine t) false) En). specialize (NU (mkPT (pt_ops t) (pt_mine t) false) En).
      cbn in SU, NU.
      assert (Hc0 : closes s = 0) by lia.
      assert (Hm : closemark s = false) by (destruct (closemark s); [specialize (I6 eq_refl); lia|reflexivity]).
      csplit; try assumption.
      * rewrite I1, Hm. unfold INCREMENT_CLOSE. lia.
      * lia.
      * apply forall_upd; [exact I3|exact Wt].
      * lia.
      * intros _. apply I5. lia.
      * intros _. lia.
      * intros H. destruct (I7 H) as [A B]. lia.
    + destruct (pt_ops t) as [|[] r] eqn:Eo.
      * (* finished *) cbn. replace (upd_thr (thr s) i t) with (thr s); [destruct s; exact Hinv|].
        clear - En. revert i En. induction (thr s) as [|x l IH]; intros [|i] En; cbn in *; try discriminate; [congruence|f_equal; auto].
      * (* ping *)
        cbn in Wt. apply andb_prop in Wt as [Wm Wr]. apply N.ltb_lt in Wm.
        specialize (SU (mkPT r (pt_mine t) false) En). specialize (NU (mkPT r (pt_mine t) false) En). cbn in SU, NU.
        csplit; try assumption.
        -- rewrite I1. unfold INCREMENT_PING. lia.
        -- lia.
        -- apply forall_upd; [exact I3|exact Wr].
        -- lia.
        -- intros H. apply I5. lia.
        -- intros H. destruct (I7 H) as (A & B & C). assert (handles s = 0) by (apply I5; lia). lia.
      * (* clone *)
        cbn in Wt. apply andb_prop in Wt as [Wm Wr]. apply N.ltb_lt in Wm.
        specialize (SU (mkPT r (pt_mine t + 1) false) En). specialize (NU (mkPT r (pt_mine t + 1) false) En). cbn in SU, NU.
        csplit; try assumption.
        -- lia.
        -- apply forall_upd; [exact I3|exact Wr].
        -- lia.
        -- intros H. assert (handles s = 0) by (apply I5; lia). lia.
      * (* drop *)
        cbn in Wt. apply andb_prop in Wt as [Wm Wr]. apply N.ltb_lt in Wm.
        assert (Hz : nclosing (thr s) + closes s = 0).
        { destruct (N.eq_dec (nclosing (thr s) + closes s) 0) as [E|E]; [exact E|]. assert (handles s = 0) by (apply I5; lia). lia. }
        specialize (SU (mkPT r (pt_mine t - 1) (handles s =? 1)) En). specialize (NU (mkPT r (pt_mine t - 1) (handles s =? 1)) En).
        cbn in SU, NU.
        csplit; try assumption.
        -- lia.
        -- apply forall_upd; [exact I3|exact Wr].
        -- destruct (handles s =? 1); lia.
        -- intros H. destruct (N.eqb_spec (handles s) 1) as [E|E]; lia.
Qed.

Lemma sum_mine_init progs : sum_mine (map (fun p => mkPT p 1 false) progs) = N.of_nat (length progs).
Proof. induction progs as [|p r IH]; cbn [map sum_mine length pt_mine]; [reflexivity|]. rewrite IH. lia. Qed.
Lemma nclosing_init progs : nclosing (map (fun p => mkPT p 1 false) progs) = 0.
Proof. induction progs as [|p r IH]; cbn; [reflexivity|exact IH]. Qed.

Lemma cinv_init progs nd cbp : Forall (fun p => wf_prog 1 p = true) progs -> cinv (cp_init progs nd cbp).
Proof.
  intros H. unfold cp_init. csplit.
  - reflexivity.
  - rewrite sum_mine_init. destruct cbp; reflexivity.
  - apply Forall_forall. intros t Ht. apply in_map_iff in Ht as [p [<- Hp]]. rewrite Forall_forall in H. apply H. exact Hp.
  - rewrite nclosing_init. lia.
  - rewrite nclosing_init. lia.
  - discriminate.
  - discriminate.
  - intros Hd. exfalso. apply Hd. reflexivity.
Qed.

Lemma cinv_run progs nd cbp sched : Forall (fun p => wf_prog 1 p = true) progs -> cinv (cp_run progs nd cbp sched).
Proof.
  intros H. unfold cp_run. generalize (cinv_init progs nd cbp H). generalize (cp_init progs nd cbp).
  induction sched as [|k r IH]; intros s Hs; cbn; [exact Hs|]. apply IH. apply cinv_step. exact Hs.
Qed.

(* what a drain sees: a callback is due iff at least one ping was written since the previous drain (so none is lost, none
   is spurious, any number coalesce into one), and removal is due iff the close marker was written *)
Lemma drain_callback_iff s : cinv s -> (2 <=? ctr s) = (1 <=? undrained s).
Proof.
  intros (I1 & _). rewrite I1. destruct (closemark s); destruct (N.leb_spec 1 (undrained s));
    destruct (N.leb_spec 2 (2 * undrained s + 1)); destruct (N.leb_spec 2 (2 * undrained s + 0)); try reflexivity; lia.
Qed.
Lemma drain_close_iff s : cinv s -> N.odd (ctr s) = closemark s.
Proof.
  intros (I1 & _). rewrite I1. destruct (closemark s); [rewrite N.add_1_r, N.odd_succ, N.even_mul; reflexivity|rewrite N.add_0_r, N.odd_mul; reflexivity].
Qed.
(* a pending ping makes the registered source ready: the next poll of the loop thread leads to a drain *)
Lemma poll_progress s : cinv s -> registered s = true -> 1 <= undrained s -> (registered s && (0 <? ctr s)) = true.
Proof. intros (I1 & _) Hr Hu. rewrite Hr. cbn [andb]. apply N.ltb_lt. rewrite I1. destruct (closemark s); lia. Qed.
(* the close marker is written at most once, and only when no handle is left *)
Lemma close_once s : cinv s -> closes s <= 1 /\ (closes s = 1 -> handles s = 0).
Proof. intros (_ & _ & _ & I4 & I5 & _). split; [lia|intros H; apply I5; lia]. Qed.
(* once the source removed itself everything is quiet: no thread can write any more and the counter stays zero *)
Lemma sum_zero_all l : sum_mine l = 0 -> Forall (fun t => pt_mine t = 0) l.
Proof. induction l as [|t r IH]; cbn; intros H; constructor; [lia|apply IH; lia]. Qed.
Lemma nclosing_zero_all l : nclosing l = 0 -> Forall (fun t => pt_closing t = false) l.
Proof. induction l as [|t r IH]; cbn; intros H; constructor; [destruct (pt_closing t); [lia|reflexivity]|apply IH; destruct (pt_closing t); lia]. Qed.
Lemma quiet_after_removal s : cinv s -> registered s = false ->
  ctr s = 0 /\ Forall (fun t => pt_ops t = [] /\ pt_closing t = false) (thr s).
Proof.
  intros (I1 & I2 & I3 & I4 & I5 & I6 & I7 & I8) Hr. destruct (I7 Hr) as (A & B & C).
  split; [rewrite I1, B, C; reflexivity|].
  assert (H0 : handles s = 0) by (apply I5; lia).
  assert (Hn : nclosing (thr s) = 0) by lia.
  rewrite I2 in H0. assert (H0' : sum_mine (thr s) = 0) by lia. pose proof (sum_zero_all _ H0') as M. pose proof (nclosing_zero_all _ Hn) as Cl.
  rewrite Forall_forall in *. intros t Ht. split; [|apply Cl; exact Ht].
  specialize (I3 t Ht). specialize (M t Ht). rewrite M in I3. destruct (pt_ops t) as [|[] r]; [reflexivity|..]; cbn in I3; discriminate.
Qed.
(* the source is only ever removed by a drain that saw the close marker: never while a handle is alive *)
Lemma removed_only_after_close s : cinv s -> registered s = false -> handles s = 0 /\ closes s = 1.
Proof. intros (I1 & I2 & I3 & I4 & I5 & I6 & I7 & I8) Hr. destruct (I7 Hr) as (A & _). split; [apply I5; lia|exact A]. Qed.
