(* C14 / C08 / C15, whole histories INCLUDING callbacks: the lifecycle invariant with the exception for the source being
   processed, closed under every action, callback, event, dispatch and command; hence no run ever reaches unreachable!() in a
   lifecycle loop (fewer than 65536 reuses of a slot). *)
From CV Require Import Base Consts Token PostAction Env Loop.
From CVP Require Import Token_proofs Loop_frames Seq_lemmas C06_proofs C09_proofs C14_proofs C14_life.
Open Scope N_scope.

Definition gens_ok (s : st) : Prop := slots_wf (slots s) /\ gens_small (slots s).
Definition UNIQ (s : st) : Prop :=
  forall i j sl sl' o, nth_error (slots s) i = Some sl -> nth_error (slots s) j = Some sl' -> s_obj sl = Some o -> s_obj sl' = Some o -> i = j.
(* the object being processed: it exists; its token's slot is at the token's generation holding it or nothing, or further on; no
   other slot holds it *)
Definition RUN (s : st) : Prop :=
  forall o reg, running s = Some (o, reg) ->
    t_sub reg = 0 /\
    (exists sl, nth_error (slots s) (N.to_nat (t_id reg)) = Some sl /\ t_ver reg <= s_gen sl /\
                (s_gen sl = t_ver reg -> s_obj sl = Some o \/ s_obj sl = None)) /\
    (forall i sl, nth_error (slots s) i = Some sl -> s_obj sl = Some o -> i = N.to_nat (t_id reg) /\ s_gen sl = t_ver reg).
Definition Q (s : st) : Prop := LI s (running s) /\ gens_ok s /\ TS s /\ UNIQ s /\ RUN s.

(* with well-formed slots and small generations a token resolves to a slot exactly when index and generation agree *)
Lemma slot_get_gen s t sl : gens_ok s -> nth_error (slots s) (N.to_nat (t_id t)) = Some sl ->
  same_source_as (s_tok sl) t = true <-> s_gen sl = t_ver t.
Proof.
  intros [W G] Hn. destruct (W _ _ Hn) as (_ & Wid & _ & Wver). pose proof (G _ _ Hn) as Hs. rewrite N.mod_small in Wver by exact Hs.
  unfold same_source_as. rewrite Wid, N2Nat.id, N.eqb_refl. cbn [andb]. rewrite Wver. apply N.eqb_eq.
Qed.
Lemma slot_get_some s t sl : slot_get (slots s) t = Some sl -> nth_error (slots s) (N.to_nat (t_id t)) = Some sl /\ same_source_as (s_tok sl) t = true.
Proof.
  unfold slot_get. destruct (nth_error (slots s) (N.to_nat (t_id t))) as [sl0|]; [|discriminate].
  destruct (same_source_as (s_tok sl0) t) eqn:E; [|discriminate]. intros [= <-]. split; [reflexivity|exact E].
Qed.
(* two sub-id-0 tokens resolving to the same slot are the same token *)
Lemma same_slot_same_tok sl a b : same_source_as (s_tok sl) a = true -> same_source_as (s_tok sl) b = true -> t_sub a = 0 -> t_sub b = 0 -> a = b.
Proof.
  unfold same_source_as. intros H1 H2 A B. apply andb_prop in H1 as [A1 B1]. apply andb_prop in H2 as [A2 B2].
  apply N.eqb_eq in A1, B1, A2, B2. destruct a, b. cbn in *. congruence.
Qed.

Lemma gens_small_mono l l' : slots_le l l' -> gens_small l' -> gens_small l.
Proof.
  intros L G i sl H. destruct (L i sl H) as [sl' [H' [Hlt|(He & _)]]]; pose proof (G _ _ H'); lia.
Qed.

(* ---------- the dispatcher-level operations under an excused pair r ---------- *)
Lemma LIg_disp_register s o t sl r : LI s r ->
  slot_get (slots s) t = Some sl -> s_obj sl = Some o -> t_sub t = 0 -> LI (snd (disp_register s o t)) r.
Proof.
  intros L Hg Ho Hs. unfold disp_register. destruct (objs s o) as [ob|] eqn:Eo; [|exact L].
  destruct (is_running s o); [apply (LI_frame s); [reflexivity|reflexivity|apply objs_keep_eq; reflexivity|exact L]|].
  pose proof (src_lc_register (en s) (o_src ob) (factory_new t)) as LC.
  destruct (src_register _ _ _) as [[rr x'] e1]. cbn [fst snd] in LC.
  assert (K : objs_keep s (set_obj_src (set_en s e1) o x')).
  { eapply objs_keep_trans; [apply (objs_keep_eq s (set_en s e1)); reflexivity|]. apply objs_keep_set_obj_src. intros ob0 E. change (objs s o = Some ob0) in E. rewrite Eo in E. injection E as <-. exact LC. }
  assert (L2 : LI (set_obj_src (set_en s e1) o x') r).
  { apply (LI_frame s); [rewrite slots_set_obj_src; reflexivity|rewrite lifecycle_set_obj_src; reflexivity|exact K|exact L]. }
  destruct rr; cbn [snd].
  - set (s3 := regop (set_obj_src (set_en s e1) o x') o x' 0%Z true).
    assert (L3 : LI s3 r) by (apply (LI_frame (set_obj_src (set_en s e1) o x')); [apply slots_regop|apply lifecycle_regop|apply objs_keep_eq; apply objs_regop|exact L2]).
    destruct (src_lc x') eqn:Elc; [|exact L3].
    destruct L3 as (A & B & C). split; [|split]; [|exact B|exact C].
    intros e He. cbn [lifecycle set_lifecycle] in He. apply in_lc_register in He. destruct He as [He|He]; [apply A; exact He|]. subst e.
    split; [reflexivity|]. left.
    assert (F : forget_sub_id t = t) by (destruct t; cbn in *; subst; reflexivity). rewrite F.
    destruct (K o ob Eo) as [ob' [Eo' LC']].
    exists sl, o, ob'. unfold s3. cbn [slots objs set_lifecycle]. rewrite slots_regop, slots_set_obj_src, objs_regop. cbn [slots set_en].
    repeat split; try assumption. congruence.
  - apply (LI_frame (set_obj_src (set_en s e1) o x')); [apply slots_regop|apply lifecycle_regop|apply objs_keep_eq; apply objs_regop|exact L2].
  - exact L2.
Qed.
Lemma LIg_disp_reregister s o t sl r : LI s r ->
  slot_get (slots s) t = Some sl -> s_obj sl = Some o -> t_sub t = 0 -> LI (snd (disp_reregister s o t)) r.
Proof.
  intros L Hg Ho Hs. unfold disp_reregister. destruct (objs s o) as [ob|] eqn:Eo; [|exact L].
  destruct (is_running s o); [exact L|].
  pose proof (src_lc_reregister (en s) (o_src ob) (factory_new t)) as LC.
  destruct (src_reregister _ _ _) as [[rr x'] e1]. cbn [fst snd] in LC.
  assert (K : objs_keep s (set_obj_src (set_en s e1) o x')).
  { eapply objs_keep_trans; [apply (objs_keep_eq s (set_en s e1)); reflexivity|]. apply objs_keep_set_obj_src. intros ob0 E. change (objs s o = Some ob0) in E. rewrite Eo in E. injection E as <-. exact LC. }
  assert (L2 : LI (set_obj_src (set_en s e1) o x') r).
  { apply (LI_frame s); [rewrite slots_set_obj_src; reflexivity|rewrite lifecycle_set_obj_src; reflexivity|exact K|exact L]. }
  destruct rr; cbn [snd].
  - set (s3 := regop (set_obj_src (set_en s e1) o x') o x' 1%Z true).
    assert (L3 : LI s3 r) by (apply (LI_frame (set_obj_src (set_en s e1) o x')); [apply slots_regop|apply lifecycle_regop|apply objs_keep_eq; apply objs_regop|exact L2]).
    destruct (src_lc x') eqn:Elc; [|exact L3].
    destruct L3 as (A & B & C). split; [|split]; [|exact B|exact C].
    intros e He. cbn [lifecycle set_lifecycle] in He. apply in_lc_register in He. destruct He as [He|He]; [apply A; exact He|]. subst e.
    split; [reflexivity|]. left.
    assert (F : forget_sub_id t = t) by (destruct t; cbn in *; subst; reflexivity). rewrite F.
    destruct (K o ob Eo) as [ob' [Eo' LC']].
    exists sl, o, ob'. unfold s3. cbn [slots objs set_lifecycle]. rewrite slots_regop, slots_set_obj_src, objs_regop. cbn [slots set_en].
    repeat split; try assumption. congruence.
  - apply (LI_frame (set_obj_src (set_en s e1) o x')); [apply slots_regop|apply lifecycle_regop|apply objs_keep_eq; apply objs_regop|exact L2].
  - exact L2.
Qed.
Lemma LIg_disp_unregister s o t r : LI s r -> LI (snd (disp_unregister s o t)) r.
Proof.
  intros L. unfold disp_unregister. destruct (objs s o) as [ob|] eqn:Eo; [|exact L].
  destruct (is_running s o); [exact L|].
  pose proof (src_lc_unregister (en s) (o_src ob)) as LC.
  destruct (src_unregister _ _) as [[ok x'] e1]. cbn [fst snd] in LC.
  assert (K : objs_keep s (set_obj_src (set_en s e1) o x')).
  { eapply objs_keep_trans; [apply (objs_keep_eq s (set_en s e1)); reflexivity|]. apply objs_keep_set_obj_src. intros ob0 E. change (objs s o = Some ob0) in E. rewrite Eo in E. injection E as <-. exact LC. }
  set (s2 := regop (set_obj_src (set_en s e1) o x') o x' 2%Z ok).
  assert (L2 : LI s2 r).
  { apply (LI_frame s); [unfold s2; rewrite slots_regop, slots_set_obj_src; reflexivity|unfold s2; rewrite lifecycle_regop, lifecycle_set_obj_src; reflexivity| |exact L].
    intros o' ob' H'. destruct (K o' ob' H') as [ob2 [A B]]. exists ob2. unfold s2. rewrite objs_regop. split; assumption. }
  cbn [snd]. destruct (src_lc x'); [|exact L2].
  destruct L2 as (A & B & C). split; [|split]; [|exact B|exact C].
  intros e He. cbn [lifecycle set_lifecycle] in He. apply in_lc_unregister in He as [He _]. destruct (A e He) as [S [G|E]]; (split; [exact S|]); [left|right].
  - destruct G as (sl & o' & ob' & G1 & G2 & G3 & G4). exists sl, o', ob'. repeat split; assumption.
  - destruct E as (o' & ob' & E1 & E2 & E3). exists o', ob'. repeat split; assumption.
Qed.
Lemma disp_unregister_removes_g s o t ob : is_running s o = false -> objs s o = Some ob -> src_lc (o_src ob) = true ->
  forall e, In e (lifecycle (snd (disp_unregister s o t))) -> tok_eqb e t = false.
Proof.
  intros Hr Eo Hlc e He. unfold disp_unregister in He. rewrite Eo, Hr in He.
  pose proof (src_lc_unregister (en s) (o_src ob)) as LC.
  destruct (src_unregister _ _) as [[ok x'] e1]. cbn [fst snd] in *. rewrite LC, Hlc in He. cbn [lifecycle set_lifecycle] in He.
  apply in_lc_unregister in He as [_ H]. exact H.
Qed.
Lemma disp_unregister_lifecycle_sub s o t e : In e (lifecycle (snd (disp_unregister s o t))) -> In e (lifecycle s).
Proof.
  unfold disp_unregister. destruct (objs s o) as [ob|]; [|tauto]. destruct (is_running s o); [tauto|].
  destruct (src_unregister _ _) as [[ok x'] e1]. cbn [snd]. destruct (src_lc x'); cbn [lifecycle set_lifecycle]; intros He;
    [apply in_lc_unregister in He as [He _]|]; rewrite lifecycle_regop, lifecycle_set_obj_src in He; exact He.
Qed.

(* ---------- dropping objects never touches the object being processed ---------- *)
Lemma maybe_drop_keeps_running s o o' t : running s = Some (o', t) -> objs (maybe_drop s o) o' = objs s o'.
Proof.
  intros Hr. unfold maybe_drop. destruct (objs s o) as [ob|] eqn:Eo; [|reflexivity].
  destruct (o_ext ob || in_slots (slots s) o); [reflexivity|].
  destruct (is_running s o) eqn:Er; [reflexivity|].
  unfold drop_obj. cbn [objs emit set_log set_objs set_en]. unfold fupd. destruct (N.eqb_spec o' o) as [->|]; [|reflexivity].
  unfold is_running in Er. rewrite Hr in Er. rewrite N.eqb_refl in Er. discriminate.
Qed.
Lemma LIr_maybe_drop s o : LI s (running s) -> LI (maybe_drop s o) (running s).
Proof.
  intros (A & B & C). split; [|split].
  - intros e He. rewrite lifecycle_maybe_drop in He. destruct (A e He) as [S [G|E]]; (split; [exact S|]); [left|right].
    + destruct G as (sl & o' & ob' & G1 & G2 & G3 & G4). exists sl, o', ob'. rewrite slots_maybe_drop. repeat split; try assumption.
      apply maybe_drop_objs; [exact G3|]. destruct (N.eq_dec o' o) as [->|Hne]; [right|left; exact Hne].
      apply in_slots_spec. unfold slot_get in G1. destruct (nth_error (slots s) (N.to_nat (t_id e))) as [sl0|] eqn:En; [|discriminate].
      destruct (same_source_as (s_tok sl0) e); [|discriminate]. injection G1 as ->. exists (N.to_nat (t_id e)), sl. split; assumption.
    + destruct E as (o' & ob' & E1 & E2 & E3). exists o', ob'. repeat split; try assumption. rewrite (maybe_drop_keeps_running s o o' e E1). exact E2.
  - intros i sl o' Hn Ho. rewrite slots_maybe_drop in Hn. specialize (B i sl o' Hn Ho). destruct (objs s o') as [ob'|] eqn:E; [|congruence].
    rewrite (maybe_drop_objs s o o' ob' E); [discriminate|]. destruct (N.eq_dec o' o) as [->|Hne]; [right|left; exact Hne].
    apply in_slots_spec. exists i, sl. split; assumption.
  - intros o' t H. rewrite (maybe_drop_keeps_running s o o' t H). exact (C o' t H).
Qed.
Lemma running_maybe_drop' s o : running (maybe_drop s o) = running s.
Proof. apply running_maybe_drop. Qed.

(* Q only reads slots, lifecycle, objs, toks and running *)
Lemma Q_frame_eq s s' : slots s' = slots s -> lifecycle s' = lifecycle s -> objs s' = objs s -> toks s' = toks s -> running s' = running s ->
  Q s -> Q s'.
Proof.
  intros Hs Hl Ho Ht Hr (L & [W G] & T & U & R). unfold Q, gens_ok, TS, UNIQ, RUN. rewrite Hs, Hr, Ht.
  split; [apply (LI_frame s); [exact Hs|exact Hl|apply objs_keep_eq; exact Ho|exact L]|].
  split; [split; [exact W|exact G]|]. split; [exact T|]. split; [exact U|exact R].
Qed.

Lemma Q_frame_keep s s' : slots s' = slots s -> lifecycle s' = lifecycle s -> objs_keep s s' -> toks s' = toks s -> running s' = running s ->
  Q s -> Q s'.
Proof.
  intros Hs Hl Ho Ht Hr (L & [W G] & T & U & R). unfold Q, gens_ok, TS, UNIQ, RUN. rewrite Hs, Hr, Ht.
  split; [apply (LI_frame s); [exact Hs|exact Hl|exact Ho|exact L]|].
  split; [split; [exact W|exact G]|]. split; [exact T|]. split; [exact U|exact R].
Qed.

(* ---------- remove, in any context ---------- *)
Lemma gens_small_upd_same l i old new : nth_error l i = Some old -> s_gen new = s_gen old -> gens_small l -> gens_small (upd l i new).
Proof.
  intros Hn Hg G j sl Hj. destruct (Nat.eq_dec i j) as [<-|Ne].
  - rewrite (nth_error_upd_same _ _ _ _ Hn) in Hj. injection Hj as <-. rewrite Hg. exact (G _ _ Hn).
  - rewrite nth_error_upd_other in Hj by exact Ne. exact (G _ _ Hj).
Qed.

Lemma Q_do_remove s h : Q s -> Q (do_remove s h).
Proof.
  intros (L & [W G] & T & U & R). unfold do_remove. destruct (lookup s h) as [[[t et] o]|] eqn:El.
  2:{ apply (Q_frame_eq s); try reflexivity. split; [exact L|]. split; [split; [exact W|exact G]|]. split; [exact T|]. split; [exact U|exact R]. }
  destruct (lookup_spec _ _ _ _ _ El) as (Ht & sl & Hn & Hss & Hob & _).
  pose proof (T h t Ht) as Tsub.
  set (i0 := N.to_nat (t_id t)) in *.
  set (s1 := set_slots s (slot_set_obj (slots s) t None)).
  assert (SL1 : slots s1 = upd (slots s) i0 (mkSlot (s_tok sl) None (s_gen sl))).
  { unfold s1. cbn [slots set_slots]. unfold slot_set_obj. fold i0. rewrite Hn. reflexivity. }
  pose proof (disp_unregister_objs_keep s1 o t) as K.
  pose proof (slots_disp_unregister s1 o t) as FS.
  pose proof (toks_frame_disp_unregister s1 o t) as FT.
  pose proof (running_disp_unregister s1 o t) as FR.
  pose proof (fun e => disp_unregister_lifecycle_sub s1 o t e) as FL.
  pose proof (fun ob Hnr E Lc => disp_unregister_removes_g s1 o t ob Hnr E Lc) as RM.
  assert (RUNNING_CASE : is_running s1 o = true -> snd (disp_unregister s1 o t) = s1).
  { intros Hr. unfold disp_unregister. destruct (objs s1 o); [|reflexivity]. rewrite Hr. reflexivity. }
  destruct (disp_unregister s1 o t) as [[r d] s2]. cbn [snd] in *.
  (* slots of the result *)
  assert (SLf : slots (emit (maybe_drop s2 o) (op_line OP_REMOVE h ROk)) = upd (slots s) i0 (mkSlot (s_tok sl) None (s_gen sl))).
  { cbn [slots emit set_log]. rewrite slots_maybe_drop, FS. exact SL1. }
  assert (RUNf : running (emit (maybe_drop s2 o) (op_line OP_REMOVE h ROk)) = running s).
  { cbn [running emit set_log]. rewrite running_maybe_drop, FR. reflexivity. }
  assert (Hnth : forall j slj, nth_error (upd (slots s) i0 (mkSlot (s_tok sl) None (s_gen sl))) j = Some slj ->
                 (j = i0 /\ slj = mkSlot (s_tok sl) None (s_gen sl)) \/ (j <> i0 /\ nth_error (slots s) j = Some slj)).
  { intros j slj Hj. destruct (Nat.eq_dec i0 j) as [<-|Ne]; [left|right].
    - rewrite (nth_error_upd_same _ _ _ _ Hn) in Hj. injection Hj as <-. split; reflexivity.
    - rewrite nth_error_upd_other in Hj by exact Ne. split; [intros X; apply Ne; symmetry; exact X|exact Hj]. }
  split; [|split; [|split; [|split]]].
  - (* LI *)
    assert (L2 : LI s2 (running s)).
    { destruct L as (A & B & C). split; [|split].
      - intros e He. pose proof (FL e He) as He0. destruct (A e He0) as [S [Gd|E]]; (split; [exact S|]).
        + destruct Gd as (sle & oe & obe & G1 & G2 & G3 & G4). destruct (slot_get_some _ _ _ G1) as [En0 Es0].
          destruct (Nat.eq_dec (N.to_nat (t_id e)) i0) as [Eq|Ne].
          * (* the entry of the vacated slot *)
            rewrite Eq, Hn in En0. injection En0 as <-. rewrite Hob in G2. injection G2 as <-.
            assert (Eet : e = t) by (eapply same_slot_same_tok; eassumption).
            destruct (is_running s1 o) eqn:Er.
            -- (* the source removes itself: deferred; its entry is excused *)
               right. unfold is_running in Er. change (running s1) with (running s) in Er. destruct (running s) as [[ro rt]|] eqn:Erun; [|discriminate].
               apply N.eqb_eq in Er. subst ro.
               destruct (R o rt Erun) as (Rsub & _ & Rall). destruct (Rall i0 sl Hn Hob) as [Ri Rg].
               assert (Ert : e = rt).
               { eapply (same_slot_same_tok sl); [exact Es0| |exact S|exact Rsub].
                 apply (slot_get_gen s rt sl (conj W G)); [rewrite <- Ri; exact Hn|exact Rg]. }
               subst rt. exists o, obe. rewrite (RUNNING_CASE eq_refl). repeat split; assumption.
            -- exfalso. specialize (RM obe eq_refl G3 G4 e He). subst e. rewrite (tok_eqb_of_same t t) in RM; [discriminate| |exact Tsub|exact Tsub].
               unfold same_source_as. rewrite !N.eqb_refl. reflexivity.
          * left. destruct (K oe obe G3) as [ob2 [K1 K2]]. exists sle, oe, ob2. repeat split; try assumption; [|congruence].
            unfold slot_get. rewrite FS, SL1, nth_error_upd_other by (intros X; apply Ne; symmetry; exact X). rewrite En0, Es0. reflexivity.
        + right. destruct E as (o' & ob' & E1 & E2 & E3). destruct (K o' ob' E2) as [ob2 [K1 K2]]. exists o', ob2. repeat split; try assumption. congruence.
      - intros j slj oj Hj Hoj. rewrite FS, SL1 in Hj. destruct (Hnth j slj Hj) as [[_ ->]|[_ Hj']]; [discriminate|].
        specialize (B j slj oj Hj' Hoj). destruct (objs s oj) as [obj|] eqn:E; [|congruence]. destruct (K oj obj E) as [ob2 [K1 _]]. congruence.
      - intros o' t' H. specialize (C o' t' H). destruct (objs s o') as [ob'|] eqn:E; [|congruence]. destruct (K o' ob' E) as [ob2 [K1 _]]. congruence. }
    rewrite RUNf. assert (FR' : running s2 = running s) by exact FR. rewrite <- FR' in L2 |- *. apply (LIr_maybe_drop s2 o) in L2.
    apply (LI_frame (maybe_drop s2 o)); [reflexivity|reflexivity|apply objs_keep_eq; reflexivity|exact L2].
  - (* generations *)
    split.
    + rewrite SLf. intros j slj Hj. destruct (Hnth j slj Hj) as [[-> ->]|[_ Hj']]; [exact (W _ _ Hn)|exact (W _ _ Hj')].
    + rewrite SLf. apply (gens_small_upd_same _ _ sl); [exact Hn|reflexivity|exact G].
  - (* handle tokens *)
    intros h' t' H'. cbn [toks emit set_log] in H'. rewrite toks_maybe_drop, FT in H'. exact (T h' t' H').
  - (* uniqueness *)
    intros a b sla slb oo Ha Hb Hoa Hobb. rewrite SLf in Ha, Hb.
    destruct (Hnth a sla Ha) as [[_ ->]|[_ Ha']]; [discriminate|]. destruct (Hnth b slb Hb) as [[_ ->]|[_ Hb']]; [discriminate|].
    exact (U a b sla slb oo Ha' Hb' Hoa Hobb).
  - (* the running object *)
    intros ro rt Hrun. rewrite RUNf in Hrun. destruct (R ro rt Hrun) as (Rsub & (rsl & Rn & Rle & Rsame) & Rall).
    split; [exact Rsub|]. split.
    + rewrite SLf. destruct (Nat.eq_dec i0 (N.to_nat (t_id rt))) as [Eq|Ne].
      * rewrite <- Eq in Rn |- *. rewrite Hn in Rn. injection Rn as <-. eexists. split; [eapply nth_error_upd_same; exact Hn|]. cbn [s_gen s_obj].
        split; [exact Rle|]. intros _. right. reflexivity.
      * exists rsl. split; [rewrite nth_error_upd_other by exact Ne; exact Rn|]. split; assumption.
    + intros j slj Hj Hoj. rewrite SLf in Hj. destruct (Hnth j slj Hj) as [[_ ->]|[_ Hj']]; [discriminate|]. exact (Rall j slj Hj' Hoj).
Qed.

(* ---------- insert, in any context ---------- *)
Lemma vacant_entry_gen l i l' : vacant_entry l = Some (i, l') ->
  forall old, nth_error l i = Some old -> exists e, nth_error l' i = Some e /\ s_gen e = s_gen old + 1.
Proof.
  unfold vacant_entry. destruct (find_vacant l 0) as [k|] eqn:Ef.
  - destruct (nth_error l k) as [sl|] eqn:En; [|discriminate]. intros [= <- <-] old Ho. rewrite En in Ho. injection Ho as <-.
    eexists. split; [eapply nth_error_upd_same; exact En|reflexivity].
  - destruct (tok_new (N.of_nat (length l))) as [t|]; [|discriminate]. intros [= <- <-] old Ho.
    exfalso. assert (X : nth_error l (length l) = None) by (apply nth_error_None; lia). congruence.
Qed.

Lemma LIg_occupied_keep s s' r : LI s r -> lifecycle s' = lifecycle s ->
  (forall j sl, nth_error (slots s) j = Some sl -> s_obj sl <> None -> nth_error (slots s') j = Some sl) ->
  objs_keep s s' ->
  (forall i sl o, nth_error (slots s') i = Some sl -> s_obj sl = Some o -> objs s' o <> None) -> LI s' r.
Proof.
  intros (A & B & C) Hl Hs Ho HB. split; [|split]; [|exact HB|].
  - intros e He. rewrite Hl in He. destruct (A e He) as [S [G|E]]; (split; [exact S|]); [left; eapply good_keep; eassumption|right; eapply excused_frame; eassumption].
  - intros o t H. specialize (C o t H). destruct (objs s o) as [ob|] eqn:E; [|congruence]. destruct (Ho o ob E) as [ob' [E' _]]. congruence.
Qed.

Lemma disp_register_objs_keep s o t : objs_keep s (snd (disp_register s o t)).
Proof.
  unfold disp_register. destruct (objs s o) as [ob|] eqn:Eo; [|apply objs_keep_refl]. destruct (is_running s o); [apply objs_keep_eq; reflexivity|].
  pose proof (src_lc_register (en s) (o_src ob) (factory_new t)) as LC.
  destruct (src_register _ _ _) as [[r x'] e1]. cbn [fst snd] in LC.
  assert (K : objs_keep s (set_obj_src (set_en s e1) o x')).
  { eapply objs_keep_trans; [apply (objs_keep_eq s (set_en s e1)); reflexivity|]. apply objs_keep_set_obj_src. intros ob0 E. change (objs s o = Some ob0) in E. rewrite Eo in E. injection E as <-. exact LC. }
  destruct r; cbn [snd]; try destruct (src_lc x'); intros o' ob' H'; destruct (K o' ob' H') as [ob2 [A2 B2]]; exists ob2;
    cbn [objs set_lifecycle panic set_halted emit set_log]; rewrite ?objs_regop; split; assumption.
Qed.
Lemma disp_register_lifecycle_err s o t : fst (disp_register s o t) <> ROk -> lifecycle (snd (disp_register s o t)) = lifecycle s.
Proof.
  unfold disp_register. destruct (objs s o) as [ob|]; [|reflexivity]. destruct (is_running s o); [reflexivity|].
  destruct (src_register _ _ _) as [[r x'] e1]. destruct r; cbn [fst snd]; intros Hne; try congruence;
    cbn [lifecycle panic set_halted emit set_log]; rewrite ?lifecycle_regop, ?lifecycle_set_obj_src; reflexivity.
Qed.


Lemma upd_upd {A} (l : list A) : forall k a b, upd (upd l k a) k b = upd l k b.
Proof. induction l as [|y t IH]; intros [|k] a b; cbn; try reflexivity; f_equal; apply IH. Qed.

Lemma Q_do_insert s h x : Q s -> gens_small (slots (do_insert s h x)) -> Q (do_insert s h x).
Proof.
  intros (L & [W G] & T & U & R) Gf.
  assert (WF' : slots_wf (slots (do_insert s h x))) by (apply (proj1 (do_insert_sstep s h x)); exact W).
  assert (RUN' : running (do_insert s h x) = running s) by apply running_do_insert.
  assert (Qs : Q s) by (split; [exact L|]; split; [split; [exact W|exact G]|]; split; [exact T|]; split; [exact U|exact R]).
  revert Gf WF' RUN'. unfold do_insert. destruct (objs s h) eqn:Eh.
  { intros _ _ _. apply (Q_frame_eq s); try reflexivity. exact Qs. }
  set (s0 := set_objs s (fupd (objs s) h (Some (mkObj x true)))).
  assert (K0 : objs_keep s s0).
  { intros o ob H. exists ob. split; [|reflexivity]. unfold s0. cbn [objs set_objs]. unfold fupd. destruct (N.eqb_spec o h) as [->|]; [congruence|exact H]. }
  assert (Hh0 : objs s0 h = Some (mkObj x true)) by (unfold s0; cbn [objs set_objs]; unfold fupd; rewrite N.eqb_refl; reflexivity).
  assert (Hfresh : forall j slj, nth_error (slots s) j = Some slj -> s_obj slj <> Some h).
  { intros j slj Hj Hc. destruct L as (_ & B & _). apply (B j slj h Hj Hc). exact Eh. }
  destruct (vacant_entry (slots s0)) as [[i sl]|] eqn:Ev.
  2:{ intros _ _ _. apply (Q_frame_keep s); try reflexivity; [exact K0|exact Qs]. }
  change (slots s0) with (slots s) in Ev.
  destruct (vacant_entry_spec _ _ _ Ev) as (V1 & V2 & e & He & Heo). rewrite He.
  destruct (vacant_entry_sstep _ _ _ Ev) as [[Wv _] _]. specialize (Wv W). destruct (Wv i e He) as (We & Wid & Wsub & Wver).
  pose proof (vacant_entry_gen _ _ _ Ev) as VG.
  set (t := s_tok e).
  set (s1 := set_slots s0 (upd sl i (mkSlot t (Some h) (s_gen e)))).
  (* the slots of s1, s2 and of the failure state, slot by slot *)
  assert (Hnth : forall o' j slj, nth_error (upd sl i (mkSlot t o' (s_gen e))) j = Some slj ->
                 (j = i /\ slj = mkSlot t o' (s_gen e)) \/ (j <> i /\ nth_error (slots s) j = Some slj)).
  { intros o' j slj Hj. destruct (Nat.eq_dec i j) as [<-|Ne]; [left|right].
    - rewrite (nth_error_upd_same _ _ _ _ He) in Hj. injection Hj as <-. split; reflexivity.
    - rewrite nth_error_upd_other in Hj by exact Ne. rewrite V2 in Hj by (intros X; apply Ne; symmetry; exact X). split; [intros X; apply Ne; symmetry; exact X|exact Hj]. }
  assert (Hocc : forall o' j slj, nth_error (slots s) j = Some slj -> s_obj slj <> None -> nth_error (upd sl i (mkSlot t o' (s_gen e))) j = Some slj).
  { intros o' j slj Hj Hne. destruct (V1 j slj Hj Hne) as [Hji Hj']. rewrite nth_error_upd_other by (intros X; apply Hji; symmetry; exact X). exact Hj'. }
  assert (L1 : LI s1 (running s)).
  { apply (LIg_occupied_keep s); [exact L|reflexivity|intros j slj Hj Hne; exact (Hocc (Some h) j slj Hj Hne)|exact K0|].
    intros j slj oj Hj Hoj. unfold s1 in Hj. cbn [slots set_slots] in Hj. destruct (Hnth (Some h) j slj Hj) as [[-> ->]|[_ Hj']].
    - cbn in Hoj. injection Hoj as <-. change (objs s1 h) with (objs s0 h). rewrite Hh0. discriminate.
    - destruct L as (_ & B & _). specialize (B j slj oj Hj' Hoj). destruct (objs s oj) as [obj|] eqn:E; [|congruence].
      destruct (K0 oj obj E) as [ob' [E' _]]. change (objs s1 oj) with (objs s0 oj). congruence. }
  assert (G1 : slot_get (slots s1) t = Some (mkSlot t (Some h) (s_gen e))).
  { unfold slot_get, s1. cbn [slots set_slots]. unfold t. rewrite Wid, Nat2N.id, (nth_error_upd_same _ _ _ _ He). cbn [s_tok].
    unfold same_source_as. rewrite !N.eqb_refl. reflexivity. }
  pose proof (LIg_disp_register s1 h t _ (running s) L1 G1 eq_refl Wsub) as L2.
  pose proof (slots_disp_register s1 h t) as FS.
  pose proof (disp_register_lifecycle_err s1 h t) as FLerr.
  pose proof (disp_register_objs_keep s1 h t) as KR.
  pose proof (toks_frame_disp_register s1 h t) as FT.
  pose proof (running_disp_register s1 h t) as FRr.
  destruct (disp_register s1 h t) as [r s2]. cbn [fst snd] in *.
  (* facts shared by the final states: the slot list is (upd sl i (t, o', gen e)) for o' = Some h or None *)
  assert (UNIQf : forall o' (l' : list slot), l' = upd sl i (mkSlot t o' (s_gen e)) -> (o' = Some h \/ o' = None) ->
            forall a b sla slb oo, nth_error l' a = Some sla -> nth_error l' b = Some slb -> s_obj sla = Some oo -> s_obj slb = Some oo -> a = b).
  { intros o' l' -> Ho' a b sla slb oo Ha Hb Hoa Hobb.
    destruct (Hnth o' a sla Ha) as [[-> ->]|[Na Ha']]; destruct (Hnth o' b slb Hb) as [[-> ->]|[Nb Hb']]; try reflexivity.
    - cbn in Hoa. exfalso. destruct Ho' as [-> | ->]; [injection Hoa as <-; exact (Hfresh b slb Hb' Hobb)|discriminate].
    - cbn in Hobb. exfalso. destruct Ho' as [-> | ->]; [injection Hobb as <-; exact (Hfresh a sla Ha' Hoa)|discriminate].
    - exact (U a b sla slb oo Ha' Hb' Hoa Hobb). }
  assert (RUNf : forall o' (l' : list slot), l' = upd sl i (mkSlot t o' (s_gen e)) -> (o' = Some h \/ o' = None) ->
            forall ro rt, running s = Some (ro, rt) ->
              t_sub rt = 0 /\
              (exists slr, nth_error l' (N.to_nat (t_id rt)) = Some slr /\ t_ver rt <= s_gen slr /\ (s_gen slr = t_ver rt -> s_obj slr = Some ro \/ s_obj slr = None)) /\
              (forall j slj, nth_error l' j = Some slj -> s_obj slj = Some ro -> j = N.to_nat (t_id rt) /\ s_gen slj = t_ver rt)).
  { intros o' l' -> Ho' ro rt Hrun. destruct (R ro rt Hrun) as (Rsub & (rsl & Rn & Rle & Rsame) & Rall).
    assert (Hro : ro <> h).
    { intros ->. destruct L as (_ & _ & C). apply (C h rt Hrun). exact Eh. }
    split; [exact Rsub|]. split.
    - destruct (Nat.eq_dec i (N.to_nat (t_id rt))) as [Eq|Ne].
      + (* the slot of the running source is the one being reused: it moved to a later generation *)
        rewrite <- Eq in Rn |- *. destruct (VG rsl Rn) as [e' [He' Hge]]. rewrite He in He'. injection He' as <-.
        eexists. split; [eapply nth_error_upd_same; exact He|]. cbn [s_gen s_obj]. split; [lia|]. intros X. lia.
      + exists rsl. split; [rewrite nth_error_upd_other by exact Ne; rewrite V2 by (intros X; apply Ne; symmetry; exact X); exact Rn|]. split; assumption.
    - intros j slj Hj Hoj. destruct (Hnth o' j slj Hj) as [[-> ->]|[_ Hj']].
      + cbn in Hoj. exfalso. destruct Ho' as [-> | ->]; [injection Hoj as Hx; congruence|discriminate].
      + exact (Rall j slj Hj' Hoj). }
  intros Gf WF' RUN'.
  destruct (halted s2) eqn:Hh2.
  { (* the registration panicked (excluded call / sub-id exhaustion): the state is s2 *)
    split; [rewrite FRr; exact L2|]. split; [split; [exact WF'|exact Gf]|]. split; [intros h' t' H'; rewrite FT in H'; exact (T h' t' H')|].
    split.
    - intros a b sla slb oo Ha Hb. rewrite FS in Ha, Hb. unfold s1 in Ha, Hb. cbn [slots set_slots] in Ha, Hb. exact (UNIQf (Some h) _ eq_refl (or_introl eq_refl) a b sla slb oo Ha Hb).
    - intros ro rt Hrun. rewrite FRr in Hrun. unfold s1 in Hrun. cbn [running set_slots] in Hrun. change (running s0) with (running s) in Hrun.
      rewrite FS. unfold s1. cbn [slots set_slots]. exact (RUNf (Some h) _ eq_refl (or_introl eq_refl) ro rt Hrun). }
  assert (FAIL : forall r', r <> ROk ->
            gens_small (slots (emit (set_slots s2 (upd (slots s2) i (mkSlot t None (s_gen e)))) (op_line OP_INSERT h r'))) ->
            slots_wf (slots (emit (set_slots s2 (upd (slots s2) i (mkSlot t None (s_gen e)))) (op_line OP_INSERT h r'))) ->
            Q (emit (set_slots s2 (upd (slots s2) i (mkSlot t None (s_gen e)))) (op_line OP_INSERT h r'))).
  { intros r' Hnok Gf' WF''.
    assert (SLf : slots (emit (set_slots s2 (upd (slots s2) i (mkSlot t None (s_gen e)))) (op_line OP_INSERT h r')) = upd sl i (mkSlot t None (s_gen e))).
    { cbn [slots emit set_log set_slots]. rewrite FS. unfold s1. cbn [slots set_slots]. apply upd_upd. }
    assert (Kf : objs_keep s s2).
    { eapply objs_keep_trans; [exact K0|]. eapply objs_keep_trans; [apply (objs_keep_eq s0 s1); reflexivity|exact KR]. }
    split.
    - cbn [running emit set_log set_slots]. rewrite FRr. change (running s1) with (running s).
      apply (LIg_occupied_keep s); [exact L| | | |].
      + cbn [lifecycle emit set_log set_slots]. rewrite FLerr by exact Hnok. reflexivity.
      + intros j slj Hj Hne. rewrite SLf. exact (Hocc None j slj Hj Hne).
      + intros o' ob' H'. destruct (Kf o' ob' H') as [ob2 [A2 B2]]. exists ob2. split; assumption.
      + intros j slj oj Hj Hoj. rewrite SLf in Hj. destruct (Hnth None j slj Hj) as [[_ ->]|[_ Hj']]; [discriminate|].
        destruct L as (_ & B & _). specialize (B j slj oj Hj' Hoj). destruct (objs s oj) as [obj|] eqn:E; [|congruence].
        destruct (Kf oj obj E) as [ob2 [E2 _]]. cbn [objs emit set_log set_slots]. congruence.
    - split; [split; [exact WF''|exact Gf']|]. split; [intros h' t' H'; cbn [toks emit set_log set_slots] in H'; rewrite FT in H'; exact (T h' t' H')|].
      split.
      + intros a b sla slb oo Ha Hb. rewrite SLf in Ha, Hb. exact (UNIQf None _ eq_refl (or_intror eq_refl) a b sla slb oo Ha Hb).
      + intros ro rt Hrun. cbn [running emit set_log set_slots] in Hrun. rewrite FRr in Hrun. change (running s1) with (running s) in Hrun.
        rewrite SLf. exact (RUNf None _ eq_refl (or_intror eq_refl) ro rt Hrun). }
  destruct r.
  - (* registered: the handle gets the slot's token *)
    split; [apply (LI_frame s2); [reflexivity|reflexivity|apply objs_keep_eq; reflexivity|cbn [running emit set_log set_toks]; rewrite FRr; exact L2]|].
    split; [split; [exact WF'|exact Gf]|]. split.
    + intros h' t' H'. cbn [toks emit set_log set_toks] in H'. unfold fupd in H'. destruct (h' =? h); [injection H' as <-; exact Wsub|rewrite FT in H'; exact (T h' t' H')].
    + split.
      * intros a b sla slb oo Ha Hb. cbn [slots emit set_log set_toks] in Ha, Hb. rewrite FS in Ha, Hb. unfold s1 in Ha, Hb. cbn [slots set_slots] in Ha, Hb.
        exact (UNIQf (Some h) _ eq_refl (or_introl eq_refl) a b sla slb oo Ha Hb).
      * intros ro rt Hrun. cbn [running emit set_log set_toks] in Hrun. rewrite FRr in Hrun. unfold s1 in Hrun. cbn [running set_slots] in Hrun. change (running s0) with (running s) in Hrun.
        cbn [slots emit set_log set_toks]. rewrite FS. unfold s1. cbn [slots set_slots]. exact (RUNf (Some h) _ eq_refl (or_introl eq_refl) ro rt Hrun).
  - apply FAIL; [discriminate|exact Gf|exact WF'].
  - apply FAIL; [discriminate|exact Gf|exact WF'].
  - apply FAIL; [discriminate|exact Gf|exact WF'].
Qed.

(* ---------- every other action ---------- *)
Lemma Q_of_LI s s' : slots s' = slots s -> toks s' = toks s -> running s' = running s -> LI s' (running s) -> Q s -> Q s'.
Proof.
  intros Hs Ht Hr L' (_ & [W G] & T & U & R). unfold Q, gens_ok, TS, UNIQ, RUN. rewrite Hs, Hr, Ht.
  split; [exact L'|]. split; [split; [exact W|exact G]|]. split; [exact T|]. split; [exact U|exact R].
Qed.

Lemma LIr_drop_obj s o ob : LI s (running s) -> in_slots (slots s) o = false -> is_running s o = false -> LI (drop_obj s o ob) (running s).
Proof.
  intros (A & B & C) Hns Hnr.
  assert (Hrun : forall o' t, running s = Some (o', t) -> o' <> o).
  { intros o' t H ->. unfold is_running in Hnr. rewrite H, N.eqb_refl in Hnr. discriminate. }
  split; [|split].
  - intros e He. destruct (A e He) as [S [G|E]]; (split; [exact S|]); [left|right].
    + destruct G as (sl & o' & ob' & G1 & G2 & G3 & G4). exists sl, o', ob'. repeat split; try assumption.
      unfold drop_obj. cbn [objs emit set_log set_objs set_en]. unfold fupd. destruct (N.eqb_spec o' o) as [->|]; [|exact G3].
      exfalso. assert (X : in_slots (slots s) o = true); [|congruence]. apply in_slots_spec.
      destruct (slot_get_some _ _ _ G1) as [En _]. exists (N.to_nat (t_id e)), sl. split; assumption.
    + destruct E as (o' & ob' & E1 & E2 & E3). exists o', ob'. repeat split; try assumption.
      unfold drop_obj. cbn [objs emit set_log set_objs set_en]. unfold fupd. destruct (N.eqb_spec o' o) as [->|]; [exfalso; exact (Hrun o e E1 eq_refl)|exact E2].
  - intros i sl o' Hn Ho. unfold drop_obj. cbn [objs emit set_log set_objs set_en]. unfold fupd. destruct (N.eqb_spec o' o) as [->|]; [|exact (B i sl o' Hn Ho)].
    exfalso. assert (X : in_slots (slots s) o = true); [|congruence]. apply in_slots_spec. exists i, sl. split; assumption.
  - intros o' t H. unfold drop_obj. cbn [objs emit set_log set_objs set_en]. unfold fupd. destruct (N.eqb_spec o' o) as [->|]; [exfalso; exact (Hrun o t H eq_refl)|exact (C o' t H)].
Qed.

Lemma Q_exec_action s a : Q s -> gens_small (slots (exec_action s a)) -> Q (exec_action s a).
Proof.
  intros Qs Gf. pose proof Qs as (L & [W G] & T & U & R). unfold exec_action in *. destruct (halted s); [exact Qs|].
  assert (FR : forall s', slots s' = slots s -> lifecycle s' = lifecycle s -> objs s' = objs s -> toks s' = toks s -> running s' = running s -> Q s')
    by (intros s' A1 A2 A3 A4 A5; exact (Q_frame_eq s s' A1 A2 A3 A4 A5 Qs)).
  destruct a; try (apply FR; reflexivity).
  - apply Q_do_insert; assumption.
  - apply Q_do_remove; exact Qs.
  - (* disable *)
    unfold do_disable. destruct (lookup s h) as [[[t et] o]|] eqn:El; [|apply FR; reflexivity].
    pose proof (LIg_disp_unregister s o t (running s) L) as L1.
    pose proof (slots_disp_unregister s o t) as F1. pose proof (toks_frame_disp_unregister s o t) as F2. pose proof (running_disp_unregister s o t) as F3.
    destruct (disp_unregister s o t) as [[r d] s1]. cbn [snd] in *.
    assert (Q1 : Q s1) by (apply (Q_of_LI s); assumption).
    destruct r; [destruct d|..]; (apply (Q_frame_eq s1); [reflexivity..|exact Q1]).
  - (* enable *)
    unfold do_enable. destruct (lookup s h) as [[[t et] o]|] eqn:El; [|apply FR; reflexivity].
    destruct (slot_get_of_lookup _ _ _ _ _ W El) as (sl & Gt & Ho & Hs).
    pose proof (LIg_disp_register s o et sl (running s) L Gt Ho Hs) as L1.
    pose proof (slots_disp_register s o et) as F1. pose proof (toks_frame_disp_register s o et) as F2. pose proof (running_disp_register s o et) as F3.
    destruct (disp_register s o et) as [r s1]. cbn [snd] in *.
    assert (Q1 : Q s1) by (apply (Q_of_LI s); assumption).
    destruct (halted s1); [exact Q1|]. apply (Q_frame_eq s1); [reflexivity..|exact Q1].
  - (* update *)
    unfold do_update. destruct (lookup s h) as [[[t et] o]|] eqn:El; [|apply FR; reflexivity].
    destruct (slot_get_of_lookup _ _ _ _ _ W El) as (sl & Gt & Ho & Hs).
    pose proof (LIg_disp_reregister s o et sl (running s) L Gt Ho Hs) as L1.
    pose proof (slots_disp_reregister s o et) as F1. pose proof (toks_frame_disp_reregister s o et) as F2. pose proof (running_disp_reregister s o et) as F3.
    destruct (disp_reregister s o et) as [[r d] s1]. cbn [snd] in *.
    assert (Q1 : Q s1) by (apply (Q_of_LI s); assumption).
    destruct (halted s1); [exact Q1|]. destruct r; [destruct d|..]; (apply (Q_frame_eq s1); [reflexivity..|exact Q1]).
  - (* setint *)
    unfold do_setint. destruct (objs s h) as [ob|] eqn:Eo; [|apply FR; reflexivity].
    destruct (negb (o_ext ob)); [apply FR; reflexivity|]. destruct (is_running s h); [apply FR; reflexivity|].
    destruct (o_src ob) as [lc own subs tmr|g|tm|c g] eqn:Es; try (apply FR; reflexivity).
    apply (Q_frame_keep s); [cbn; apply slots_set_obj_src|cbn; apply lifecycle_set_obj_src| |cbn; apply toks_set_obj_src|cbn; apply running_set_obj_src|exact Qs].
    eapply objs_keep_trans; [apply objs_keep_set_obj_src|apply objs_keep_eq; reflexivity]. intros ob0 E. rewrite Eo in E. injection E as <-. rewrite Es. reflexivity.
  - (* setdl *)
    unfold do_setdl. destruct (objs s h) as [ob|] eqn:Eo; [|apply FR; reflexivity].
    destruct (negb (o_ext ob)); [apply FR; reflexivity|]. destruct (is_running s h); [apply FR; reflexivity|].
    destruct (o_src ob) as [lc own subs [tm|]|g|tm|c g] eqn:Es; try (apply FR; reflexivity).
    + apply (Q_frame_keep s); [cbn; apply slots_set_obj_src|cbn; apply lifecycle_set_obj_src| |cbn; apply toks_set_obj_src|cbn; apply running_set_obj_src|exact Qs].
      eapply objs_keep_trans; [apply objs_keep_set_obj_src|apply objs_keep_eq; reflexivity]. intros ob0 E. rewrite Eo in E. injection E as <-. rewrite Es. reflexivity.
    + apply (Q_frame_keep s); [cbn; apply slots_set_obj_src|cbn; apply lifecycle_set_obj_src| |cbn; apply toks_set_obj_src|cbn; apply running_set_obj_src|exact Qs].
      eapply objs_keep_trans; [apply objs_keep_set_obj_src|apply objs_keep_eq; reflexivity]. intros ob0 E. rewrite Eo in E. injection E as <-. rewrite Es. reflexivity.
  - (* intoinner *)
    unfold do_intoinner. destruct (objs s h) as [ob|] eqn:Eo; [|apply FR; reflexivity].
    destruct (negb (o_ext ob)); [apply FR; reflexivity|].
    destruct (in_slots (slots s) h || is_running s h) eqn:E; [apply FR; reflexivity|].
    apply orb_false_iff in E as [E1 E2].
    pose proof (LIr_drop_obj s h ob L E1 E2) as L1.
    apply (Q_of_LI s); [reflexivity|reflexivity|reflexivity| |exact Qs].
    apply (LI_frame (drop_obj s h ob)); [reflexivity|reflexivity|apply objs_keep_eq; reflexivity|exact L1].
  - (* dropdisp *)
    unfold do_dropdisp. destruct (objs s h) as [ob|] eqn:Eo; [|apply FR; reflexivity].
    destruct (negb (o_ext ob)); [apply FR; reflexivity|].
    set (s1 := set_objs s (fupd (objs s) h (Some (mkObj (o_src ob) false)))).
    assert (L1 : LI s1 (running s1)).
    { apply (LI_frame s); [reflexivity|reflexivity| |exact L]. intros o' ob' H'. unfold s1. cbn [objs set_objs]. unfold fupd.
      destruct (N.eqb_spec o' h) as [->|]; [|exists ob'; split; [exact H'|reflexivity]]. rewrite Eo in H'. injection H' as <-. eexists. split; reflexivity. }
    apply (LIr_maybe_drop s1 h) in L1.
    apply (Q_of_LI s); [cbn; rewrite slots_maybe_drop; reflexivity|cbn; rewrite toks_maybe_drop; reflexivity|cbn; rewrite running_maybe_drop; reflexivity| |exact Qs].
    apply (LI_frame (maybe_drop s1 h)); [reflexivity|reflexivity|apply objs_keep_eq; reflexivity|exact L1].
  - unfold do_send. destruct (env_send _ _ _) as [e' [rc|]]; apply FR; reflexivity.
  - unfold do_send. destruct (env_send _ _ _) as [e' [rc|]]; apply FR; reflexivity.
  - unfold do_cancelidle. destruct (match ridle s with Some r => r =? i | None => false end); apply FR; reflexivity.
Qed.

(* ---------- scripts and callbacks ---------- *)
Lemma Q_exec_actions l : forall s, Q s -> gens_small (slots (exec_actions s l)) -> Q (exec_actions s l).
Proof.
  unfold exec_actions. induction l as [|a l IH]; intros s Qs Gf; cbn [fold_left] in *; [exact Qs|].
  apply IH; [|exact Gf]. apply Q_exec_action; [exact Qs|].
  eapply gens_small_mono; [|exact Gf]. apply (proj2 (exec_actions_sstep l (exec_action s a))).
Qed.
Lemma Q_callback scr s h sub p : Q s -> gens_small (slots (fst (callback scr s h sub p))) -> Q (fst (callback scr s h sub p)).
Proof.
  intros Qs Gf. unfold callback in *. cbn [fst] in *. apply Q_exec_actions; [|exact Gf].
  apply (Q_frame_eq s); try reflexivity. exact Qs.
Qed.
Lemma running_callback scr s h sub p : running (fst (callback scr s h sub p)) = running s.
Proof. unfold callback. cbn [fst]. rewrite running_exec_actions. reflexivity. Qed.

Lemma Q_chan_loop scr fuel : forall s h c, Q s -> gens_small (slots (fst (fst (chan_loop scr fuel s h c)))) -> Q (fst (fst (chan_loop scr fuel s h c))).
Proof.
  induction fuel as [|f IH]; intros s h c Qs Gf; cbn [chan_loop] in *; [exact Qs|].
  destruct (halted s); [exact Qs|]. destruct (chans (en s) c) as [ch|]; [|exact Qs].
  destruct (ch_q ch) as [|v q'].
  - destruct (ch_senders ch =? 0); [|exact Qs].
    pose proof (Q_callback scr s h 1%Z 0%Z Qs) as C. destruct (callback scr s h 1%Z 0%Z) as [s2 sc]. cbn [fst] in *. apply C. exact Gf.
  - match goal with |- context [callback scr ?x h 0%Z v] => set (s1 := x) in * end.
    assert (Q1 : Q s1) by (apply (Q_frame_eq s); try reflexivity; exact Qs).
    pose proof (Q_callback scr s1 h 0%Z v Q1) as C. pose proof (chan_loop_sstep scr f) as SS.
    destruct (callback scr s1 h 0%Z v) as [s2 sc]. cbn [fst] in *.
    apply IH; [|exact Gf]. apply C. eapply gens_small_mono; [|exact Gf]. apply (proj2 (SS s2 h c)).
Qed.
Lemma running_chan_loop scr fuel : forall s h c, running (fst (fst (chan_loop scr fuel s h c))) = running s.
Proof.
  induction fuel as [|f IH]; intros s h c; cbn [chan_loop]; [reflexivity|].
  destruct (halted s); [reflexivity|]. destruct (chans (en s) c) as [ch|]; [|reflexivity].
  destruct (ch_q ch) as [|v q'].
  - destruct (ch_senders ch =? 0); [|reflexivity].
    pose proof (running_callback scr s h 1%Z 0%Z) as C. destruct (callback scr s h 1%Z 0%Z) as [s2 sc]. exact C.
  - match goal with |- context [callback scr ?x h 0%Z v] => set (s1 := x) end.
    pose proof (running_callback scr s1 h 0%Z v) as C. destruct (callback scr s1 h 0%Z v) as [s2 sc]. cbn [fst] in C. rewrite IH. exact C.
Qed.

(* re-arming a timer (or any change of the source that keeps its lc flag) *)
Lemma Q_set_obj_src_same_lc s o x : (forall ob, objs s o = Some ob -> src_lc x = src_lc (o_src ob)) -> Q s -> Q (set_obj_src s o x).
Proof.
  intros H Qs. apply (Q_frame_keep s); [apply slots_set_obj_src|apply lifecycle_set_obj_src|apply objs_keep_set_obj_src; exact H|apply toks_set_obj_src|apply running_set_obj_src|exact Qs].
Qed.

(* ---------- the object being processed keeps existing, with the same lc flag, whatever the callbacks do ---------- *)
Definition keep_o (s s' : st) (o : N) : Prop :=
  forall ob, objs s o = Some ob -> exists ob', objs s' o = Some ob' /\ src_lc (o_src ob') = src_lc (o_src ob).
Lemma keep_o_refl s o : keep_o s s o.
Proof. intros ob H. exists ob. split; [exact H|reflexivity]. Qed.
Lemma keep_o_trans a b c o : keep_o a b o -> keep_o b c o -> keep_o a c o.
Proof. intros H1 H2 ob H. destruct (H1 ob H) as [ob1 [A B]]. destruct (H2 ob1 A) as [ob2 [C D]]. exists ob2. split; [exact C|congruence]. Qed.
Lemma keep_o_of_keep s s' o : objs_keep s s' -> keep_o s s' o.
Proof. intros K ob H. exact (K o ob H). Qed.
Lemma keep_o_eq s s' o : objs s' = objs s -> keep_o s s' o.
Proof. intros E. apply keep_o_of_keep. apply objs_keep_eq. exact E. Qed.

Lemma disp_reregister_objs_keep s o t : objs_keep s (snd (disp_reregister s o t)).
Proof.
  unfold disp_reregister. destruct (objs s o) as [ob|] eqn:Eo; [|apply objs_keep_refl]. destruct (is_running s o); [apply objs_keep_refl|].
  pose proof (src_lc_reregister (en s) (o_src ob) (factory_new t)) as LC.
  destruct (src_reregister _ _ _) as [[r x'] e1]. cbn [fst snd] in LC.
  assert (K : objs_keep s (set_obj_src (set_en s e1) o x')).
  { eapply objs_keep_trans; [apply (objs_keep_eq s (set_en s e1)); reflexivity|]. apply objs_keep_set_obj_src. intros ob0 E. change (objs s o = Some ob0) in E. rewrite Eo in E. injection E as <-. exact LC. }
  destruct r; cbn [snd]; try destruct (src_lc x'); intros o' ob' H'; destruct (K o' ob' H') as [ob2 [A2 B2]]; exists ob2;
    cbn [objs set_lifecycle panic set_halted emit set_log]; rewrite ?objs_regop; split; assumption.
Qed.
Lemma maybe_drop_keep_o s h o : is_running s o = true -> keep_o s (maybe_drop s h) o.
Proof.
  intros Hr ob H. exists ob. split; [|reflexivity]. unfold maybe_drop. destruct (objs s h) as [obh|] eqn:Eh; [|exact H].
  destruct (o_ext obh || in_slots (slots s) h); [exact H|]. destruct (is_running s h) eqn:Erh; [exact H|].
  unfold drop_obj. cbn [objs emit set_log set_objs set_en]. unfold fupd. destruct (N.eqb_spec o h) as [->|]; [congruence|exact H].
Qed.

Lemma keep_o_exec_action s a o : is_running s o = true -> keep_o s (exec_action s a) o.
Proof.
  intros Hr. unfold exec_action. destruct (halted s); [apply keep_o_refl|].
  destruct a as [h x|h|h|h|h|h j it m|h dl|h|h|fd v|fd|p|p|p|c v|c v|c|c|i|i|p fd|c fd bound|]; try (apply keep_o_eq; reflexivity).
  - (* insert *)
    unfold do_insert. destruct (objs s h) eqn:Eh; [apply keep_o_eq; reflexivity|].
    set (s0 := set_objs s (fupd (objs s) h (Some (mkObj x true)))).
    assert (K0 : keep_o s s0 o).
    { intros ob H. exists ob. split; [|reflexivity]. unfold s0. cbn [objs set_objs]. unfold fupd. destruct (N.eqb_spec o h) as [->|]; [congruence|exact H]. }
    destruct (vacant_entry (slots s0)) as [[i sl]|]; [|eapply keep_o_trans; [exact K0|apply keep_o_eq; reflexivity]].
    destruct (nth_error sl i) as [e|]; [|eapply keep_o_trans; [exact K0|apply keep_o_eq; reflexivity]].
    match goal with |- context [disp_register ?a ?b ?c] => pose proof (disp_register_objs_keep a b c) as KR; destruct (disp_register a b c) as [r s2] end.
    cbn [snd] in KR. eapply keep_o_trans; [exact K0|]. eapply keep_o_trans; [apply keep_o_of_keep; eapply objs_keep_trans; [|exact KR]; apply objs_keep_eq; reflexivity|].
    destruct (halted s2); [apply keep_o_refl|]. destruct r; apply keep_o_eq; reflexivity.
  - (* remove *)
    unfold do_remove. destruct (lookup s h) as [[[t et] o']|]; [|apply keep_o_eq; reflexivity].
    set (s1 := set_slots s (slot_set_obj (slots s) t None)).
    pose proof (disp_unregister_objs_keep s1 o' t) as K. pose proof (running_disp_unregister s1 o' t) as FRu.
    destruct (disp_unregister s1 o' t) as [[r d] s2]. cbn [snd] in *.
    eapply keep_o_trans; [apply keep_o_of_keep; eapply objs_keep_trans; [|exact K]; apply objs_keep_eq; reflexivity|].
    eapply keep_o_trans; [apply maybe_drop_keep_o|apply keep_o_eq; reflexivity].
    unfold is_running in *. rewrite FRu. exact Hr.
  - unfold do_disable. destruct (lookup s h) as [[[t et] o']|]; [|apply keep_o_eq; reflexivity].
    pose proof (disp_unregister_objs_keep s o' t) as K. destruct (disp_unregister s o' t) as [[r d] s1]. cbn [snd] in K.
    eapply keep_o_trans; [apply keep_o_of_keep; exact K|]. destruct r; [destruct d|..]; apply keep_o_eq; reflexivity.
  - unfold do_enable. destruct (lookup s h) as [[[t et] o']|]; [|apply keep_o_eq; reflexivity].
    pose proof (disp_register_objs_keep s o' et) as K. destruct (disp_register s o' et) as [r s1]. cbn [snd] in K.
    eapply keep_o_trans; [apply keep_o_of_keep; exact K|]. destruct (halted s1); [apply keep_o_refl|apply keep_o_eq; reflexivity].
  - unfold do_update. destruct (lookup s h) as [[[t et] o']|]; [|apply keep_o_eq; reflexivity].
    pose proof (disp_reregister_objs_keep s o' et) as K. destruct (disp_reregister s o' et) as [[r d] s1]. cbn [snd] in K.
    eapply keep_o_trans; [apply keep_o_of_keep; exact K|]. destruct (halted s1); [apply keep_o_refl|]. destruct r; [destruct d|..]; apply keep_o_eq; reflexivity.
  - unfold do_setint. destruct (objs s h) as [ob|] eqn:Eo; [|apply keep_o_eq; reflexivity]. destruct (negb (o_ext ob)); [apply keep_o_eq; reflexivity|].
    destruct (is_running s h); [apply keep_o_eq; reflexivity|]. destruct (o_src ob) as [lc own subs tmr|g|tm|c g] eqn:Es; try (apply keep_o_eq; reflexivity).
    eapply keep_o_trans; [apply keep_o_of_keep; apply objs_keep_set_obj_src|apply keep_o_eq; reflexivity]. intros ob0 E. rewrite Eo in E. injection E as <-. rewrite Es. reflexivity.
  - unfold do_setdl. destruct (objs s h) as [ob|] eqn:Eo; [|apply keep_o_eq; reflexivity]. destruct (negb (o_ext ob)); [apply keep_o_eq; reflexivity|].
    destruct (is_running s h); [apply keep_o_eq; reflexivity|]. destruct (o_src ob) as [lc own subs [tm|]|g|tm|c g] eqn:Es; try (apply keep_o_eq; reflexivity);
      (eapply keep_o_trans; [apply keep_o_of_keep; apply objs_keep_set_obj_src|apply keep_o_eq; reflexivity]; intros ob0 E; rewrite Eo in E; injection E as <-; rewrite Es; reflexivity).
  - unfold do_intoinner. destruct (objs s h) as [ob|] eqn:Eo; [|apply keep_o_eq; reflexivity]. destruct (negb (o_ext ob)); [apply keep_o_eq; reflexivity|].
    destruct (in_slots (slots s) h || is_running s h) eqn:E; [apply keep_o_eq; reflexivity|]. apply orb_false_iff in E as [_ E2].
    intros ob' H. exists ob'. split; [|reflexivity]. unfold drop_obj. cbn [objs emit set_log set_objs set_en]. unfold fupd.
    destruct (N.eqb_spec o h) as [->|]; [congruence|exact H].
  - unfold do_dropdisp. destruct (objs s h) as [ob|] eqn:Eo; [|apply keep_o_eq; reflexivity]. destruct (negb (o_ext ob)); [apply keep_o_eq; reflexivity|].
    set (s1 := set_objs s (fupd (objs s) h (Some (mkObj (o_src ob) false)))).
    assert (K1 : keep_o s s1 o).
    { intros ob' H'. unfold s1. cbn [objs set_objs]. unfold fupd. destruct (N.eqb_spec o h) as [->|]; [|exists ob'; split; [exact H'|reflexivity]].
      rewrite Eo in H'. injection H' as <-. eexists. split; reflexivity. }
    eapply keep_o_trans; [exact K1|]. eapply keep_o_trans; [apply maybe_drop_keep_o; exact Hr|apply keep_o_eq; reflexivity].
  - unfold do_send. destruct (env_send _ _ _) as [e' [rc|]]; apply keep_o_eq; reflexivity.
  - unfold do_send. destruct (env_send _ _ _) as [e' [rc|]]; apply keep_o_eq; reflexivity.
  - unfold do_cancelidle. destruct (match ridle s with Some r => r =? i | None => false end); apply keep_o_eq; reflexivity.
Qed.
Lemma is_running_exec_action s a o : is_running (exec_action s a) o = is_running s o.
Proof. unfold is_running. rewrite running_exec_action. reflexivity. Qed.
Lemma keep_o_exec_actions l : forall s o, is_running s o = true -> keep_o s (exec_actions s l) o.
Proof.
  unfold exec_actions. induction l as [|a l IH]; intros s o Hr; cbn [fold_left]; [apply keep_o_refl|].
  eapply keep_o_trans; [apply keep_o_exec_action; exact Hr|apply IH]. rewrite is_running_exec_action. exact Hr.
Qed.
Lemma keep_o_callback scr s h sub p o : is_running s o = true -> keep_o s (fst (callback scr s h sub p)) o.
Proof.
  intros Hr. unfold callback. cbn [fst]. eapply keep_o_trans; [|apply keep_o_exec_actions; exact Hr]. apply keep_o_eq. reflexivity.
Qed.

(* ---------- one event at the object being processed ---------- *)
Lemma running_obj_process scr s o ev : running (fst (obj_process scr s o ev)) = running s.
Proof.
  unfold obj_process. destruct (objs s o) as [ob|]; [|reflexivity].
  destruct (o_src ob) as [lc own subs tmr|g|tm|c g].
  - destruct (if opt_tok_is own _ then _ else _) as [j|].
    + pose proof (running_callback scr s o j (zN (rd_code (ev_rd ev)))) as C. destruct (callback scr s o j _) as [s1 sc]. exact C.
    + destruct tmr as [tm|]; [|reflexivity]. cbn [fst]. unfold timer_sub_fire.
      destruct (tm_reg tm) as [[tk c]|]; [|reflexivity]. destruct (tm_dl tm) as [dl|]; [|reflexivity]. destruct (tok_eqb tk _); [|reflexivity].
      pose proof (running_callback scr s o (Z.of_nat (S (length subs))) dl) as C. destruct (callback scr s o _ dl) as [s1 sc]. cbn [fst] in C.
      destruct (sc_ret sc) as [|[[| |]|[| |]|]]; rewrite ?running_set_obj_src; exact C.
  - unfold ping_drain. destruct (opt_tok_is (g_tok g) _); [|reflexivity]. destruct (fd_read (en s) (g_fd g)) as [e1 v].
    destruct (v =? 0); [reflexivity|]. destruct (2 <=? v); cbn [fst]; [rewrite running_callback|]; reflexivity.
  - destruct (tm_reg tm) as [[tk c]|]; [|reflexivity]. destruct (tm_dl tm) as [dl|]; [|reflexivity]. destruct (tok_eqb tk _); [|reflexivity].
    pose proof (running_callback scr s o 0%Z dl) as C. destruct (callback scr s o 0%Z dl) as [s1 sc]. cbn [fst] in C.
    destruct (sc_ret sc) as [|[[| |]|[| |]|]]; cbn [fst]; rewrite ?running_set_obj_src; exact C.
  - unfold ping_drain. destruct (opt_tok_is (g_tok g) _); [|reflexivity]. destruct (fd_read (en s) (g_fd g)) as [e1 v].
    destruct (v =? 0); [reflexivity|]. cbn [fst snd].
    destruct (2 <=? v).
    + pose proof (running_chan_loop scr (chan_max (en s) c) (set_en s e1) o c) as Lp. destruct (chan_loop scr _ (set_en s e1) o c) as [[s2 clear] disc]. cbn [fst] in Lp.
      destruct disc; [exact Lp|]. destruct clear; exact Lp.
    + reflexivity.
Qed.

Lemma Q_set_en s e : Q s -> Q (set_en s e).
Proof. intros Qs. apply (Q_frame_eq s); try reflexivity. exact Qs. Qed.

Lemma Q_obj_process scr s o ev : Q s -> is_running s o = true ->
  gens_small (slots (fst (obj_process scr s o ev))) -> Q (fst (obj_process scr s o ev)).
Proof.
  intros Qs Hr Gf. unfold obj_process in *. destruct (objs s o) as [ob|] eqn:Eo; [|exact Qs].
  destruct (o_src ob) as [lc own subs tmr|g|tm|c g] eqn:Es.
  - destruct (if opt_tok_is own _ then _ else _) as [j|].
    + pose proof (Q_callback scr s o j (zN (rd_code (ev_rd ev))) Qs) as C. destruct (callback scr s o j _) as [s1 sc]. cbn [fst] in *. apply C. exact Gf.
    + destruct tmr as [tm|]; [|exact Qs]. cbn [fst] in *. unfold timer_sub_fire in *.
      destruct (tm_reg tm) as [[tk c]|]; [|exact Qs]. destruct (tm_dl tm) as [dl|]; [|exact Qs]. destruct (tok_eqb tk _); [|exact Qs].
      pose proof (Q_callback scr s o (Z.of_nat (S (length subs))) dl Qs) as C.
      pose proof (keep_o_callback scr s o (Z.of_nat (S (length subs))) dl o Hr ob Eo) as [ob1 [E1 Lc1]].
      destruct (callback scr s o _ dl) as [s1 sc]. cbn [fst] in *.
      assert (LCx : forall tm' ob0, objs s1 o = Some ob0 -> src_lc (SComp lc own subs (Some tm')) = src_lc (o_src ob0)).
      { intros tm' ob0 E0. rewrite E1 in E0. injection E0 as <-. rewrite Lc1, Es. reflexivity. }
      destruct (sc_ret sc) as [|[[| |]|[| |]|]]; rewrite ?slots_set_obj_src in Gf; cbn [slots eenv set_en] in Gf;
        try (apply C; exact Gf);
        (apply Q_set_obj_src_same_lc; [intros ob0 E0; apply (LCx _ ob0); exact E0|]); try apply Q_set_en; apply C; exact Gf.
  - unfold ping_drain in *. destruct (opt_tok_is (g_tok g) _); [|exact Qs]. destruct (fd_read (en s) (g_fd g)) as [e1 v].
    destruct (v =? 0); [apply Q_set_en; exact Qs|]. destruct (2 <=? v); cbn [fst] in *; [|apply Q_set_en; exact Qs].
    apply Q_callback; [apply Q_set_en; exact Qs|exact Gf].
  - destruct (tm_reg tm) as [[tk c]|]; [|exact Qs]. destruct (tm_dl tm) as [dl|]; [|exact Qs]. destruct (tok_eqb tk _); [|exact Qs].
    pose proof (Q_callback scr s o 0%Z dl Qs) as C.
    pose proof (keep_o_callback scr s o 0%Z dl o Hr ob Eo) as [ob1 [E1 Lc1]].
    destruct (callback scr s o 0%Z dl) as [s1 sc]. cbn [fst] in *.
    assert (LCx : forall tm' ob0, objs s1 o = Some ob0 -> src_lc (STimer tm') = src_lc (o_src ob0)).
    { intros tm' ob0 E0. rewrite E1 in E0. injection E0 as <-. rewrite Lc1, Es. reflexivity. }
    destruct (sc_ret sc) as [|[[| |]|[| |]|]]; cbn [fst] in *; rewrite ?slots_set_obj_src in Gf; cbn [slots eenv set_en] in Gf;
      try (apply C; exact Gf);
      (apply Q_set_obj_src_same_lc; [intros ob0 E0; apply (LCx _ ob0); exact E0|]); try apply Q_set_en; apply C; exact Gf.
  - unfold ping_drain in *. destruct (opt_tok_is (g_tok g) _); [|cbn [fst snd] in *; exact Qs]. destruct (fd_read (en s) (g_fd g)) as [e1 v].
    destruct (v =? 0); [apply Q_set_en; exact Qs|]. cbn [fst snd] in *.
    destruct (2 <=? v); [|cbn [fst] in *; apply Q_set_en; apply Q_set_en; exact Qs].
    pose proof (Q_chan_loop scr (chan_max (en s) c) (set_en s e1) o c (Q_set_en s e1 Qs)) as Lp.
    destruct (chan_loop scr _ (set_en s e1) o c) as [[s2 clear] disc]. cbn [fst] in *.
    destruct disc; [apply Lp; exact Gf|]. destruct clear; cbn [fst] in *; [apply Lp; exact Gf|apply Q_set_en; apply Lp; exact Gf].
Qed.

(* ---------- the end of an event's processing: the excused entry is resolved ---------- *)
(* what is known between set_running None and end_processing: nothing runs, but the entry of (o, reg) may still dangle *)
Definition SLOTR (s : st) (o : N) (reg : tok) : Prop :=
  t_sub reg = 0 /\
  (exists slr, nth_error (slots s) (N.to_nat (t_id reg)) = Some slr /\ t_ver reg <= s_gen slr /\ (s_gen slr = t_ver reg -> s_obj slr = Some o \/ s_obj slr = None)) /\
  (forall i sli, nth_error (slots s) i = Some sli -> s_obj sli = Some o -> i = N.to_nat (t_id reg) /\ s_gen sli = t_ver reg).
Definition P (s : st) (o : N) (reg : tok) : Prop :=
  LI s (Some (o, reg)) /\ gens_ok s /\ TS s /\ UNIQ s /\ running s = None /\ SLOTR s o reg.

Lemma P_frame_keep s s' o reg : slots s' = slots s -> lifecycle s' = lifecycle s -> objs_keep s s' -> toks s' = toks s -> running s' = running s ->
  P s o reg -> P s' o reg.
Proof.
  intros Hs Hl Ho Ht Hr (L & [W G] & T & U & R & S). unfold P, gens_ok, TS, UNIQ, SLOTR. rewrite Hs, Hr, Ht.
  split; [apply (LI_frame s); [exact Hs|exact Hl|exact Ho|exact L]|].
  split; [split; [exact W|exact G]|]. split; [exact T|]. split; [exact U|]. split; [exact R|exact S].
Qed.

(* re-registering the processed source: the entry it records is its own, excused if it dangles *)
Lemma LIx_disp_reregister s o reg : LI s (Some (o, reg)) -> t_sub reg = 0 -> LI (snd (disp_reregister s o reg)) (Some (o, reg)).
Proof.
  intros L Hs. unfold disp_reregister. destruct (objs s o) as [ob|] eqn:Eo; [|exact L].
  destruct (is_running s o); [exact L|].
  pose proof (src_lc_reregister (en s) (o_src ob) (factory_new reg)) as LC.
  destruct (src_reregister _ _ _) as [[rr x'] e1]. cbn [fst snd] in LC.
  assert (K : objs_keep s (set_obj_src (set_en s e1) o x')).
  { eapply objs_keep_trans; [apply (objs_keep_eq s (set_en s e1)); reflexivity|]. apply objs_keep_set_obj_src. intros ob0 E. change (objs s o = Some ob0) in E. rewrite Eo in E. injection E as <-. exact LC. }
  assert (L2 : LI (set_obj_src (set_en s e1) o x') (Some (o, reg))).
  { apply (LI_frame s); [rewrite slots_set_obj_src; reflexivity|rewrite lifecycle_set_obj_src; reflexivity|exact K|exact L]. }
  destruct rr; cbn [snd].
  - set (s3 := regop (set_obj_src (set_en s e1) o x') o x' 1%Z true).
    assert (L3 : LI s3 (Some (o, reg))) by (apply (LI_frame (set_obj_src (set_en s e1) o x')); [apply slots_regop|apply lifecycle_regop|apply objs_keep_eq; apply objs_regop|exact L2]).
    destruct (src_lc x') eqn:Elc; [|exact L3].
    destruct L3 as (A & B & C). split; [|split]; [|exact B|exact C].
    intros e He. cbn [lifecycle set_lifecycle] in He. apply in_lc_register in He. destruct He as [He|He]; [apply A; exact He|]. subst e.
    assert (F : forget_sub_id reg = reg) by (destruct reg; cbn in *; subst; reflexivity). rewrite F.
    split; [exact Hs|]. right. destruct (K o ob Eo) as [ob' [Eo' LC']].
    exists o, ob'. split; [reflexivity|]. split; [unfold s3; cbn [objs set_lifecycle]; rewrite objs_regop; exact Eo'|congruence].
  - apply (LI_frame (set_obj_src (set_en s e1) o x')); [apply slots_regop|apply lifecycle_regop|apply objs_keep_eq; apply objs_regop|exact L2].
  - exact L2.
Qed.

Lemma P_apply_post s o reg r : P s o reg -> P (snd (apply_post s o reg r)) o reg.
Proof.
  intros Ps. pose proof Ps as (L & [W G] & T & U & Rn & S). unfold apply_post. destruct r.
  - exact Ps.
  - (* Reregister *)
    destruct S as (Ssub & S2 & S3).
    pose proof (LIx_disp_reregister s o reg L Ssub) as L1.
    pose proof (slots_disp_reregister s o reg) as F1. pose proof (toks_frame_disp_reregister s o reg) as F2. pose proof (running_disp_reregister s o reg) as F3.
    destruct (disp_reregister s o reg) as [[rs d] sx]. cbn [snd] in *.
    unfold P, gens_ok, TS, UNIQ, SLOTR. rewrite F1, F2, F3.
    split; [exact L1|]. split; [split; [exact W|exact G]|]. split; [exact T|]. split; [exact U|]. split; [exact Rn|]. split; [exact Ssub|split; [exact S2|exact S3]].
  - (* Disable *)
    pose proof (LIg_disp_unregister s o reg (Some (o, reg)) L) as L1.
    pose proof (slots_disp_unregister s o reg) as F1. pose proof (toks_frame_disp_unregister s o reg) as F2. pose proof (running_disp_unregister s o reg) as F3.
    destruct (disp_unregister s o reg) as [[rs d] sx]. cbn [snd] in *.
    unfold P, gens_ok, TS, UNIQ, SLOTR. rewrite F1, F2, F3.
    split; [exact L1|]. split; [split; [exact W|exact G]|]. split; [exact T|]. split; [exact U|]. split; [exact Rn|exact S].
  - (* Remove: the slot the token resolves to is vacated *)
    cbn [snd]. destruct (slot_get (slots s) reg) as [slr|] eqn:Eg; [|exact Ps].
    destruct (slot_get_some _ _ _ Eg) as [Hn Hss]. destruct S as (Ssub & (slr' & Hn' & Sle & Ssame) & S3).
    rewrite Hn in Hn'. injection Hn' as <-.
    assert (Hgen : s_gen slr = t_ver reg) by (apply (slot_get_gen s reg slr (conj W G) Hn); exact Hss).
    set (i0 := N.to_nat (t_id reg)) in *.
    set (new := mkSlot (s_tok slr) None (s_gen slr)).
    assert (SL : slots (set_slots s (slot_set_obj (slots s) reg None)) = upd (slots s) i0 new).
    { cbn [slots set_slots]. unfold slot_set_obj. fold i0. rewrite Hn. reflexivity. }
    assert (Hnth : forall j slj, nth_error (upd (slots s) i0 new) j = Some slj -> (j = i0 /\ slj = new) \/ (j <> i0 /\ nth_error (slots s) j = Some slj)).
    { intros j slj Hj. destruct (Nat.eq_dec i0 j) as [<-|Ne]; [left|right].
      - rewrite (nth_error_upd_same _ _ _ _ Hn) in Hj. injection Hj as <-. split; reflexivity.
      - rewrite nth_error_upd_other in Hj by exact Ne. split; [intros X; apply Ne; symmetry; exact X|exact Hj]. }
    unfold P, gens_ok, TS, UNIQ, SLOTR. rewrite SL. cbn [toks running lifecycle set_slots].
    split; [|split; [split|split; [exact T|split; [|split; [exact Rn|split; [exact Ssub|split]]]]]].
    + (* LI *)
      destruct L as (A & B & C). split; [|split].
      * intros e He. cbn [lifecycle set_slots] in He. destruct (A e He) as [Se [Gd|E]]; (split; [exact Se|]); [|right; exact E].
        destruct Gd as (sle & oe & obe & G1 & G2 & G3 & G4). destruct (slot_get_some _ _ _ G1) as [En0 Es0].
        destruct (Nat.eq_dec (N.to_nat (t_id e)) i0) as [Eq|Ne].
        -- right. rewrite Eq, Hn in En0. injection En0 as <-.
           assert (Ee : e = reg) by (eapply same_slot_same_tok; eassumption). subst e.
           destruct (Ssame Hgen) as [Ho|Ho]; [|congruence]. rewrite Ho in G2. injection G2 as <-.
           exists o, obe. repeat split; assumption.
        -- left. exists sle, oe, obe. repeat split; try assumption.
           unfold slot_get. rewrite SL, nth_error_upd_other by (intros X; apply Ne; symmetry; exact X). rewrite En0, Es0. reflexivity.
      * intros j slj oj Hj Hoj. rewrite SL in Hj. destruct (Hnth j slj Hj) as [[_ ->]|[_ Hj']]; [discriminate|]. exact (B j slj oj Hj' Hoj).
      * exact C.
    + intros j slj Hj. destruct (Hnth j slj Hj) as [[-> ->]|[_ Hj']]; [exact (W _ _ Hn)|exact (W _ _ Hj')].
    + apply (gens_small_upd_same _ _ slr); [exact Hn|reflexivity|exact G].
    + intros a b sla slb oo Ha Hb Hoa Hobb. destruct (Hnth a sla Ha) as [[_ ->]|[_ Ha']]; [discriminate|]. destruct (Hnth b slb Hb) as [[_ ->]|[_ Hb']]; [discriminate|].
      exact (U a b sla slb oo Ha' Hb' Hoa Hobb).
    + exists new. split; [eapply nth_error_upd_same; exact Hn|]. cbn [s_gen s_obj new]. split; [exact Sle|intros _; right; reflexivity].
    + intros j slj Hj Hoj. destruct (Hnth j slj Hj) as [[_ ->]|[_ Hj']]; [discriminate|]. exact (S3 j slj Hj' Hoj).
Qed.

Lemma LI_drop_zombies l : forall s, LI s None -> running s = None -> LI (drop_zombies s l) None.
Proof.
  induction l as [|z r IH]; intros s L Hr; cbn [drop_zombies]; [exact L|].
  apply IH; [apply LI_maybe_drop; exact L|rewrite running_maybe_drop; exact Hr].
Qed.
Lemma toks_drop_zombies l : forall s, toks (drop_zombies s l) = toks s.
Proof. induction l as [|z r IH]; intros s; cbn [drop_zombies]; [reflexivity|]. rewrite IH. apply toks_maybe_drop. Qed.
Lemma running_drop_zombies' l : forall s, running (drop_zombies s l) = running s.
Proof. induction l as [|z r IH]; intros s; cbn [drop_zombies]; [reflexivity|]. rewrite IH. apply running_maybe_drop. Qed.

Lemma P_finish s o reg : P s o reg ->
  let s6 := if slot_vacant_for s reg then snd (disp_unregister s o reg) else s in
  Q (end_processing s6 o) /\ running (end_processing s6 o) = None.
Proof.
  intros (L & [W G] & T & U & Rn & (Ssub & (slr & Hn & Sle & Ssame) & S3)). cbv zeta.
  assert (HO : exists ob, objs s o = Some ob).
  { destruct L as (_ & _ & C). specialize (C o reg eq_refl). destruct (objs s o) as [ob|]; [exists ob; reflexivity|congruence]. }
  destruct HO as [ob Eo].
  assert (Hnr : is_running s o = false) by (unfold is_running; rewrite Rn; reflexivity).
  (* the state after the deferred unregistration, with every entry resolved *)
  assert (S6 : let s6 := if slot_vacant_for s reg then snd (disp_unregister s o reg) else s in
               LI s6 None /\ slots s6 = slots s /\ toks s6 = toks s /\ running s6 = None).
  { cbv zeta. unfold slot_vacant_for. destruct (slot_get (slots s) reg) as [slg|] eqn:Eg.
    - destruct (slot_get_some _ _ _ Eg) as [Hng Hss]. fold (N.to_nat (t_id reg)) in Hng. rewrite Hn in Hng. injection Hng as <-.
      assert (Hgen : s_gen slr = t_ver reg) by (apply (slot_get_gen s reg slr (conj W G) Hn); exact Hss).
      destruct (s_obj slr) as [o2|] eqn:Eo2.
      + (* still occupied: by the source itself; its entry resolves *)
        destruct (Ssame Hgen) as [Ho|Ho]; [|discriminate]. injection Ho as ->.
        split; [|split; [reflexivity|split; [reflexivity|exact Rn]]].
        destruct L as (A & B & C). split; [|split]; [|exact B|intros o' t' H; discriminate].
        intros e He. destruct (A e He) as [Se [Gd|E]]; (split; [exact Se|]); left; [exact Gd|].
        destruct E as (o' & ob' & E1 & E2 & E3). injection E1 as <- <-. exists slr, o, ob'. repeat split; assumption.
      + (* vacated: the deferred unregistration drops the entry *)
        pose proof (LIg_disp_unregister s o reg (Some (o, reg)) L) as L1.
        pose proof (disp_unregister_objs_keep s o reg) as K.
        pose proof (fun Lc => disp_unregister_removes_g s o reg ob Hnr Eo Lc) as RM.
        pose proof (slots_disp_unregister s o reg) as F1. pose proof (toks_frame_disp_unregister s o reg) as F2. pose proof (running_disp_unregister s o reg) as F3.
        destruct (disp_unregister s o reg) as [[rs d] sx]. cbn [snd] in *.
        split; [|split; [exact F1|split; [exact F2|rewrite F3; exact Rn]]].
        destruct L1 as (A & B & C). split; [|split]; [|exact B|intros o' t' H; discriminate].
        intros e He. destruct (A e He) as [Se [Gd|E]]; (split; [exact Se|]); left; [exact Gd|]. exfalso.
        destruct E as (o' & ob' & E1 & E2 & E3). injection E1 as <- <-.
        destruct (K o ob Eo) as [ob2 [K1 K2]]. rewrite K1 in E2. injection E2 as <-. rewrite K2 in E3.
        specialize (RM E3 reg He). rewrite (tok_eqb_of_same reg reg) in RM; [discriminate| |exact Se|exact Se]. unfold same_source_as. rewrite !N.eqb_refl. reflexivity.
    - (* the token does not resolve any more (the slot went on to a later generation) *)
      pose proof (LIg_disp_unregister s o reg (Some (o, reg)) L) as L1.
      pose proof (disp_unregister_objs_keep s o reg) as K.
      pose proof (fun Lc => disp_unregister_removes_g s o reg ob Hnr Eo Lc) as RM.
      pose proof (slots_disp_unregister s o reg) as F1. pose proof (toks_frame_disp_unregister s o reg) as F2. pose proof (running_disp_unregister s o reg) as F3.
      destruct (disp_unregister s o reg) as [[rs d] sx]. cbn [snd] in *.
      split; [|split; [exact F1|split; [exact F2|rewrite F3; exact Rn]]].
      destruct L1 as (A & B & C). split; [|split]; [|exact B|intros o' t' H; discriminate].
      intros e He. destruct (A e He) as [Se [Gd|E]]; (split; [exact Se|]); left; [exact Gd|]. exfalso.
      destruct E as (o' & ob' & E1 & E2 & E3). injection E1 as <- <-.
      destruct (K o ob Eo) as [ob2 [K1 K2]]. rewrite K1 in E2. injection E2 as <-. rewrite K2 in E3.
      specialize (RM E3 reg He). rewrite (tok_eqb_of_same reg reg) in RM; [discriminate| |exact Se|exact Se]. unfold same_source_as. rewrite !N.eqb_refl. reflexivity. }
  cbv zeta in S6. destruct S6 as (L6 & F1 & F2 & F3).
  set (s6 := if slot_vacant_for s reg then snd (disp_unregister s o reg) else s) in *.
  unfold end_processing.
  set (s7 := set_zombies (set_running s6 None) []).
  assert (L7 : LI s7 None) by (apply (LI_frame s6); [reflexivity|reflexivity|apply objs_keep_eq; reflexivity|exact L6]).
  assert (R7 : running s7 = None) by reflexivity.
  assert (Lf : LI (drop_zombies (maybe_drop s7 o) (zombies s6)) None).
  { apply LI_drop_zombies; [apply LI_maybe_drop; exact L7|rewrite running_maybe_drop; exact R7]. }
  assert (Rf : running (drop_zombies (maybe_drop s7 o) (zombies s6)) = None) by (rewrite running_drop_zombies', running_maybe_drop; exact R7).
  assert (Sf : slots (drop_zombies (maybe_drop s7 o) (zombies s6)) = slots s) by (rewrite slots_drop_zombies, slots_maybe_drop; exact F1).
  assert (Tf : toks (drop_zombies (maybe_drop s7 o) (zombies s6)) = toks s) by (rewrite toks_drop_zombies, toks_maybe_drop; exact F2).
  split; [|exact Rf].
  unfold Q, gens_ok, TS, UNIQ, RUN. rewrite Rf, Sf, Tf.
  split; [exact Lf|]. split; [split; [exact W|exact G]|]. split; [exact T|]. split; [exact U|intros ro rt H; discriminate].
Qed.

(* ---------- one event ---------- *)
Definition TOP (s : st) : Prop := halted s = true \/ (Q s /\ running s = None).

Lemma Q_process_event scr s ev : Q s -> running s = None -> gens_small (slots (fst (process_event scr s ev))) ->
  TOP (fst (process_event scr s ev)).
Proof.
  intros Qs Hr Gf. pose proof Qs as (L & [W G] & T & U & R).
  unfold process_event in *. set (reg := forget_sub_id (unpack (ev_key ev))) in *.
  destruct (slot_get (slots s) reg) as [sl|] eqn:Eg; [|right; split; [exact Qs|exact Hr]].
  destruct (s_obj sl) as [o|] eqn:Eo; [|right; split; [exact Qs|exact Hr]].
  destruct (slot_get_some _ _ _ Eg) as [Hn Hss].
  assert (Hgen : s_gen sl = t_ver reg) by (apply (slot_get_gen s reg sl (conj W G) Hn); exact Hss).
  set (sr := set_running s (Some (o, reg))) in *.
  assert (Qr : Q sr).
  { unfold Q, gens_ok, TS, UNIQ, RUN. cbn [running slots toks sr set_running].
    split; [|split; [split; [exact W|exact G]|split; [exact T|split; [exact U|]]]].
    - rewrite Hr in L. destruct L as (A & B & C). split; [|split].
      + intros e He. destruct (A e He) as [Se [Gd|E]]; [|destruct (excused_none _ _ E)]. split; [exact Se|]. left. exact Gd.
      + exact B.
      + intros o' t' [= <- <-]. exact (B _ sl o Hn Eo).
    - intros ro rt [= <- <-]. split; [reflexivity|]. split.
      + exists sl. split; [exact Hn|]. split; [lia|]. intros _. left. exact Eo.
      + intros i sli Hi Hoi. assert (i = N.to_nat (t_id reg)) by exact (U i _ sli sl o Hi Hn Hoi Eo). subst i.
        split; [reflexivity|]. rewrite Hn in Hi. injection Hi as <-. exact Hgen. }
  assert (Hrun : is_running sr o = true) by (unfold is_running, sr; cbn; apply N.eqb_refl).
  pose proof (Q_obj_process scr sr o ev Qr Hrun) as QO. pose proof (running_obj_process scr sr o ev) as RO.
  destruct (obj_process scr sr o ev) as [s2 ret]. cbn [fst] in *.
  destruct (halted s2) eqn:H2; [left; exact H2|].
  set (s4 := set_pending (set_running s2 None) Continue) in *.
  (* the slots from s2 on only move forward *)
  assert (SS : sstep (slots s2) (slots (snd (match ret with None => (false, s4) | Some r => apply_post s4 o reg (match r with Continue => pending (set_running s2 None) | _ => r end) end)))).
  { destruct ret as [r|]; [change (slots s2) with (slots s4); apply apply_post_sstep|apply sstep_refl]. }
  assert (PS : P s4 o reg -> P (snd (match ret with None => (false, s4) | Some r => apply_post s4 o reg (match r with Continue => pending (set_running s2 None) | _ => r end) end)) o reg).
  { intros P4. destruct ret as [r|]; [apply P_apply_post; exact P4|exact P4]. }
  destruct (match ret with None => (false, s4) | Some r => apply_post s4 o reg _ end) as [ok s5]. cbn [snd] in *.
  destruct (halted s5) eqn:H5; [left; exact H5|].
  cbn [fst] in Gf.
  assert (G5 : gens_small (slots s5)).
  { rewrite slots_end_processing in Gf. destruct (slot_vacant_for s5 reg); [|exact Gf].
    pose proof (slots_disp_unregister s5 o reg) as F. destruct (disp_unregister s5 o reg) as [[rs d] sx]. cbn [snd] in F. rewrite F in Gf. exact Gf. }
  assert (G2 : gens_small (slots s2)) by (eapply gens_small_mono; [apply (proj2 SS)|exact G5]).
  specialize (QO G2). destruct QO as (L2 & [W2 _] & T2 & U2 & R2).
  assert (Hr2 : running s2 = Some (o, reg)) by (rewrite RO; reflexivity).
  assert (P4 : P s4 o reg).
  { unfold P, gens_ok, TS, UNIQ, SLOTR. cbn [slots toks running s4 set_pending set_running].
    split; [|split; [split; [exact W2|exact G2]|split; [exact T2|split; [exact U2|split; [reflexivity|]]]]].
    - rewrite Hr2 in L2. apply (LI_frame s2); [reflexivity|reflexivity|apply objs_keep_eq; reflexivity|exact L2].
    - destruct (R2 o reg Hr2) as (A & B & C). split; [exact A|split; [exact B|exact C]]. }
  specialize (PS P4).
  cbn [fst]. right.
  pose proof (P_finish s5 o reg PS) as F. cbv zeta in F.
  destruct (slot_vacant_for s5 reg).
  - destruct (disp_unregister s5 o reg) as [[rs d] sx]. cbn [snd] in F. exact F.
  - exact F.
Qed.

(* ---------- a batch, the lifecycle loops, the idle phase, a dispatch, a command, a scenario ---------- *)
Lemma TOP_process_events scr evs : forall s, halted s = false -> Q s -> running s = None ->
  gens_small (slots (fst (process_events scr s evs))) -> TOP (fst (process_events scr s evs)).
Proof.
  induction evs as [|ev r IH]; intros s Hh Qs Hr Gf; cbn [process_events] in *; [right; split; assumption|].
  pose proof (Q_process_event scr s ev Qs Hr) as QE.
  pose proof (CVP.C09_proofs.process_event_ok_not_halted scr s ev Hh) as NH.
  pose proof (process_events_sstep scr r) as SS.
  destruct (process_event scr s ev) as [s1 ok]. cbn [fst snd] in *.
  destruct ok.
  - specialize (NH eq_refl). assert (G1 : gens_small (slots s1)) by (eapply gens_small_mono; [apply (proj2 (SS s1))|exact Gf]).
    destruct (QE G1) as [Hx|[Q1 R1]]; [congruence|]. apply IH; assumption.
  - cbn [fst] in Gf. exact (QE Gf).
Qed.

Lemma before_sleep_loop_Q bscr l : forall s, Q s -> Q (fst (before_sleep_loop bscr s l)) /\ running (fst (before_sleep_loop bscr s l)) = running s.
Proof.
  induction l as [|t l IH]; intros s Qs; cbn [before_sleep_loop]; [split; [exact Qs|reflexivity]|].
  destruct (lc_lookup s t) as [o|]; [|split; [apply (Q_frame_eq s); try reflexivity; exact Qs|reflexivity]].
  destruct (nth _ _ _) as [|p].
  - match goal with |- context [before_sleep_loop bscr ?x l] => destruct (IH x) as [A B]; [apply (Q_frame_eq s); try reflexivity; exact Qs|] end. split; [exact A|rewrite B; reflexivity].
  - destruct p; try (split; [apply (Q_frame_eq s); try reflexivity; exact Qs|reflexivity]).
    destruct (match objs _ o with Some _ => _ | None => _ end) as [tk|];
      match goal with |- context [before_sleep_loop bscr ?x l] => destruct (IH x) as [A B]; [apply (Q_frame_eq s); try reflexivity; exact Qs|] end; (split; [exact A|rewrite B; reflexivity]).
Qed.
Lemma before_handle_loop_Q l polled : forall s, Q s -> Q (fst (before_handle_loop s l polled)) /\ running (fst (before_handle_loop s l polled)) = running s.
Proof.
  induction l as [|t l IH]; intros s Qs; cbn [before_handle_loop]; [split; [exact Qs|reflexivity]|].
  destruct (lc_lookup s t) as [o|]; [|split; [apply (Q_frame_eq s); try reflexivity; exact Qs|reflexivity]].
  match goal with |- context [before_handle_loop ?x l polled] => destruct (IH x) as [A B]; [apply (Q_frame_eq s); try reflexivity; exact Qs|] end. split; [exact A|rewrite B; reflexivity].
Qed.

Lemma Q_run_idles scr l : forall s, Q s -> running s = None -> gens_small (slots (run_idles scr s l)) ->
  Q (run_idles scr s l) /\ running (run_idles scr s l) = None.
Proof.
  induction l as [|i l IH]; intros s Qs Hr Gf; cbn [run_idles] in *; [split; assumption|].
  destruct (halted s); [split; assumption|]. destruct (idle_cancelled s i); [apply IH; assumption|].
  match goal with |- context [exec_actions ?x ?a] => set (s1 := x) in *; set (acts := a) in * end.
  assert (Q1 : Q s1) by (apply (Q_frame_eq s); try reflexivity; exact Qs).
  pose proof (Q_exec_actions acts s1 Q1) as QA. pose proof (running_exec_actions acts s1) as RA.
  destruct (halted (exec_actions s1 acts)) eqn:Hh.
  - split; [apply QA; exact Gf|rewrite RA; exact Hr].
  - assert (G1 : gens_small (slots (exec_actions s1 acts))).
    { eapply gens_small_mono; [|exact Gf]. apply (proj2 (run_idles_sstep scr l (set_ridle (exec_actions s1 acts) None))). }
    apply IH; [apply (Q_frame_eq (exec_actions s1 acts)); try reflexivity; apply QA; exact G1|cbn; rewrite RA; exact Hr|exact Gf].
Qed.

Lemma TOP_dispatch scr bscr s t order : halted s = false -> Q s -> running s = None ->
  gens_small (slots (dispatch scr bscr s t order)) -> TOP (dispatch scr bscr s t order).
Proof.
  intros Hh Qs Hr Gf. unfold dispatch in *.
  destruct (before_sleep_loop_Q bscr (lifecycle s) s Qs) as [Q1 R1].
  destruct (CVP.C09_proofs.before_sleep_loop_frame bscr (lifecycle s) s) as (_ & _ & C1).
  destruct (before_sleep_loop bscr s (lifecycle s)) as [s1 bs]. cbn [fst snd] in *.
  destruct bs.
  2:{ right. split; [apply (Q_frame_eq s1); try reflexivity; exact Q1|cbn; rewrite R1; exact Hr]. }
  2:{ right. split; [exact Q1|rewrite R1; exact Hr]. }
  assert (H1 : halted s1 = false) by (rewrite C1; [exact Hh|discriminate]).
  destruct (poll (en s1) t order) as [polled e2].
  set (s3 := emit (set_en s1 e2) (L T_BATCH (zsort (map ev_code polled)))) in *.
  assert (Q3 : Q s3) by (apply (Q_frame_eq s1); try reflexivity; exact Q1).
  destruct (before_handle_loop_Q (lifecycle s3) polled s3 Q3) as [Q4 R4].
  destruct (CVP.C09_proofs.before_handle_loop_frame (lifecycle s3) polled s3) as (_ & _ & C4).
  destruct (before_handle_loop s3 (lifecycle s3) polled) as [s4 ok]. cbn [fst snd] in *.
  destruct ok; cbn [negb] in *.
  2:{ right. split; [exact Q4|rewrite R4; cbn; rewrite R1; exact Hr]. }
  assert (H4 : halted s4 = false) by (rewrite C4; [exact H1|reflexivity]).
  assert (R4' : running s4 = None) by (rewrite R4; cbn; rewrite R1; exact Hr).
  pose proof (TOP_process_events scr (synth s4 ++ polled) (set_synth s4 [])) as PE.
  pose proof (run_idles_sstep scr) as SI.
  destruct (process_events scr (set_synth s4 []) (synth s4 ++ polled)) as [s5 ok2]. cbn [fst] in *.
  assert (Q4' : Q (set_synth s4 [])) by (apply (Q_frame_eq s4); try reflexivity; exact Q4).
  destruct (halted s5) eqn:H5; [left; exact H5|].
  destruct ok2; cbn [negb] in *.
  2:{ destruct (PE H4 Q4' R4' Gf) as [X|[Q5 R5]]; [congruence|]. right. split; [apply (Q_frame_eq s5); try reflexivity; exact Q5|exact R5]. }
  assert (G5 : gens_small (slots s5)).
  { eapply gens_small_mono; [apply (proj2 (SI (idles s5) (set_idles s5 [])))|].
    destruct (halted (run_idles scr (set_idles s5 []) (idles s5))); exact Gf. }
  destruct (PE H4 Q4' R4' G5) as [X|[Q5 R5]]; [congruence|].
  assert (Q5' : Q (set_idles s5 [])) by (apply (Q_frame_eq s5); try reflexivity; exact Q5).
  pose proof (Q_run_idles scr (idles s5) (set_idles s5 []) Q5' R5) as QI.
  destruct (halted (run_idles scr (set_idles s5 []) (idles s5))) eqn:H6; [left; exact H6|].
  destruct (QI Gf) as [Q6 R6]. right. split; [apply (Q_frame_eq (run_idles scr (set_idles s5 []) (idles s5))); try reflexivity; exact Q6|exact R6].
Qed.

Lemma emits_fields l : forall s, slots (emits s l) = slots s /\ lifecycle (emits s l) = lifecycle s /\ objs (emits s l) = objs s /\
  toks (emits s l) = toks s /\ running (emits s l) = running s.
Proof.
  unfold emits. induction l as [|x l IH]; intros s; cbn [fold_left]; [repeat split|].
  destruct (IH (emit s x)) as (A & B & C & D & E). rewrite A, B, C, D, E. repeat split.
Qed.

Lemma TOP_exec_cmd scr bscr s c : TOP s -> gens_small (slots (exec_cmd scr bscr s c)) -> TOP (exec_cmd scr bscr s c).
Proof.
  intros Ts Gf. unfold exec_cmd in *. destruct (halted s) eqn:Hh; [left; exact Hh|].
  destruct Ts as [X|[Qs Hr]]; [congruence|].
  assert (Q1 : Q (emit s (L T_CMD []))) by (apply (Q_frame_eq s); try reflexivity; exact Qs).
  destruct c.
  - right. split; [apply Q_exec_action; assumption|rewrite running_exec_action; exact Hr].
  - apply TOP_dispatch; assumption.
  - destruct (emits_fields (stats_lines (emit s (L T_CMD []))) (emit s (L T_CMD []))) as (A & B & C & D & E).
    right. split; [apply (Q_frame_eq (emit s (L T_CMD []))); assumption|rewrite E; exact Hr].
  - destruct (emits_fields (epoll_lines (emit s (L T_CMD []))) (emit s (L T_CMD []))) as (A & B & C & D & E).
    right. split; [apply (Q_frame_eq (emit s (L T_CMD []))); assumption|rewrite E; exact Hr].
Qed.

Lemma TOP_exec_cmds scr bscr cmds : forall s, TOP s -> gens_small (slots (fold_left (exec_cmd scr bscr) cmds s)) ->
  TOP (fold_left (exec_cmd scr bscr) cmds s).
Proof.
  induction cmds as [|c r IH]; intros s Ts Gf; cbn [fold_left] in *; [exact Ts|].
  apply IH; [|exact Gf]. apply TOP_exec_cmd; [exact Ts|].
  eapply gens_small_mono; [apply (proj2 (exec_cmds_sstep scr bscr r (exec_cmd scr bscr s c)))|exact Gf].
Qed.

Lemma Q_init : Q init.
Proof.
  split; [|split; [split|split; [|split]]].
  - split; [|split]; [intros t []|intros [|i] sl o H; discriminate|intros o t H; discriminate].
  - intros [|i] sl H; discriminate.
  - intros [|i] sl H; discriminate.
  - intros h t H. discriminate.
  - intros [|i] j sl sl' o H; discriminate.
  - intros o reg H. discriminate.
Qed.

(* EVERY state a scenario reaches - any commands, any scripted callbacks, dispatches, idles - either has halted (an excluded call
   panicked) or satisfies the invariant with nothing running, provided no slot was reused 65536 times *)
Theorem run_TOP scr bscr cmds : gens_small (slots (run scr bscr cmds)) -> TOP (run scr bscr cmds).
Proof. intros G. unfold run in *. apply TOP_exec_cmds; [right; split; [exact Q_init|reflexivity]|exact G]. Qed.

(* ... so the lifecycle loops of a dispatch started in such a state never reach unreachable!() *)
Theorem never_unreachable scr bscr cmds : gens_small (slots (run scr bscr cmds)) -> halted (run scr bscr cmds) = false ->
  let s := run scr bscr cmds in
  snd (before_sleep_loop bscr s (lifecycle s)) <> BSPanic /\
  forall e2 line polled, let s1 := fst (before_sleep_loop bscr s (lifecycle s)) in
    snd (before_handle_loop (emit (set_en s1 e2) line) (lifecycle (emit (set_en s1 e2) line)) polled) = true.
Proof.
  intros G Hh. cbv zeta. destruct (run_TOP scr bscr cmds G) as [X|[(L & _) Hr]]; [congruence|].
  rewrite Hr in L. pose proof (LI_resolves _ L) as R. split.
  - apply CVP.C14_proofs.before_sleep_loop_no_panic. exact R.
  - intros e2 line polled. apply before_handle_loop_no_panic. intros t Ht.
    cbn [lifecycle emit set_log set_en] in Ht. rewrite before_sleep_loop_lifecycle in Ht. destruct (R t Ht) as [o Ho]. exists o.
    unfold lc_lookup in *. cbn [slots emit set_log set_en]. rewrite before_sleep_loop_slots. exact Ho.
Qed.
