(* Frame lemmas for the sequential loop model: which operations leave which fields alone. *)
From CV Require Import Base Consts Token PostAction Env Loop.
Open Scope N_scope.

Ltac dmatch :=
  repeat match goal with
         | |- context [match ?x with _ => _ end] => destruct x eqn:?
         | |- context [if ?x then _ else _] => destruct x eqn:?
         end.
Ltac dmatch_in H :=
  repeat match type of H with
         | context [match ?x with _ => _ end] => destruct x eqn:?
         | context [if ?x then _ else _] => destruct x eqn:?
         end.

(* ---- panic / emit ---- *)
Lemma running_panic s k : running (panic s k) = running s. Proof. reflexivity. Qed.
Lemma pending_panic s k : pending (panic s k) = pending s. Proof. reflexivity. Qed.
Lemma halted_panic s k : halted (panic s k) = true. Proof. reflexivity. Qed.

(* ---- set_obj_src ---- *)
Lemma running_set_obj_src s o x : running (set_obj_src s o x) = running s.
Proof. unfold set_obj_src; dmatch; reflexivity. Qed.
Lemma pending_set_obj_src s o x : pending (set_obj_src s o x) = pending s.
Proof. unfold set_obj_src; dmatch; reflexivity. Qed.
Lemma halted_set_obj_src s o x : halted (set_obj_src s o x) = halted s.
Proof. unfold set_obj_src; dmatch; reflexivity. Qed.
Lemma ridle_set_obj_src s o x : ridle (set_obj_src s o x) = ridle s.
Proof. unfold set_obj_src; dmatch; reflexivity. Qed.

Lemma running_regop s o x k b : running (regop s o x k b) = running s. Proof. unfold regop; destruct x; reflexivity. Qed.
Lemma pending_regop s o x k b : pending (regop s o x k b) = pending s. Proof. unfold regop; destruct x; reflexivity. Qed.
Lemma halted_regop s o x k b : halted (regop s o x k b) = halted s. Proof. unfold regop; destruct x; reflexivity. Qed.
Lemma ridle_regop s o x k b : ridle (regop s o x k b) = ridle s. Proof. unfold regop; destruct x; reflexivity. Qed.
Lemma lifecycle_regop s o x k b : lifecycle (regop s o x k b) = lifecycle s. Proof. unfold regop; destruct x; reflexivity. Qed.
Lemma slots_regop s o x k b : slots (regop s o x k b) = slots s. Proof. unfold regop; destruct x; reflexivity. Qed.
Lemma objs_regop s o x k b : objs (regop s o x k b) = objs s. Proof. unfold regop; destruct x; reflexivity. Qed.
Lemma en_regop s o x k b : en (regop s o x k b) = en s. Proof. unfold regop; destruct x; reflexivity. Qed.

(* ---- DispatcherInner ---- *)
Lemma running_disp_register s o t : running (snd (disp_register s o t)) = running s.
Proof. unfold disp_register; dmatch; cbn; rewrite ?running_regop, ?running_set_obj_src; reflexivity. Qed.
Lemma pending_disp_register s o t : pending (snd (disp_register s o t)) = pending s.
Proof. unfold disp_register; dmatch; cbn; rewrite ?pending_regop, ?pending_set_obj_src; reflexivity. Qed.
Lemma running_disp_reregister s o t : running (snd (disp_reregister s o t)) = running s.
Proof. unfold disp_reregister; dmatch; cbn; rewrite ?running_regop, ?running_set_obj_src; reflexivity. Qed.
Lemma pending_disp_reregister s o t : pending (snd (disp_reregister s o t)) = pending s.
Proof. unfold disp_reregister; dmatch; cbn; rewrite ?pending_regop, ?pending_set_obj_src; reflexivity. Qed.
Lemma running_disp_unregister s o t : running (snd (disp_unregister s o t)) = running s.
Proof. unfold disp_unregister; dmatch; cbn; rewrite ?running_regop, ?running_set_obj_src; reflexivity. Qed.
Lemma pending_disp_unregister s o t : pending (snd (disp_unregister s o t)) = pending s.
Proof. unfold disp_unregister; dmatch; cbn; rewrite ?pending_regop, ?pending_set_obj_src; reflexivity. Qed.

(* ---- object release ---- *)
Lemma running_maybe_drop s o : running (maybe_drop s o) = running s.
Proof. unfold maybe_drop, drop_obj; dmatch; reflexivity. Qed.
Lemma pending_maybe_drop s o : pending (maybe_drop s o) = pending s.
Proof. unfold maybe_drop, drop_obj; dmatch; reflexivity. Qed.
Lemma halted_maybe_drop s o : halted (maybe_drop s o) = halted s.
Proof. unfold maybe_drop, drop_obj; dmatch; reflexivity. Qed.
Lemma ridle_maybe_drop s o : ridle (maybe_drop s o) = ridle s.
Proof. unfold maybe_drop, drop_obj; dmatch; reflexivity. Qed.

(* ---- the `running` field is only written by process_event ---- *)
Lemma running_exec_action s a : running (exec_action s a) = running s.
Proof.
  unfold exec_action. destruct (halted s); [reflexivity|].
  destruct a; cbn;
    unfold do_insert, do_remove, do_disable, do_enable, do_update, do_setint, do_setdl, do_intoinner, do_dropdisp,
           do_send, do_idle, do_cancelidle, drop_obj, eenv;
    dmatch; cbn;
    repeat match goal with
           | H : disp_register ?s ?o ?t = (_, ?s') |- _ =>
               let E := fresh in pose proof (running_disp_register s o t) as E; rewrite H in E; cbn in E; clear H
           | H : disp_reregister ?s ?o ?t = (_, ?s') |- _ =>
               let E := fresh in pose proof (running_disp_reregister s o t) as E; rewrite H in E; cbn in E; clear H
           | H : disp_unregister ?s ?o ?t = (_, ?s') |- _ =>
               let E := fresh in pose proof (running_disp_unregister s o t) as E; rewrite H in E; cbn in E; clear H
           end;
    rewrite ?running_maybe_drop, ?running_set_obj_src; cbn; try congruence; try reflexivity.
Qed.

Lemma running_exec_actions l : forall s, running (exec_actions s l) = running s.
Proof.
  induction l as [|a l IH]; intros s; cbn; [reflexivity|].
  unfold exec_actions in *. cbn. rewrite IH. apply running_exec_action.
Qed.

Lemma is_running_none s o : running s = None -> is_running s o = false.
Proof. unfold is_running; intros ->; reflexivity. Qed.

Lemma disp_reregister_done s o t : running s = None -> snd (fst (disp_reregister s o t)) = true.
Proof. intros H. unfold disp_reregister. rewrite (is_running_none s o H). dmatch; reflexivity. Qed.
Lemma disp_unregister_done s o t : running s = None -> snd (fst (disp_unregister s o t)) = true.
Proof. intros H. unfold disp_unregister. rewrite (is_running_none s o H). dmatch; reflexivity. Qed.

Ltac use_frames :=
  repeat match goal with
         | H : disp_register ?s ?o ?t = (_, ?s') |- _ =>
             let E := fresh in let E2 := fresh in
             pose proof (running_disp_register s o t) as E; pose proof (pending_disp_register s o t) as E2;
             rewrite H in E, E2; cbn in E, E2; clear H
         | H : disp_reregister ?s ?o ?t = (_, _, ?s') |- _ =>
             let E := fresh in let E2 := fresh in let E3 := fresh in
             pose proof (running_disp_reregister s o t) as E; pose proof (pending_disp_reregister s o t) as E2;
             pose proof (disp_reregister_done s o t) as E3;
             rewrite H in E, E2, E3; cbn in E, E2, E3; clear H
         | H : disp_unregister ?s ?o ?t = (_, _, ?s') |- _ =>
             let E := fresh in let E2 := fresh in let E3 := fresh in
             pose proof (running_disp_unregister s o t) as E; pose proof (pending_disp_unregister s o t) as E2;
             pose proof (disp_unregister_done s o t) as E3;
             rewrite H in E, E2, E3; cbn in E, E2, E3; clear H
         end.

(* outside event processing no operation defers: the pending action is left alone *)
Lemma pending_exec_action s a : running s = None -> pending (exec_action s a) = pending s.
Proof.
  intros Hr. unfold exec_action. destruct (halted s); [reflexivity|].
  destruct a; cbn;
    unfold do_insert, do_remove, do_disable, do_enable, do_update, do_setint, do_setdl, do_intoinner, do_dropdisp,
           do_send, do_idle, do_cancelidle, drop_obj, eenv;
    dmatch; cbn; use_frames;
    rewrite ?pending_maybe_drop, ?pending_set_obj_src; cbn;
    try reflexivity; try congruence;
    try (match goal with H : running _ = None -> false = true |- _ => specialize (H Hr); discriminate end).
Qed.

Lemma pending_exec_actions l : forall s, running s = None -> pending (exec_actions s l) = pending s.
Proof.
  induction l as [|a l IH]; intros s H; [reflexivity|].
  unfold exec_actions in *; cbn. rewrite IH; [apply pending_exec_action; exact H|].
  rewrite running_exec_action; exact H.
Qed.

Lemma halted_exec_action_stuck s a : halted s = true -> exec_action s a = s.
Proof. intros H; unfold exec_action; rewrite H; reflexivity. Qed.
Lemma exec_actions_stuck l : forall s, halted s = true -> exec_actions s l = s.
Proof.
  induction l as [|a l IH]; intros s H; [reflexivity|].
  unfold exec_actions in *; cbn. rewrite (halted_exec_action_stuck s a H). apply IH; exact H.
Qed.

Lemma running_drop_zombies l : forall s, running (drop_zombies s l) = running s.
Proof. induction l as [|o l IH]; intros s; cbn; [reflexivity|]. rewrite IH. apply running_maybe_drop. Qed.
Lemma pending_drop_zombies l : forall s, pending (drop_zombies s l) = pending s.
Proof. induction l as [|o l IH]; intros s; cbn; [reflexivity|]. rewrite IH. apply pending_maybe_drop. Qed.
Lemma halted_drop_zombies l : forall s, halted (drop_zombies s l) = halted s.
Proof. induction l as [|o l IH]; intros s; cbn; [reflexivity|]. rewrite IH. apply halted_maybe_drop. Qed.

Lemma running_end_processing s o : running (end_processing s o) = None.
Proof. unfold end_processing. rewrite running_drop_zombies, running_maybe_drop. reflexivity. Qed.
Lemma pending_end_processing s o : pending (end_processing s o) = pending s.
Proof. unfold end_processing. rewrite pending_drop_zombies, pending_maybe_drop. reflexivity. Qed.
Lemma halted_end_processing s o : halted (end_processing s o) = halted s.
Proof. unfold end_processing. rewrite halted_drop_zombies, halted_maybe_drop. reflexivity. Qed.

Lemma running_apply_post s o reg r : running (snd (apply_post s o reg r)) = running s.
Proof.
  unfold apply_post; destruct r; cbn; dmatch; cbn; use_frames; try reflexivity; try congruence.
Qed.
Lemma pending_apply_post s o reg r : pending (snd (apply_post s o reg r)) = pending s.
Proof.
  unfold apply_post; destruct r; cbn; dmatch; cbn; use_frames; try reflexivity; try congruence.
Qed.

Lemma halted_disp_unregister s o t : halted (snd (disp_unregister s o t)) = halted s.
Proof. unfold disp_unregister; dmatch; cbn; rewrite ?halted_regop, ?halted_set_obj_src; reflexivity. Qed.
