(* C15: a rejected insertion leaves the loop as it was - the lifecycle set, every handle's token, every other object and every
   occupied slot are untouched, the rejected object sits in no slot, nothing is pending or running that was not before *)
From CV Require Import Base Consts Token PostAction Env Loop.
From CVP Require Import Loop_frames Seq_lemmas C06_proofs C14_life C07_silence C16_owner.
Import ListNotations.
Open Scope N_scope.

(* taking a vacant slot does not touch an occupied one *)
Lemma vacant_entry_keeps_occupied l i l' : vacant_entry l = Some (i, l') ->
  forall j sl, nth_error l j = Some sl -> s_obj sl <> None -> nth_error l' j = Some sl /\ j <> i.
Proof.
  unfold vacant_entry. destruct (find_vacant l 0) as [k|] eqn:Ef.
  - destruct (nth_error l k) as [slk|] eqn:En; [|discriminate]. intros [= <- <-] j sl Hj Ho.
    destruct (find_vacant_spec l 0 k Ef) as [_ [sl0 [Hn Hv]]]. rewrite Nat.sub_0_r, En in Hn. injection Hn as <-.
    assert (Hne : j <> k) by (intros ->; rewrite En in Hj; injection Hj as <-; contradiction).
    split; [rewrite nth_error_upd_other by congruence; exact Hj|exact Hne].
  - destruct (tok_new (N.of_nat (length l))) as [t|]; [|discriminate]. intros [= <- <-] j sl Hj Ho.
    assert (Hlt : (j < length l)%nat) by (apply nth_error_Some; congruence).
    split; [rewrite nth_error_app1 by exact Hlt; exact Hj|lia].
Qed.

Lemma pending_disp_register s o t : pending (snd (disp_register s o t)) = pending s.
Proof.
  unfold disp_register. destruct (objs s o) as [ob|]; [|reflexivity]. destruct (is_running s o); [reflexivity|].
  destruct (src_register _ _ _) as [[r x'] e1]. destruct r; cbn [snd]; try destruct (src_lc x'); cbn [pending set_lifecycle panic set_halted emit set_log];
    rewrite ?pending_regop, ?pending_set_obj_src; reflexivity.
Qed.

Lemma in_slots_upd_here l : forall i old t h g, nth_error l i = Some old -> in_slots (upd l i (mkSlot t (Some h) g)) h = true.
Proof.
  unfold in_slots. induction l as [|x r IH]; intros [|i] old t h g H; cbn in *; try discriminate.
  - rewrite N.eqb_refl. reflexivity.
  - rewrite (IH i old t h g H). apply orb_true_r.
Qed.
Lemma upd_upd {A} (l : list A) : forall k a b, upd (upd l k a) k b = upd l k b.
Proof. induction l as [|y t IH]; intros [|k] a b; cbn; try reflexivity; f_equal; apply IH. Qed.

(* the insertion was rejected = the run did not stop and the new object ended up in no slot *)
Theorem rejected_insert_leaves_loop_intact s h x : halted s = false -> objs s h = None ->
  let s' := do_insert s h x in
  halted s' = false -> in_slots (slots s') h = false ->
  lifecycle s' = lifecycle s /\ toks s' = toks s /\ pending s' = pending s /\ running s' = running s /\ idles s' = idles s /\
  (forall o, o <> h -> objs s' o = objs s o) /\
  (forall j sl, nth_error (slots s) j = Some sl -> s_obj sl <> None -> nth_error (slots s') j = Some sl).
Proof.
  intros Hh Ho. cbv zeta. unfold do_insert. rewrite Ho.
  set (s0 := set_objs s (fupd (objs s) h (Some (mkObj x true)))).
  destruct (vacant_entry (slots s0)) as [[i sl]|] eqn:Ev; [|intros X; discriminate].
  destruct (nth_error sl i) as [e|] eqn:He; [|intros X; discriminate].
  set (s1 := set_slots s0 (upd sl i (mkSlot (s_tok e) (Some h) (s_gen e)))).
  pose proof (slots_disp_register s1 h (s_tok e)) as FS. pose proof (toks_frame_disp_register s1 h (s_tok e)) as FT.
  pose proof (pending_disp_register s1 h (s_tok e)) as FP. pose proof (running_disp_register s1 h (s_tok e)) as FR.
  pose proof (idles_disp_register s1 h (s_tok e)) as FI.
  pose proof (fun o (Hne : o <> h) => objs_disp_register_at s1 h (s_tok e) o (or_introl (not_eq_sym Hne))) as FO.
  pose proof (disp_register_fail_lifecycle s1 h (s_tok e)) as FL.
  destruct (disp_register s1 h (s_tok e)) as [r s2]. cbn [snd] in *.
  destruct (halted s2) eqn:H2; [intros X; congruence|]. intros _.
  assert (O0 : forall o, o <> h -> objs s0 o = objs s o) by (intros o Hne; unfold s0; cbn; unfold fupd; destruct (N.eqb_spec o h); [contradiction|reflexivity]).
  assert (Keep : forall j slj, nth_error (slots s) j = Some slj -> s_obj slj <> None -> nth_error (upd sl i (mkSlot (s_tok e) None (s_gen e))) j = Some slj).
  { intros j slj Hj Hobj. destruct (vacant_entry_keeps_occupied (slots s0) i sl Ev j slj Hj Hobj) as [A B]. rewrite nth_error_upd_other by congruence. exact A. }
  destruct r.
  - (* it went through: the object is in its slot *)
    cbn [slots emit set_log set_toks]. rewrite FS. cbn [s1 slots set_slots]. rewrite (in_slots_upd_here sl i e _ h _ He). discriminate.
  - intros _. cbn [lifecycle toks pending running idles objs slots emit set_log set_slots]. rewrite FS. cbn [s1 slots set_slots]. rewrite upd_upd.
    repeat split; try (rewrite (FL _ _ eq_refl) by discriminate; reflexivity); try assumption.
    + intros o Hne. rewrite (FO o Hne). apply O0. exact Hne.
  - intros _. cbn [lifecycle toks pending running idles objs slots emit set_log set_slots]. rewrite FS. cbn [s1 slots set_slots]. rewrite upd_upd.
    repeat split; try (rewrite (FL _ _ eq_refl) by discriminate; reflexivity); try assumption.
    + intros o Hne. rewrite (FO o Hne). apply O0. exact Hne.
  - intros _. cbn [lifecycle toks pending running idles objs slots emit set_log set_slots]. rewrite FS. cbn [s1 slots set_slots]. rewrite upd_upd.
    repeat split; try (rewrite (FL _ _ eq_refl) by discriminate; reflexivity); try assumption.
    + intros o Hne. rewrite (FO o Hne). apply O0. exact Hne.
Qed.
