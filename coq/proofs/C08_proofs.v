(* C08: the only panics an operation issued from a callback (or anywhere) can cause are the documented exclusions. *)
From CV Require Import Base Consts Token PostAction Env Loop.
From CVP Require Import Token_proofs Loop_frames Seq_lemmas.
Open Scope N_scope.

(* ---- sub-id exhaustion needs 65535 sub-sources ---- *)
Lemma ftoken_spec f : t_sub f + 1 < U16 -> ftoken f = Some (f, mkTok (t_id f) (t_ver f) (t_sub f + 1)).
Proof.
  intros Hlt. unfold ftoken, factory_token, increment_sub_id. rewrite mask_subid. change (65535 mod U16) with 65535.
  destruct (N.ltb_spec (t_sub f + 1) U16) as [H|H]; [|lia]. cbn [andb].
  destruct (N.leb_spec (t_sub f + 1) 65535) as [H'|H']; [reflexivity|unfold U16 in *; lia].
Qed.

Lemma subs_register_no_panic subs : forall e f, t_sub f + N.of_nat (length subs) < U16 ->
  fst (fst (fst (subs_register e subs f))) <> RRPanic.
Proof.
  induction subs as [|g r IH]; intros e f Hb; cbn [subs_register]; [discriminate|].
  cbn [length] in Hb. rewrite ftoken_spec by lia.
  destruct (gen_register e g f) as [[ok g'] e']. destruct ok; [|cbn; discriminate].
  specialize (IH e' (mkTok (t_id f) (t_ver f) (t_sub f + 1))). cbn [t_sub] in IH.
  destruct (subs_register e' r _) as [[[rr' r'] f''] e'']. cbn [fst] in *. apply IH. lia.
Qed.
Lemma subs_reregister_no_panic subs : forall e f, t_sub f + N.of_nat (length subs) < U16 ->
  fst (fst (fst (subs_reregister e subs f))) <> RRPanic.
Proof.
  induction subs as [|g r IH]; intros e f Hb; cbn [subs_reregister]; [discriminate|].
  cbn [length] in Hb. rewrite ftoken_spec by lia.
  destruct (gen_reregister e g f) as [[ok g'] e']. destruct ok; [|cbn; discriminate].
  specialize (IH e' (mkTok (t_id f) (t_ver f) (t_sub f + 1))). cbn [t_sub] in IH.
  destruct (subs_reregister e' r _) as [[[rr' r'] f''] e'']. cbn [fst] in *. apply IH. lia.
Qed.

Lemma subs_register_factory subs : forall e f, t_sub f + N.of_nat (length subs) < U16 ->
  fst (fst (fst (subs_register e subs f))) = RROk -> t_sub (snd (fst (subs_register e subs f))) = t_sub f + N.of_nat (length subs).
Proof.
  induction subs as [|g r IH]; intros e f Hb; cbn [subs_register]; [cbn; lia|].
  cbn [length] in Hb. rewrite ftoken_spec by lia.
  destruct (gen_register e g f) as [[ok g'] e']. destruct ok; [|cbn; discriminate].
  specialize (IH e' (mkTok (t_id f) (t_ver f) (t_sub f + 1))). cbn [t_sub] in IH.
  destruct (subs_register e' r _) as [[[rr' r'] f''] e'']. cbn [fst snd] in *. intros H. rewrite IH by (try exact H; lia). cbn [length]. lia.
Qed.
Lemma subs_reregister_factory subs : forall e f, t_sub f + N.of_nat (length subs) < U16 ->
  fst (fst (fst (subs_reregister e subs f))) = RROk -> t_sub (snd (fst (subs_reregister e subs f))) = t_sub f + N.of_nat (length subs).
Proof.
  induction subs as [|g r IH]; intros e f Hb; cbn [subs_reregister]; [cbn; lia|].
  cbn [length] in Hb. rewrite ftoken_spec by lia.
  destruct (gen_reregister e g f) as [[ok g'] e']. destruct ok; [|cbn; discriminate].
  specialize (IH e' (mkTok (t_id f) (t_ver f) (t_sub f + 1))). cbn [t_sub] in IH.
  destruct (subs_reregister e' r _) as [[[rr' r'] f''] e'']. cbn [fst snd] in *. intros H. rewrite IH by (try exact H; lia). cbn [length]. lia.
Qed.
Lemma timer_register_no_panic e tm f : t_sub f + 1 < U16 -> fst (fst (timer_register e tm f)) <> RRPanic.
Proof.
  intros H1. unfold timer_register. destruct (timer_unregister e tm) as [t1 e1]. destruct (tm_dl t1); [|discriminate].
  rewrite (ftoken_spec _ H1). destruct (wh_insert _ _ _). discriminate.
Qed.
Lemma timer_reregister_no_panic e tm f : t_sub f + 1 < U16 -> fst (fst (timer_reregister e tm f)) <> RRPanic.
Proof.
  intros H1. unfold timer_reregister. destruct (tm_en tm); [|discriminate]. destruct (timer_unregister e tm) as [t1 e1].
  apply timer_register_no_panic. exact H1.
Qed.

Definition small_src (x : src) : Prop :=
  match x with SComp _ _ subs _ => N.of_nat (length subs) + 3 < U16 | _ => True end.

Lemma src_register_no_panic e x t : small_src x -> fst (fst (src_register e x (factory_new t))) <> RRPanic.
Proof.
  intros Hs.
  assert (H1 : t_sub (factory_new t) + 1 < U16) by (change (t_sub (factory_new t)) with 0; unfold U16; lia).
  destruct x as [lc own subs tmr|g|tm|c g]; unfold src_register.
  - rewrite (ftoken_spec _ H1).
    pose proof (subs_register_no_panic subs e (mkTok (t_id (factory_new t)) (t_ver (factory_new t)) (t_sub (factory_new t) + 1))) as P.
    cbn [t_sub] in P.
    pose proof (subs_register_factory subs e (mkTok (t_id (factory_new t)) (t_ver (factory_new t)) (t_sub (factory_new t) + 1))) as Q.
    cbn [t_sub] in Q. change (t_sub (factory_new t)) with 0 in *. unfold small_src in Hs.
    destruct (subs_register e subs _) as [[[r s'] f'] e']. cbn [fst snd] in *.
    assert (Hlt : 0 + 1 + N.of_nat (length subs) < U16) by (unfold U16 in *; lia).
    specialize (P Hlt). specialize (Q Hlt).
    destruct r; [|cbn; destruct tmr; discriminate|contradiction].
    destruct tmr as [tm|]; [|cbn; discriminate].
    pose proof (timer_register_no_panic e' tm f') as T. rewrite (Q eq_refl) in T.
    destruct (timer_register e' tm f') as [[r2 tm'] e'']. cbn [fst] in *. apply T. unfold U16 in *. lia.
  - rewrite (ftoken_spec _ H1). unfold one_gen. destruct (gen_register _ _ _) as [[ok g'] e']. destruct ok; discriminate.
  - unfold timer_register. destruct (timer_unregister e tm) as [t1 e1]. destruct (tm_dl t1); [|discriminate].
    rewrite (ftoken_spec _ H1). destruct (wh_insert _ _ _). discriminate.
  - rewrite (ftoken_spec _ H1). unfold one_gen. destruct (gen_register _ _ _) as [[ok g'] e']. destruct ok; discriminate.
Qed.
Lemma src_reregister_no_panic e x t : small_src x -> fst (fst (src_reregister e x (factory_new t))) <> RRPanic.
Proof.
  intros Hs.
  assert (H1 : t_sub (factory_new t) + 1 < U16) by (change (t_sub (factory_new t)) with 0; unfold U16; lia).
  destruct x as [lc own subs tmr|g|tm|c g]; unfold src_reregister.
  - rewrite (ftoken_spec _ H1).
    pose proof (subs_reregister_no_panic subs e (mkTok (t_id (factory_new t)) (t_ver (factory_new t)) (t_sub (factory_new t) + 1))) as P.
    cbn [t_sub] in P.
    pose proof (subs_reregister_factory subs e (mkTok (t_id (factory_new t)) (t_ver (factory_new t)) (t_sub (factory_new t) + 1))) as Q.
    cbn [t_sub] in Q. change (t_sub (factory_new t)) with 0 in *. unfold small_src in Hs.
    destruct (subs_reregister e subs _) as [[[r s'] f'] e']. cbn [fst snd] in *.
    assert (Hlt : 0 + 1 + N.of_nat (length subs) < U16) by (unfold U16 in *; lia).
    specialize (P Hlt). specialize (Q Hlt).
    destruct r; [|cbn; destruct tmr; discriminate|contradiction].
    destruct tmr as [tm|]; [|cbn; discriminate].
    pose proof (timer_reregister_no_panic e' tm f') as T. rewrite (Q eq_refl) in T.
    destruct (timer_reregister e' tm f') as [[r2 tm'] e'']. cbn [fst] in *. apply T. unfold U16 in *. lia.
  - rewrite (ftoken_spec _ H1). unfold one_gen. destruct (gen_reregister _ _ _) as [[ok g'] e']. destruct ok; discriminate.
  - destruct (tm_en tm); [|discriminate]. destruct (timer_unregister e tm) as [t1 e1].
    unfold timer_register. destruct (timer_unregister e1 t1) as [t2 e2]. destruct (tm_dl t2); [|discriminate].
    rewrite (ftoken_spec _ H1). destruct (wh_insert _ _ _). discriminate.
  - rewrite (ftoken_spec _ H1). unfold one_gen. destruct (gen_reregister _ _ _) as [[ok g'] e']. destruct ok; discriminate.
Qed.

(* ---- where the dispatcher-level operations can panic ---- *)
Lemma disp_register_panic s o t :
  halted s = false -> halted (snd (disp_register s o t)) = true ->
  is_running s o = true \/ exists ob, objs s o = Some ob /\ ~ small_src (o_src ob).
Proof.
  intros Hh Hp. unfold disp_register in Hp. destruct (objs s o) as [ob|] eqn:Eo; [|cbn in Hp; congruence].
  destruct (is_running s o) eqn:Er; [left; reflexivity|]. right. exists ob. split; [reflexivity|].
  intros Hs. pose proof (src_register_no_panic (en s) (o_src ob) t Hs) as NP.
  destruct (src_register (en s) (o_src ob) (factory_new t)) as [[r x'] e1]. cbn [fst] in NP.
  destruct r; cbn in Hp; try congruence.
  - destruct (src_lc x'); cbn in Hp; rewrite ?halted_regop, ?halted_set_obj_src in Hp; cbn in Hp; congruence.
  - rewrite ?halted_regop, ?halted_set_obj_src in Hp; cbn in Hp; congruence.
Qed.
Lemma disp_reregister_panic s o t :
  halted s = false -> halted (snd (disp_reregister s o t)) = true ->
  exists ob, objs s o = Some ob /\ ~ small_src (o_src ob).
Proof.
  intros Hh Hp. unfold disp_reregister in Hp. destruct (objs s o) as [ob|] eqn:Eo; [|cbn in Hp; congruence].
  destruct (is_running s o) eqn:Er; [cbn in Hp; congruence|]. exists ob. split; [reflexivity|].
  intros Hs. pose proof (src_reregister_no_panic (en s) (o_src ob) t Hs) as NP.
  destruct (src_reregister (en s) (o_src ob) (factory_new t)) as [[r x'] e1]. cbn [fst] in NP.
  destruct r; cbn in Hp; try congruence.
  - destruct (src_lc x'); cbn in Hp; rewrite ?halted_regop, ?halted_set_obj_src in Hp; cbn in Hp; congruence.
  - rewrite ?halted_regop, ?halted_set_obj_src in Hp; cbn in Hp; congruence.
Qed.

(* the documented exclusions, plus resource exhaustion (65535 sub-sources in one source, 2^32 slots) and the
   scenario-language artefact of inserting a second dispatcher under the id of the running one *)
Definition big (s : st) (o : N) : Prop := exists ob, objs s o = Some ob /\ ~ small_src (o_src ob).
Definition excluded (s : st) (a : action) : Prop :=
  match a with
  | AEnable h => exists t et o, lookup s h = Some (t, et, o) /\ (is_running s o = true \/ big s o)
  | AUpdate h => exists t et o, lookup s h = Some (t, et, o) /\ big s o
  | ASetInt h _ _ _ => is_running s h = true
  | ASetDl h _ => is_running s h = true
  | AIntoInner h => in_slots (slots s) h || is_running s h = true
  | ACancelIdle i => ridle s = Some i
  | AInsert h x => is_running s h = true \/ ~ small_src x \/ vacant_entry (slots s) = None
  | _ => False
  end.

Lemma halted_maybe_drop' s o : halted (maybe_drop s o) = halted s. Proof. apply halted_maybe_drop. Qed.
Lemma halted_disp_unregister' s o t : halted (snd (disp_unregister s o t)) = halted s. Proof. apply halted_disp_unregister. Qed.

Lemma vacant_entry_nth l i sl : vacant_entry l = Some (i, sl) -> exists e, nth_error sl i = Some e.
Proof.
  unfold vacant_entry. destruct (find_vacant l 0) as [j|] eqn:Ef.
  - destruct (nth_error l j) as [x|] eqn:En; [|discriminate]. intros [= <- <-].
    eexists. apply nth_error_upd_same. apply nth_error_Some. congruence.
  - destruct (tok_new _); [|discriminate]. intros [= <- <-]. eexists.
    rewrite nth_error_app2 by lia. rewrite Nat.sub_diag. reflexivity.
Qed.

Theorem exec_action_panic_sites s a :
  halted s = false -> halted (exec_action s a) = true -> excluded s a.
Proof.
  intros Hh Hp. unfold exec_action in Hp. rewrite Hh in Hp. destruct a; cbn [excluded]; cbn in Hp.
  - (* insert *)
    unfold do_insert in Hp. destruct (objs s h) as [obx|] eqn:Eox; [cbn in Hp; congruence|].
    change (slots (set_objs s (fupd (objs s) h (Some (mkObj s0 true))))) with (slots s) in Hp.
    destruct (vacant_entry (slots s)) as [[i sl]|] eqn:Ev; [|right; right; reflexivity].
    destruct (vacant_entry_nth _ _ _ Ev) as [e En]. rewrite En in Hp.
    match type of Hp with context [disp_register ?s1 h ?t] => destruct (disp_register s1 h t) as [r s2] eqn:Ed;
      pose proof (disp_register_panic s1 h t) as P; rewrite Ed in P; cbn [snd] in P end.
    destruct (halted s2) eqn:H2.
    + destruct (P Hh eq_refl) as [R|[ob [Eo Hb]]]; [left; exact R|].
      right; left. cbn in Eo. unfold fupd in Eo. rewrite N.eqb_refl in Eo. injection Eo as <-. exact Hb.
    + destruct r; cbn in Hp; congruence.
  - (* remove *)
    unfold do_remove in Hp. destruct (lookup s h) as [[[t et] o]|]; [|cbn in Hp; congruence].
    destruct (disp_unregister _ o t) as [[r d] s2] eqn:Eu.
    pose proof (halted_disp_unregister (set_slots s (slot_set_obj (slots s) t None)) o t) as HU. rewrite Eu in HU.
    cbn in Hp, HU. rewrite halted_maybe_drop in Hp. congruence.
  - (* disable *)
    unfold do_disable in Hp. destruct (lookup s h) as [[[t et] o]|]; [|cbn in Hp; congruence].
    destruct (disp_unregister s o t) as [[r d] s2] eqn:Eu.
    pose proof (halted_disp_unregister s o t) as HU. rewrite Eu in HU. cbn in HU.
    destruct r; [destruct d|..]; cbn in Hp; congruence.
  - (* enable *)
    unfold do_enable in Hp. destruct (lookup s h) as [[[t et] o]|] eqn:El; [|cbn in Hp; congruence].
    destruct (disp_register s o et) as [r s1] eqn:Ed.
    pose proof (disp_register_panic s o et) as P. rewrite Ed in P. cbn [snd] in P.
    destruct (halted s1) eqn:H1; [|cbn in Hp; congruence].
    exists t, et, o. split; [reflexivity|]. destruct (P Hh eq_refl) as [R|B]; [left; exact R|right; exact B].
  - (* update *)
    unfold do_update in Hp. destruct (lookup s h) as [[[t et] o]|] eqn:El; [|cbn in Hp; congruence].
    destruct (disp_reregister s o et) as [[r d] s1] eqn:Ed.
    pose proof (disp_reregister_panic s o et) as P. rewrite Ed in P. cbn [snd] in P.
    destruct (halted s1) eqn:H1.
    + exists t, et, o. split; [reflexivity|]. exact (P Hh eq_refl).
    + destruct r; [destruct d|..]; cbn in Hp; congruence.
  - (* setint *)
    unfold do_setint in Hp. destruct (objs s h) as [ob|]; [|cbn in Hp; congruence].
    destruct (negb (o_ext ob)); [cbn in Hp; congruence|].
    destruct (is_running s h); [reflexivity|]. destruct (o_src ob); cbn in Hp; rewrite ?halted_set_obj_src in Hp; congruence.
  - (* setdl *)
    unfold do_setdl in Hp. destruct (objs s h) as [ob|]; [|cbn in Hp; congruence].
    destruct (negb (o_ext ob)); [cbn in Hp; congruence|].
    destruct (is_running s h); [reflexivity|]. destruct (o_src ob) as [lc own subs [tm|]|g|tm|c g]; cbn in Hp; rewrite ?halted_set_obj_src in Hp; congruence.
  - (* intoinner *)
    unfold do_intoinner in Hp. destruct (objs s h) as [ob|]; [|cbn in Hp; congruence].
    destruct (negb (o_ext ob)); [cbn in Hp; congruence|].
    destruct (in_slots (slots s) h || is_running s h); [reflexivity|]. cbn in Hp. congruence.
  - (* dropdisp *)
    unfold do_dropdisp in Hp. destruct (objs s h) as [ob|]; [|cbn in Hp; congruence].
    destruct (negb (o_ext ob)); cbn in Hp; rewrite ?halted_maybe_drop in Hp; cbn in Hp; congruence.
  - unfold eenv in Hp; cbn in Hp; congruence.
  - unfold eenv in Hp; cbn in Hp; congruence.
  - unfold eenv in Hp; cbn in Hp; congruence.
  - unfold eenv in Hp; cbn in Hp; congruence.
  - unfold eenv in Hp; cbn in Hp; congruence.
  - unfold do_send in Hp. destruct (env_send _ _ _) as [e' [rc|]]; cbn in Hp; congruence.
  - unfold do_send in Hp. destruct (env_send _ _ _) as [e' [rc|]]; cbn in Hp; congruence.
  - unfold eenv in Hp; cbn in Hp; congruence.
  - unfold eenv in Hp; cbn in Hp; congruence.
  - unfold do_idle in Hp; cbn in Hp; congruence.
  - unfold do_cancelidle in Hp. destruct (ridle s) as [ri|] eqn:Er; [|cbn in Hp; congruence].
    destruct (N.eqb_spec ri i) as [->|]; [reflexivity|cbn in Hp; congruence].
  - unfold eenv in Hp; cbn in Hp; congruence.
  - unfold eenv in Hp; cbn in Hp; congruence.
  - congruence.
Qed.
