From CV Require Import Base Consts Token PostAction Env Loop.
From CVP Require Import Loop_frames Seq_lemmas.
Open Scope N_scope.

(* what can make the processing of one event fail (= make dispatch() return Err): a panic, the source's own event processing reporting an
   error, or the (re/un)registration call a post action asks for failing IN THE SOURCE. The post action is applied to the object the loop
   already holds (`o`), never through a new look-up of its token: what a callback did to the slot meanwhile cannot make it fail. *)
Definition fails_with_cause (scr : scripts) (s : st) (ev : pevent) (s' : st) : Prop :=
  halted s' = true \/
  exists sl o, slot_get (slots s) (forget_sub_id (unpack (ev_key ev))) = Some sl /\ s_obj sl = Some o /\
    let reg := forget_sub_id (unpack (ev_key ev)) in
    (snd (obj_process scr (set_running s (Some (o, reg))) o ev) = None \/
     exists s4, (fst (fst (disp_reregister s4 o reg)) <> ROk \/ fst (fst (disp_unregister s4 o reg)) <> ROk)).

Lemma apply_post_false s o reg r : fst (apply_post s o reg r) = false ->
  fst (fst (disp_reregister s o reg)) <> ROk \/ fst (fst (disp_unregister s o reg)) <> ROk.
Proof.
  destruct r; cbn [apply_post]; try discriminate.
  - destruct (disp_reregister s o reg) as [[rs b] sx]. cbn. destruct rs; try discriminate; intros _; left; discriminate.
  - destruct (disp_unregister s o reg) as [[rs b] sx]. cbn. destruct rs; try discriminate; intros _; right; discriminate.
Qed.

Lemma pair_fst {A B} (a a' : A) (b b' : B) : (a, b) = (a', b') -> a = a' /\ b = b'.
Proof. intros H. split; [exact (f_equal fst H)|exact (f_equal snd H)]. Qed.
Lemma process_event_fails_only_with_cause scr s ev s' : process_event scr s ev = (s', false) -> fails_with_cause scr s ev s'.
Proof.
  unfold process_event, fails_with_cause.
  set (reg := forget_sub_id (unpack (ev_key ev))).
  destruct (slot_get (slots s) reg) as [sl|] eqn:Es; [|discriminate].
  destruct (s_obj sl) as [o|] eqn:Eo; [|discriminate].
  destruct (obj_process scr (set_running s (Some (o, reg))) o ev) as [s2 ret] eqn:Ep.
  destruct (halted s2) eqn:H2.
  { intros H. apply pair_fst in H. destruct H as [<- _]. left. exact H2. }
  destruct ret as [r|].
  - set (s4 := set_pending (set_running s2 None) Continue).
    set (r' := match r with Continue => pending (set_running s2 None) | _ => r end).
    pose proof (apply_post_false s4 o reg r') as AF.
    destruct (apply_post s4 o reg r') as [ok s5] eqn:Ea.
    destruct (halted s5) eqn:H5.
    { intros H. apply pair_fst in H. destruct H as [<- _]. left. exact H5. }
    intros H. apply pair_fst in H. destruct H as [_ Hok].
    right. exists sl, o. split; [reflexivity|split; [exact Eo|]]. cbv zeta. right.
    exists s4. apply AF. cbn [fst]. exact Hok.
  - intros _. right. exists sl, o. split; [reflexivity|split; [exact Eo|]]. cbv zeta. left. fold reg. rewrite Ep. reflexivity.
Qed.

(* over a whole batch: process_events stops with `false` only at an event whose processing failed with a cause *)
Lemma process_events_fail_only_with_cause scr : forall evs s s', process_events scr s evs = (s', false) ->
  exists s0 ev, In ev evs /\ fails_with_cause scr s0 ev s'.
Proof.
  induction evs as [|ev r IH]; intros s s' H; cbn [process_events] in H; [discriminate|].
  destruct (process_event scr s ev) as [s1 ok] eqn:E. destruct ok.
  - destruct (IH s1 s' H) as (s0 & ev' & Hin & Hc). exists s0, ev'. split; [right; exact Hin|exact Hc].
  - apply pair_fst in H. destruct H as [<- _]. exists s, ev. split; [left; reflexivity|exact (process_event_fails_only_with_cause scr s ev s1 E)].
Qed.
