(* C06, whole histories: by the end of every event's processing the loop has released what it no longer holds. In every state a
   scenario reaches, an object that still exists is held by a slot of the loop, by a Dispatcher the user kept, is the source
   being processed, or is queued for release at the end of that processing; between events nothing is queued. *)
From CV Require Import Base Consts Token PostAction Env Loop.
From CVP Require Import Loop_frames C06_proofs C09_proofs C14_life.
Open Scope N_scope.

Definition held (s : st) (o : N) (ob : obj) : Prop :=
  o_ext ob = true \/ in_slots (slots s) o = true \/ is_running s o = true \/ In o (zombies s).
Definition REL (s : st) : Prop := forall o ob, objs s o = Some ob -> held s o ob.

Lemma zombies_set_obj_src s o x : zombies (set_obj_src s o x) = zombies s.
Proof. unfold set_obj_src. destruct (objs s o); reflexivity. Qed.
Lemma zombies_regop s o x k b : zombies (regop s o x k b) = zombies s.
Proof. unfold regop. destruct x; reflexivity. Qed.

(* a state that differs only in things REL does not read, or in the source of one object *)
Lemma REL_frame s s' : slots s' = slots s -> running s' = running s -> zombies s' = zombies s ->
  (forall o ob', objs s' o = Some ob' -> exists ob, objs s o = Some ob /\ o_ext ob = o_ext ob') -> REL s -> REL s'.
Proof.
  intros Hs Hr Hz Ho R o ob' H. destruct (Ho o ob' H) as [ob [E X]]. unfold held, is_running. rewrite Hs, Hr, Hz, <- X. exact (R o ob E).
Qed.
Lemma REL_eq s s' : slots s' = slots s -> running s' = running s -> zombies s' = zombies s -> objs s' = objs s -> REL s -> REL s'.
Proof. intros Hs Hr Hz Ho. apply REL_frame; try assumption. intros o ob' H. exists ob'. rewrite <- Ho. split; [exact H|reflexivity]. Qed.
Lemma objs_set_obj_src_ext s o x o' ob' : objs (set_obj_src s o x) o' = Some ob' -> exists ob, objs s o' = Some ob /\ o_ext ob = o_ext ob'.
Proof.
  unfold set_obj_src. destruct (objs s o) as [ob|] eqn:E; [|intros H; exists ob'; split; [exact H|reflexivity]].
  cbn [objs set_objs]. unfold fupd. destruct (N.eqb_spec o' o) as [->|]; [|intros H; exists ob'; split; [exact H|reflexivity]].
  intros [= <-]. exists ob. split; [exact E|reflexivity].
Qed.
Lemma REL_set_obj_src s o x : REL s -> REL (set_obj_src s o x).
Proof. apply REL_frame; [apply slots_set_obj_src|apply running_set_obj_src|apply zombies_set_obj_src|apply objs_set_obj_src_ext]. Qed.

Lemma REL_disp_register s o t : REL s -> REL (snd (disp_register s o t)).
Proof.
  intros R. unfold disp_register. destruct (objs s o) as [ob|]; [|exact R]. destruct (is_running s o); [apply (REL_eq s); try reflexivity; exact R|].
  destruct (src_register _ _ _) as [[r x'] e1].
  assert (R2 : REL (set_obj_src (set_en s e1) o x')) by (apply REL_set_obj_src; apply (REL_eq s); try reflexivity; exact R).
  destruct r; cbn [snd]; try destruct (src_lc x'); (eapply REL_eq; [| | | |exact R2]);
    cbn [slots running zombies objs set_lifecycle panic set_halted emit set_log]; rewrite ?slots_regop, ?running_regop, ?zombies_regop, ?objs_regop; reflexivity.
Qed.
Lemma REL_disp_reregister s o t : REL s -> REL (snd (disp_reregister s o t)).
Proof.
  intros R. unfold disp_reregister. destruct (objs s o) as [ob|]; [|exact R]. destruct (is_running s o); [exact R|].
  destruct (src_reregister _ _ _) as [[r x'] e1].
  assert (R2 : REL (set_obj_src (set_en s e1) o x')) by (apply REL_set_obj_src; apply (REL_eq s); try reflexivity; exact R).
  destruct r; cbn [snd]; try destruct (src_lc x'); (eapply REL_eq; [| | | |exact R2]);
    cbn [slots running zombies objs set_lifecycle panic set_halted emit set_log]; rewrite ?slots_regop, ?running_regop, ?zombies_regop, ?objs_regop; reflexivity.
Qed.
Lemma REL_disp_unregister s o t : REL s -> REL (snd (disp_unregister s o t)).
Proof.
  intros R. unfold disp_unregister. destruct (objs s o) as [ob|]; [|exact R]. destruct (is_running s o); [exact R|].
  destruct (src_unregister _ _) as [[ok x'] e1].
  assert (R2 : REL (set_obj_src (set_en s e1) o x')) by (apply REL_set_obj_src; apply (REL_eq s); try reflexivity; exact R).
  cbn [snd]. destruct (src_lc x'); (eapply REL_eq; [| | | |exact R2]);
    cbn [slots running zombies objs set_lifecycle]; rewrite ?slots_regop, ?running_regop, ?zombies_regop, ?objs_regop; reflexivity.
Qed.
Lemma zombies_disp_register s o t : zombies (snd (disp_register s o t)) = zombies s.
Proof.
  unfold disp_register. destruct (objs s o) as [ob|]; [|reflexivity]. destruct (is_running s o); [reflexivity|].
  destruct (src_register _ _ _) as [[r x'] e1]. destruct r; cbn [snd]; try destruct (src_lc x'); cbn [zombies set_lifecycle panic set_halted emit set_log];
    rewrite ?zombies_regop, ?zombies_set_obj_src; reflexivity.
Qed.
Lemma zombies_disp_reregister s o t : zombies (snd (disp_reregister s o t)) = zombies s.
Proof.
  unfold disp_reregister. destruct (objs s o) as [ob|]; [|reflexivity]. destruct (is_running s o); [reflexivity|].
  destruct (src_reregister _ _ _) as [[r x'] e1]. destruct r; cbn [snd]; try destruct (src_lc x'); cbn [zombies set_lifecycle panic set_halted emit set_log];
    rewrite ?zombies_regop, ?zombies_set_obj_src; reflexivity.
Qed.
Lemma zombies_disp_unregister s o t : zombies (snd (disp_unregister s o t)) = zombies s.
Proof.
  unfold disp_unregister. destruct (objs s o) as [ob|]; [|reflexivity]. destruct (is_running s o); [reflexivity|].
  destruct (src_unregister _ _) as [[ok x'] e1]. cbn [snd]. destruct (src_lc x'); cbn [zombies set_lifecycle]; rewrite ?zombies_regop, ?zombies_set_obj_src; reflexivity.
Qed.

(* maybe_drop: the object either stays held, is queued (while it is being processed), or ceases to exist *)
Lemma REL_maybe_drop_after s o : (forall o' ob, objs s o' = Some ob -> o' <> o -> held s o' ob) -> REL (maybe_drop s o).
Proof.
  intros R. unfold maybe_drop. destruct (objs s o) as [ob|] eqn:Eo.
  2:{ intros o' ob' H. destruct (N.eq_dec o' o) as [->|Hne]; [congruence|exact (R o' ob' H Hne)]. }
  destruct (o_ext ob || in_slots (slots s) o) eqn:E.
  - intros o' ob' H. destruct (N.eq_dec o' o) as [->|Hne]; [|exact (R o' ob' H Hne)]. rewrite Eo in H. injection H as <-.
    apply orb_true_iff in E as [E|E]; [left; exact E|right; left; exact E].
  - destruct (is_running s o) eqn:Er.
    + intros o' ob' H. cbn [objs set_zombies] in H. destruct (N.eq_dec o' o) as [->|Hne].
      * right; right; left. exact Er.
      * destruct (R o' ob' H Hne) as [A|[A|[A|A]]]; [left; exact A|right; left; exact A|right; right; left; exact A|right; right; right; right; exact A].
    + unfold drop_obj. intros o' ob' H. cbn [objs emit set_log set_objs set_en] in H. unfold fupd in H. destruct (N.eqb_spec o' o) as [->|Hne]; [discriminate|].
      exact (R o' ob' H Hne).
Qed.
Lemma REL_maybe_drop s o : REL s -> REL (maybe_drop s o).
Proof. intros R. apply REL_maybe_drop_after. intros o' ob H _. exact (R o' ob H). Qed.

Lemma upd_upd' {A} (l : list A) : forall k a b, upd (upd l k a) k b = upd l k b.
Proof. induction l as [|y t IH]; intros [|k] a b; cbn; try reflexivity; f_equal; apply IH. Qed.

Lemma in_slots_upd_other l i new o : (forall old, nth_error l i = Some old -> s_obj old <> Some o) -> in_slots l o = true -> in_slots (upd l i new) o = true.
Proof.
  intros Hold H. apply in_slots_spec in H as (j & sl & Hj & Ho). apply in_slots_spec.
  destruct (Nat.eq_dec i j) as [<-|Ne]; [exfalso; exact (Hold sl Hj Ho)|].
  exists j, sl. split; [rewrite nth_error_upd_other by exact Ne; exact Hj|exact Ho].
Qed.

Lemma REL_do_insert s h x : REL s -> REL (do_insert s h x).
Proof.
  intros R. unfold do_insert. destruct (objs s h) eqn:Eh; [apply (REL_eq s); try reflexivity; exact R|].
  set (s0 := set_objs s (fupd (objs s) h (Some (mkObj x true)))).
  assert (R0 : REL s0).
  { intros o ob H. unfold s0 in H. cbn [objs set_objs] in H. unfold fupd in H. destruct (N.eqb_spec o h) as [->|].
    - injection H as <-. left. reflexivity.
    - exact (R o ob H). }
  destruct (vacant_entry (slots s0)) as [[i sl]|] eqn:Ev; [|apply (REL_eq s0); try reflexivity; exact R0].
  change (slots s0) with (slots s) in Ev.
  destruct (vacant_entry_spec _ _ _ Ev) as (V1 & V2 & e & He & Heo). rewrite He.
  (* every state from here on has slots (upd sl i (tok, o', gen)): occupied slots of s are untouched *)
  assert (KEEP : forall o' o, in_slots (slots s) o = true -> in_slots (upd sl i (mkSlot (s_tok e) o' (s_gen e))) o = true).
  { intros o' o H. apply in_slots_spec in H as (j & slj & Hj & Ho). apply in_slots_spec.
    destruct (V1 j slj Hj) as [Hji Hj']; [congruence|]. exists j, slj. split; [rewrite nth_error_upd_other by (intros X; apply Hji; symmetry; exact X); exact Hj'|exact Ho]. }
  set (s1 := set_slots s0 (upd sl i (mkSlot (s_tok e) (Some h) (s_gen e)))).
  assert (R1 : REL s1).
  { intros o ob H. destruct (R0 o ob H) as [A|[A|[A|A]]]; [left; exact A|right; left; exact (KEEP (Some h) o A)|right; right; left; exact A|right; right; right; exact A]. }
  pose proof (REL_disp_register s1 h (s_tok e) R1) as R2.
  pose proof (slots_disp_register s1 h (s_tok e)) as FS. pose proof (running_disp_register s1 h (s_tok e)) as FR. pose proof (zombies_disp_register s1 h (s_tok e)) as FZ.
  assert (EXT : forall ob', objs (snd (disp_register s1 h (s_tok e))) h = Some ob' -> o_ext ob' = true).
  { intros ob' H. unfold disp_register in H. change (objs s1 h) with (objs s0 h) in H. unfold s0 in H at 1. cbn [objs set_objs] in H. unfold fupd in H at 1. rewrite N.eqb_refl in H.
    destruct (is_running s1 h); [cbn in H; unfold fupd in H; rewrite N.eqb_refl in H; injection H as <-; reflexivity|].
    destruct (src_register _ _ _) as [[r x'] e1].
    assert (E : forall sx, objs sx = objs (set_obj_src (set_en s1 e1) h x') -> objs sx h = Some ob' -> o_ext ob' = true).
    { intros sx Esx Hx. rewrite Esx in Hx. destruct (objs_set_obj_src_ext _ _ _ _ _ Hx) as [ob0 [E0 X]]. cbn in E0. unfold fupd in E0. rewrite N.eqb_refl in E0. injection E0 as <-. rewrite <- X. reflexivity. }
    destruct r; cbn [snd] in H; try destruct (src_lc x'); (eapply E; [|exact H]); cbn [objs set_lifecycle panic set_halted emit set_log]; rewrite ?objs_regop; reflexivity. }
  destruct (disp_register s1 h (s_tok e)) as [r s2]. cbn [snd] in *.
  destruct (halted s2); [exact R2|].
  destruct r; try (apply (REL_eq s2); try reflexivity; exact R2).
  all: intros o ob H; cbn [objs emit set_log set_slots] in H; unfold held, is_running; cbn [slots running zombies emit set_log set_slots];
    rewrite FS; unfold s1; cbn [slots set_slots]; rewrite upd_upd';
    (destruct (N.eq_dec o h) as [->|Hne]; [left; exact (EXT ob H)|]);
    (destruct (R2 o ob H) as [A|[A|[A|A]]]; [left; exact A| |right; right; left; exact A|right; right; right; exact A]);
    right; left; rewrite FS in A; unfold s1 in A; cbn [slots set_slots] in A;
    apply in_slots_spec in A as (j & slj & Hj & Ho); apply in_slots_spec;
    (destruct (Nat.eq_dec i j) as [<-|Ne]; [rewrite (nth_error_upd_same _ _ _ _ He) in Hj; injection Hj as <-; cbn in Ho; congruence|]);
    exists j, slj; (split; [rewrite nth_error_upd_other by exact Ne; rewrite nth_error_upd_other in Hj by exact Ne; exact Hj|exact Ho]).
Qed.

Lemma REL_do_remove s h : REL s -> REL (do_remove s h).
Proof.
  intros R. unfold do_remove. destruct (lookup s h) as [[[t et] o]|] eqn:El; [|apply (REL_eq s); try reflexivity; exact R].
  destruct (lookup_spec _ _ _ _ _ El) as (_ & sl & Hn & _ & Hob & _).
  set (s1 := set_slots s (slot_set_obj (slots s) t None)).
  (* after vacating the slot every object but o is still held *)
  assert (R1 : forall o' ob, objs s1 o' = Some ob -> o' <> o -> held s1 o' ob).
  { intros o' ob H Hne. destruct (R o' ob H) as [A|[A|[A|A]]]; [left; exact A| |right; right; left; exact A|right; right; right; exact A].
    right; left. unfold s1. cbn [slots set_slots]. unfold slot_set_obj. rewrite Hn. apply in_slots_upd_other; [|exact A].
    intros old Ho. rewrite Hn in Ho. injection Ho as <-. rewrite Hob. congruence. }
  pose proof (slots_disp_unregister s1 o t) as FS. pose proof (running_disp_unregister s1 o t) as FR. pose proof (zombies_disp_unregister s1 o t) as FZ.
  assert (OE : forall o' ob', objs (snd (disp_unregister s1 o t)) o' = Some ob' -> exists ob, objs s1 o' = Some ob /\ o_ext ob = o_ext ob').
  { unfold disp_unregister. destruct (objs s1 o) as [ob|]; [|intros o' ob' H; exists ob'; split; [exact H|reflexivity]].
    destruct (is_running s1 o); [intros o' ob' H; exists ob'; split; [exact H|reflexivity]|].
    destruct (src_unregister _ _) as [[ok x'] e1]. cbn [snd]. intros o' ob' H.
    assert (H' : objs (set_obj_src (set_en s1 e1) o x') o' = Some ob') by (destruct (src_lc x'); cbn [objs set_lifecycle] in H; rewrite objs_regop in H; exact H).
    exact (objs_set_obj_src_ext _ _ _ _ _ H'). }
  destruct (disp_unregister s1 o t) as [[r d] s2]. cbn [snd] in *.
  apply (REL_eq (maybe_drop s2 o)); try reflexivity. apply REL_maybe_drop_after.
  intros o' ob' H Hne. destruct (OE o' ob' H) as [ob [E X]]. unfold held, is_running. rewrite FS, FR, FZ, <- X. exact (R1 o' ob E Hne).
Qed.

Lemma REL_exec_action s a : REL s -> REL (exec_action s a).
Proof.
  intros R. unfold exec_action. destruct (halted s); [exact R|].
  destruct a as [h x|h|h|h|h|h j it m|h dl|h|h|fd v|fd|p|p|p|c v|c v|c|c|i|i|p fd|c fd bound|]; try (apply (REL_eq s); try reflexivity; exact R).
  - apply REL_do_insert; exact R.
  - apply REL_do_remove; exact R.
  - unfold do_disable. destruct (lookup s h) as [[[t et] o]|]; [|apply (REL_eq s); try reflexivity; exact R].
    pose proof (REL_disp_unregister s o t R) as R1. destruct (disp_unregister s o t) as [[r d] s1]. cbn [snd] in R1.
    destruct r; [destruct d|..]; (apply (REL_eq s1); try reflexivity; exact R1).
  - unfold do_enable. destruct (lookup s h) as [[[t et] o]|]; [|apply (REL_eq s); try reflexivity; exact R].
    pose proof (REL_disp_register s o et R) as R1. destruct (disp_register s o et) as [r s1]. cbn [snd] in R1.
    destruct (halted s1); [exact R1|apply (REL_eq s1); try reflexivity; exact R1].
  - unfold do_update. destruct (lookup s h) as [[[t et] o]|]; [|apply (REL_eq s); try reflexivity; exact R].
    pose proof (REL_disp_reregister s o et R) as R1. destruct (disp_reregister s o et) as [[r d] s1]. cbn [snd] in R1.
    destruct (halted s1); [exact R1|]. destruct r; [destruct d|..]; (apply (REL_eq s1); try reflexivity; exact R1).
  - unfold do_setint. destruct (objs s h) as [ob|]; [|apply (REL_eq s); try reflexivity; exact R]. destruct (negb (o_ext ob)); [apply (REL_eq s); try reflexivity; exact R|].
    destruct (is_running s h); [apply (REL_eq s); try reflexivity; exact R|].
    destruct (o_src ob); try (apply (REL_eq s); try reflexivity; exact R).
    match goal with |- REL (emit (set_obj_src ?a ?b ?c) _) => apply (REL_eq (set_obj_src a b c)); try reflexivity; apply REL_set_obj_src; exact R end.
  - unfold do_setdl. destruct (objs s h) as [ob|]; [|apply (REL_eq s); try reflexivity; exact R]. destruct (negb (o_ext ob)); [apply (REL_eq s); try reflexivity; exact R|].
    destruct (is_running s h); [apply (REL_eq s); try reflexivity; exact R|].
    destruct (o_src ob) as [lc own subs [tm|]|g|tm|c g]; try (apply (REL_eq s); try reflexivity; exact R);
      match goal with |- REL (emit (set_obj_src ?a ?b ?c) _) => apply (REL_eq (set_obj_src a b c)); try reflexivity; apply REL_set_obj_src; exact R end.
  - unfold do_intoinner. destruct (objs s h) as [ob|] eqn:Eo; [|apply (REL_eq s); try reflexivity; exact R]. destruct (negb (o_ext ob)); [apply (REL_eq s); try reflexivity; exact R|].
    destruct (in_slots (slots s) h || is_running s h); [apply (REL_eq s); try reflexivity; exact R|].
    apply (REL_eq (drop_obj s h ob)); try reflexivity. unfold drop_obj. intros o' ob' H. cbn [objs emit set_log set_objs set_en] in H. unfold fupd in H.
    destruct (N.eqb_spec o' h); [discriminate|]. exact (R o' ob' H).
  - unfold do_dropdisp. destruct (objs s h) as [ob|] eqn:Eo; [|apply (REL_eq s); try reflexivity; exact R]. destruct (negb (o_ext ob)); [apply (REL_eq s); try reflexivity; exact R|].
    set (s1 := set_objs s (fupd (objs s) h (Some (mkObj (o_src ob) false)))).
    apply (REL_eq (maybe_drop s1 h)); try reflexivity. apply REL_maybe_drop_after.
    intros o' ob' H Hne. unfold s1 in H. cbn [objs set_objs] in H. unfold fupd in H. destruct (N.eqb_spec o' h); [contradiction|]. exact (R o' ob' H).
  - unfold do_send. destruct (env_send _ _ _) as [e' [rc|]]; apply (REL_eq s); try reflexivity; exact R.
  - unfold do_send. destruct (env_send _ _ _) as [e' [rc|]]; apply (REL_eq s); try reflexivity; exact R.
  - unfold do_cancelidle. destruct (match ridle s with Some r => r =? i | None => false end); apply (REL_eq s); try reflexivity; exact R.
Qed.
Lemma REL_exec_actions l : forall s, REL s -> REL (exec_actions s l).
Proof. unfold exec_actions. induction l as [|a l IH]; intros s R; cbn [fold_left]; [exact R|]. apply IH. apply REL_exec_action. exact R. Qed.
Lemma REL_callback scr s h sub p : REL s -> REL (fst (callback scr s h sub p)).
Proof. intros R. unfold callback. cbn [fst]. apply REL_exec_actions. apply (REL_eq s); try reflexivity. exact R. Qed.

Lemma REL_chan_loop scr fuel : forall s h c, REL s -> REL (fst (fst (chan_loop scr fuel s h c))).
Proof.
  induction fuel as [|f IH]; intros s h c R; cbn [chan_loop]; [exact R|].
  destruct (halted s); [exact R|]. destruct (chans (en s) c) as [ch|]; [|exact R].
  destruct (ch_q ch) as [|v q'].
  - destruct (ch_senders ch =? 0); [|exact R].
    pose proof (REL_callback scr s h 1%Z 0%Z R) as C. destruct (callback scr s h 1%Z 0%Z) as [s2 sc]. exact C.
  - match goal with |- context [callback scr ?x h 0%Z v] => set (s1 := x) end.
    assert (R1 : REL s1) by (apply (REL_eq s); try reflexivity; exact R).
    pose proof (REL_callback scr s1 h 0%Z v R1) as C. destruct (callback scr s1 h 0%Z v) as [s2 sc]. cbn [fst] in C. apply IH. exact C.
Qed.

Lemma REL_obj_process scr s o ev : REL s -> REL (fst (obj_process scr s o ev)).
Proof.
  intros R. unfold obj_process. destruct (objs s o) as [ob|]; [|exact R].
  destruct (o_src ob) as [lc own subs tmr|g|tm|c g].
  - destruct (if opt_tok_is own _ then _ else _) as [j|].
    + pose proof (REL_callback scr s o j (zN (rd_code (ev_rd ev))) R) as C. destruct (callback scr s o j _) as [s1 sc]. exact C.
    + destruct tmr as [tm|]; [|exact R]. cbn [fst]. unfold timer_sub_fire.
      destruct (tm_reg tm) as [[tk c]|]; [|exact R]. destruct (tm_dl tm) as [dl|]; [|exact R]. destruct (tok_eqb tk _); [|exact R].
      pose proof (REL_callback scr s o (Z.of_nat (S (length subs))) dl R) as C. destruct (callback scr s o _ dl) as [s1 sc]. cbn [fst] in C.
      destruct (sc_ret sc) as [|[[| |]|[| |]|]]; try exact C; apply REL_set_obj_src; try exact C; apply (REL_eq s1); try reflexivity; exact C.
  - unfold ping_drain. destruct (opt_tok_is (g_tok g) _); [|exact R]. destruct (fd_read (en s) (g_fd g)) as [e1 v].
    destruct (v =? 0); [apply (REL_eq s); try reflexivity; exact R|]. destruct (2 <=? v); cbn [fst]; [|apply (REL_eq s); try reflexivity; exact R].
    apply REL_callback. apply (REL_eq s); try reflexivity; exact R.
  - destruct (tm_reg tm) as [[tk c]|]; [|exact R]. destruct (tm_dl tm) as [dl|]; [|exact R]. destruct (tok_eqb tk _); [|exact R].
    pose proof (REL_callback scr s o 0%Z dl R) as C. destruct (callback scr s o 0%Z dl) as [s1 sc]. cbn [fst] in C.
    destruct (sc_ret sc) as [|[[| |]|[| |]|]]; cbn [fst]; try exact C; apply REL_set_obj_src; try exact C; apply (REL_eq s1); try reflexivity; exact C.
  - unfold ping_drain. destruct (opt_tok_is (g_tok g) _); [|cbn [fst snd]; exact R]. destruct (fd_read (en s) (g_fd g)) as [e1 v].
    destruct (v =? 0); [apply (REL_eq s); try reflexivity; exact R|]. cbn [fst snd].
    assert (R1 : REL (set_en s e1)) by (apply (REL_eq s); try reflexivity; exact R).
    destruct (2 <=? v); [|cbn [fst]; apply (REL_eq (set_en s e1)); try reflexivity; exact R1].
    pose proof (REL_chan_loop scr (chan_max (en s) c) (set_en s e1) o c R1) as Lp. destruct (chan_loop scr _ (set_en s e1) o c) as [[s2 clear] disc]. cbn [fst] in Lp.
    destruct disc; [exact Lp|]. destruct clear; cbn [fst]; [exact Lp|apply (REL_eq s2); try reflexivity; exact Lp].
Qed.

(* the end of an event's processing: whatever was only held because it was being processed or queued is released *)
Definition REL0 (s : st) : Prop := forall o ob, objs s o = Some ob -> o_ext ob = true \/ in_slots (slots s) o = true.

Lemma REL0_maybe_drop s o : running s = None -> (forall o' ob, objs s o' = Some ob -> o' <> o -> o_ext ob = true \/ in_slots (slots s) o' = true) -> REL0 (maybe_drop s o).
Proof.
  intros Hr R. unfold maybe_drop. destruct (objs s o) as [ob|] eqn:Eo.
  2:{ intros o' ob' H. destruct (N.eq_dec o' o) as [->|Hne]; [congruence|exact (R o' ob' H Hne)]. }
  destruct (o_ext ob || in_slots (slots s) o) eqn:E.
  - intros o' ob' H. destruct (N.eq_dec o' o) as [->|Hne]; [|exact (R o' ob' H Hne)]. rewrite Eo in H. injection H as <-.
    apply orb_true_iff in E as [E|E]; [left; exact E|right; exact E].
  - assert (Er : is_running s o = false) by (unfold is_running; rewrite Hr; reflexivity). rewrite Er.
    unfold drop_obj. intros o' ob' H. cbn [objs emit set_log set_objs set_en] in H. unfold fupd in H. destruct (N.eqb_spec o' o) as [->|Hne]; [discriminate|].
    exact (R o' ob' H Hne).
Qed.
(* drop_zombies over a list that covers everything not yet justified *)
Lemma REL0_drop_zombies l : forall s, running s = None ->
  (forall o ob, objs s o = Some ob -> o_ext ob = true \/ in_slots (slots s) o = true \/ In o l) -> REL0 (drop_zombies s l).
Proof.
  induction l as [|z r IH]; intros s Hr R; cbn [drop_zombies].
  - intros o ob H. destruct (R o ob H) as [A|[A|[]]]; [left; exact A|right; exact A].
  - apply IH; [rewrite running_maybe_drop; exact Hr|].
    intros o ob H. rewrite slots_maybe_drop.
    destruct (N.eq_dec o z) as [->|Hne].
    + (* z itself: if it still exists after maybe_drop it is held *)
      unfold maybe_drop in H. destruct (objs s z) as [obz|] eqn:Ez; [|congruence].
      destruct (o_ext obz || in_slots (slots s) z) eqn:E.
      * rewrite Ez in H. injection H as <-. apply orb_true_iff in E as [E|E]; [left; exact E|right; left; exact E].
      * assert (Er : is_running s z = false) by (unfold is_running; rewrite Hr; reflexivity). rewrite Er in H.
        unfold drop_obj in H. cbn [objs emit set_log set_objs set_en] in H. unfold fupd in H. rewrite N.eqb_refl in H. discriminate.
    + assert (H' : objs s o = Some ob).
      { unfold maybe_drop in H. destruct (objs s z) as [obz|]; [|exact H]. destruct (o_ext obz || in_slots (slots s) z); [exact H|].
        destruct (is_running s z); [exact H|]. unfold drop_obj in H. cbn [objs emit set_log set_objs set_en] in H. unfold fupd in H.
        destruct (N.eqb_spec o z); [contradiction|exact H]. }
      destruct (R o ob H') as [A|[A|[A|A]]]; [left; exact A|right; left; exact A|congruence|right; right; exact A].
Qed.

(* ---------- one event: uses the lifecycle/slot invariant Q of C14_life2 for "the slot the event's token resolves to holds the
   source being processed or nothing" ---------- *)
From CVP Require Import C14_life2.

Lemma REL_of_REL0 s : REL0 s -> REL s.
Proof. intros R o ob H. destruct (R o ob H) as [A|A]; [left; exact A|right; left; exact A]. Qed.

Definition RELx (s : st) (o : N) : Prop :=
  forall o' ob, objs s o' = Some ob -> o' <> o -> o_ext ob = true \/ in_slots (slots s) o' = true \/ In o' (zombies s).

Lemma RELx_frame s s' o : slots s' = slots s -> zombies s' = zombies s ->
  (forall o' ob', objs s' o' = Some ob' -> exists ob, objs s o' = Some ob /\ o_ext ob = o_ext ob') -> RELx s o -> RELx s' o.
Proof. intros Hs Hz Ho R o' ob' H Hne. destruct (Ho o' ob' H) as [ob [E X]]. rewrite Hs, Hz, <- X. exact (R o' ob E Hne). Qed.

Lemma objs_disp_reregister_ext s o t o' ob' : objs (snd (disp_reregister s o t)) o' = Some ob' -> exists ob, objs s o' = Some ob /\ o_ext ob = o_ext ob'.
Proof.
  unfold disp_reregister. destruct (objs s o) as [ob|]; [|intros H; exists ob'; split; [exact H|reflexivity]].
  destruct (is_running s o); [intros H; exists ob'; split; [exact H|reflexivity]|].
  destruct (src_reregister _ _ _) as [[r x'] e1]. intros H.
  assert (H' : objs (set_obj_src (set_en s e1) o x') o' = Some ob').
  { destruct r; cbn [snd] in H; try destruct (src_lc x'); cbn [objs set_lifecycle panic set_halted emit set_log] in H; rewrite ?objs_regop in H; exact H. }
  exact (objs_set_obj_src_ext _ _ _ _ _ H').
Qed.
Lemma objs_disp_unregister_ext s o t o' ob' : objs (snd (disp_unregister s o t)) o' = Some ob' -> exists ob, objs s o' = Some ob /\ o_ext ob = o_ext ob'.
Proof.
  unfold disp_unregister. destruct (objs s o) as [ob|]; [|intros H; exists ob'; split; [exact H|reflexivity]].
  destruct (is_running s o); [intros H; exists ob'; split; [exact H|reflexivity]|].
  destruct (src_unregister _ _) as [[ok x'] e1]. cbn [snd]. intros H.
  assert (H' : objs (set_obj_src (set_en s e1) o x') o' = Some ob') by (destruct (src_lc x'); cbn [objs set_lifecycle] in H; rewrite objs_regop in H; exact H).
  exact (objs_set_obj_src_ext _ _ _ _ _ H').
Qed.

Lemma RELx_apply_post s o reg r : RELx s o ->
  (forall sl, slot_get (slots s) reg = Some sl -> s_obj sl = Some o \/ s_obj sl = None) ->
  RELx (snd (apply_post s o reg r)) o.
Proof.
  intros R Hown. unfold apply_post. destruct r.
  - exact R.
  - pose proof (slots_disp_reregister s o reg) as F1. pose proof (zombies_disp_reregister s o reg) as F2. pose proof (objs_disp_reregister_ext s o reg) as F3.
    destruct (disp_reregister s o reg) as [[rs d] sx]. cbn [snd] in *. apply (RELx_frame s); assumption.
  - pose proof (slots_disp_unregister s o reg) as F1. pose proof (zombies_disp_unregister s o reg) as F2. pose proof (objs_disp_unregister_ext s o reg) as F3.
    destruct (disp_unregister s o reg) as [[rs d] sx]. cbn [snd] in *. apply (RELx_frame s); assumption.
  - cbn [snd]. destruct (slot_get (slots s) reg) as [sl|] eqn:Eg; [|exact R].
    destruct (slot_get_some _ _ _ Eg) as [Hn _].
    intros o' ob H Hne. cbn [objs set_slots] in H. destruct (R o' ob H Hne) as [A|[A|A]]; [left; exact A| |right; right; exact A].
    right; left. cbn [slots set_slots]. unfold slot_set_obj. rewrite Hn. apply in_slots_upd_other; [|exact A].
    intros old Ho. rewrite Hn in Ho. injection Ho as <-. destruct (Hown sl eq_refl) as [X|X]; rewrite X; congruence.
Qed.

Lemma Q_start s o reg sl : Q s -> running s = None -> slot_get (slots s) reg = Some sl -> s_obj sl = Some o -> t_sub reg = 0 ->
  Q (set_running s (Some (o, reg))).
Proof.
  intros (L & [W G] & T & U & R) Hr Eg Eo Hsub. destruct (slot_get_some _ _ _ Eg) as [Hn Hss].
  assert (Hgen : s_gen sl = t_ver reg) by (apply (slot_get_gen s reg sl (conj W G) Hn); exact Hss).
  unfold Q, gens_ok, TS, UNIQ, RUN. cbn [running slots toks set_running].
  split; [|split; [split; [exact W|exact G]|split; [exact T|split; [exact U|]]]].
  - rewrite Hr in L. destruct L as (A & B & C). split; [|split].
    + intros e He. destruct (A e He) as [Se [Gd|E]]; [|destruct (excused_none _ _ E)]. split; [exact Se|]. left. exact Gd.
    + exact B.
    + intros o' t' [= <- <-]. exact (B _ sl o Hn Eo).
  - intros ro rt [= <- <-]. split; [exact Hsub|]. split.
    + exists sl. split; [exact Hn|]. split; [lia|]. intros _. left. exact Eo.
    + intros i sli Hi Hoi. assert (i = N.to_nat (t_id reg)) by exact (U i _ sli sl o Hi Hn Hoi Eo). subst i.
      split; [reflexivity|]. rewrite Hn in Hi. injection Hi as <-. exact Hgen.
Qed.

Lemma zombies_maybe_drop_idle s o : running s = None -> zombies (maybe_drop s o) = zombies s.
Proof.
  intros Hr. unfold maybe_drop. destruct (objs s o) as [ob|]; [|reflexivity]. destruct (o_ext ob || in_slots (slots s) o); [reflexivity|].
  assert (E : is_running s o = false) by (unfold is_running; rewrite Hr; reflexivity). rewrite E. reflexivity.
Qed.
Lemma zombies_drop_zombies_idle l : forall s, running s = None -> zombies (drop_zombies s l) = zombies s.
Proof.
  induction l as [|z r IH]; intros s Hr; cbn [drop_zombies]; [reflexivity|].
  rewrite IH by (rewrite running_maybe_drop; exact Hr). apply zombies_maybe_drop_idle. exact Hr.
Qed.

Definition RTOP (s : st) : Prop := halted s = true \/ (REL0 s /\ zombies s = []).

Lemma REL_process_event scr s ev : Q s -> running s = None -> REL0 s -> zombies s = [] ->
  gens_small (slots (fst (process_event scr s ev))) -> RTOP (fst (process_event scr s ev)).
Proof.
  intros Qs Hr R0 Z0 Gf. unfold process_event in *. set (reg := forget_sub_id (unpack (ev_key ev))) in *.
  destruct (slot_get (slots s) reg) as [sl|] eqn:Eg; [|right; split; assumption].
  destruct (s_obj sl) as [o|] eqn:Eo; [|right; split; assumption].
  set (sr := set_running s (Some (o, reg))) in *.
  assert (Qr : Q sr) by (apply (Q_start s o reg sl); try assumption; reflexivity).
  assert (Rr : REL sr).
  { intros o' ob H. destruct (R0 o' ob H) as [A|A]; [left; exact A|right; left; exact A]. }
  assert (Hrun : is_running sr o = true) by (unfold is_running, sr; cbn; apply N.eqb_refl).
  pose proof (Q_obj_process scr sr o ev Qr Hrun) as QO. pose proof (running_obj_process scr sr o ev) as RO.
  pose proof (REL_obj_process scr sr o ev Rr) as RL.
  destruct (obj_process scr sr o ev) as [s2 ret]. cbn [fst] in *.
  destruct (halted s2) eqn:H2; [left; exact H2|].
  set (s4 := set_pending (set_running s2 None) Continue) in *.
  assert (SS : sstep (slots s2) (slots (snd (match ret with None => (false, s4) | Some r => apply_post s4 o reg (match r with Continue => pending (set_running s2 None) | _ => r end) end)))).
  { destruct ret as [r|]; [change (slots s2) with (slots s4); apply apply_post_sstep|apply sstep_refl]. }
  assert (RX : RELx s4 o -> (forall sl', slot_get (slots s4) reg = Some sl' -> s_obj sl' = Some o \/ s_obj sl' = None) ->
          RELx (snd (match ret with None => (false, s4) | Some r => apply_post s4 o reg (match r with Continue => pending (set_running s2 None) | _ => r end) end)) o).
  { intros X Hown. destruct ret as [r|]; [apply RELx_apply_post; assumption|exact X]. }
  assert (RN : running (snd (match ret with None => (false, s4) | Some r => apply_post s4 o reg (match r with Continue => pending (set_running s2 None) | _ => r end) end)) = None).
  { destruct ret as [r|]; [rewrite running_apply_post|]; reflexivity. }
  destruct (match ret with None => (false, s4) | Some r => apply_post s4 o reg _ end) as [ok s5]. cbn [snd] in *.
  destruct (halted s5) eqn:H5; [left; exact H5|].
  cbn [fst] in Gf |- *.
  assert (G5 : gens_small (slots s5)).
  { rewrite slots_end_processing in Gf. destruct (slot_vacant_for s5 reg); [|exact Gf].
    pose proof (slots_disp_unregister s5 o reg) as F. destruct (disp_unregister s5 o reg) as [[rs d] sx]. cbn [snd] in F. rewrite F in Gf. exact Gf. }
  assert (G2 : gens_small (slots s2)) by (eapply gens_small_mono; [apply (proj2 SS)|exact G5]).
  specialize (QO G2). destruct QO as (L2 & [W2 _] & T2 & U2 & R2).
  assert (Hr2 : running s2 = Some (o, reg)) by (rewrite RO; reflexivity).
  (* s4: nothing runs; everything but o is held by a handle, a slot, or queued *)
  assert (X4 : RELx s4 o).
  { intros o' ob H Hne. destruct (RL o' ob H) as [A|[A|[A|A]]]; [left; exact A|right; left; exact A| |right; right; exact A].
    unfold is_running in A. rewrite Hr2 in A. apply N.eqb_eq in A. congruence. }
  assert (Hown : forall sl', slot_get (slots s4) reg = Some sl' -> s_obj sl' = Some o \/ s_obj sl' = None).
  { intros sl' Hg'. destruct (slot_get_some _ _ _ Hg') as [Hn' Hss']. destruct (R2 o reg Hr2) as (_ & (slr & Rn & _ & Rsame) & _).
    change (slots s4) with (slots s2) in Hn'. rewrite Hn' in Rn. injection Rn as <-.
    apply Rsame. apply (slot_get_gen s2 reg sl' (conj W2 G2) Hn'). exact Hss'. }
  specialize (RX X4 Hown).
  right.
  (* the deferred unregistration does not touch what REL reads *)
  set (s6 := if slot_vacant_for s5 reg then snd (disp_unregister s5 o reg) else s5).
  assert (X6 : RELx s6 o /\ running s6 = None).
  { unfold s6. destruct (slot_vacant_for s5 reg); [|split; [exact RX|exact RN]].
    pose proof (slots_disp_unregister s5 o reg) as F1. pose proof (zombies_disp_unregister s5 o reg) as F2. pose proof (objs_disp_unregister_ext s5 o reg) as F3.
    pose proof (running_disp_unregister s5 o reg) as F4.
    destruct (disp_unregister s5 o reg) as [[rs d] sx]. cbn [snd] in *. split; [apply (RELx_frame s5); assumption|rewrite F4; exact RN]. }
  destruct X6 as [X6 RN6].
  assert (E6 : (let '(_, _, sx) := disp_unregister s5 o reg in sx) = snd (disp_unregister s5 o reg)) by (destruct (disp_unregister s5 o reg) as [[a b] c]; reflexivity).
  assert (Es6 : (if slot_vacant_for s5 reg then let '(_, _, sx) := disp_unregister s5 o reg in sx else s5) = s6) by (unfold s6; rewrite E6; reflexivity).
  rewrite Es6. unfold end_processing.
  set (s7 := set_zombies (set_running s6 None) []).
  assert (R7 : running s7 = None) by reflexivity.
  split.
  - apply REL0_drop_zombies; [rewrite running_maybe_drop; exact R7|].
    intros o' ob H. rewrite slots_maybe_drop.
    destruct (N.eq_dec o' o) as [->|Hne].
    + (* o itself: if it survives maybe_drop it is held *)
      assert (M : REL0 (maybe_drop s7 o) \/ True) by (right; exact I). clear M.
      unfold maybe_drop in H. destruct (objs s7 o) as [obo|] eqn:Eo7; [|congruence].
      destruct (o_ext obo || in_slots (slots s7) o) eqn:E.
      * rewrite Eo7 in H. injection H as <-. apply orb_true_iff in E as [E|E]; [left; exact E|right; left; exact E].
      * assert (Er : is_running s7 o = false) by reflexivity. rewrite Er in H.
        unfold drop_obj in H. cbn [objs emit set_log set_objs set_en] in H. unfold fupd in H. rewrite N.eqb_refl in H. discriminate.
    + assert (H' : objs s6 o' = Some ob).
      { unfold maybe_drop in H. destruct (objs s7 o) as [obo|]; [|exact H]. destruct (o_ext obo || in_slots (slots s7) o); [exact H|].
        destruct (is_running s7 o); [exact H|]. unfold drop_obj in H. cbn [objs emit set_log set_objs set_en] in H. unfold fupd in H.
        destruct (N.eqb_spec o' o); [contradiction|exact H]. }
      destruct (X6 o' ob H' Hne) as [A|[A|A]]; [left; exact A|right; left; exact A|right; right; exact A].
  - (* maybe_drop only ever queues an object that is being processed; nothing is *)
    rewrite zombies_drop_zombies_idle by (rewrite running_maybe_drop; exact R7). rewrite zombies_maybe_drop_idle by exact R7. reflexivity.
Qed.

(* ---------- between events nothing is queued, and actions issued there queue nothing ---------- *)
Lemma REL0_of_REL s : REL s -> running s = None -> zombies s = [] -> REL0 s.
Proof.
  intros R Hr Hz o ob H. destruct (R o ob H) as [A|[A|[A|A]]]; [left; exact A|right; exact A| |rewrite Hz in A; contradiction].
  unfold is_running in A. rewrite Hr in A. discriminate.
Qed.
Lemma zombies_exec_action_idle s a : running s = None -> zombies (exec_action s a) = zombies s.
Proof.
  intros Hr. unfold exec_action. destruct (halted s); [reflexivity|].
  destruct a as [h x|h|h|h|h|h j it m|h dl|h|h|fd v|fd|p|p|p|c v|c v|c|c|i|i|p fd|c fd bound|]; try reflexivity.
  - unfold do_insert. destruct (objs s h); [reflexivity|]. destruct (vacant_entry _) as [[i sl]|]; [|reflexivity]. destruct (nth_error sl i) as [e|]; [|reflexivity].
    match goal with |- context [disp_register ?a ?b ?c] => pose proof (zombies_disp_register a b c) as F; destruct (disp_register a b c) as [r s2] end.
    cbn [snd] in F. destruct (halted s2); [exact F|]. destruct r; cbn [zombies emit set_log set_toks set_slots]; exact F.
  - unfold do_remove. destruct (lookup s h) as [[[t et] o]|]; [|reflexivity].
    match goal with |- context [disp_unregister ?a ?b ?c] => pose proof (zombies_disp_unregister a b c) as F; pose proof (running_disp_unregister a b c) as FR; destruct (disp_unregister a b c) as [[r d] s2] end.
    cbn [snd] in *. cbn [zombies emit set_log]. rewrite zombies_maybe_drop_idle; [exact F|rewrite FR; exact Hr].
  - unfold do_disable. destruct (lookup s h) as [[[t et] o]|]; [|reflexivity].
    pose proof (zombies_disp_unregister s o t) as F. destruct (disp_unregister s o t) as [[r d] s1]. cbn [snd] in F. destruct r; [destruct d|..]; cbn; exact F.
  - unfold do_enable. destruct (lookup s h) as [[[t et] o]|]; [|reflexivity].
    pose proof (zombies_disp_register s o et) as F. destruct (disp_register s o et) as [r s1]. cbn [snd] in F. destruct (halted s1); cbn; exact F.
  - unfold do_update. destruct (lookup s h) as [[[t et] o]|]; [|reflexivity].
    pose proof (zombies_disp_reregister s o et) as F. destruct (disp_reregister s o et) as [[r d] s1]. cbn [snd] in F.
    destruct (halted s1); [exact F|]. destruct r; [destruct d|..]; cbn; exact F.
  - unfold do_setint. destruct (objs s h) as [ob|]; [|reflexivity]. destruct (negb (o_ext ob)); [reflexivity|]. destruct (is_running s h); [reflexivity|].
    destruct (o_src ob); cbn [zombies emit set_log]; rewrite ?zombies_set_obj_src; reflexivity.
  - unfold do_setdl. destruct (objs s h) as [ob|]; [|reflexivity]. destruct (negb (o_ext ob)); [reflexivity|]. destruct (is_running s h); [reflexivity|].
    destruct (o_src ob) as [lc own subs [tm|]|g|tm|c g]; cbn [zombies emit set_log]; rewrite ?zombies_set_obj_src; reflexivity.
  - unfold do_intoinner. destruct (objs s h) as [ob|]; [|reflexivity]. destruct (negb (o_ext ob)); [reflexivity|]. destruct (in_slots (slots s) h || is_running s h); reflexivity.
  - unfold do_dropdisp. destruct (objs s h) as [ob|]; [|reflexivity]. destruct (negb (o_ext ob)); [reflexivity|].
    cbn [zombies emit set_log]. rewrite zombies_maybe_drop_idle; [reflexivity|exact Hr].
  - unfold do_send. destruct (env_send _ _ _) as [e' [rc|]]; reflexivity.
  - unfold do_send. destruct (env_send _ _ _) as [e' [rc|]]; reflexivity.
  - unfold do_cancelidle. destruct (match ridle s with Some r => r =? i | None => false end); reflexivity.
Qed.
Lemma REL0_exec_action s a : REL0 s -> running s = None -> zombies s = [] -> REL0 (exec_action s a) /\ zombies (exec_action s a) = [].
Proof.
  intros R Hr Hz. assert (Z : zombies (exec_action s a) = []) by (rewrite zombies_exec_action_idle; assumption).
  split; [|exact Z]. apply REL0_of_REL; [apply REL_exec_action; apply REL_of_REL0; exact R|rewrite running_exec_action; exact Hr|exact Z].
Qed.
Lemma REL0_exec_actions l : forall s, REL0 s -> running s = None -> zombies s = [] -> REL0 (exec_actions s l) /\ zombies (exec_actions s l) = [].
Proof.
  unfold exec_actions. induction l as [|a l IH]; intros s R Hr Hz; cbn [fold_left]; [split; assumption|].
  destruct (REL0_exec_action s a R Hr Hz) as [R1 Z1]. apply IH; [exact R1|rewrite running_exec_action; exact Hr|exact Z1].
Qed.
Lemma REL0_eq s s' : slots s' = slots s -> objs s' = objs s -> REL0 s -> REL0 s'.
Proof. intros Hs Ho R o ob H. rewrite Hs. rewrite Ho in H. exact (R o ob H). Qed.

Definition FULL (s : st) : Prop := halted s = true \/ (Q s /\ running s = None /\ REL0 s /\ zombies s = []).

Lemma FULL_process_events scr evs : forall s, halted s = false -> Q s -> running s = None -> REL0 s -> zombies s = [] ->
  gens_small (slots (fst (process_events scr s evs))) -> FULL (fst (process_events scr s evs)).
Proof.
  induction evs as [|ev r IH]; intros s Hh Qs Hr R0 Z0 Gf; cbn [process_events] in *; [right; split; [exact Qs|split; [exact Hr|split; [exact R0|exact Z0]]]|].
  pose proof (Q_process_event scr s ev Qs Hr) as QE. pose proof (REL_process_event scr s ev Qs Hr R0 Z0) as RE.
  pose proof (CVP.C09_proofs.process_event_ok_not_halted scr s ev Hh) as NH.
  pose proof (process_events_sstep scr r) as SS.
  destruct (process_event scr s ev) as [s1 ok]. cbn [fst snd] in *.
  destruct ok.
  - specialize (NH eq_refl). assert (G1 : gens_small (slots s1)) by (eapply gens_small_mono; [apply (proj2 (SS s1))|exact Gf]).
    destruct (QE G1) as [X|[Q1 R1]]; [congruence|]. destruct (RE G1) as [X|[R1' Z1]]; [congruence|]. apply IH; assumption.
  - cbn [fst] in Gf. destruct (QE Gf) as [X|[Q1 R1]]; [left; exact X|]. destruct (RE Gf) as [X|[R1' Z1]]; [left; exact X|]. right. split; [exact Q1|split; [exact R1|split; [exact R1'|exact Z1]]].
Qed.

Lemma before_sleep_loop_rel bscr l : forall s, objs (fst (before_sleep_loop bscr s l)) = objs s /\ zombies (fst (before_sleep_loop bscr s l)) = zombies s.
Proof.
  induction l as [|t l IH]; intros s; cbn [before_sleep_loop]; [split; reflexivity|].
  destruct (lc_lookup s t) as [o|]; [|split; reflexivity].
  destruct (nth _ _ _) as [|p]; [match goal with |- context [before_sleep_loop bscr ?x l] => destruct (IH x) as [A B] end; rewrite A, B; split; reflexivity|].
  destruct p; try (split; reflexivity).
  destruct (match objs _ o with Some _ => _ | None => _ end) as [tk|];
    match goal with |- context [before_sleep_loop bscr ?x l] => destruct (IH x) as [A B] end; rewrite A, B; split; reflexivity.
Qed.
Lemma before_handle_loop_rel l polled : forall s, objs (fst (before_handle_loop s l polled)) = objs s /\ zombies (fst (before_handle_loop s l polled)) = zombies s.
Proof.
  induction l as [|t l IH]; intros s; cbn [before_handle_loop]; [split; reflexivity|].
  destruct (lc_lookup s t) as [o|]; [|split; reflexivity].
  match goal with |- context [before_handle_loop ?x l polled] => destruct (IH x) as [A B] end. rewrite A, B. split; reflexivity.
Qed.

Lemma FULL_run_idles scr l : forall s, Q s -> running s = None -> REL0 s -> zombies s = [] -> gens_small (slots (run_idles scr s l)) ->
  halted (run_idles scr s l) = false ->
  Q (run_idles scr s l) /\ running (run_idles scr s l) = None /\ REL0 (run_idles scr s l) /\ zombies (run_idles scr s l) = [].
Proof.
  induction l as [|i l IH]; intros s Qs Hr R0 Z0 Gf Hh; cbn [run_idles] in *; [split; [exact Qs|split; [exact Hr|split; [exact R0|exact Z0]]]|].
  destruct (halted s) eqn:Hs; [congruence|]. destruct (idle_cancelled s i); [apply IH; assumption|].
  match goal with |- context [exec_actions ?x ?a] => set (s1 := x) in *; set (acts := a) in * end.
  assert (Q1 : Q s1) by (apply (Q_frame_eq s); try reflexivity; exact Qs).
  assert (R1 : REL0 s1) by (apply (REL0_eq s); try reflexivity; exact R0).
  pose proof (Q_exec_actions acts s1 Q1) as QA. pose proof (running_exec_actions acts s1) as RA.
  destruct (REL0_exec_actions acts s1 R1 Hr Z0) as [RB ZB].
  destruct (halted (exec_actions s1 acts)) eqn:Hx; [congruence|].
  assert (G1 : gens_small (slots (exec_actions s1 acts))).
  { eapply gens_small_mono; [|exact Gf]. apply (proj2 (run_idles_sstep scr l (set_ridle (exec_actions s1 acts) None))). }
  apply IH; [apply (Q_frame_eq (exec_actions s1 acts)); try reflexivity; apply QA; exact G1|cbn; rewrite RA; exact Hr|
             apply (REL0_eq (exec_actions s1 acts)); try reflexivity; exact RB|exact ZB|exact Gf|exact Hh].
Qed.

Lemma FULL_dispatch scr bscr s t order : halted s = false -> Q s -> running s = None -> REL0 s -> zombies s = [] ->
  gens_small (slots (dispatch scr bscr s t order)) -> FULL (dispatch scr bscr s t order).
Proof.
  intros Hh Qs Hr R0 Z0 Gf.
  destruct (TOP_dispatch scr bscr s t order Hh Qs Hr Gf) as [X|[Qd Rd]]; [left; exact X|].
  destruct (halted (dispatch scr bscr s t order)) eqn:Hd; [left; exact Hd|]. right. split; [exact Qd|split; [exact Rd|]].
  revert Gf Hd. clear Qd Rd. unfold dispatch.
  destruct (before_sleep_loop_Q bscr (lifecycle s) s Qs) as [Q1 R1].
  destruct (before_sleep_loop_rel bscr (lifecycle s) s) as [O1 Z1]. pose proof (before_sleep_loop_slots bscr (lifecycle s) s) as S1.
  destruct (CVP.C09_proofs.before_sleep_loop_frame bscr (lifecycle s) s) as (_ & _ & C1).
  destruct (before_sleep_loop bscr s (lifecycle s)) as [s1 bs]. cbn [fst snd] in *.
  assert (R01 : REL0 s1) by (apply (REL0_eq s); assumption).
  destruct bs.
  2:{ intros _ _. split; [apply (REL0_eq s1); try reflexivity; exact R01|cbn; rewrite Z1; exact Z0]. }
  2:{ intros _ _. split; [exact R01|rewrite Z1; exact Z0]. }
  assert (H1 : halted s1 = false) by (rewrite C1; [exact Hh|discriminate]).
  destruct (poll (en s1) t order) as [polled e2].
  set (s3 := emit (set_en s1 e2) (L T_BATCH (zsort (map ev_code polled)))) in *.
  assert (Q3 : Q s3) by (apply (Q_frame_eq s1); try reflexivity; exact Q1).
  destruct (before_handle_loop_Q (lifecycle s3) polled s3 Q3) as [Q4 R4].
  destruct (before_handle_loop_rel (lifecycle s3) polled s3) as [O4 Z4]. pose proof (before_handle_loop_slots (lifecycle s3) polled s3) as S4.
  destruct (CVP.C09_proofs.before_handle_loop_frame (lifecycle s3) polled s3) as (_ & _ & C4).
  destruct (before_handle_loop s3 (lifecycle s3) polled) as [s4 ok]. cbn [fst snd] in *.
  assert (R04 : REL0 s4) by (apply (REL0_eq s1); [rewrite S4; reflexivity|rewrite O4; reflexivity|exact R01]).
  assert (Z04 : zombies s4 = []) by (rewrite Z4; cbn; rewrite Z1; exact Z0).
  destruct ok; cbn [negb].
  2:{ intros _ _. split; assumption. }
  assert (H4 : halted s4 = false) by (rewrite C4; [exact H1|reflexivity]).
  assert (R4' : running s4 = None) by (rewrite R4; cbn; rewrite R1; exact Hr).
  pose proof (FULL_process_events scr (synth s4 ++ polled) (set_synth s4 [])) as PE.
  pose proof (run_idles_sstep scr) as SI.
  destruct (process_events scr (set_synth s4 []) (synth s4 ++ polled)) as [s5 ok2]. cbn [fst] in *.
  assert (Q4' : Q (set_synth s4 [])) by (apply (Q_frame_eq s4); try reflexivity; exact Q4).
  assert (R4'' : REL0 (set_synth s4 [])) by (apply (REL0_eq s4); try reflexivity; exact R04).
  destruct (halted s5) eqn:H5; [intros _ X; congruence|].
  destruct ok2; cbn [negb].
  2:{ intros Gf _. destruct (PE H4 Q4' R4' R4'' Z04 Gf) as [X|(_ & _ & R5 & Z5)]; [congruence|]. split; [apply (REL0_eq s5); try reflexivity; exact R5|exact Z5]. }
  intros Gf Hd.
  assert (G5 : gens_small (slots s5)).
  { eapply gens_small_mono; [apply (proj2 (SI (idles s5) (set_idles s5 [])))|]. destruct (halted (run_idles scr (set_idles s5 []) (idles s5))); exact Gf. }
  destruct (PE H4 Q4' R4' R4'' Z04 G5) as [X|(Q5 & Rn5 & R5 & Z5)]; [congruence|].
  assert (Q5' : Q (set_idles s5 [])) by (apply (Q_frame_eq s5); try reflexivity; exact Q5).
  assert (R5' : REL0 (set_idles s5 [])) by (apply (REL0_eq s5); try reflexivity; exact R5).
  pose proof (FULL_run_idles scr (idles s5) (set_idles s5 []) Q5' Rn5 R5' Z5) as FI.
  destruct (halted (run_idles scr (set_idles s5 []) (idles s5))) eqn:H6; [congruence|].
  destruct (FI Gf eq_refl) as (_ & _ & R6 & Z6). split; [apply (REL0_eq (run_idles scr (set_idles s5 []) (idles s5))); try reflexivity; exact R6|exact Z6].
Qed.

Lemma zombies_emits l : forall s, zombies (emits s l) = zombies s.
Proof. unfold emits. induction l as [|x l IH]; intros s; cbn [fold_left]; [reflexivity|rewrite IH; reflexivity]. Qed.
Lemma halted_emits l : forall s, halted (emits s l) = halted s.
Proof. unfold emits. induction l as [|x l IH]; intros s; cbn [fold_left]; [reflexivity|rewrite IH; reflexivity]. Qed.

Lemma FULL_emits s l : Q s -> running s = None -> REL0 s -> zombies s = [] -> FULL (emits s l).
Proof.
  intros Qs Hr R0 Z0. destruct (emits_fields l s) as (A & B & C & D & E).
  right. split; [apply (Q_frame_eq s); assumption|split; [rewrite E; exact Hr|]].
  split; [apply (REL0_eq s); assumption|rewrite zombies_emits; exact Z0].
Qed.

Lemma FULL_exec_cmd scr bscr s c : FULL s -> gens_small (slots (exec_cmd scr bscr s c)) -> FULL (exec_cmd scr bscr s c).
Proof.
  intros Fs Gf. unfold exec_cmd in *. destruct (halted s) eqn:Hh; [left; exact Hh|].
  destruct Fs as [X|(Qs & Hr & R0 & Z0)]; [congruence|].
  assert (Q1 : Q (emit s (L T_CMD []))) by (apply (Q_frame_eq s); try reflexivity; exact Qs).
  assert (R1 : REL0 (emit s (L T_CMD []))) by (apply (REL0_eq s); try reflexivity; exact R0).
  destruct c.
  - destruct (REL0_exec_action (emit s (L T_CMD [])) a R1 Hr Z0) as [RA ZA].
    right. split; [apply Q_exec_action; assumption|split; [rewrite running_exec_action; exact Hr|split; assumption]].
  - apply FULL_dispatch; assumption.
  - apply FULL_emits; assumption.
  - apply FULL_emits; assumption.
Qed.

Lemma FULL_exec_cmds scr bscr cmds : forall s, FULL s -> gens_small (slots (fold_left (exec_cmd scr bscr) cmds s)) ->
  FULL (fold_left (exec_cmd scr bscr) cmds s).
Proof.
  induction cmds as [|c r IH]; intros s Fs Gf; cbn [fold_left] in *; [exact Fs|].
  apply IH; [|exact Gf]. apply FULL_exec_cmd; [exact Fs|].
  eapply gens_small_mono; [apply (proj2 (exec_cmds_sstep scr bscr r (exec_cmd scr bscr s c)))|exact Gf].
Qed.

Lemma FULL_init : FULL init.
Proof. right. split; [exact Q_init|split; [reflexivity|split; [intros o ob H; discriminate|reflexivity]]]. Qed.

Theorem run_FULL scr bscr cmds : gens_small (slots (run scr bscr cmds)) -> FULL (run scr bscr cmds).
Proof. intros G. unfold run in *. apply FULL_exec_cmds; [exact FULL_init|exact G]. Qed.

(* the statement a user reads: after any history, between top-level operations, every object the loop still stores is either
   in a live slot or kept alive by a handle the user holds; nothing is parked on the zombie list *)
Theorem released_after_any_history scr bscr cmds o ob :
  let s := run scr bscr cmds in
  gens_small (slots s) -> halted s = false -> objs s o = Some ob -> in_slots (slots s) o = false -> o_ext ob = true.
Proof.
  cbv zeta. intros G Hh Ho Hn. destruct (run_FULL scr bscr cmds G) as [X|(_ & _ & R0 & _)]; [congruence|].
  destruct (R0 o ob Ho) as [E|E]; [exact E|congruence].
Qed.
