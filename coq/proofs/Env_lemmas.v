(* Lemmas about the environment model (Env.v): epoll table and timer wheel. *)
From CV Require Import Base Consts Token Env.
Open Scope N_scope.

(* ---------- epoll table ---------- *)
Lemma ep_find_remove tbl fd : ep_find (ep_remove tbl fd) fd = None.
Proof.
  induction tbl as [|e t IH]; cbn; [reflexivity|].
  destruct (N.eqb_spec (e_fd e) fd) as [E|E]; [exact IH|]. cbn. destruct (N.eqb_spec (e_fd e) fd); [contradiction|exact IH].
Qed.
Lemma ep_find_remove_other tbl fd fd' : fd' <> fd -> ep_find (ep_remove tbl fd) fd' = ep_find tbl fd'.
Proof.
  intros H. induction tbl as [|e t IH]; cbn; [reflexivity|].
  destruct (N.eqb_spec (e_fd e) fd) as [E|E].
  - destruct (N.eqb_spec (e_fd e) fd'); [congruence|exact IH].
  - cbn. destruct (N.eqb_spec (e_fd e) fd'); [reflexivity|exact IH].
Qed.
(* DEL of a registered fd leaves no entry for it; the other fds keep theirs *)
Lemma ep_del_spec tbl fd tbl' : ep_del tbl fd = Some tbl' ->
  ep_find tbl' fd = None /\ forall fd', fd' <> fd -> ep_find tbl' fd' = ep_find tbl fd'.
Proof.
  unfold ep_del. destruct (ep_find tbl fd); [|discriminate]. intros [= <-].
  split; [apply ep_find_remove|intros; apply ep_find_remove_other; assumption].
Qed.
Lemma ep_del_none tbl fd : ep_find tbl fd = None -> ep_del tbl fd = None.
Proof. unfold ep_del; intros ->; reflexivity. Qed.
(* ADD fails exactly when the fd is already registered (EEXIST), and otherwise records interest, mode and key *)
Lemma ep_find_app tbl e fd : ep_find (tbl ++ [e]) fd =
  match ep_find tbl fd with Some x => Some x | None => if e_fd e =? fd then Some e else None end.
Proof. induction tbl as [|x t IH]; cbn; [reflexivity|]. destruct (e_fd x =? fd); [reflexivity|exact IH]. Qed.
Lemma ep_add_spec tbl fd it m key c :
  match ep_add tbl fd it m key c with
  | None => exists e, ep_find tbl fd = Some e
  | Some tbl' => ep_find tbl fd = None /\
                 (exists q, ep_find tbl' fd = Some (mkEp fd it m key q)) /\
                 forall fd', fd' <> fd -> ep_find tbl' fd' = ep_find tbl fd'
  end.
Proof.
  unfold ep_add. destruct (ep_find tbl fd) as [e|] eqn:E; [exists e; reflexivity|].
  split; [reflexivity|]. split.
  - eexists. rewrite ep_find_app, E. cbn. rewrite N.eqb_refl. reflexivity.
  - intros fd' H. rewrite ep_find_app. destruct (ep_find tbl fd'); [reflexivity|]. cbn.
    destruct (N.eqb_spec fd fd'); [congruence|reflexivity].
Qed.

(* a level-triggered entry that is ready for its interest is reported by every wait, with its key *)
Lemma ep_wait_level fdc tbl e :
  In e tbl -> e_mode e = Level -> rd_nonempty (ready_for (e_int e) (fdc (e_fd e))) = true ->
  In (mkEv (e_key e) (ready_for (e_int e) (fdc (e_fd e)))) (fst (ep_wait fdc tbl)).
Proof.
  induction tbl as [|x t IH]; intros Hin Hm Hr; [contradiction|]. cbn.
  destruct (ep_wait fdc t) as [evs t'] eqn:Ew. cbn [fst] in *.
  destruct Hin as [->|Hin].
  - unfold ep_report. rewrite Hr, Hm. left; reflexivity.
  - specialize (IH Hin Hm Hr). destruct (ep_report fdc x); [right|]; exact IH.
Qed.
(* one-shot: reported at most once per arming - after a report the entry is disarmed *)
Lemma ep_after_oneshot fdc e ev : e_mode e = OneShot -> ep_report fdc e = Some ev -> e_q (ep_after fdc e) = false.
Proof. intros Hm Hr. unfold ep_after. rewrite Hm, Hr. reflexivity. Qed.
Lemma ep_report_disarmed fdc e : e_mode e = OneShot -> e_q e = false -> ep_report fdc e = None.
Proof. intros Hm Hq. unfold ep_report. rewrite Hm, Hq. destruct (rd_nonempty _); reflexivity. Qed.
(* edge: a queued ready entry is reported *)
Lemma ep_report_edge fdc e : e_mode e = Edge -> e_q e = true -> rd_nonempty (ready_for (e_int e) (fdc (e_fd e))) = true ->
  ep_report fdc e = Some (mkEv (e_key e) (ready_for (e_int e) (fdc (e_fd e)))).
Proof. intros Hm Hq Hr. unfold ep_report. rewrite Hr, Hm, Hq. reflexivity. Qed.
(* only registered keys are ever reported *)
Lemma ep_wait_keys fdc tbl ev : In ev (fst (ep_wait fdc tbl)) -> exists e, In e tbl /\ ev_key ev = e_key e.
Proof.
  induction tbl as [|x t IH]; cbn; [contradiction|].
  destruct (ep_wait fdc t) as [evs t'] eqn:Ew. cbn [fst] in *.
  destruct (ep_report fdc x) as [r|] eqn:Er.
  - intros [<-|Hin].
    + exists x. split; [left; reflexivity|]. unfold ep_report in Er. destruct (rd_nonempty _); [|discriminate].
      destruct (e_mode x); [|destruct (e_q x)|destruct (e_q x)]; try discriminate; inversion Er; reflexivity.
    + destruct (IH Hin) as [e [A B]]. exists e. split; [right; exact A|exact B].
  - intros Hin. destruct (IH Hin) as [e [A B]]. exists e. split; [right; exact A|exact B].
Qed.

(* ---------- timer wheel ---------- *)
Lemma wh_min_in l m : wh_min l = Some m -> In m l.
Proof.
  revert m; induction l as [|e t IH]; cbn; intros m H; [discriminate|].
  destruct (wh_min t) as [m'|] eqn:E.
  - destruct (w_dl e <=? w_dl m')%Z; injection H as <-; [left; reflexivity|right; apply IH; reflexivity].
  - injection H as <-. left; reflexivity.
Qed.
Lemma wh_min_none l : wh_min l = None -> l = [].
Proof. destruct l as [|e t]; [reflexivity|]. cbn. destruct (wh_min t); [destruct (_ <=? _)%Z|]; discriminate. Qed.

Lemma wh_min_le l m : wh_min l = Some m -> forall e, In e l -> (w_dl m <= w_dl e)%Z.
Proof.
  revert m; induction l as [|x t IH]; cbn; intros m H e Hin; [contradiction|].
  destruct (wh_min t) as [m'|] eqn:E.
  - destruct (Z.leb_spec (w_dl x) (w_dl m')) as [L|L]; injection H as <-.
    + destruct Hin as [->|Hin]; [lia|]. specialize (IH m' eq_refl e Hin). lia.
    + destruct Hin as [->|Hin]; [lia|]. exact (IH m' eq_refl e Hin).
  - injection H as <-. destruct Hin as [->|Hin]; [lia|]. apply wh_min_none in E. subst t. contradiction.
Qed.
Lemma wh_remove_first_in l c dl e : In e (wh_remove_first l c dl) -> In e l.
Proof.
  induction l as [|x t IH]; cbn; [tauto|].
  destruct ((w_ctr x =? c) && (w_dl x =? w_dl x)%Z && (w_dl x =? dl)%Z); [intros H; right; exact H|].
  intros [->|H]; [left; reflexivity|right; apply IH; exact H].
Qed.
Lemma wh_remove_first_length l m : In m l -> S (length (wh_remove_first l (w_ctr m) (w_dl m))) = length l.
Proof.
  induction l as [|x t IH]; cbn; [contradiction|].
  intros Hin.
  destruct ((w_ctr x =? w_ctr m) && (w_dl x =? w_dl x)%Z && (w_dl x =? w_dl m)%Z) eqn:E; [reflexivity|].
  destruct Hin as [->|Hin].
  - rewrite N.eqb_refl, !Z.eqb_refl in E. discriminate.
  - cbn. rewrite IH; [reflexivity|exact Hin].
Qed.

(* the expiry loop: everything returned is due, in non-decreasing deadline order, and nothing due stays behind *)
Lemma wh_expire_spec fuel : forall l now ex rest,
  wh_expire fuel l now = (ex, rest) ->
  Forall (fun e => (w_dl e <= now)%Z) ex /\
  (forall e, In e ex -> In e l) /\ (forall e, In e rest -> In e l) /\
  (forall a b, In a ex -> In b rest -> (w_dl a <= w_dl b)%Z) /\
  (length l <= fuel -> Forall (fun e => (now < w_dl e)%Z) rest)%nat.
Proof.
  induction fuel as [|f IH]; intros l now ex rest H; cbn in H.
  - injection H as <- <-. repeat split; try constructor; try contradiction; auto.
    intros Hl. destruct l; [constructor|cbn in Hl; lia].
  - destruct (wh_min l) as [m|] eqn:Em.
    + destruct (Z.leb_spec (w_dl m) now) as [L|L].
      * destruct (wh_expire f _ now) as [ex' rest'] eqn:E. injection H as <- <-.
        destruct (IH _ _ _ _ E) as (A & B & C & D & F).
        pose proof (wh_min_in l m Em) as Hm. pose proof (wh_min_le l m Em) as Hle.
        repeat split.
        -- constructor; assumption.
        -- intros e [<-|He]; [exact Hm|]. eapply wh_remove_first_in. apply B; exact He.
        -- intros e He. eapply wh_remove_first_in. apply C; exact He.
        -- intros a b [<-|Ha] Hb; [apply Hle; eapply wh_remove_first_in; apply C; exact Hb|apply D; assumption].
        -- intros Hl. apply F. pose proof (wh_remove_first_length l m Hm). lia.
      * injection H as <- <-. repeat split; try constructor; try contradiction; auto.
        intros _. apply Forall_forall. intros e He. pose proof (wh_min_le l m Em e He). lia.
    + injection H as <- <-. apply wh_min_none in Em. subst l. repeat split; try constructor; try contradiction; auto.
Qed.

(* the popped entries come out in non-decreasing deadline order *)
Fixpoint dl_sorted (l : list went) : Prop :=
  match l with
  | [] => True
  | a :: r => (forall b, In b r -> (w_dl a <= w_dl b)%Z) /\ dl_sorted r
  end.
Lemma wh_expire_sorted fuel : forall l now ex rest, wh_expire fuel l now = (ex, rest) -> dl_sorted ex.
Proof.
  induction fuel as [|f IH]; intros l now ex rest H; cbn in H.
  - injection H as <- <-. exact I.
  - destruct (wh_min l) as [m|] eqn:Em; [|injection H as <- <-; exact I].
    destruct (w_dl m <=? now)%Z; [|injection H as <- <-; exact I].
    destruct (wh_expire f _ now) as [ex' rest'] eqn:E. injection H as <- <-.
    split; [|eapply IH; exact E].
    intros b Hb. apply (wh_min_le l m Em). eapply wh_remove_first_in.
    destruct (wh_expire_spec f _ _ _ _ E) as (_ & B & _). apply B. exact Hb.
Qed.

(* ---------- cancel: an arming that is cancelled leaves the wheel (as long as counters are unique in it) ---------- *)
Lemma wh_remove_first_unique l : forall m, In m l -> NoDup (map w_ctr l) ->
  ~ In (w_ctr m) (map w_ctr (wh_remove_first l (w_ctr m) (w_dl m))).
Proof.
  induction l as [|e t IH]; intros m Hin Hnd; cbn; [tauto|].
  inversion Hnd as [|x xs Hnot Hnd']; subst.
  destruct Hin as [->|Hin].
  - rewrite N.eqb_refl, !Z.eqb_refl. cbn. exact Hnot.
  - destruct (N.eqb_spec (w_ctr e) (w_ctr m)) as [E|E].
    + exfalso. apply Hnot. rewrite E. apply in_map. exact Hin.
    + cbn. intros [H|H]; [contradiction|]. exact (IH m Hin Hnd' H).
Qed.
Lemma wh_cancel_removes w c : NoDup (map w_ctr (wh_heap w)) -> ~ In c (map w_ctr (wh_heap (wh_cancel w c))).
Proof.
  intros Hnd. unfold wh_cancel. destruct (wh_min (wh_heap w)) as [m|] eqn:Em.
  - destruct (N.eqb_spec (w_ctr m) c) as [<-|Hne]; cbn.
    + apply wh_remove_first_unique; [apply wh_min_in; exact Em|exact Hnd].
    + rewrite in_map_iff. intros [e [He Hin]]. apply filter_In in Hin as [_ Hf]. subst c. rewrite N.eqb_refl in Hf. discriminate.
  - rewrite (wh_min_none _ Em). cbn. tauto.
Qed.
(* and it only removes: every other entry stays *)
Lemma wh_cancel_keeps w c e : In e (wh_heap w) -> w_ctr e <> c -> In e (wh_heap (wh_cancel w c)).
Proof.
  intros Hin Hne. unfold wh_cancel. destruct (wh_min (wh_heap w)) as [m|] eqn:Em; [|exact Hin].
  destruct (N.eqb_spec (w_ctr m) c) as [<-|Hne2]; cbn.
  - clear Em. induction (wh_heap w) as [|x t IH]; cbn in *; [tauto|].
    destruct Hin as [->|Hin].
    + destruct (N.eqb_spec (w_ctr e) (w_ctr m)); [contradiction|]. cbn. left. reflexivity.
    + destruct ((w_ctr x =? w_ctr m) && (w_dl x =? w_dl x)%Z && (w_dl x =? w_dl m)%Z); [exact Hin|right; apply IH; exact Hin].
  - apply filter_In. split; [exact Hin|]. destruct (N.eqb_spec (w_ctr e) c); [contradiction|reflexivity].
Qed.
Lemma wh_cancel_subset w c e : In e (wh_heap (wh_cancel w c)) -> In e (wh_heap w).
Proof.
  unfold wh_cancel. destruct (wh_min (wh_heap w)) as [m|]; [|tauto].
  destruct (w_ctr m =? c); cbn; [apply wh_remove_first_in|intros H; apply filter_In in H; tauto].
Qed.
(* the wait of a dispatch is bounded by the earliest deadline in the wheel: after a cancel that is the earliest deadline among
   the OTHER armings - the cancelled one no longer shortens any wait *)
Lemma wh_next_after_cancel w c d : NoDup (map w_ctr (wh_heap w)) -> wh_next_deadline (wh_cancel w c) = Some d ->
  exists e, In e (wh_heap w) /\ w_ctr e <> c /\ w_dl e = d /\ forall e', In e' (wh_heap w) -> w_ctr e' <> c -> (d <= w_dl e')%Z.
Proof.
  intros Hnd H. unfold wh_next_deadline in H. destruct (wh_min (wh_heap (wh_cancel w c))) as [m|] eqn:Em; [|discriminate].
  injection H as <-. exists m. pose proof (wh_min_in _ _ Em) as Hin.
  split; [apply (wh_cancel_subset w c); exact Hin|]. split.
  - intros Hc. apply (wh_cancel_removes w c Hnd). apply in_map_iff. exists m. split; [exact Hc|exact Hin].
  - split; [reflexivity|]. intros e' He' Hne. apply (wh_min_le _ _ Em). apply wh_cancel_keeps; assumption.
Qed.
Lemma wh_next_none_after_cancel w c : NoDup (map w_ctr (wh_heap w)) -> wh_next_deadline (wh_cancel w c) = None ->
  forall e, In e (wh_heap w) -> w_ctr e = c.
Proof.
  intros Hnd H e He. unfold wh_next_deadline in H. destruct (wh_min (wh_heap (wh_cancel w c))) as [m|] eqn:Em; [discriminate|].
  apply wh_min_none in Em. destruct (N.eq_dec (w_ctr e) c) as [E|E]; [exact E|].
  pose proof (wh_cancel_keeps w c e He E) as K. rewrite Em in K. contradiction.
Qed.
