From CV Require Import Base Consts ConcExec.
Open Scope N_scope.

Definition is_w2 (t : wthread) : N := match wt_stage t with W2 => 1 | _ => 0 end.
Definition is_w3 (t : wthread) : N := match wt_stage t with W3 => 1 | _ => 0 end.
Fixpoint nw2 (l : list wthread) : N := match l with [] => 0 | t :: r => is_w2 t + nw2 r end.
Fixpoint nw3 (l : list wthread) : N := match l with [] => 0 | t :: r => is_w3 t + nw3 r end.
Definition l2 (s : est) : N := match et_stage (eloop s) with ES2 | ELS2 _ => 1 | _ => 0 end.
Definition l3 (s : est) : N := match et_stage (eloop s) with ES3 | ER | ELS3 _ => 1 | _ => 0 end.
Definition in_drain (s : est) : N := match et_stage (eloop s) with EF | EL _ | ER | ELS1 _ _ | ELS2 _ | ELS3 _ => 1 | _ => 0 end.
Definition at_store (s : est) : N := match et_stage (eloop s) with EF => 1 | _ => 0 end.

(* no lost wake: a queued runnable always has a wake-up on its way - the eventfd is readable, or some sender is between its
   enqueue and its ping, or the loop is between its drain and the end of its dequeue loop; and the `notified` flag is only
   set while the eventfd is readable, its setter is about to ping, or the loop is about to clear it *)
Definition einv (s : est) : Prop :=
  N.even (ectr s) = true /\
  (eq s <> [] -> 2 <= ectr s \/ 1 <= nw2 (ethr s) + l2 s \/ 1 <= nw3 (ethr s) + l3 s \/ 1 <= in_drain s) /\
  (enotified s = true -> 2 <= ectr s \/ 1 <= nw3 (ethr s) + l3 s \/ 1 <= at_store s) /\
  (et_stage (eloop s) = ED -> 2 <= ectr s).

Lemma nw2_upd l : forall i t t', nth_error l i = Some t -> nw2 (upd_wt l i t') + is_w2 t = nw2 l + is_w2 t'.
Proof. induction l as [|x r IH]; intros [|i] t t' H; cbn in *; try discriminate; [injection H as ->; lia|specialize (IH i t t' H); lia]. Qed.
Lemma nw3_upd l : forall i t t', nth_error l i = Some t -> nw3 (upd_wt l i t') + is_w3 t = nw3 l + is_w3 t'.
Proof. induction l as [|x r IH]; intros [|i] t t' H; cbn in *; try discriminate; [injection H as ->; lia|specialize (IH i t t' H); lia]. Qed.

Ltac ecbn := cbn [eq enotified ectr etasks eloop ethr ebatch elog e_set et_stage et_ops wt_stage wt_ops] in *.
Lemma even_add2 n : N.even n = true -> N.even (n + INCREMENT_PING) = true.
Proof. intros H. unfold INCREMENT_PING. rewrite N.even_add, H. reflexivity. Qed.
Lemma even_pos n : N.even n = true -> 0 < n -> 2 <= n.
Proof. intros H Hp. destruct (N.eq_dec n 1) as [->|]; [discriminate|lia]. Qed.

Lemma app_nonnil {A} (l : list A) x : l ++ [x] <> [].
Proof. destruct l; discriminate. Qed.

Ltac esolve X1 X2 :=
  intros;
  try (apply even_add2; assumption); try (apply even_pos; assumption);
  unfold INCREMENT_PING in *;
  try match goal with H : ?l ++ [_] = [] |- _ => exfalso; destruct l; discriminate end;
  try match goal with H : [] <> [] |- _ => exfalso; apply H; reflexivity end;
  try (assert (HX2 := X2 eq_refl));
  try (match goal with H : _ = true |- _ => pose proof (X2 H) end);
  try (match goal with H : _ <> [] |- _ => pose proof (X1 H) end);
  try (match goal with X : ?a = ED -> _, H : ?a = ED |- _ => exact (X H) end);
  try discriminate; try assumption; try reflexivity; try lia;
  try (match goal with |- context [et_stage (eloop ?s)] => destruct (et_stage (eloop s)); lia end).

Lemma einv_loop_step s : einv s -> einv (eloop_step s).
Proof.
  intros Hinv. pose proof Hinv as (X0 & X1 & X2 & X5).
  unfold eloop_step. destruct (eloop s) as [ops stg] eqn:El. cbn [et_stage et_ops].
  unfold einv, l2, l3, in_drain, at_store, send_enq, send_swap, send_ping in *. rewrite El in *. cbn [et_stage] in *.
  destruct stg as [|j| | | | |[|k]| |j k|k|k].
  - destruct ops as [|[j|] r]; [rewrite El; cbn [et_stage]; exact Hinv| |].
    + ecbn. split; [|split; [|split]]; esolve X1 X2.
    + destruct (N.ltb_spec 0 (ectr s)); ecbn; (split; [|split; [|split]]); esolve X1 X2.
  - ecbn. split; [|split; [|split]]; esolve X1 X2.
  - destruct (enotified s) eqn:En; ecbn; (split; [|split; [|split]]); esolve X1 X2.
  - ecbn. split; [|split; [|split]]; esolve X1 X2.
  - specialize (X5 eq_refl). destruct (N.leb_spec 2 (ectr s)); [|lia]. ecbn. split; [|split; [|split]]; esolve X1 X2.
  - ecbn. split; [|split; [|split]]; esolve X1 X2; try (destruct (ebatch s); lia).
  - ecbn. split; [|split; [|split]]; esolve X1 X2.
  - destruct (eq s) as [|j q'] eqn:Eq.
    + ecbn. split; [|split; [|split]]; esolve X1 X2.
    + destruct (run_task (etasks s) j) as [[tk' evs] again]. destruct again; unfold after_task; ecbn; (split; [|split; [|split]]); esolve X1 X2; destruct k; esolve X1 X2.
  - ecbn. split; [|split; [|split]]; esolve X1 X2.
  - ecbn. split; [|split; [|split]]; esolve X1 X2.
  - unfold after_task. destruct (enotified s) eqn:En; ecbn; (split; [|split; [|split]]); esolve X1 X2; destruct k; esolve X1 X2.
  - unfold after_task. ecbn. split; [|split; [|split]]; esolve X1 X2; destruct k; esolve X1 X2.
Qed.

Lemma einv_thread_step s i t : einv s -> nth_error (ethr s) i = Some t -> einv (wt_step s i t).
Proof.
  intros Hinv En. pose proof Hinv as (X0 & X1 & X2 & X5).
  pose proof (nw2_upd (ethr s) i t) as N2. pose proof (nw3_upd (ethr s) i t) as N3.
  unfold wt_step. destruct t as [ops stg]. cbn [wt_stage wt_ops].
  unfold einv, l2, l3, in_drain, at_store, send_enq, send_swap, send_ping in *.
  destruct stg as [|j| |].
  - destruct ops as [|j r]; [exact Hinv|].
    destruct (task_idle (etasks s) j).
    + specialize (N2 (mkWT r (W1 j)) En). specialize (N3 (mkWT r (W1 j)) En). unfold is_w2, is_w3 in N2, N3. cbn in N2, N3.
      ecbn. split; [|split; [|split]]; esolve X1 X2.
    + specialize (N2 (mkWT r WIdle) En). specialize (N3 (mkWT r WIdle) En). unfold is_w2, is_w3 in N2, N3. cbn in N2, N3.
      ecbn. split; [|split; [|split]]; esolve X1 X2.
  - specialize (N2 (mkWT ops W2) En). specialize (N3 (mkWT ops W2) En). unfold is_w2, is_w3 in N2, N3. cbn in N2, N3.
    ecbn. split; [|split; [|split]]; esolve X1 X2.
  - destruct (enotified s) eqn:Enf.
    + specialize (N2 (mkWT ops WIdle) En). specialize (N3 (mkWT ops WIdle) En). unfold is_w2, is_w3 in N2, N3. cbn in N2, N3.
      ecbn. split; [|split; [|split]]; esolve X1 X2.
    + specialize (N2 (mkWT ops W3) En). specialize (N3 (mkWT ops W3) En). unfold is_w2, is_w3 in N2, N3. cbn in N2, N3.
      ecbn. split; [|split; [|split]]; esolve X1 X2.
  - specialize (N2 (mkWT ops WIdle) En). specialize (N3 (mkWT ops WIdle) En). unfold is_w2, is_w3 in N2, N3. cbn in N2, N3.
    ecbn. split; [|split; [|split]]; esolve X1 X2.
Qed.

Lemma einv_step s k : einv s -> einv (e_step s k).
Proof.
  intros H. destruct k as [|i]; cbn [e_step]; [apply einv_loop_step; exact H|].
  destruct (nth_error (ethr s) i) as [t|] eqn:En; [|exact H]. apply einv_thread_step; assumption.
Qed.

Lemma nw2_init progs : nw2 (map (fun p => mkWT p WIdle) progs) = 0.
Proof. induction progs as [|p r IH]; cbn; [reflexivity|exact IH]. Qed.
Lemma nw3_init progs : nw3 (map (fun p => mkWT p WIdle) progs) = 0.
Proof. induction progs as [|p r IH]; cbn; [reflexivity|exact IH]. Qed.
Lemma einv_init b sc lops wp : einv (e_init b sc lops wp).
Proof.
  unfold einv, e_init, l2, l3, in_drain, at_store. ecbn. split; [reflexivity|]. split; [intros H; exfalso; apply H; reflexivity|].
  split; intros H; discriminate.
Qed.
Lemma einv_run b sc lops wp sched : einv (e_run b sc lops wp sched).
Proof.
  unfold e_run. generalize (einv_init b sc lops wp). generalize (e_init b sc lops wp).
  induction sched as [|k r IH]; intros s Hs; cbn; [exact Hs|]. apply IH. apply einv_step. exact Hs.
Qed.

(* tasks are only ever polled (and their results delivered) by a step of the loop thread *)
Lemma tasks_only_loop s i t : nth_error (ethr s) i = Some t ->
  forall j tk tk', nth_error (etasks s) j = Some tk -> nth_error (etasks (wt_step s i t)) j = Some tk' ->
  tk_polls tk' = tk_polls tk /\ tk_delivered tk' = tk_delivered tk /\ tk_script tk' = tk_script tk.
Proof.
  intros En j tk tk' H H'. unfold wt_step, send_enq, send_swap, send_ping in H'. destruct (wt_stage t); [destruct (wt_ops t) as [|j0 r]|..]; ecbn.
  - rewrite H in H'. injection H' as <-. auto.
  - destruct (task_idle (etasks s) j0); ecbn; [|rewrite H in H'; injection H' as <-; auto].
    unfold set_task_state in H'. destruct (nth_error (etasks s) j0) as [t0|] eqn:E0; [|rewrite H in H'; injection H' as <-; auto].
    destruct (Nat.eq_dec j j0) as [->|Hne].
    + rewrite H in E0. injection E0 as <-.
      assert (L : (j0 < length (etasks s))%nat) by (apply nth_error_Some; congruence).
      clear - H' L. revert j0 H' L. induction (etasks s) as [|x r IH]; intros [|j0] H' L; cbn in *; try lia; [injection H' as <-; auto|apply (IH j0); [exact H'|lia]].
    + assert (E : nth_error (upd_task (etasks s) j0 (mkTask TSched (tk_script t0) (tk_polls t0) (tk_delivered t0))) j = nth_error (etasks s) j).
      { clear - Hne. revert j j0 Hne. induction (etasks s) as [|x r IH]; intros [|j] [|j0] Hne; cbn; auto; try congruence. }
      rewrite E, H in H'. injection H' as <-. auto.
  - rewrite H in H'. injection H' as <-. auto.
  - destruct (enotified s); ecbn; rewrite H in H'; injection H' as <-; auto.
  - rewrite H in H'. injection H' as <-. auto.
Qed.

(* a completing poll delivers the output exactly once: the task is Done, its delivered counter is incremented by one *)
Lemma run_task_delivers l j t : nth_error l j = Some t ->
  match tk_script t with
  | 1 :: _ => exists t', nth_error (fst (fst (run_task l j))) j = Some t' /\ tk_state t' = TDone /\ tk_delivered t' = tk_delivered t + 1 /\ tk_polls t' = tk_polls t + 1
  | 2 :: _ => exists t', nth_error (fst (fst (run_task l j))) j = Some t' /\ tk_state t' = TSched /\ tk_delivered t' = tk_delivered t /\ tk_polls t' = tk_polls t + 1 /\ snd (run_task l j) = true
  | _ => exists t', nth_error (fst (fst (run_task l j))) j = Some t' /\ tk_state t' = TIdle /\ tk_delivered t' = tk_delivered t /\ tk_polls t' = tk_polls t + 1
  end.
Proof.
  intros H. unfold run_task. rewrite H.
  assert (L : (j < length l)%nat) by (apply nth_error_Some; congruence).
  assert (U : forall x, nth_error (upd_task l j x) j = Some x).
  { clear - L. revert j L. induction l as [|y r IH]; intros [|j] L x; cbn in *; try lia; [reflexivity|apply IH; lia]. }
  destruct (tk_script t) as [|[|[[| |]|[| |]|]] r]; cbn [fst snd]; eexists; (split; [apply U|cbn; auto]).
Qed.
