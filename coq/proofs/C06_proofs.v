(* C06, whole histories: a token that has stopped resolving never resolves again (fewer than 65536 reuses of its slot). *)
From CV Require Import Base Consts Token PostAction Env Loop.
From CVP Require Import Token_proofs Loop_frames.
Open Scope N_scope.

(* ---------- what the slot list may do between two states ---------- *)
Definition slot_wf (i : nat) (sl : slot) : Prop :=
  wf_tok (s_tok sl) /\ t_id (s_tok sl) = N.of_nat i /\ t_sub (s_tok sl) = 0 /\ t_ver (s_tok sl) = s_gen sl mod U16.
Definition slots_wf (l : list slot) : Prop := forall i sl, nth_error l i = Some sl -> slot_wf i sl.
(* a slot only moves forward: a later generation, or the same generation with the same token and the same source or none *)
Definition slot_le (a b : slot) : Prop :=
  s_gen a < s_gen b \/ (s_gen a = s_gen b /\ s_tok b = s_tok a /\ (s_obj b = s_obj a \/ s_obj b = None)).
Definition slots_le (l l' : list slot) : Prop :=
  forall i sl, nth_error l i = Some sl -> exists sl', nth_error l' i = Some sl' /\ slot_le sl sl'.
Definition sstep (l l' : list slot) : Prop := (slots_wf l -> slots_wf l') /\ slots_le l l'.

Lemma slot_le_refl a : slot_le a a.
Proof. right. repeat split. left. reflexivity. Qed.
Lemma slot_le_trans a b c : slot_le a b -> slot_le b c -> slot_le a c.
Proof.
  intros [H1|(G1 & T1 & O1)] [H2|(G2 & T2 & O2)]; [left; lia|left; lia|left; lia|].
  right. split; [lia|]. split; [congruence|]. destruct O2 as [O2|O2]; [rewrite O2; exact O1|right; exact O2].
Qed.
Lemma sstep_refl l : sstep l l.
Proof. split; [tauto|]. intros i sl H. exists sl. split; [exact H|apply slot_le_refl]. Qed.
Lemma sstep_trans a b c : sstep a b -> sstep b c -> sstep a c.
Proof.
  intros [W1 L1] [W2 L2]. split; [tauto|]. intros i sl H. destruct (L1 i sl H) as [sl1 [H1 A]]. destruct (L2 i sl1 H1) as [sl2 [H2 B]].
  exists sl2. split; [exact H2|eapply slot_le_trans; eassumption].
Qed.
Lemma sstep_eq l l' : l' = l -> sstep l l'.
Proof. intros ->. apply sstep_refl. Qed.

Lemma nth_error_upd_same {A} (l : list A) : forall i x y, nth_error l i = Some y -> nth_error (upd l i x) i = Some x.
Proof. induction l as [|h t IH]; intros [|i] x y H; cbn in *; try discriminate; [reflexivity|eapply IH; exact H]. Qed.
Lemma nth_error_upd_other {A} (l : list A) : forall i j x, i <> j -> nth_error (upd l i x) j = nth_error l j.
Proof. induction l as [|h t IH]; intros [|i] [|j] x H; cbn; try reflexivity; try congruence. apply IH. congruence. Qed.

(* replacing slot i by one that is ahead of it (and well formed) is a step *)
Lemma sstep_upd l i old new : nth_error l i = Some old -> slot_le old new -> (slot_wf i old -> slot_wf i new) -> sstep l (upd l i new).
Proof.
  intros Hn Hle Hwf. split.
  - intros W j sl Hj. destruct (Nat.eq_dec i j) as [<-|Hne].
    + rewrite (nth_error_upd_same l i new old Hn) in Hj. injection Hj as <-. apply Hwf. apply W. exact Hn.
    + rewrite nth_error_upd_other in Hj by exact Hne. apply W. exact Hj.
  - intros j sl Hj. destruct (Nat.eq_dec i j) as [<-|Hne].
    + exists new. split; [eapply nth_error_upd_same; exact Hn|]. rewrite Hn in Hj. injection Hj as <-. exact Hle.
    + exists sl. split; [rewrite nth_error_upd_other by exact Hne; exact Hj|apply slot_le_refl].
Qed.
Lemma sstep_push l new : slot_wf (length l) new -> sstep l (l ++ [new]).
Proof.
  intros Hw. split.
  - intros W j sl Hj. destruct (Nat.lt_ge_cases j (length l)) as [Hlt|Hge].
    + rewrite nth_error_app1 in Hj by exact Hlt. apply W. exact Hj.
    + rewrite nth_error_app2 in Hj by exact Hge. destruct (j - length l)%nat as [|k] eqn:E; cbn in Hj; [|destruct k; discriminate].
      injection Hj as <-. assert (j = length l) by lia. subst j. exact Hw.
  - intros j sl Hj. exists sl. split; [|apply slot_le_refl]. rewrite nth_error_app1; [exact Hj|]. apply nth_error_Some. congruence.
Qed.

(* ---------- the three places that write the slot list ---------- *)
Lemma slot_set_obj_none_sstep l t : sstep l (slot_set_obj l t None).
Proof.
  unfold slot_set_obj. destruct (nth_error l (N.to_nat (t_id t))) as [sl|] eqn:E; [|apply sstep_refl].
  apply (sstep_upd l _ sl); [exact E| |].
  - right. cbn. repeat split. right. reflexivity.
  - intros W. exact W.
Qed.

Lemma find_vacant_spec l : forall k i, find_vacant l k = Some i -> (k <= i)%nat /\ exists sl, nth_error l (i - k) = Some sl /\ s_obj sl = None.
Proof.
  induction l as [|sl t IH]; intros k i H; cbn in H; [discriminate|].
  destruct (s_obj sl) eqn:Eo.
  - destruct (IH (S k) i H) as [Hle [sl' [Hn Ho]]]. split; [lia|]. exists sl'. split; [|exact Ho].
    replace (i - k)%nat with (S (i - S k)) by lia. exact Hn.
  - injection H as <-. split; [lia|]. exists sl. rewrite Nat.sub_diag. split; [reflexivity|exact Eo].
Qed.

Lemma mod_succ g : (g mod U16 + 1) mod U16 = (g + 1) mod U16.
Proof. rewrite N.add_mod_idemp_l by (unfold U16; lia). reflexivity. Qed.

(* vacant_entry: the chosen slot was vacant; it comes back one generation later, still vacant *)
Lemma vacant_entry_sstep l i l' : vacant_entry l = Some (i, l') ->
  sstep l l' /\ exists e, nth_error l' i = Some e /\ s_obj e = None /\
    (forall h, sstep l (upd l' i (mkSlot (s_tok e) (Some h) (s_gen e)))) /\
    sstep l (upd l' i (mkSlot (s_tok e) None (s_gen e))).
Proof.
  unfold vacant_entry. destruct (find_vacant l 0) as [k|] eqn:Ef.
  - destruct (nth_error l k) as [sl|] eqn:En; [|discriminate]. intros [= <- <-].
    destruct (find_vacant_spec l 0 k Ef) as [_ [sl0 [Hn Ho]]]. rewrite Nat.sub_0_r, En in Hn. injection Hn as <-.
    set (new := mkSlot (increment_version (s_tok sl)) None (s_gen sl + 1)).
    assert (Hle : forall o, slot_le sl (mkSlot (s_tok new) o (s_gen new))) by (intros o; left; cbn; lia).
    assert (Hwf : forall o, slot_wf k sl -> slot_wf k (mkSlot (s_tok new) o (s_gen new))).
    { intros o (W & I & S & V). destruct (increment_version_spec _ W) as [E W']. unfold slot_wf. cbn [s_tok s_gen new].
      split; [exact W'|]. rewrite E. cbn [t_id t_sub t_ver]. repeat split; [exact I|]. rewrite V. apply mod_succ. }
    split; [apply (sstep_upd l k sl); [exact En|exact (Hle None)|exact (Hwf None)]|].
    exists new. split; [eapply nth_error_upd_same; exact En|]. split; [reflexivity|].
    assert (U : forall x, upd (upd l k new) k x = upd l k x).
    { intros x. clear. revert k. induction l as [|h t IH]; intros [|k]; cbn; try reflexivity. f_equal. apply IH. }
    split; [intros h|]; rewrite U; apply (sstep_upd l k sl); try exact En; auto.
  - destruct (tok_new (N.of_nat (length l))) as [t|] eqn:Et; [|discriminate]. intros [= <- <-].
    unfold tok_new in Et. destruct (N.ltb_spec (N.of_nat (length l)) U32) as [Hlt|]; [|discriminate]. injection Et as <-.
    assert (Hwf : forall o, slot_wf (length l) (mkSlot (mkTok (N.of_nat (length l)) 0 0) o 0)).
    { intros o. unfold slot_wf, wf_tok. cbn. unfold U16. repeat split; try lia; try exact Hlt. }
    split; [apply sstep_push; apply Hwf|].
    exists (mkSlot (mkTok (N.of_nat (length l)) 0 0) None 0).
    split; [rewrite nth_error_app2 by lia; rewrite Nat.sub_diag; reflexivity|]. split; [reflexivity|].
    assert (U : forall (y x : slot), upd (l ++ [y]) (length l) x = l ++ [x]).
    { intros y x. clear. induction l as [|h t IH]; cbn [app length upd]; [reflexivity|]. f_equal. exact IH. }
    cbn [s_tok s_gen]. split; [intros h|]; rewrite U; apply sstep_push; apply Hwf.
Qed.

(* ---------- everything else leaves the slot list alone ---------- *)
Lemma slots_set_obj_src s o x : slots (set_obj_src s o x) = slots s.
Proof. unfold set_obj_src. destruct (objs s o); reflexivity. Qed.
Lemma slots_disp_register s o t : slots (snd (disp_register s o t)) = slots s.
Proof.
  unfold disp_register. destruct (objs s o) as [ob|]; [|reflexivity]. destruct (is_running s o); [reflexivity|].
  destruct (src_register _ _ _) as [[r x'] e1]. destruct r; cbn [snd]; try destruct (src_lc x'); cbn [slots set_lifecycle panic set_halted emit set_log];
    rewrite ?slots_regop, ?slots_set_obj_src; reflexivity.
Qed.
Lemma slots_disp_reregister s o t : slots (snd (disp_reregister s o t)) = slots s.
Proof.
  unfold disp_reregister. destruct (objs s o) as [ob|]; [|reflexivity]. destruct (is_running s o); [reflexivity|].
  destruct (src_reregister _ _ _) as [[r x'] e1]. destruct r; cbn [snd]; try destruct (src_lc x'); cbn [slots set_lifecycle panic set_halted emit set_log];
    rewrite ?slots_regop, ?slots_set_obj_src; reflexivity.
Qed.
Lemma slots_disp_unregister s o t : slots (snd (disp_unregister s o t)) = slots s.
Proof.
  unfold disp_unregister. destruct (objs s o) as [ob|]; [|reflexivity]. destruct (is_running s o); [reflexivity|].
  destruct (src_unregister _ _) as [[ok x'] e1]. cbn [snd]. destruct (src_lc x'); cbn [slots set_lifecycle];
    rewrite ?slots_regop, ?slots_set_obj_src; reflexivity.
Qed.
Lemma slots_maybe_drop s o : slots (maybe_drop s o) = slots s.
Proof. unfold maybe_drop, drop_obj. destruct (objs s o) as [ob|]; [|reflexivity]. destruct (o_ext ob || in_slots (slots s) o); [reflexivity|]. destruct (is_running s o); reflexivity. Qed.
Lemma slots_drop_zombies l : forall s, slots (drop_zombies s l) = slots s.
Proof. induction l as [|o r IH]; intros s; cbn; [reflexivity|]. rewrite IH. apply slots_maybe_drop. Qed.
Lemma slots_end_processing s o : slots (end_processing s o) = slots s.
Proof. unfold end_processing. rewrite slots_drop_zombies, slots_maybe_drop. reflexivity. Qed.

Lemma do_insert_sstep s h x : sstep (slots s) (slots (do_insert s h x)).
Proof.
  unfold do_insert. destruct (objs s h); [apply sstep_refl|].
  set (s0 := set_objs s _). change (slots s) with (slots s0).
  destruct (vacant_entry (slots s0)) as [[i sl]|] eqn:Ev; [|apply sstep_refl].
  destruct (vacant_entry_sstep _ _ _ Ev) as [S0 [e [He [Ho [Sh Sn]]]]].
  rewrite He.
  set (s1 := set_slots s0 (upd sl i (mkSlot (s_tok e) (Some h) (s_gen e)))).
  pose proof (slots_disp_register s1 h (s_tok e)) as F. destruct (disp_register s1 h (s_tok e)) as [r s2]. cbn [snd] in F.
  destruct (halted s2); [rewrite F; apply Sh|].
  destruct r; cbn [slots emit set_log set_toks set_slots]; rewrite ?F; try apply Sh.
  all: cbn [s1 slots set_slots];
    assert (U : forall (l : list slot) k a b, upd (upd l k a) k b = upd l k b)
      by (clear; intros l; induction l as [|y t IH]; intros [|k] a b; cbn; try reflexivity; f_equal; apply IH);
    rewrite U; exact Sn.
Qed.
Lemma do_remove_sstep s h : sstep (slots s) (slots (do_remove s h)).
Proof.
  unfold do_remove. destruct (lookup s h) as [[[t et] o]|]; [|apply sstep_refl].
  set (s1 := set_slots s (slot_set_obj (slots s) t None)).
  pose proof (slots_disp_unregister s1 o t) as F. destruct (disp_unregister s1 o t) as [[r d] s2]. cbn [snd] in F.
  cbn [slots emit set_log]. rewrite slots_maybe_drop, F. apply slot_set_obj_none_sstep.
Qed.

Lemma exec_action_sstep s a : sstep (slots s) (slots (exec_action s a)).
Proof.
  unfold exec_action. destruct (halted s); [apply sstep_refl|].
  destruct a; try (apply sstep_eq; reflexivity).
  - apply do_insert_sstep.
  - apply do_remove_sstep.
  - apply sstep_eq. unfold do_disable. destruct (lookup s h) as [[[t et] o]|]; [|reflexivity].
    pose proof (slots_disp_unregister s o t) as F. destruct (disp_unregister s o t) as [[r d] s1]. cbn [snd] in F.
    destruct r; [destruct d|..]; cbn; exact F.
  - apply sstep_eq. unfold do_enable. destruct (lookup s h) as [[[t et] o]|]; [|reflexivity].
    pose proof (slots_disp_register s o et) as F. destruct (disp_register s o et) as [r s1]. cbn [snd] in F.
    destruct (halted s1); cbn; exact F.
  - apply sstep_eq. unfold do_update. destruct (lookup s h) as [[[t et] o]|]; [|reflexivity].
    pose proof (slots_disp_reregister s o et) as F. destruct (disp_reregister s o et) as [[r d] s1]. cbn [snd] in F.
    destruct (halted s1); [exact F|]. destruct r; [destruct d|..]; cbn; exact F.
  - apply sstep_eq. unfold do_setint. destruct (objs s h) as [ob|]; [|reflexivity]. destruct (negb (o_ext ob)); [reflexivity|].
    destruct (is_running s h); [reflexivity|]. destruct (o_src ob); cbn; rewrite ?slots_set_obj_src; reflexivity.
  - apply sstep_eq. unfold do_setdl. destruct (objs s h) as [ob|]; [|reflexivity]. destruct (negb (o_ext ob)); [reflexivity|].
    destruct (is_running s h); [reflexivity|]. destruct (o_src ob) as [lc own subs [tm|]|g|tm|c g]; cbn; rewrite ?slots_set_obj_src; reflexivity.
  - apply sstep_eq. unfold do_intoinner. destruct (objs s h) as [ob|]; [|reflexivity]. destruct (negb (o_ext ob)); [reflexivity|].
    destruct (in_slots (slots s) h || is_running s h); reflexivity.
  - apply sstep_eq. unfold do_dropdisp. destruct (objs s h) as [ob|]; [|reflexivity]. destruct (negb (o_ext ob)); [reflexivity|].
    cbn. rewrite slots_maybe_drop. reflexivity.
  - apply sstep_eq. unfold do_send. destruct (env_send _ _ _) as [e' [rc|]]; reflexivity.
  - apply sstep_eq. unfold do_send. destruct (env_send _ _ _) as [e' [rc|]]; reflexivity.
  - apply sstep_eq. unfold do_cancelidle. destruct (match ridle s with Some r => r =? i | None => false end); reflexivity.
Qed.
Lemma exec_actions_sstep l : forall s, sstep (slots s) (slots (exec_actions s l)).
Proof.
  unfold exec_actions. induction l as [|a l IH]; intros s; cbn; [apply sstep_refl|].
  eapply sstep_trans; [apply exec_action_sstep|apply IH].
Qed.

(* ---------- callbacks, events, dispatch ---------- *)
Lemma callback_sstep scr s h sub p : sstep (slots s) (slots (fst (callback scr s h sub p))).
Proof. unfold callback. cbn [fst]. match goal with |- context [exec_actions ?x ?a] => change (slots s) with (slots x) end. apply exec_actions_sstep. Qed.

Lemma chan_loop_sstep scr fuel : forall s h c, sstep (slots s) (slots (fst (fst (chan_loop scr fuel s h c)))).
Proof.
  induction fuel as [|f IH]; intros s h c; cbn [chan_loop]; [apply sstep_refl|].
  destruct (halted s); [apply sstep_refl|]. destruct (chans (en s) c) as [ch|]; [|apply sstep_refl].
  destruct (ch_q ch) as [|v q'].
  - destruct (ch_senders ch =? 0); [|apply sstep_refl].
    pose proof (callback_sstep scr s h 1%Z 0%Z) as C. destruct (callback scr s h 1%Z 0%Z) as [s2 sc]. exact C.
  - match goal with |- context [callback scr ?x h 0%Z v] => set (s1 := x) end.
    change (slots s) with (slots s1).
    pose proof (callback_sstep scr s1 h 0%Z v) as C. destruct (callback scr s1 h 0%Z v) as [s2 sc]. cbn [fst] in C.
    eapply sstep_trans; [exact C|apply IH].
Qed.

Lemma ping_drain_slots s g t : slots (fst (fst (ping_drain s g t))) = slots s.
Proof. unfold ping_drain. destruct (opt_tok_is (g_tok g) t); [|reflexivity]. destruct (fd_read (en s) (g_fd g)) as [e1 v]. destruct (v =? 0); reflexivity. Qed.

Lemma obj_process_sstep scr s o ev : sstep (slots s) (slots (fst (obj_process scr s o ev))).
Proof.
  unfold obj_process. destruct (objs s o) as [ob|]; [|apply sstep_refl].
  destruct (o_src ob) as [lc own subs tmr|g|tm|c g].
  - destruct (if opt_tok_is own _ then _ else _) as [j|].
    + pose proof (callback_sstep scr s o j (zN (rd_code (ev_rd ev)))) as C. destruct (callback scr s o j _) as [s1 sc]. exact C.
    + destruct tmr as [tm|]; [|apply sstep_refl]. cbn [fst]. unfold timer_sub_fire.
      destruct (tm_reg tm) as [[tk c]|]; [|apply sstep_refl]. destruct (tm_dl tm) as [dl|]; [|apply sstep_refl].
      destruct (tok_eqb tk _); [|apply sstep_refl].
      pose proof (callback_sstep scr s o (Z.of_nat (S (length subs))) dl) as C. destruct (callback scr s o _ dl) as [s1 sc]. cbn [fst] in C.
      destruct (sc_ret sc) as [|[[| |]|[| |]|]]; rewrite ?slots_set_obj_src; exact C.
  - pose proof (ping_drain_slots s g (unpack (ev_key ev))) as P. destruct (ping_drain s g _) as [[s1 r] pinged]. cbn [fst] in *.
    destruct pinged; cbn [fst]; [|rewrite P; apply sstep_refl]. rewrite <- P. apply callback_sstep.
  - destruct (tm_reg tm) as [[tk c]|]; [|apply sstep_refl]. destruct (tm_dl tm) as [dl|]; [|apply sstep_refl].
    destruct (tok_eqb tk _); [|apply sstep_refl].
    pose proof (callback_sstep scr s o 0%Z dl) as C. destruct (callback scr s o 0%Z dl) as [s1 sc]. cbn [fst] in C.
    destruct (sc_ret sc) as [|[[| |]|[| |]|]]; cbn [fst]; rewrite ?slots_set_obj_src; exact C.
  - pose proof (ping_drain_slots s g (unpack (ev_key ev))) as P. destruct (ping_drain s g _) as [[s1 r] pinged]. cbn [fst] in *.
    destruct r as [act|]; cbn [fst]; [|rewrite P; apply sstep_refl].
    destruct pinged.
    + pose proof (chan_loop_sstep scr (chan_max (en s) c) s1 o c) as L. destruct (chan_loop scr _ s1 o c) as [[s2 clear] disc]. cbn [fst] in L.
      rewrite <- P. destruct disc; cbn [fst]; [exact L|]. destruct clear; cbn [fst slots eenv set_en]; exact L.
    + rewrite <- P. cbn. apply sstep_refl.
Qed.

Lemma apply_post_sstep s o reg r : sstep (slots s) (slots (snd (apply_post s o reg r))).
Proof.
  unfold apply_post. destruct r.
  - apply sstep_refl.
  - pose proof (slots_disp_reregister s o reg) as F. destruct (disp_reregister s o reg) as [[rs d] sx]. cbn [snd] in *. rewrite F. apply sstep_refl.
  - pose proof (slots_disp_unregister s o reg) as F. destruct (disp_unregister s o reg) as [[rs d] sx]. cbn [snd] in *. rewrite F. apply sstep_refl.
  - cbn [snd]. destruct (slot_get (slots s) reg); [|apply sstep_refl]. cbn. apply slot_set_obj_none_sstep.
Qed.

Lemma process_event_sstep scr s ev : sstep (slots s) (slots (fst (process_event scr s ev))).
Proof.
  unfold process_event. destruct (slot_get (slots s) _) as [sl|]; [|apply sstep_refl].
  destruct (s_obj sl) as [o|]; [|apply sstep_refl].
  set (reg := forget_sub_id (unpack (ev_key ev))).
  pose proof (obj_process_sstep scr (set_running s (Some (o, reg))) o ev) as P.
  destruct (obj_process scr _ o ev) as [s2 ret]. cbn [fst] in P. change (slots (set_running s (Some (o, reg)))) with (slots s) in P.
  destruct (halted s2); [exact P|].
  set (s4 := set_pending (set_running s2 None) Continue).
  assert (A : sstep (slots s) (slots (snd (match ret with None => (false, s4) | Some r => apply_post s4 o reg (match r with Continue => pending (set_running s2 None) | _ => r end) end)))).
  { destruct ret as [r|]; [|exact P]. eapply sstep_trans; [exact P|]. change (slots s2) with (slots s4). apply apply_post_sstep. }
  destruct (match ret with None => _ | Some r => _ end) as [ok s5]. cbn [snd] in A.
  destruct (halted s5); [exact A|]. cbn [fst]. rewrite slots_end_processing.
  destruct (slot_vacant_for s5 reg); [|exact A].
  pose proof (slots_disp_unregister s5 o reg) as F. destruct (disp_unregister s5 o reg) as [[rs d] sx]. cbn [snd] in F. rewrite F. exact A.
Qed.
Lemma process_events_sstep scr evs : forall s, sstep (slots s) (slots (fst (process_events scr s evs))).
Proof.
  induction evs as [|ev r IH]; intros s; cbn [process_events]; [apply sstep_refl|].
  pose proof (process_event_sstep scr s ev) as P. destruct (process_event scr s ev) as [s1 ok]. cbn [fst] in P.
  destruct ok; [eapply sstep_trans; [exact P|apply IH]|exact P].
Qed.
Lemma before_sleep_loop_slots bscr l : forall s, slots (fst (before_sleep_loop bscr s l)) = slots s.
Proof.
  induction l as [|t l IH]; intros s; cbn [before_sleep_loop]; [reflexivity|].
  destruct (lc_lookup s t) as [o|]; [|reflexivity].
  destruct (nth _ _ _) as [|p]; [rewrite IH; reflexivity|].
  destruct p; try reflexivity.
  destruct (match objs _ o with Some _ => _ | None => _ end) as [tk|]; rewrite IH; reflexivity.
Qed.
Lemma before_handle_loop_slots l polled : forall s, slots (fst (before_handle_loop s l polled)) = slots s.
Proof.
  induction l as [|t l IH]; intros s; cbn [before_handle_loop]; [reflexivity|].
  destruct (lc_lookup s t) as [o|]; [|reflexivity]. rewrite IH. reflexivity.
Qed.
Lemma run_idles_sstep scr l : forall s, sstep (slots s) (slots (run_idles scr s l)).
Proof.
  induction l as [|i l IH]; intros s; cbn [run_idles]; [apply sstep_refl|].
  destruct (halted s); [apply sstep_refl|]. destruct (idle_cancelled s i); [apply IH|].
  match goal with |- context [exec_actions ?x ?a] => set (s1 := x); set (acts := a) end.
  pose proof (exec_actions_sstep acts s1) as E. change (slots s1) with (slots s) in E.
  destruct (halted (exec_actions s1 acts)); [exact E|].
  eapply sstep_trans; [exact E|]. change (slots (exec_actions s1 acts)) with (slots (set_ridle (exec_actions s1 acts) None)). apply IH.
Qed.
Lemma emits_slots l : forall s, slots (emits s l) = slots s.
Proof. unfold emits. induction l as [|x l IH]; intros s; cbn; [reflexivity|]. rewrite IH. reflexivity. Qed.

Lemma dispatch_sstep scr bscr s t order : sstep (slots s) (slots (dispatch scr bscr s t order)).
Proof.
  unfold dispatch. pose proof (before_sleep_loop_slots bscr (lifecycle s) s) as B.
  destruct (before_sleep_loop bscr s (lifecycle s)) as [s1 bs]. cbn [fst] in B. rewrite <- B.
  destruct bs; [|apply sstep_refl|apply sstep_refl].
  destruct (poll (en s1) t order) as [polled e2].
  set (s3 := emit (set_en s1 e2) _). change (slots s1) with (slots s3).
  pose proof (before_handle_loop_slots (lifecycle s3) polled s3) as H. destruct (before_handle_loop s3 _ polled) as [s4 ok]. cbn [fst] in H. rewrite <- H.
  destruct ok; cbn [negb]; [|apply sstep_refl].
  pose proof (process_events_sstep scr (synth s4 ++ polled) (set_synth s4 [])) as P.
  destruct (process_events scr _ _) as [s5 ok2]. cbn [fst] in P. change (slots (set_synth s4 [])) with (slots s4) in P.
  destruct (halted s5); [exact P|]. destruct ok2; cbn [negb]; [|exact P].
  pose proof (run_idles_sstep scr (idles s5) (set_idles s5 [])) as R. change (slots (set_idles s5 [])) with (slots s5) in R.
  destruct (halted (run_idles scr _ _)); cbn [slots emit set_log]; eapply sstep_trans; eassumption.
Qed.
Lemma exec_cmd_sstep scr bscr s c : sstep (slots s) (slots (exec_cmd scr bscr s c)).
Proof.
  unfold exec_cmd. destruct (halted s); [apply sstep_refl|]. change (slots s) with (slots (emit s (L T_CMD []))).
  destruct c; [apply exec_action_sstep|apply dispatch_sstep|rewrite emits_slots; apply sstep_refl|rewrite emits_slots; apply sstep_refl].
Qed.
Lemma exec_cmds_sstep scr bscr cmds : forall s, sstep (slots s) (slots (fold_left (exec_cmd scr bscr) cmds s)).
Proof.
  induction cmds as [|c r IH]; intros s; cbn; [apply sstep_refl|]. eapply sstep_trans; [apply exec_cmd_sstep|apply IH].
Qed.

(* ---------- the whole-history statement ---------- *)
Definition gens_small (l : list slot) : Prop := forall i sl, nth_error l i = Some sl -> s_gen sl < U16.
(* t belongs to the current or a past generation of its slot: it may have been handed out *)
Definition issued (l : list slot) (t : tok) : Prop :=
  exists sl, nth_error l (N.to_nat (t_id t)) = Some sl /\ t_ver t <= s_gen sl.

Lemma dead_stays_dead l l' t : sstep l l' -> slots_wf l -> gens_small l' -> issued l t ->
  (match slot_get l t with Some sl => s_obj sl | None => None end) = None ->
  (match slot_get l' t with Some sl => s_obj sl | None => None end) = None.
Proof.
  intros [W L] Hw Hg [sl [Hn Hv]] Hd. specialize (W Hw). destruct (L _ _ Hn) as [sl' [Hn' Hle]].
  unfold slot_get in *. rewrite Hn in Hd. rewrite Hn'.
  destruct Hle as [Hlt|(Hg' & Ht & Ho)].
  - destruct (W _ _ Hn') as (_ & _ & _ & Hver). pose proof (Hg _ _ Hn') as Hs.
    rewrite N.mod_small in Hver by exact Hs.
    assert (E : same_source_as (s_tok sl') t = false).
    { unfold same_source_as. destruct (N.eqb_spec (t_ver (s_tok sl')) (t_ver t)) as [E|E]; [lia|apply andb_false_r]. }
    rewrite E. reflexivity.
  - rewrite Ht. destruct (same_source_as (s_tok sl) t); [|reflexivity]. destruct Ho as [Ho|Ho]; rewrite Ho; [exact Hd|reflexivity].
Qed.

Theorem token_dead_forever scr bscr cmds s t :
  slots_wf (slots s) -> gens_small (slots (fold_left (exec_cmd scr bscr) cmds s)) -> issued (slots s) t ->
  lc_lookup s t = None -> lc_lookup (fold_left (exec_cmd scr bscr) cmds s) t = None.
Proof. intros Hw Hg Hi Hd. unfold lc_lookup in *. eapply dead_stays_dead; try eassumption. apply exec_cmds_sstep. Qed.

(* every state a scenario reaches has well-formed slots (token = (index, generation mod 2^16, 0)) *)
Lemma run_slots_wf scr bscr cmds : slots_wf (slots (run scr bscr cmds)).
Proof.
  unfold run. destruct (exec_cmds_sstep scr bscr cmds init) as [W _]. apply W.
  intros i sl H. destruct i; discriminate.
Qed.
(* so: in ANY scenario, split anywhere: a token that does not resolve at the split never resolves afterwards *)
Theorem token_dead_forever_run scr bscr cmds1 cmds2 t :
  gens_small (slots (run scr bscr (cmds1 ++ cmds2))) -> issued (slots (run scr bscr cmds1)) t ->
  lc_lookup (run scr bscr cmds1) t = None -> lc_lookup (run scr bscr (cmds1 ++ cmds2)) t = None.
Proof.
  intros Hg Hi Hd. unfold run in *. rewrite fold_left_app in *. apply token_dead_forever; try assumption. apply run_slots_wf.
Qed.
(* the handle-level reading: lookup (what enable/disable/update/remove use) of a handle whose token is dead stays None *)
Lemma lookup_none_of_dead s h t : toks s h = Some t -> lc_lookup s t = None -> lookup s h = None.
Proof.
  intros Ht Hd. unfold lookup, lc_lookup in *. rewrite Ht. destruct (slot_get (slots s) t) as [sl|]; [|reflexivity]. rewrite Hd. reflexivity.
Qed.
