From CV Require Import Base Signals.
Open Scope N_scope.

(* invariant: exactly the configured signals are blocked and watched by the signalfd; pending signals are blocked *)
Definition sinv (st : sst) : Prop :=
  (forall x, blocked st x = mask st x) /\ (forall x, sfd st x = mask st x) /\ (forall x, pending st x = true -> blocked st x = true) /\
  (alive st = false -> forall x, mask st x = false).

Lemma sig_eqb_eq a b : sig_eqb a b = true <-> a = b.
Proof. destruct a, b; cbn; split; intros H; try reflexivity; try discriminate. Qed.

Lemma sinv_step st o : sinv st -> sinv (s_step st o).
Proof.
  intros Hinv. pose proof Hinv as (A & B & C & D). destruct o; cbn [s_step].
  - destruct (alive st) eqn:E; [exact Hinv|].
    specialize (D eq_refl). unfold sinv; cbn. repeat split.
    + intros x. unfold s_union. rewrite A, D. reflexivity.
    + intros x H. unfold s_union. rewrite (C x H). reflexivity.
    + discriminate.
  - destruct (alive st) eqn:E; cbn [negb]; [|exact Hinv].
    unfold sinv; cbn. repeat split.
    + intros x. unfold s_union. rewrite A. destruct (mask st x); reflexivity.
    + intros x H. unfold s_union. rewrite (C x H). reflexivity.
    + discriminate.
  - destruct (alive st) eqn:E; cbn [negb]; [|exact Hinv].
    unfold deliver. unfold sinv; cbn. repeat split.
    + intros x. unfold s_diff. rewrite A. reflexivity.
    + intros x. unfold s_diff. intros H. apply andb_prop in H as [H1 H2]. rewrite (C x H1), H2. reflexivity.
    + discriminate.
  - destruct (alive st) eqn:E; cbn [negb]; [|exact Hinv].
    unfold deliver. unfold sinv; cbn. repeat split.
    + intros x. unfold s_union, s_diff. rewrite A. destruct (mask st x), (s_of_list l x); reflexivity.
    + intros x. unfold s_diff, s_union. intros H. apply andb_prop in H as [H1 H2].
      pose proof (C x H1) as Hb. rewrite Hb. rewrite A in Hb. rewrite Hb in H2 |- *. cbn in *.
      destruct (s_of_list l x); cbn in *; [reflexivity|discriminate].
    + discriminate.
  - destruct (alive st) eqn:E; cbn [negb]; [|exact Hinv].
    unfold deliver. unfold sinv; cbn. repeat split.
    + intros x. unfold s_diff, s_empty. rewrite A. destruct (mask st x); reflexivity.
    + intros x. unfold s_diff. intros H. apply andb_prop in H as [H1 H2].
      pose proof (C x H1) as Hb. rewrite A in Hb. rewrite Hb in H2. discriminate.
  - destruct (blocked st x) eqn:E; unfold sinv; cbn; repeat split; try assumption.
    intros y. unfold s_union. intros H. apply orb_prop in H as [H|H]; [apply C; exact H|].
    apply sig_eqb_eq in H. subst y. exact E.
  - destruct (alive st) eqn:E; cbn [negb]; [|exact Hinv].
    unfold sinv; cbn. repeat split; try assumption; try discriminate.
    intros x. unfold s_diff. intros H. apply andb_prop in H as [H1 _]. apply C; exact H1.
Qed.

Lemma sinv_init : sinv s_init.
Proof. unfold sinv; cbn. repeat split; try reflexivity. intros x H; discriminate. Qed.

Lemma sinv_run ops : sinv (s_run ops).
Proof.
  unfold s_run. generalize sinv_init. generalize s_init.
  induction ops as [|o r IH]; intros st H; cbn; [exact H|]. apply IH. apply sinv_step. exact H.
Qed.

(* a pending signal that stays configured across a call is never handed to the ordinary handler *)
Lemma nil_filter (f : sig -> bool) : (forall x, f x = false) -> filter f all_sigs = [].
Proof. intros G. induction all_sigs as [|a t IH]; cbn; [reflexivity|]. rewrite G. exact IH. Qed.

Lemma escaped_step st o : escaped (s_step st o) = escaped st.
Proof.
  destruct o; cbn [s_step]; try (destruct (alive st); cbn [negb]; reflexivity).
  - destruct (alive st); cbn [negb]; [|reflexivity]. unfold deliver. cbn [escaped].
    rewrite nil_filter; [apply app_nil_r|].
    intros x. unfold s_diff. destruct (s_of_list l x), (pending st x), (mask st x); reflexivity.
  - destruct (alive st); cbn [negb]; [|reflexivity]. unfold deliver. cbn [escaped].
    rewrite nil_filter; [apply app_nil_r|].
    intros x. unfold s_diff. destruct (s_of_list l x), (pending st x), (mask st x); reflexivity.
  - destruct (blocked st x); reflexivity.
Qed.
Lemma escaped_run ops : escaped (s_run ops) = [].
Proof.
  unfold s_run. assert (H : escaped s_init = []) by reflexivity. revert H. generalize s_init.
  induction ops as [|o r IH]; intros st H; cbn; [exact H|]. apply IH. rewrite escaped_step. exact H.
Qed.

(* the source only ever reports configured signals, each pending instance once *)
Lemma dispatch_reports st : sinv st -> alive st = true ->
  let st' := s_step st SDispatch in
  (exists got, reported st' = reported st ++ got /\ (forall x, In x got -> mask st x = true /\ pending st x = true) /\
               (forall x, mask st x = true -> pending st x = true -> In x got)) /\
  (forall x, mask st x = true -> pending st' x = false).
Proof.
  intros (A & B & C & D) Ha. cbn [s_step]. rewrite Ha. cbn [negb]. cbn [reported pending mask]. split.
  - eexists. split; [reflexivity|]. split.
    + intros x H. apply filter_In in H as [_ H]. apply andb_prop in H as [H1 H2]. rewrite B in H2. split; assumption.
    + intros x Hm Hp. apply filter_In. split; [destruct x; cbn; tauto|]. rewrite Hp, B, Hm. reflexivity.
  - intros x Hm. unfold s_diff. rewrite B, Hm. destruct (pending st x); reflexivity.
Qed.

(* the former finding F8 (set_signals) on the repaired code: the pending, still configured signal is reported *)
Lemma f8_fixed :
  let st := s_run [SNew [SUSR1]; SRaise SUSR1; SSet [SUSR1; SUSR2]; SDispatch] in
  escaped st = [] /\ reported st = [SUSR1] /\ handled st SUSR1 = 0.
Proof. vm_compute. repeat split. Qed.
