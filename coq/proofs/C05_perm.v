(* C05, wheel level: the expiry loop partitions the wheel - popped ++ remaining is a permutation of what was there: no arming is
   popped twice, none is lost, none invented *)
From Coq Require Import Permutation.
From CV Require Import Base Consts Token Env.
From CVP Require Import Env_lemmas.
Import ListNotations.
Open Scope N_scope.

(* the heap top is the FIRST entry of minimal deadline: everything before it is strictly later *)
Lemma wh_min_split l : forall m, wh_min l = Some m ->
  exists l1 l2, l = l1 ++ m :: l2 /\ Forall (fun e => (w_dl m < w_dl e)%Z) l1 /\ Forall (fun e => (w_dl m <= w_dl e)%Z) l2.
Proof.
  induction l as [|e t IH]; intros m H; cbn in H; [discriminate|].
  destruct (wh_min t) as [m0|] eqn:Em.
  - destruct (IH m0 eq_refl) as (l1 & l2 & Et & F1 & F2). destruct (Z.leb_spec (w_dl e) (w_dl m0)) as [L|L]; injection H as <-.
    + exists [], t. split; [reflexivity|]. split; [constructor|]. rewrite Et. apply Forall_app. split.
      * eapply Forall_impl; [|exact F1]. cbn. intros a Ha. lia.
      * constructor; [exact L|]. eapply Forall_impl; [|exact F2]. cbn. intros a Ha. lia.
    + exists (e :: l1), l2. split; [rewrite Et; reflexivity|]. split; [constructor; [exact L|exact F1]|exact F2].
  - injection H as <-. destruct t as [|x t']; [|cbn in Em; destruct (wh_min t'); [destruct (w_dl x <=? w_dl w)%Z|]; discriminate].
    exists [], []. repeat split; constructor.
Qed.
Lemma wh_remove_first_split l1 : forall m l2, Forall (fun e => (w_dl m < w_dl e)%Z) l1 ->
  wh_remove_first (l1 ++ m :: l2) (w_ctr m) (w_dl m) = l1 ++ l2.
Proof.
  induction l1 as [|e t IH]; intros m l2 F; cbn.
  - rewrite N.eqb_refl, Z.eqb_refl. reflexivity.
  - inversion F as [|? ? He Ft]; subst. destruct (Z.eqb_spec (w_dl e) (w_dl m)) as [E|_]; [lia|]. rewrite andb_false_r. f_equal. apply IH. exact Ft.
Qed.
Lemma wh_pop_perm l m : wh_min l = Some m -> Permutation l (m :: wh_remove_first l (w_ctr m) (w_dl m)).
Proof.
  intros H. destruct (wh_min_split l m H) as (l1 & l2 & -> & F1 & _). rewrite wh_remove_first_split by exact F1.
  symmetry. apply Permutation_middle.
Qed.
Theorem wh_expire_perm fuel : forall l now ex rest, wh_expire fuel l now = (ex, rest) -> Permutation l (ex ++ rest).
Proof.
  induction fuel as [|f IH]; intros l now ex rest H; cbn in H; [injection H as <- <-; apply Permutation_refl|].
  destruct (wh_min l) as [m|] eqn:Em; [|injection H as <- <-; apply Permutation_refl].
  destruct (w_dl m <=? now)%Z; [|injection H as <- <-; apply Permutation_refl].
  destruct (wh_expire f _ now) as [ex' rest'] eqn:E. injection H as <- <-.
  eapply Permutation_trans; [apply wh_pop_perm; exact Em|]. cbn. apply perm_skip. apply IH with (now := now). exact E.
Qed.
(* so: with pairwise distinct arming counters in the wheel, the counters popped and the counters left are disjoint and each popped
   counter is popped once *)
Lemma NoDup_app_parts {A} (l1 l2 : list A) : NoDup (l1 ++ l2) -> NoDup l1 /\ NoDup l2 /\ forall x, In x l1 -> ~ In x l2.
Proof.
  induction l1 as [|a t IH]; cbn; intros H; [split; [constructor|split; [exact H|intros x []]]|].
  inversion H as [|? ? Hn Ht]; subst. destruct (IH Ht) as (A1 & A2 & A3). split; [constructor; [intros Hi; apply Hn; apply in_or_app; left; exact Hi|exact A1]|].
  split; [exact A2|]. intros x [->|Hx]; [intros Hi; apply Hn; apply in_or_app; right; exact Hi|apply A3; exact Hx].
Qed.
Corollary wh_expire_once fuel l now ex rest : wh_expire fuel l now = (ex, rest) -> NoDup (map w_ctr l) ->
  NoDup (map w_ctr ex) /\ NoDup (map w_ctr rest) /\ forall c, In c (map w_ctr ex) -> ~ In c (map w_ctr rest).
Proof.
  intros H Nd. pose proof (wh_expire_perm fuel l now ex rest H) as P.
  assert (Nd2 : NoDup (map w_ctr (ex ++ rest))) by (eapply Permutation_NoDup; [apply Permutation_map; exact P|exact Nd]).
  rewrite map_app in Nd2. apply NoDup_app_parts. exact Nd2.
Qed.
