From CV Require Import Base Signals.
From CVP Require Import Signals_proofs.
Open Scope N_scope.

(* conservation over whole histories: every report to the callback and every handler run consumes its own raise - no signal is
   reported twice for one raise, none is invented (standard signals coalesce, so raises may outnumber the reports) *)
Fixpoint cnt (x : sig) (l : list sig) : N := match l with [] => 0 | y :: r => (if sig_eqb y x then 1 else 0) + cnt x r end.
Definition raised (x : sig) (ops : list sop) : N :=
  fold_right (fun o n => match o with SRaise y => if sig_eqb y x then 1 + n else n | _ => n end) 0 ops.
Definition bal (st : sst) (x : sig) : N := cnt x (reported st) + handled st x + (if pending st x then 1 else 0).

Lemma cnt_app x a b : cnt x (a ++ b) = cnt x a + cnt x b.
Proof. induction a as [|y a IH]; cbn [cnt app]; [reflexivity|rewrite IH; lia]. Qed.
Lemma cnt_filter_all x f : cnt x (filter f all_sigs) = if f x then 1 else 0.
Proof. destruct x; unfold all_sigs; cbn [filter]; destruct (f SHUP), (f SUSR1), (f SUSR2), (f SCONT), (f SURG), (f SWINCH); reflexivity. Qed.
Lemma deliver_bal st u x : let '(h, p) := deliver st u in h x + (if p x then 1 else 0) = handled st x + (if pending st x then 1 else 0).
Proof. unfold deliver, s_diff. destruct (u x), (pending st x); cbn; lia. Qed.

Lemma bal_step st o x : bal (s_step st o) x <= bal st x + (match o with SRaise y => if sig_eqb y x then 1 else 0 | _ => 0 end).
Proof.
  unfold bal. destruct o; cbn [s_step].
  - destruct (alive st); cbn [reported handled pending]; lia.
  - destruct (negb (alive st)); cbn [reported handled pending]; lia.
  - destruct (negb (alive st)); [lia|]. pose proof (deliver_bal st (s_of_list l) x) as D.
    destruct (deliver st (s_of_list l)) as [h p]. cbn [reported handled pending]. lia.
  - destruct (negb (alive st)); [lia|]. pose proof (deliver_bal st (s_diff (mask st) (s_of_list l)) x) as D.
    destruct (deliver st (s_diff (mask st) (s_of_list l))) as [h p]. cbn [reported handled pending]. lia.
  - destruct (negb (alive st)); [lia|]. pose proof (deliver_bal st (mask st) x) as D.
    destruct (deliver st (mask st)) as [h p]. cbn [reported handled pending]. lia.
  - destruct (blocked st x0); cbn [reported handled pending]; unfold s_union.
    + rewrite (N.eqb_sym (sig_num x) (sig_num x0)) || idtac. unfold sig_eqb. rewrite (N.eqb_sym (sig_num x) (sig_num x0)).
      destruct (pending st x), (sig_num x0 =? sig_num x); cbn; lia.
    + unfold sig_eqb. rewrite (N.eqb_sym (sig_num x) (sig_num x0)). destruct (sig_num x0 =? sig_num x); lia.
  - destruct (negb (alive st)); [lia|]. cbn [reported handled pending]. rewrite cnt_app, cnt_filter_all. unfold s_diff.
    destruct (pending st x), (sfd st x); cbn; lia.
Qed.
Lemma bal_run ops : forall st x, bal (fold_left s_step ops st) x <= bal st x + raised x ops.
Proof.
  induction ops as [|o ops IH]; intros st x; cbn [fold_left raised fold_right]; [lia|].
  specialize (IH (s_step st o) x). pose proof (bal_step st o x) as B. fold (raised x ops).
  destruct o; try lia. destruct (sig_eqb x0 x); lia.
Qed.
Theorem reports_and_handlers_never_exceed_raises ops x :
  cnt x (reported (s_run ops)) + handled (s_run ops) x + (if pending (s_run ops) x then 1 else 0) <= raised x ops.
Proof. pose proof (bal_run ops s_init x) as H. unfold bal at 2 in H. cbn in H. exact H. Qed.
(* one dispatch reports a signal at most once *)
Lemma dispatch_got_once st x : alive st = true -> cnt x (reported (s_step st SDispatch)) <= cnt x (reported st) + 1.
Proof. intros Ha. cbn [s_step]. rewrite Ha. cbn [negb reported]. rewrite cnt_app, cnt_filter_all. destruct (_ && _); lia. Qed.
