From CV Require Import Base RunLoop.
Open Scope N_scope.

Definition is_half (t : rthread) : bool := match rt_stage t with RHalf => true | _ => false end.
Fixpoint nhalf (l : list rthread) : N := match l with [] => 0 | t :: r => (if is_half t then 1 else 0) + nhalf r end.
Lemma nhalf_upd l : forall i t t', nth_error l i = Some t ->
  nhalf (upd_rt l i t') + (if is_half t then 1 else 0) = nhalf l + (if is_half t' then 1 else 0).
Proof. induction l as [|x r IH]; intros [|i] t t' H; cbn in *; try discriminate; [injection H as ->; lia|specialize (IH i t t' H); lia]. Qed.
Lemma upd_rt_same l : forall i t, nth_error l i = Some t -> upd_rt l i t = l.
Proof. induction l as [|x r IH]; intros [|i] t H; cbn in *; try discriminate; [congruence|f_equal; auto]. Qed.

Definition waiting (s : rst) : bool := match pc s with LWaiting => true | _ => false end.
Definition before_swap (s : rst) : bool := match pc s with L0 | L1 | L2 | L2b | LDone _ => true | _ => false end.

(* - the loop is never blocked while a notification is pending (a wake-up issued before the wait is not lost)
   - run()/block_on() only see the stop flag set if stop() was called after the initial reset
   - a set future_ready flag always has something on its way that will bring the loop to poll the future *)
Definition rinv (s : rst) : Prop :=
  (notif s = true -> waiting s = false) /\
  (stopf s = true -> pc s = L0 \/ stop_req s = true) /\
  (forall b, pc s = LDone b -> b = false -> stop_req s = true) /\
  (blockon s = true -> readyf s = true -> before_swap s = true \/ notif s = true \/ 1 <= nhalf (rthr s)).

Ltac rcbn := cbn [blockon stopf readyf notif pc fut rthr stop_req iters_after_stop polls wakes rlog set_rthr after_wait rt_stage rt_ops].

Ltac brute :=
  cbn in *;
  repeat match goal with
         | b : bool |- _ => destruct b
         end;
  cbn in *; intuition (try discriminate; try congruence; try lia).

Lemma rinv_loop_step s : rinv s -> rinv (loop_step s).
Proof.
  destruct s as [bo st rd nt p f th sr ia po wk lg]. unfold rinv, loop_step, waiting, before_swap, after_wait.
  cbn [blockon stopf readyf notif pc fut rthr stop_req iters_after_stop polls wakes rlog].
  destruct p as [| | | | | | |b0].
  - brute.
  - brute.
  - destruct rd; [destruct f as [|n f]; [|destruct n as [|[[| |]|[| |]|]]]|]; brute.
  - brute.
  - brute.
  - brute.
  - brute.
  - brute.
Qed.

Lemma rinv_thread_step s i t : rinv s -> nth_error (rthr s) i = Some t ->
  rinv (let (s', t') := rt_step s i t in set_rthr s' (upd_rt (rthr s) i t')).
Proof.
  intros Hinv En. pose proof (nhalf_upd (rthr s) i t) as NU.
  destruct s as [bo st rd nt p f th sr ia po wk lg]. destruct t as [ops stg].
  unfold rinv, rt_step, do_notify, waiting, before_swap, after_wait, set_rthr in *.
  cbn [blockon stopf readyf notif pc fut rthr stop_req iters_after_stop polls wakes rlog rt_stage rt_ops] in *.
  destruct stg.
  - destruct ops as [|[] r].
    + cbn. rewrite (upd_rt_same _ _ _ En). exact Hinv.
    + specialize (NU (mkRT r RIdle) En). unfold is_half in NU. cbn in NU.
      destruct p as [| | | | | | |b0]; brute.
    + specialize (NU (mkRT r RIdle) En). unfold is_half in NU. cbn in NU.
      destruct p as [| | | | | | |b0]; brute.
    + specialize (NU (mkRT r RPre) En). unfold is_half in NU. cbn in NU.
      destruct p as [| | | | | | |b0]; brute.
  - specialize (NU (mkRT ops RHalf) En). unfold is_half in NU. cbn in NU.
    destruct p as [| | | | | | |b0]; brute.
  - specialize (NU (mkRT ops RIdle) En). unfold is_half in NU. cbn in NU.
    destruct p as [| | | | | | |b0]; brute.
Qed.

Lemma rinv_step s k : rinv s -> rinv (r_step s k).
Proof.
  intros H. destruct k as [|i]; cbn [r_step]; [apply rinv_loop_step; exact H|].
  destruct (nth_error (rthr s) i) as [t|] eqn:En; [|exact H]. apply rinv_thread_step; assumption.
Qed.

Lemma nhalf_init progs : nhalf (map (fun p => mkRT p RIdle) progs) = 0.
Proof. induction progs as [|p r IH]; cbn; [reflexivity|exact IH]. Qed.
Lemma rinv_init bo f progs : rinv (r_init bo f progs).
Proof. unfold rinv, r_init, waiting, before_swap; cbn. repeat split; intros; try discriminate; auto. Qed.
Lemma rinv_run bo f progs sched : rinv (r_run bo f progs sched).
Proof.
  unfold r_run. generalize (rinv_init bo f progs). generalize (r_init bo f progs).
  induction sched as [|k r IH]; intros s Hs; cbn; [exact Hs|]. apply IH. apply rinv_step. exact Hs.
Qed.
