From CV Require Import Base RunLoop.
From CVP Require Export RunLoop_inv.

(* wakeup(): the wait in progress ends, otherwise the notification stays for the next wait, which then does not block *)
Lemma notify_sticky s lg : waiting (do_notify s lg) = false /\ (waiting s = true -> pc (do_notify s lg) = L1) /\
  (waiting s = false -> notif (do_notify s lg) = true).
Proof. unfold do_notify, waiting, after_wait. destruct (pc s); cbn; repeat split; intros; try discriminate; reflexivity. Qed.
Lemma wait_with_notification_does_not_block s : pc s = L3 -> notif s = true -> pc (loop_step s) = L1.
Proof. intros Hp Hn. unfold loop_step, after_wait. rewrite Hp, Hn. reflexivity. Qed.

(* stop() then wakeup() after run() began: the loop is told - from such a state it returns after at most the iteration
   in progress, whatever the other threads do meanwhile *)
Definition told (s : rst) : Prop :=
  stopf s = true /\ (match pc s with L0 | LWaiting => False | L2 | L3 => notif s = true | _ => True end).
Lemma stop_then_wakeup_told s lg : stopf s = true -> pc s <> L0 -> told (do_notify s lg).
Proof.
  intros Hs Hp. unfold told, do_notify, after_wait. destruct (pc s) eqn:E; cbn; try (split; [exact Hs|]; try reflexivity; try exact I); try congruence.
Qed.
Lemma told_stable s k : told s -> told (r_step s k) \/ exists b, pc (r_step s k) = LDone b.
Proof.
  intros [Hs Hp]. destruct k as [|i]; cbn [r_step].
  - unfold loop_step, after_wait, told. destruct (pc s) eqn:E; try contradiction.
    + rewrite Hs. right. eexists. reflexivity.
    + destruct (readyf s); [destruct (fut s) as [|n r]; [|destruct n as [|[[| |]|[| |]|]]]|]; cbn; try (right; eexists; reflexivity); left; (split; [exact Hs|try exact Hp; try exact I]).
    + left. cbn. split; [exact Hs|exact I].
    + left. cbn. split; [exact Hs|reflexivity].
    + rewrite Hp. left. cbn. split; [exact Hs|exact I].
    + right. eexists. exact E.
  - destruct (nth_error (rthr s) i) as [t|]; [|left; split; assumption].
    unfold rt_step, do_notify, after_wait, told, set_rthr. destruct (rt_stage t); [destruct (rt_ops t) as [|[] r]| |];
      destruct (pc s) eqn:E; cbn; try contradiction; try (left; split; [assumption || reflexivity|]; try exact I; try assumption; try reflexivity);
      try (right; eexists; reflexivity).
Qed.
(* ... and the loop thread itself needs at most five of its own steps: (the self-waking poll's store and notify ->) swap ->
   wait returns at once -> flag check -> return *)
Lemma iter_succ_r' {A} n (f : A -> A) x : Nat.iter (S n) f x = Nat.iter n f (f x).
Proof. induction n as [|n IH]; [reflexivity|]. change (f (Nat.iter (S n) f x) = f (Nat.iter n f (f x))). f_equal. exact IH. Qed.
Definition lrank (p : lpc) : nat :=
  match p with LDone _ => 0 | L1 => 1 | L3 => 2 | L2b => 3 | L2a => 4 | L2 => 5 | _ => 6 end.
Lemma done_stays s b : pc s = LDone b -> pc (loop_step s) = LDone b.
Proof. intros E. unfold loop_step. rewrite E. exact E. Qed.
Lemma told_rank s : told s -> (exists b, pc s = LDone b) \/ (lrank (pc (loop_step s)) < lrank (pc s))%nat.
Proof.
  intros [Hs Hp]. unfold loop_step, after_wait. destruct (pc s) eqn:E; try contradiction.
  - right. rewrite Hs. cbn. lia.
  - right. destruct (readyf s); [destruct (fut s) as [|n r]; [|destruct n as [|[[| |]|[| |]|]]]|]; cbn; lia.
  - right. cbn. lia.
  - right. cbn. lia.
  - right. rewrite Hp. cbn. lia.
  - left. eexists. reflexivity.
Qed.
Lemma done_iter m : forall s b, pc s = LDone b -> pc (Nat.iter m loop_step s) = LDone b.
Proof. induction m as [|m IHm]; intros s b Hb; [exact Hb|]. rewrite iter_succ_r'. apply IHm. apply done_stays. exact Hb. Qed.
Lemma told_iter n : forall s, told s -> (lrank (pc s) <= n)%nat -> exists b, pc (Nat.iter n loop_step s) = LDone b.
Proof.
  induction n as [|n IH]; intros s Ht Hr.
  - destruct (pc s) eqn:E; cbn in Hr; try lia. exists ok_some. exact E.
  - destruct (told_rank s Ht) as [[b Hb]|Hlt].
    + exists b. apply done_iter. exact Hb.
    + rewrite iter_succ_r'. destruct (told_stable s 0%nat Ht) as [Ht'|[b Hb]]; cbn [r_step] in *.
      * apply IH; [exact Ht'|]. lia.
      * exists b. apply done_iter. exact Hb.
Qed.
Lemma iter5 {A} (f : A -> A) x : Nat.iter 5 f x = f (f (f (f (f x)))).
Proof. reflexivity. Qed.
Lemma told_returns s : told s -> exists b, pc (loop_step (loop_step (loop_step (loop_step (loop_step s))))) = LDone b.
Proof.
  intros Ht. assert (Hr : (lrank (pc s) <= 5)%nat).
  { destruct Ht as [_ Hp]. destruct (pc s); try contradiction; cbn; lia. }
  destruct (told_iter 5 s Ht Hr) as [b Hb]. exists b. rewrite (iter5 loop_step s) in Hb. exact Hb.
Qed.
(* run() never returns Ok (block_on never returns None) without a stop request since it began *)
Lemma no_spurious_return s : rinv s -> pc s = LDone false -> stop_req s = true.
Proof. intros (_ & _ & C & _) H. apply (C false H eq_refl). Qed.
