From CV Require Import Base RunLoop.
Open Scope N_scope.

Definition is_half (t : rthread) : bool := match rt_stage t with RHalf => true | _ => false end.
Fixpoint nhalf (l : list rthread) : N := match l with [] => 0 | t :: r => (if is_half t then 1 else 0) + nhalf r end.
Lemma nhalf_upd l : forall i t t', nth_error l i = Some t ->
  nhalf (upd_rt l i t') + (if is_half t then 1 else 0) = nhalf l + (if is_half t' then 1 else 0).
Proof. induction l as [|x r IH]; intros [|i] t t' H; cbn in *; try discriminate; [injection H as ->; lia|specialize (IH i t t' H); lia]. Qed.
Lemma upd_rt_same l : forall i t, nth_error l i = Some t -> upd_rt l i t = l.
Proof. induction l as [|x r IH]; intros [|i] t H; cbn in *; try discriminate; [congruence|f_equal; auto]. Qed.

Definition waiting (s : rst) : bool := match pc s with LWaiting => true | _ => false end.
Definition before_swap (s : rst) : bool := match pc s with L0 | L1 | L2 | LDone _ => true | _ => false end.

(* - the loop is never blocked while a notification is pending (a wake-up issued before the wait is not lost)
   - run()/block_on() only see the stop flag set if stop() was called after the initial reset
   - a set future_ready flag always has something on its way that will bring the loop to poll the future *)
Definition rinv (s : rst) : Prop :=
  (notif s = true -> waiting s = false) /\
  (stopf s = true -> pc s = L0 \/ stop_req s = true) /\
  (forall b, pc s = LDone b -> b = false -> stop_req s = true) /\
  (blockon s = true -> readyf s = true -> before_swap s = true \/ notif s = true \/ 1 <= nhalf (rthr s)).

Ltac rcbn := cbn [blockon stopf readyf notif pc fut rthr stop_req iters_after_stop polls wakes rlog set_rthr after_wait rt_stage rt_ops].

Ltac brute :=
  cbn in *;
  repeat match goal with
         | b : bool |- _ => destruct b
         end;
  cbn in *; intuition (try discriminate; try congruence; try lia).

Lemma rinv_loop_step s : rinv s -> rinv (loop_step s).
Proof.
  destruct s as [bo st rd nt p f th sr ia po wk lg]. unfold rinv, loop_step, waiting, before_swap, after_wait.
  cbn [blockon stopf readyf notif pc fut rthr stop_req iters_after_stop polls wakes rlog].
  destruct p as [| | | | |b0]; try (destruct f as [|[] f]); brute.
Qed.

Lemma rinv_thread_step s i t : rinv s -> nth_error (rthr s) i = Some t ->
  rinv (let (s', t') := rt_step s i t in set_rthr s' (upd_rt (rthr s) i t')).
Proof.
  intros Hinv En. pose proof (nhalf_upd (rthr s) i t) as NU.
  destruct s as [bo st rd nt p f th sr ia po wk lg]. destruct t as [ops stg].
  unfold rinv, rt_step, do_notify, waiting, before_swap, after_wait, set_rthr in *.
  cbn [blockon stopf readyf notif pc fut rthr stop_req iters_after_stop polls wakes rlog rt_stage rt_ops] in *.
  destruct stg.
  - destruct ops as [|[] r].
    + cbn. rewrite (upd_rt_same _ _ _ En). exact Hinv.
    + specialize (NU (mkRT r RIdle) En). unfold is_half in NU. cbn in NU.
      destruct p as [| | | | |b0]; brute.
    + specialize (NU (mkRT r RIdle) En). unfold is_half in NU. cbn in NU.
      destruct p as [| | | | |b0]; brute.
    + specialize (NU (mkRT r RPre) En). unfold is_half in NU. cbn in NU.
      destruct p as [| | | | |b0]; brute.
  - specialize (NU (mkRT ops RHalf) En). unfold is_half in NU. cbn in NU.
    destruct p as [| | | | |b0]; brute.
  - specialize (NU (mkRT ops RIdle) En). unfold is_half in NU. cbn in NU.
    destruct p as [| | | | |b0]; brute.
Qed.

Lemma rinv_step s k : rinv s -> rinv (r_step s k).
Proof.
  intros H. destruct k as [|i]; cbn [r_step]; [apply rinv_loop_step; exact H|].
  destruct (nth_error (rthr s) i) as [t|] eqn:En; [|exact H]. apply rinv_thread_step; assumption.
Qed.

Lemma nhalf_init progs : nhalf (map (fun p => mkRT p RIdle) progs) = 0.
Proof. induction progs as [|p r IH]; cbn; [reflexivity|exact IH]. Qed.
Lemma rinv_init bo f progs : rinv (r_init bo f progs).
Proof. unfold rinv, r_init, waiting, before_swap; cbn. repeat split; intros; try discriminate; auto. Qed.
Lemma rinv_run bo f progs sched : rinv (r_run bo f progs sched).
Proof.
  unfold r_run. generalize (rinv_init bo f progs). generalize (r_init bo f progs).
  induction sched as [|k r IH]; intros s Hs; cbn; [exact Hs|]. apply IH. apply rinv_step. exact Hs.
Qed.

(* wakeup(): the wait in progress ends, otherwise the notification stays for the next wait, which then does not block *)
Lemma notify_sticky s lg : waiting (do_notify s lg) = false /\ (waiting s = true -> pc (do_notify s lg) = L1) /\
  (waiting s = false -> notif (do_notify s lg) = true).
Proof. unfold do_notify, waiting, after_wait. destruct (pc s); cbn; repeat split; intros; try discriminate; reflexivity. Qed.
Lemma wait_with_notification_does_not_block s : pc s = L3 -> notif s = true -> pc (loop_step s) = L1.
Proof. intros Hp Hn. unfold loop_step, after_wait. rewrite Hp, Hn. reflexivity. Qed.

(* stop() then wakeup() after run() began: the loop is told - from such a state it returns after at most the iteration
   in progress, whatever the other threads do meanwhile *)
Definition told (s : rst) : Prop :=
  stopf s = true /\ (match pc s with L0 | LWaiting => False | L2 | L3 => notif s = true | _ => True end).
Lemma stop_then_wakeup_told s lg : stopf s = true -> pc s <> L0 -> told (do_notify s lg).
Proof.
  intros Hs Hp. unfold told, do_notify, after_wait. destruct (pc s) eqn:E; cbn; try (split; [exact Hs|]; try reflexivity; try exact I); try congruence.
Qed.
Lemma told_stable s k : told s -> told (r_step s k) \/ exists b, pc (r_step s k) = LDone b.
Proof.
  intros [Hs Hp]. destruct k as [|i]; cbn [r_step].
  - unfold loop_step, after_wait, told. destruct (pc s) eqn:E; try contradiction.
    + rewrite Hs. right. eexists. reflexivity.
    + destruct (readyf s); [destruct (fut s) as [|[] r]|]; cbn; try (right; eexists; reflexivity); left; (split; [exact Hs|exact Hp]).
    + rewrite Hp. left. cbn. split; [exact Hs|exact I].
    + right. eexists. exact E.
  - destruct (nth_error (rthr s) i) as [t|]; [|left; split; assumption].
    unfold rt_step, do_notify, after_wait, told, set_rthr. destruct (rt_stage t); [destruct (rt_ops t) as [|[] r]| |];
      destruct (pc s) eqn:E; cbn; try contradiction; try (left; split; [assumption || reflexivity|]; try exact I; try assumption; try reflexivity);
      try (right; eexists; reflexivity).
Qed.
(* ... and the loop thread itself needs at most three of its own steps: (swap ->) wait returns at once -> flag check -> return *)
Lemma told_returns s : told s -> exists b, pc (loop_step (loop_step (loop_step s))) = LDone b.
Proof.
  intros [Hs Hp]. unfold loop_step, after_wait. destruct (pc s) eqn:E; try contradiction; cbn.
  - rewrite Hs. cbn. eexists. reflexivity.
  - destruct (readyf s); [destruct (fut s) as [|[] r]|]; cbn; rewrite ?Hp, ?Hs; cbn; rewrite ?Hs; eexists; reflexivity.
  - rewrite Hp. cbn. rewrite Hs. cbn. eexists. reflexivity.
  - rewrite E. cbn. rewrite E. cbn. eexists. exact E.
Qed.
(* run() never returns Ok (block_on never returns None) without a stop request since it began *)
Lemma no_spurious_return s : rinv s -> pc s = LDone false -> stop_req s = true.
Proof. intros (_ & _ & C & _) H. apply (C false H eq_refl). Qed.
