(* C09: a request the running source makes on itself replaces whatever it had requested before - the last one wins, nothing is merged *)
From CV Require Import Base Consts Token PostAction Env Loop.
From CVP Require Import Loop_frames Seq_lemmas C09_proofs.
Open Scope N_scope.

Definition self_handle (s : st) (h : N) : Prop :=
  halted s = false /\ exists t et o reg ob, lookup s h = Some (t, et, o) /\ running s = Some (o, reg) /\ objs s o = Some ob.

Lemma self_running s o reg : running s = Some (o, reg) -> is_running s o = true.
Proof. intros H. unfold is_running. rewrite H. apply N.eqb_refl. Qed.

Lemma self_update_exact s h : self_handle s h ->
  exec_action s (AUpdate h) = emit (set_pending s Reregister) (op_line OP_UPDATE h ROk).
Proof.
  intros [Hh (t & et & o & reg & ob & L & R & O)]. unfold exec_action. rewrite Hh. unfold do_update. rewrite L.
  rewrite (disp_reregister_running s o et (self_running s o reg R) (ex_intro _ ob O)). rewrite Hh. reflexivity.
Qed.
Lemma self_disable_exact s h : self_handle s h ->
  exec_action s (ADisable h) = emit (set_pending s Disable) (op_line OP_DISABLE h ROk).
Proof.
  intros [Hh (t & et & o & reg & ob & L & R & O)]. unfold exec_action. rewrite Hh. unfold do_disable. rewrite L.
  rewrite (disp_unregister_running s o t (self_running s o reg R) (ex_intro _ ob O)). reflexivity.
Qed.
Lemma self_handle_after s h p line : self_handle s h -> self_handle (emit (set_pending s p) line) h.
Proof. intros [Hh X]. split; [exact Hh|exact X]. Qed.

(* whatever was pending, and in whichever order: after update-then-disable a Disable is pending, after disable-then-update a
   Reregister, after two of the same kind that kind *)
Theorem last_deferred_request_wins s h : self_handle s h ->
  pending (exec_action (exec_action s (AUpdate h)) (ADisable h)) = Disable /\
  pending (exec_action (exec_action s (ADisable h)) (AUpdate h)) = Reregister /\
  pending (exec_action (exec_action s (ADisable h)) (ADisable h)) = Disable /\
  pending (exec_action (exec_action s (AUpdate h)) (AUpdate h)) = Reregister.
Proof.
  intros H. rewrite (self_update_exact s h H), (self_disable_exact s h H).
  rewrite (self_disable_exact _ h (self_handle_after s h Reregister _ H)), (self_update_exact _ h (self_handle_after s h Disable _ H)).
  rewrite (self_disable_exact _ h (self_handle_after s h Disable _ H)), (self_update_exact _ h (self_handle_after s h Reregister _ H)).
  repeat split.
Qed.
Example self_handle_somewhere :
  let s := set_running (exec_action init (AInsert 1 (SComp false None [mkGen 10 (mkInt true false) Level None false] None))) (Some (1, mkTok 0 0 0)) in
  self_handle s 1 /\ pending (exec_action (exec_action s (AUpdate 1)) (ADisable 1)) = Disable.
Proof. split; [split; [reflexivity|]; vm_compute; do 5 eexists; repeat split; reflexivity|vm_compute; reflexivity]. Qed.
