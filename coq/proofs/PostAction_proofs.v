From CV Require Import Base PostAction.

Lemma pa_eqb_eq a b : pa_eqb a b = true <-> a = b.
Proof. destruct a, b; cbn; split; intros H; try reflexivity; try discriminate. Qed.

Lemma pa_bitor_spec a b : pa_bitor a b = a /\ a = b \/ pa_bitor a b = Reregister /\ a <> b.
Proof. destruct a, b; cbn; (left; split; reflexivity) || (right; split; [reflexivity|discriminate]). Qed.

Lemma pa_bitor_assign_eq a b : pa_bitor_assign a b = pa_bitor a b.
Proof. destruct a, b; reflexivity. Qed.
