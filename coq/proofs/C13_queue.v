(* C13, queue discipline over whole dispatches: below `dispatch` every function only appends to the idle queue; a dispatch that
   does not reach its idle phase keeps the queue (plus what was inserted), one that does leaves exactly what was inserted during
   that phase; the IDLE lines of a phase are a subsequence of the snapshot, in order. *)
From CV Require Import Base Consts Token PostAction Env Loop.
From CVP Require Import Loop_frames Seq_lemmas C13_proofs.
Import ListNotations.
Open Scope N_scope.

Definition iapp (s s' : st) : Prop := exists extra, idles s' = idles s ++ extra.
Lemma iapp_refl s : iapp s s. Proof. exists []. rewrite app_nil_r. reflexivity. Qed.
Lemma iapp_trans a b c : iapp a b -> iapp b c -> iapp a c.
Proof. intros [x Hx] [y Hy]. exists (x ++ y). rewrite Hy, Hx, app_assoc. reflexivity. Qed.
Lemma iapp_eq s s' : idles s' = idles s -> iapp s s'.
Proof. intros E. exists []. rewrite E, app_nil_r. reflexivity. Qed.
Lemma iapp_l s0 s s' : idles s0 = idles s -> iapp s0 s' -> iapp s s'.
Proof. intros E [x Hx]. exists x. rewrite <- E. exact Hx. Qed.

Lemma iapp_exec_actions l s : iapp s (exec_actions s l).
Proof. apply idles_exec_actions. Qed.
Lemma iapp_callback scr s h sub p : iapp s (fst (callback scr s h sub p)).
Proof. unfold callback. cbn [fst]. match goal with |- context [exec_actions ?x ?a] => apply (iapp_l x); [reflexivity|] end. apply iapp_exec_actions. Qed.
Lemma iapp_chan_loop scr fuel : forall s h c, iapp s (fst (fst (chan_loop scr fuel s h c))).
Proof.
  induction fuel as [|f IH]; intros s h c; cbn [chan_loop]; [apply iapp_refl|].
  destruct (halted s); [apply iapp_refl|]. destruct (chans (en s) c) as [ch|]; [|apply iapp_refl].
  destruct (ch_q ch) as [|v q'].
  - destruct (ch_senders ch =? 0); [|apply iapp_refl].
    pose proof (iapp_callback scr s h 1%Z 0%Z) as C. destruct (callback scr s h 1%Z 0%Z) as [s2 sc]. exact C.
  - match goal with |- context [callback scr ?x h 0%Z v] => set (s1 := x) end. apply (iapp_l s1); [reflexivity|].
    pose proof (iapp_callback scr s1 h 0%Z v) as C. destruct (callback scr s1 h 0%Z v) as [s2 sc]. cbn [fst] in C.
    eapply iapp_trans; [exact C|apply IH].
Qed.
Lemma idles_ping_drain s g t : idles (fst (fst (ping_drain s g t))) = idles s.
Proof. unfold ping_drain. destruct (opt_tok_is (g_tok g) t); [|reflexivity]. destruct (fd_read (en s) (g_fd g)) as [e1 v]. destruct (v =? 0); reflexivity. Qed.
Lemma iapp_obj_process scr s o ev : iapp s (fst (obj_process scr s o ev)).
Proof.
  unfold obj_process. destruct (objs s o) as [ob|]; [|apply iapp_refl].
  destruct (o_src ob) as [lc own subs tmr|g|tm|c g].
  - destruct (if opt_tok_is own _ then _ else _) as [j|].
    + pose proof (iapp_callback scr s o j (zN (rd_code (ev_rd ev)))) as C. destruct (callback scr s o j _) as [s1 sc]. exact C.
    + destruct tmr as [tm|]; [|apply iapp_refl]. cbn [fst]. unfold timer_sub_fire.
      destruct (tm_reg tm) as [[tk c]|]; [|apply iapp_refl]. destruct (tm_dl tm) as [dl|]; [|apply iapp_refl].
      destruct (tok_eqb tk _); [|apply iapp_refl].
      pose proof (iapp_callback scr s o (Z.of_nat (S (length subs))) dl) as C. destruct (callback scr s o _ dl) as [s1 sc]. cbn [fst] in C.
      destruct (sc_ret sc) as [|[[| |]|[| |]|]]; try exact C; (eapply iapp_trans; [exact C|apply iapp_eq; rewrite ?idles_set_obj_src; reflexivity]).
  - pose proof (idles_ping_drain s g (unpack (ev_key ev))) as P. destruct (ping_drain s g _) as [[s1 r] pinged]. cbn [fst] in *.
    destruct pinged; cbn [fst]; [|apply iapp_eq; exact P]. apply (iapp_l s1); [exact P|apply iapp_callback].
  - destruct (tm_reg tm) as [[tk c]|]; [|apply iapp_refl]. destruct (tm_dl tm) as [dl|]; [|apply iapp_refl].
    destruct (tok_eqb tk _); [|apply iapp_refl].
    pose proof (iapp_callback scr s o 0%Z dl) as C. destruct (callback scr s o 0%Z dl) as [s1 sc]. cbn [fst] in C.
    destruct (sc_ret sc) as [|[[| |]|[| |]|]]; cbn [fst]; try exact C; (eapply iapp_trans; [exact C|apply iapp_eq; rewrite ?idles_set_obj_src; reflexivity]).
  - pose proof (idles_ping_drain s g (unpack (ev_key ev))) as P. destruct (ping_drain s g _) as [[s1 r] pinged]. cbn [fst] in *.
    destruct r as [act|]; cbn [fst]; [|apply iapp_eq; exact P].
    destruct pinged.
    + pose proof (iapp_chan_loop scr (chan_max (en s) c) s1 o c) as L. destruct (chan_loop scr _ s1 o c) as [[s2 clear] disc]. cbn [fst] in L.
      apply (iapp_l s1); [exact P|]. destruct disc; cbn [fst]; [exact L|]. destruct clear; cbn [fst]; [exact L|]. eapply iapp_trans; [exact L|apply iapp_eq; reflexivity].
    + cbn. apply iapp_eq. cbn. exact P.
Qed.
Lemma idles_drop_zombies l : forall s, idles (drop_zombies s l) = idles s.
Proof. induction l as [|o r IH]; intros s; cbn; [reflexivity|]. rewrite IH. apply idles_maybe_drop. Qed.
Lemma idles_end_processing s o : idles (end_processing s o) = idles s.
Proof. unfold end_processing. rewrite idles_drop_zombies, idles_maybe_drop. reflexivity. Qed.
Lemma idles_apply_post s o reg r : idles (snd (apply_post s o reg r)) = idles s.
Proof.
  unfold apply_post. destruct r.
  - reflexivity.
  - pose proof (idles_disp_reregister s o reg) as F. destruct (disp_reregister s o reg) as [[rs d] sx]. exact F.
  - pose proof (idles_disp_unregister s o reg) as F. destruct (disp_unregister s o reg) as [[rs d] sx]. exact F.
  - cbn [snd]. destruct (slot_get (slots s) reg); reflexivity.
Qed.
Lemma iapp_process_event scr s ev : iapp s (fst (process_event scr s ev)).
Proof.
  unfold process_event. destruct (slot_get (slots s) _) as [sl|]; [|apply iapp_refl].
  destruct (s_obj sl) as [o|]; [|apply iapp_refl].
  set (reg := forget_sub_id (unpack (ev_key ev))).
  pose proof (iapp_obj_process scr (set_running s (Some (o, reg))) o ev) as P.
  destruct (obj_process scr _ o ev) as [s2 ret]. cbn [fst] in P. apply (iapp_l (set_running s (Some (o, reg)))); [reflexivity|].
  destruct (halted s2); [exact P|].
  set (s4 := set_pending (set_running s2 None) Continue).
  assert (A : idles (snd (match ret with None => (false, s4) | Some r => apply_post s4 o reg (match r with Continue => pending (set_running s2 None) | _ => r end) end)) = idles s2).
  { destruct ret as [r|]; [rewrite idles_apply_post; reflexivity|reflexivity]. }
  destruct (match ret with None => _ | Some r => _ end) as [ok s5]. cbn [snd] in A.
  destruct (halted s5); [eapply iapp_trans; [exact P|apply iapp_eq; exact A]|]. cbn [fst].
  eapply iapp_trans; [exact P|]. apply iapp_eq. rewrite idles_end_processing.
  destruct (slot_vacant_for s5 reg); [|exact A].
  pose proof (idles_disp_unregister s5 o reg) as F. destruct (disp_unregister s5 o reg) as [[rs d] sx]. cbn [snd] in F. rewrite F. exact A.
Qed.
Lemma iapp_process_events scr evs : forall s, iapp s (fst (process_events scr s evs)).
Proof.
  induction evs as [|ev r IH]; intros s; cbn [process_events]; [apply iapp_refl|].
  pose proof (iapp_process_event scr s ev) as P. destruct (process_event scr s ev) as [s1 ok]. cbn [fst] in P.
  destruct ok; [eapply iapp_trans; [exact P|apply IH]|exact P].
Qed.
Lemma idles_before_sleep_loop bscr l : forall s, idles (fst (before_sleep_loop bscr s l)) = idles s.
Proof.
  induction l as [|t l IH]; intros s; cbn [before_sleep_loop]; [reflexivity|].
  destruct (lc_lookup s t) as [o|]; [|reflexivity].
  destruct (nth _ _ _) as [|p]; [rewrite IH; reflexivity|].
  destruct p; try reflexivity.
  destruct (match objs _ o with Some _ => _ | None => _ end) as [tk|]; rewrite IH; reflexivity.
Qed.
Lemma idles_before_handle_loop l polled : forall s, idles (fst (before_handle_loop s l polled)) = idles s.
Proof.
  induction l as [|t l IH]; intros s; cbn [before_handle_loop]; [reflexivity|].
  destruct (lc_lookup s t) as [o|]; [|reflexivity]. rewrite IH. reflexivity.
Qed.

(* the queue over one dispatch *)
Theorem dispatch_idle_queue scr bscr s t order :
  let s' := dispatch scr bscr s t order in
  (* the idle phase was not reached (a hook or an event failed, or the run stopped): nothing left the queue *)
  iapp s s' \/
  (* it was: the phase worked on everything queued until then - what was queued before the dispatch plus what its source callbacks
     inserted, in that order - and what is queued now is what the idle callbacks themselves inserted *)
  exists s5, iapp s s5 /\ iapp (set_idles s5 []) (run_idles scr (set_idles s5 []) (idles s5)) /\
             idles s' = idles (run_idles scr (set_idles s5 []) (idles s5)).
Proof.
  cbv zeta. unfold dispatch. pose proof (idles_before_sleep_loop bscr (lifecycle s) s) as B.
  destruct (before_sleep_loop bscr s (lifecycle s)) as [s1 bs]. cbn [fst] in B.
  destruct bs; [|left; apply iapp_eq; exact B|left; apply iapp_eq; exact B].
  destruct (poll (en s1) t order) as [polled e2].
  set (s3 := emit (set_en s1 e2) _).
  pose proof (idles_before_handle_loop (lifecycle s3) polled s3) as H. destruct (before_handle_loop s3 _ polled) as [s4 ok]. cbn [fst] in H.
  assert (E4 : idles s4 = idles s) by (rewrite H; exact B).
  destruct ok; cbn [negb]; [|left; apply iapp_eq; exact E4].
  pose proof (iapp_process_events scr (synth s4 ++ polled) (set_synth s4 [])) as P.
  destruct (process_events scr _ _) as [s5 ok2]. cbn [fst] in P.
  assert (P5 : iapp s s5) by (apply (iapp_l (set_synth s4 [])); [exact E4|exact P]).
  destruct (halted s5); [left; exact P5|]. destruct ok2; cbn [negb]; [|left; eapply iapp_trans; [exact P5|apply iapp_eq; reflexivity]].
  right. exists s5. split; [exact P5|]. split; [apply run_idles_appends|].
  destruct (halted (run_idles scr _ _)); reflexivity.
Qed.

(* ================= IDLE lines ================= *)
Definition is_idle_line (l : tline) : bool := match l with L k _ => k =? T_IDLE end.
(* the IDLE lines of the log, newest first *)
Definition idl (s : st) : list tline := filter is_idle_line (log s).
Lemma idl_emit s k a : (k =? T_IDLE) = false -> idl (emit s (L k a)) = idl s.
Proof. intros H. unfold idl. cbn [log emit set_log filter is_idle_line]. rewrite H. reflexivity. Qed.
Lemma idl_log s s' : log s' = log s -> idl s' = idl s.
Proof. intros E. unfold idl. rewrite E. reflexivity. Qed.
Lemma log_set_obj_src' s o x : log (set_obj_src s o x) = log s.
Proof. unfold set_obj_src. destruct (objs s o); reflexivity. Qed.
Lemma idl_set_obj_src s o x : idl (set_obj_src s o x) = idl s. Proof. apply idl_log. apply log_set_obj_src'. Qed.
Lemma idl_regop s o x k b : idl (regop s o x k b) = idl s.
Proof. unfold regop. destruct x; reflexivity. Qed.
Lemma idl_panic s k : idl (panic s k) = idl s.
Proof. reflexivity. Qed.

Lemma idl_disp_register s o t : idl (snd (disp_register s o t)) = idl s.
Proof.
  unfold disp_register. destruct (objs s o) as [ob|]; [|reflexivity]. destruct (is_running s o); [apply idl_panic|].
  destruct (src_register _ _ _) as [[r x'] e1]. destruct r; cbn [snd].
  - destruct (src_lc x'); [change (idl (regop (set_obj_src (set_en s e1) o x') o x' 0%Z true) = idl s)|]; rewrite idl_regop, idl_set_obj_src; reflexivity.
  - rewrite idl_regop, idl_set_obj_src. reflexivity.
  - rewrite idl_panic, idl_set_obj_src. reflexivity.
Qed.
Lemma idl_disp_reregister s o t : idl (snd (disp_reregister s o t)) = idl s.
Proof.
  unfold disp_reregister. destruct (objs s o) as [ob|]; [|reflexivity]. destruct (is_running s o); [reflexivity|].
  destruct (src_reregister _ _ _) as [[r x'] e1]. destruct r; cbn [snd].
  - destruct (src_lc x'); [change (idl (regop (set_obj_src (set_en s e1) o x') o x' 1%Z true) = idl s)|]; rewrite idl_regop, idl_set_obj_src; reflexivity.
  - rewrite idl_regop, idl_set_obj_src. reflexivity.
  - rewrite idl_panic, idl_set_obj_src. reflexivity.
Qed.
Lemma idl_disp_unregister s o t : idl (snd (disp_unregister s o t)) = idl s.
Proof.
  unfold disp_unregister. destruct (objs s o) as [ob|]; [|reflexivity]. destruct (is_running s o); [reflexivity|].
  destruct (src_unregister _ _) as [[ok x'] e1]. cbn [snd].
  destruct (src_lc x'); [change (idl (regop (set_obj_src (set_en s e1) o x') o x' 2%Z ok) = idl s)|]; rewrite idl_regop, idl_set_obj_src; reflexivity.
Qed.
Lemma idl_maybe_drop s o : idl (maybe_drop s o) = idl s.
Proof.
  unfold maybe_drop, drop_obj. destruct (objs s o) as [ob|]; [|reflexivity]. destruct (o_ext ob || in_slots (slots s) o); [reflexivity|].
  destruct (is_running s o); [reflexivity|]. rewrite idl_emit by reflexivity. reflexivity.
Qed.
Lemma idl_drop_zombies l : forall s, idl (drop_zombies s l) = idl s.
Proof. induction l as [|o r IH]; intros s; cbn [drop_zombies]; [reflexivity|]. rewrite IH. apply idl_maybe_drop. Qed.
Lemma idl_end_processing s o : idl (end_processing s o) = idl s.
Proof. unfold end_processing. rewrite idl_drop_zombies, idl_maybe_drop. reflexivity. Qed.

Ltac idl_emits := unfold op_line; repeat (rewrite idl_emit by reflexivity).
Lemma idl_exec_action s a : idl (exec_action s a) = idl s.
Proof.
  unfold exec_action. destruct (halted s); [reflexivity|]. destruct a; try reflexivity.
  - unfold do_insert. destruct (objs s h); [idl_emits; reflexivity|]. destruct (vacant_entry _) as [[i sl]|]; [|rewrite idl_panic; reflexivity].
    destruct (nth_error sl i) as [e|]; [|rewrite idl_panic; reflexivity].
    match goal with |- context [disp_register ?a ?b ?c] => pose proof (idl_disp_register a b c) as F; destruct (disp_register a b c) as [r s2] end.
    cbn [snd] in F. destruct (halted s2); [exact F|]. destruct r; idl_emits; exact F.
  - unfold do_remove. destruct (lookup s h) as [[[t et] o]|]; [|idl_emits; reflexivity].
    match goal with |- context [disp_unregister ?a ?b ?c] => pose proof (idl_disp_unregister a b c) as F; destruct (disp_unregister a b c) as [[r d] s2] end.
    cbn [snd] in F. idl_emits. rewrite idl_maybe_drop. exact F.
  - unfold do_disable. destruct (lookup s h) as [[[t et] o]|]; [|idl_emits; reflexivity].
    pose proof (idl_disp_unregister s o t) as F. destruct (disp_unregister s o t) as [[r d] s1]. cbn [snd] in F.
    destruct r; [destruct d|..]; idl_emits; exact F.
  - unfold do_enable. destruct (lookup s h) as [[[t et] o]|]; [|idl_emits; reflexivity].
    pose proof (idl_disp_register s o et) as F. destruct (disp_register s o et) as [r s1]. cbn [snd] in F.
    destruct (halted s1); idl_emits; exact F.
  - unfold do_update. destruct (lookup s h) as [[[t et] o]|]; [|idl_emits; reflexivity].
    pose proof (idl_disp_reregister s o et) as F. destruct (disp_reregister s o et) as [[r d] s1]. cbn [snd] in F.
    destruct (halted s1); [exact F|]. destruct r; [destruct d|..]; idl_emits; exact F.
  - unfold do_setint. destruct (objs s h) as [ob|]; [|idl_emits; reflexivity]. destruct (negb (o_ext ob)); [idl_emits; reflexivity|].
    destruct (is_running s h); [apply idl_panic|]. destruct (o_src ob); idl_emits; rewrite ?idl_set_obj_src; reflexivity.
  - unfold do_setdl. destruct (objs s h) as [ob|]; [|idl_emits; reflexivity]. destruct (negb (o_ext ob)); [idl_emits; reflexivity|].
    destruct (is_running s h); [apply idl_panic|]. destruct (o_src ob) as [lc own subs [tm|]|g|tm|c g]; idl_emits; rewrite ?idl_set_obj_src; reflexivity.
  - unfold do_intoinner. destruct (objs s h) as [ob|]; [|idl_emits; reflexivity]. destruct (negb (o_ext ob)); [idl_emits; reflexivity|].
    destruct (in_slots (slots s) h || is_running s h); [apply idl_panic|]. unfold drop_obj. idl_emits. reflexivity.
  - unfold do_dropdisp. destruct (objs s h) as [ob|]; [|idl_emits; reflexivity]. destruct (negb (o_ext ob)); [idl_emits; reflexivity|].
    idl_emits. rewrite idl_maybe_drop. reflexivity.
  - unfold do_send. destruct (env_send _ _ _) as [e' [rc|]]; idl_emits; reflexivity.
  - unfold do_send. destruct (env_send _ _ _) as [e' [rc|]]; idl_emits; reflexivity.
  - unfold do_cancelidle. destruct (match ridle s with Some r => r =? i | None => false end); [apply idl_panic|reflexivity].
Qed.
Lemma idl_exec_actions l : forall s, idl (exec_actions s l) = idl s.
Proof. unfold exec_actions. induction l as [|a l IH]; intros s; cbn [fold_left]; [reflexivity|]. rewrite IH. apply idl_exec_action. Qed.

Inductive subseq {A} : list A -> list A -> Prop :=
| ss_nil l : subseq [] l
| ss_take x a b : subseq a b -> subseq (x :: a) (x :: b)
| ss_skip x a b : subseq a b -> subseq a (x :: b).

(* the idle phase: the IDLE lines it adds are those of a subsequence of its snapshot, in snapshot order, each entry at most once *)
Theorem run_idles_lines scr l : forall s, exists ran,
  idl (run_idles scr s l) = map (fun i => L T_IDLE [zN i]) (rev ran) ++ idl s /\ subseq ran l.
Proof.
  induction l as [|i l IH]; intros s; cbn [run_idles]; [exists []; split; [reflexivity|constructor]|].
  destruct (halted s); [exists []; split; [reflexivity|constructor]|].
  destruct (idle_cancelled s i); [destruct (IH s) as [ran [A B]]; exists ran; split; [exact A|apply ss_skip; exact B]|].
  match goal with |- context [exec_actions ?x ?a] => set (s1 := x); set (acts := a) end.
  assert (E1 : idl s1 = L T_IDLE [zN i] :: idl s) by reflexivity.
  assert (E2 : idl (exec_actions s1 acts) = L T_IDLE [zN i] :: idl s) by (rewrite idl_exec_actions; exact E1).
  destruct (halted (exec_actions s1 acts)); [exists [i]; split; [exact E2|apply ss_take; constructor]|].
  destruct (IH (set_ridle (exec_actions s1 acts) None)) as [ran [A B]]. exists (i :: ran). split; [|apply ss_take; exact B].
  rewrite A. change (idl (set_ridle (exec_actions s1 acts) None)) with (idl (exec_actions s1 acts)). rewrite E2.
  cbn [rev]. rewrite map_app, <- app_assoc. reflexivity.
Qed.
