(* StreamSource over ALL histories of push / close / dispatch: every pushed item is delivered exactly once and in order, None is
   delivered once, last, together with the removal, and whenever something is ready a wake-up is pending - so a dispatch never
   leaves an item queued. *)
From Coq Require Import List NArith Bool Lia.
From CV Require Import StreamSrc.
Import ListNotations.
Open Scope N_scope.

Definition items (d : list (option N)) : list N := flat_map (fun x => match x with Some v => [v] | None => [] end) d.
Lemma items_app a b : items (a ++ b) = items a ++ items b. Proof. unfold items. apply flat_map_app. Qed.
Lemma items_map_some l : items (map Some l) = l. Proof. induction l as [|x t IH]; cbn; [reflexivity|f_equal; exact IH]. Qed.

Record QINV (s : qst) : Prop := {
  qi_conserve : items (qdelivered s) ++ qq s = qpushed s;
  qi_end : if qremoved s then exists d, qdelivered s = map Some d ++ [None] /\ qq s = [] /\ qclosed s = true
           else qdelivered s = map Some (items (qdelivered s));
  qi_wake : qremoved s = false -> qpinged s = true \/ (qwaker s = true /\ qq s = [] /\ qclosed s = false) }.

Lemma QINV_init : QINV q_init.
Proof. split; cbn; [reflexivity|reflexivity|intros _; left; reflexivity]. Qed.

Lemma QINV_step s o : QINV s -> QINV (q_step s o).
Proof.
  intros I. pose proof I as [A B C]. destruct o as [v| |]; cbn [q_step].
  - (* push *) destruct (qclosed s) eqn:Ec; [exact I|].
    assert (R : qremoved s = false) by (destruct (qremoved s); [destruct B as (d & _ & _ & X); congruence|reflexivity]).
    rewrite R in B. unfold q_wake. cbn [qwaker]. destruct (qwaker s) eqn:Ew; split; cbn; try rewrite R;
      try (rewrite <- A, app_assoc; reflexivity); try exact B; intros _; [left; reflexivity|].
    destruct (C R) as [X|(X & _)]; [left; exact X|congruence].
  - (* close *) destruct (qclosed s) eqn:Ec; [exact I|].
    assert (R : qremoved s = false) by (destruct (qremoved s); [destruct B as (d & _ & _ & X); congruence|reflexivity]).
    rewrite R in B. unfold q_wake. cbn [qwaker]. destruct (qwaker s) eqn:Ew; split; cbn; try rewrite R; try exact A; try exact B; intros _; [left; reflexivity|].
    destruct (C R) as [X|(X & _)]; [left; exact X|congruence].
  - (* dispatch *) destruct (qremoved s) eqn:R; cbn [orb]; [exact I|]. destruct (qpinged s) eqn:P; cbn [negb]; [|exact I].
    assert (D : qdelivered s ++ map Some (qq s) = map Some (items (qdelivered s) ++ qq s)) by (rewrite map_app, <- B; reflexivity).
    destruct (qclosed s) eqn:Ec; split; cbn.
    + rewrite app_nil_r, !items_app, items_map_some. cbn. rewrite app_nil_r. exact A.
    + exists (items (qdelivered s) ++ qq s). split; [rewrite D; reflexivity|split; reflexivity].
    + discriminate.
    + rewrite app_nil_r, items_app, items_map_some. exact A.
    + rewrite items_app, items_map_some. exact D.
    + intros _. right. repeat split.
Qed.

Theorem QINV_run ops : QINV (q_run ops).
Proof.
  unfold q_run. assert (H : forall s, QINV s -> QINV (fold_left q_step ops s)).
  { induction ops as [|o r IH]; intros s Hs; cbn; [exact Hs|]. apply IH. apply QINV_step. exact Hs. }
  apply H. apply QINV_init.
Qed.

(* no lost or starved item: whatever happened before, right after a dispatch nothing is left queued, and if the producer is gone
   the stream has ended (None delivered, source removed) *)
Theorem dispatch_drains ops : let s := q_run (ops ++ [QDispatch]) in
  qq s = [] /\ items (qdelivered s) = qpushed s /\ (qclosed s = true -> qremoved s = true).
Proof.
  cbv zeta. unfold q_run. rewrite fold_left_app. cbn [fold_left]. set (s := fold_left q_step ops q_init).
  pose proof (QINV_run ops) as I. fold s in I. unfold q_run in I. fold s in I.
  pose proof (QINV_step s QDispatch I) as [A' B' C']. destruct I as [A B C].
  cbn [q_step] in *. destruct (qremoved s) eqn:R; cbn [orb] in *.
  - destruct B as (d & Hd & Hq & Hc). split; [exact Hq|]. split; [rewrite <- A, Hq, app_nil_r; reflexivity|intros _; exact R].
  - destruct (qpinged s) eqn:P; cbn [negb] in *.
    + destruct (qclosed s) eqn:Ec; cbn in *.
      * split; [reflexivity|]. split; [rewrite app_nil_r in A'; exact A'|reflexivity].
      * split; [reflexivity|]. split; [rewrite app_nil_r in A'; exact A'|discriminate].
    + destruct (C eq_refl) as [X|(W & Hq & Hc)]; [discriminate|]. split; [exact Hq|]. split; [rewrite <- A, Hq, app_nil_r; reflexivity|congruence].
Qed.
