From CV Require Import Base Consts Token PostAction Env Loop.
From CVP Require Import Loop_frames Seq_lemmas.
Open Scope N_scope.

Lemma idles_exec_actions l : forall s, exists extra, idles (exec_actions s l) = idles s ++ extra.
Proof.
  unfold exec_actions.
  induction l as [|a l IH]; intros s; cbn [fold_left]; [exists []; rewrite app_nil_r; reflexivity|].
  destruct (IH (exec_action s a)) as [ex E]. rewrite E.
  destruct (idles_exec_action s a) as [H|[i [_ H]]].
  - rewrite H. exists ex; reflexivity.
  - rewrite H. exists ([i] ++ ex). rewrite app_assoc. reflexivity.
Qed.

Lemma run_idles_step scr s i l :
  run_idles scr s (i :: l) =
  if halted s then s
  else if idle_cancelled s i then run_idles scr s l
  else let s2 := exec_actions (set_ridle (emit s (L T_IDLE [zN i])) (Some i)) (sc_acts (nth 0 (scr (IDLE_BASE + i)) default_script)) in
       if halted s2 then s2 else run_idles scr (set_ridle s2 None) l.
Proof. reflexivity. Qed.

Lemma run_idles_appends scr l : forall s, exists extra, idles (run_idles scr s l) = idles s ++ extra.
Proof.
  induction l as [|i l IH]; intros s; [exists []; cbn [run_idles]; rewrite app_nil_r; reflexivity|].
  rewrite run_idles_step.
  destruct (halted s); [exists []; rewrite app_nil_r; reflexivity|].
  destruct (idle_cancelled s i); [apply IH|].
  cbv zeta.
  generalize (sc_acts (nth 0 (scr (IDLE_BASE + i)) default_script)). intros acts.
  destruct (idles_exec_actions acts (set_ridle (emit s (L T_IDLE [zN i])) (Some i))) as [e1 E1].
  change (idles (set_ridle (emit s (L T_IDLE [zN i])) (Some i))) with (idles s) in E1.
  revert E1. generalize (exec_actions (set_ridle (emit s (L T_IDLE [zN i])) (Some i)) acts). intros s2 E1.
  destruct (halted s2).
  - exists e1. exact E1.
  - destruct (IH (set_ridle s2 None)) as [e2 E2].
    rewrite E2. change (idles (set_ridle s2 None)) with (idles s2).
    rewrite E1. exists (e1 ++ e2). rewrite app_assoc. reflexivity.
Qed.
