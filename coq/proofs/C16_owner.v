(* C16 for whole loops, one direction: NOTHING STALE. In every state a scenario reaches, every fd in the poller's table is owned by
   a sub-source (Generic) of an object the loop or the user still holds, and that Generic has recorded the poller (so its Drop /
   unwrap will delete the fd). Holds with shared fds and failed registrations. *)
From CV Require Import Base Consts Token PostAction Env Loop.
From CVP Require Import Loop_frames Seq_lemmas Env_lemmas.
Import ListNotations.
Open Scope N_scope.

Definition has (e : env) (fd : N) : bool := match ep_find (epoll e) fd with Some _ => true | None => false end.
Definition thas (tbl : list epent) (fd : N) : bool := match ep_find tbl fd with Some _ => true | None => false end.
Lemma has_thas e fd : has e fd = thas (epoll e) fd. Proof. reflexivity. Qed.

(* ---------- operations that keep the set of registered fds ---------- *)
Lemma thas_map_keepfd (f : epent -> epent) tbl fd : (forall e, e_fd (f e) = e_fd e) -> thas (map f tbl) fd = thas tbl fd.
Proof.
  intros H. unfold thas. induction tbl as [|x t IH]; cbn; [reflexivity|]. rewrite H.
  destruct (e_fd x =? fd); [reflexivity|exact IH].
Qed.
Lemma thas_ep_wake tbl fd b fd' : thas (ep_wake tbl fd b) fd' = thas tbl fd'.
Proof. unfold ep_wake. apply thas_map_keepfd. intros e. destruct (_ && _ && _); reflexivity. Qed.
Lemma e_fd_ep_after fdc e : e_fd (ep_after fdc e) = e_fd e.
Proof. unfold ep_after. destruct (e_mode e); try reflexivity. destruct (ep_report fdc e); reflexivity. Qed.
Lemma thas_ep_wait fdc tbl fd : thas (snd (ep_wait fdc tbl)) fd = thas tbl fd.
Proof.
  unfold thas. induction tbl as [|x t IH]; cbn; [reflexivity|]. destruct (ep_wait fdc t) as [evs t']. cbn [snd] in *. cbn.
  rewrite e_fd_ep_after. destruct (e_fd x =? fd); [reflexivity|exact IH].
Qed.
Lemma has_fd_write e fd v fd' : has (fd_write e fd v) fd' = has e fd'.
Proof. unfold fd_write. destruct (efd_write _ _); [|reflexivity]. unfold has. cbn. apply thas_ep_wake. Qed.
Lemma has_fd_read e fd fd' : has (fst (fd_read e fd)) fd' = has e fd'.
Proof. unfold fd_read. destruct (fdc e fd =? 0); [reflexivity|]. unfold has. cbn. apply thas_ep_wake. Qed.
Lemma has_poll e t order fd : has (snd (poll e t order)) fd = has e fd.
Proof.
  unfold poll. pose proof (thas_ep_wait (fdc e) (epoll e) fd) as W. destruct (ep_wait (fdc e) (epoll e)) as [fdev tbl]. cbn [snd] in W.
  destruct (wh_expire _ _ _) as [ex rest]. cbn [snd]. unfold has. cbn. exact W.
Qed.

(* ---------- one Generic ---------- *)
Definition gcov (g : gen) (fd : N) : Prop := g_fd g = fd /\ g_poller g = true.
Lemma thas_add tbl fd it m key c tbl' fd' : ep_add tbl fd it m key c = Some tbl' -> thas tbl' fd' = (thas tbl fd' || (fd =? fd')).
Proof.
  intros H. pose proof (ep_add_spec tbl fd it m key c) as S. rewrite H in S. destruct S as (Hn & [q Hq] & Ho). unfold thas.
  destruct (N.eqb_spec fd fd') as [<-|Hne]; [rewrite Hq, Hn; reflexivity|]. rewrite Ho by congruence. rewrite orb_false_r. reflexivity.
Qed.
Lemma thas_del tbl fd tbl' fd' : ep_del tbl fd = Some tbl' -> thas tbl' fd' = (thas tbl fd' && negb (fd =? fd')).
Proof.
  intros H. destruct (ep_del_spec tbl fd tbl' H) as (Hg & Ho). unfold thas.
  destruct (N.eqb_spec fd fd') as [<-|Hne]; [rewrite Hg; destruct (ep_find tbl fd); reflexivity|]. rewrite Ho by congruence. rewrite andb_true_r. reflexivity.
Qed.
Lemma ep_find_replace' tbl e' : forall fd', ep_find (ep_replace tbl e') fd' =
  if e_fd e' =? fd' then match ep_find tbl fd' with Some _ => Some e' | None => None end else ep_find tbl fd'.
Proof.
  induction tbl as [|x t IH]; intros fd'; cbn; [destruct (e_fd e' =? fd'); reflexivity|].
  destruct (N.eqb_spec (e_fd x) (e_fd e')) as [E|NE]; cbn.
  - destruct (N.eqb_spec (e_fd e') fd') as [E2|NE2].
    + rewrite E, E2, N.eqb_refl. reflexivity.
    + rewrite E. destruct (N.eqb_spec (e_fd e') fd'); [contradiction|reflexivity].
  - rewrite IH. destruct (N.eqb_spec (e_fd x) fd') as [E3|NE3].
    + destruct (N.eqb_spec (e_fd e') fd'); [congruence|reflexivity].
    + reflexivity.
Qed.
Lemma thas_mod tbl fd it m key c tbl' fd' : ep_mod tbl fd it m key c = Some tbl' -> thas tbl' fd' = thas tbl fd'.
Proof.
  unfold ep_mod. destruct (ep_find tbl fd) eqn:E; [|discriminate]. intros [= <-]. unfold thas. rewrite ep_find_replace'. cbn.
  destruct (N.eqb_spec fd fd') as [<-|]; [rewrite E; reflexivity|reflexivity].
Qed.

Lemma gen_register_has e g t ok g' e' : gen_register e g t = (ok, g', e') ->
  g_fd g' = g_fd g /\ (forall fd, has e' fd = (has e fd || (ok && (g_fd g =? fd)))) /\
  (ok = true -> g_poller g' = true) /\ (ok = false -> g' = g).
Proof.
  unfold gen_register. destruct (ep_add _ _ _ _ _ _) as [tbl|] eqn:E; intros [= <- <- <-]; cbn.
  - split; [reflexivity|]. split; [intros fd; unfold has; cbn; apply (thas_add _ _ _ _ _ _ _ fd E)|]. split; [reflexivity|discriminate].
  - split; [reflexivity|]. split; [intros fd; rewrite orb_false_r; reflexivity|]. split; [discriminate|reflexivity].
Qed.
Lemma gen_reregister_has e g t ok g' e' : gen_reregister e g t = (ok, g', e') ->
  g_fd g' = g_fd g /\ g_poller g' = g_poller g /\ (forall fd, has e' fd = has e fd).
Proof.
  unfold gen_reregister. destruct (ep_mod _ _ _ _ _ _) as [tbl|] eqn:E; intros [= <- <- <-]; cbn.
  - split; [reflexivity|]. split; [reflexivity|]. intros fd. unfold has. cbn. apply (thas_mod _ _ _ _ _ _ _ fd E).
  - repeat split.
Qed.
Lemma gen_unregister_has e g ok g' e' : gen_unregister e g = (ok, g', e') ->
  g_fd g' = g_fd g /\ (forall fd, has e' fd = (has e fd && negb (ok && (g_fd g =? fd)))) /\ (ok = false -> g' = g).
Proof.
  unfold gen_unregister. destruct (ep_del _ _) as [tbl|] eqn:E; intros [= <- <- <-]; cbn.
  - split; [reflexivity|]. split; [intros fd; unfold has; cbn; apply (thas_del _ _ _ fd E)|discriminate].
  - split; [reflexivity|]. split; [intros fd; rewrite andb_true_r; reflexivity|reflexivity].
Qed.
Lemma gen_drop_has e g fd : has (gen_drop e g) fd = (has e fd && negb (g_poller g && (g_fd g =? fd) && has e (g_fd g))) .
Proof.
  unfold gen_drop. destruct (g_poller g); cbn; [|rewrite andb_true_r; reflexivity].
  destruct (ep_del (epoll e) (g_fd g)) as [tbl|] eqn:E.
  - assert (X : has e (g_fd g) = true) by (unfold ep_del in E; unfold has; destruct (ep_find (epoll e) (g_fd g)); [reflexivity|discriminate]).
    rewrite X, andb_true_r. pose proof (thas_del _ _ _ fd E) as D. unfold has at 1. cbn [epoll set_epoll]. fold (thas tbl fd). rewrite D. reflexivity.
  - assert (X : has e (g_fd g) = false) by (unfold ep_del in E; unfold has; destruct (ep_find (epoll e) (g_fd g)); [discriminate|reflexivity]).
    rewrite X, andb_false_r. cbn. rewrite andb_true_r. reflexivity.
Qed.

(* ---------- lists of Generics, sources ---------- *)
Definition lcov (l : list gen) (fd : N) : Prop := exists g, In g l /\ gcov g fd.
Definition gens_of (x : src) : list gen := match x with SComp _ _ subs _ => subs | SPing g => [g] | SChan _ g => [g] | STimer _ => [] end.
Definition scov (x : src) (fd : N) : Prop := lcov (gens_of x) fd.
(* the effect of an operation on one object's source: every fd in the table afterwards was there before or is covered by the new
   source; and whatever the old source covered and is still in the table is covered by the new one *)
Definition LOK (e : env) (l : list gen) (e' : env) (l' : list gen) : Prop :=
  (forall fd, has e' fd = true -> has e fd = true \/ lcov l' fd) /\ (forall fd, lcov l fd -> has e' fd = true -> lcov l' fd).
Lemma LOK_refl e l : LOK e l e l.
Proof. split; [intros fd H; left; exact H|intros fd H _; exact H]. Qed.
Lemma lcov_cons g l fd : lcov (g :: l) fd <-> gcov g fd \/ lcov l fd.
Proof.
  split.
  - intros [x [[<-|Hi] Hc]]; [left; exact Hc|right; exists x; split; assumption].
  - intros [Hc|[x [Hi Hc]]]; [exists g; split; [left; reflexivity|exact Hc]|exists x; split; [right; exact Hi|exact Hc]].
Qed.

Lemma subs_register_LOK subs : forall e f r subs' f' e', subs_register e subs f = (r, subs', f', e') -> LOK e subs e' subs'.
Proof.
  induction subs as [|g rest IH]; intros e f r subs' f' e' H; cbn in H; [injection H as <- <- <- <-; apply LOK_refl|].
  destruct (ftoken f) as [[t f1]|]; [|injection H as <- <- <- <-; apply LOK_refl].
  destruct (gen_register e g t) as [[ok g1] e1] eqn:G. destruct (gen_register_has _ _ _ _ _ _ G) as (Hfd & Hh & Hp & Hf).
  destruct ok.
  - destruct (subs_register e1 rest f1) as [[[r2 rest'] f2] e2] eqn:R. injection H as <- <- <- <-. destruct (IH _ _ _ _ _ _ R) as [A B].
    split.
    + intros fd H2. destruct (A fd H2) as [H1|Hc]; [|right; apply lcov_cons; right; exact Hc].
      rewrite Hh in H1. apply orb_prop in H1. destruct H1 as [H0|Heq]; [left; exact H0|].
      right. apply lcov_cons. left. split; [rewrite Hfd; apply N.eqb_eq; exact Heq|apply Hp; reflexivity].
    + intros fd Hc H2. apply lcov_cons in Hc. apply lcov_cons. destruct Hc as [[Gf Gp]|Hc]; [left; split; [congruence|apply Hp; reflexivity]|right; apply B; assumption].
  - injection H as <- <- <- <-. rewrite (Hf eq_refl). split.
    + intros fd H2. rewrite Hh in H2. cbn in H2. rewrite orb_false_r in H2. left. exact H2.
    + intros fd Hc _. exact Hc.
Qed.
Lemma subs_reregister_LOK subs : forall e f r subs' f' e', subs_reregister e subs f = (r, subs', f', e') -> LOK e subs e' subs'.
Proof.
  induction subs as [|g rest IH]; intros e f r subs' f' e' H; cbn in H; [injection H as <- <- <- <-; apply LOK_refl|].
  destruct (ftoken f) as [[t f1]|]; [|injection H as <- <- <- <-; apply LOK_refl].
  destruct (gen_reregister e g t) as [[ok g1] e1] eqn:G. destruct (gen_reregister_has _ _ _ _ _ _ G) as (Hfd & Hp & Hh).
  assert (Gc : forall fd, gcov g fd -> gcov g1 fd) by (intros fd [A B]; split; congruence).
  destruct ok.
  - destruct (subs_reregister e1 rest f1) as [[[r2 rest'] f2] e2] eqn:R. injection H as <- <- <- <-. destruct (IH _ _ _ _ _ _ R) as [A B].
    split.
    + intros fd H2. destruct (A fd H2) as [H1|Hc]; [left; rewrite <- Hh; exact H1|right; apply lcov_cons; right; exact Hc].
    + intros fd Hc H2. apply lcov_cons in Hc. apply lcov_cons. destruct Hc as [Hc|Hc]; [left; apply Gc; exact Hc|right; apply B; assumption].
  - injection H as <- <- <- <-. split.
    + intros fd H2. left. rewrite <- Hh. exact H2.
    + intros fd Hc _. apply lcov_cons in Hc. apply lcov_cons. destruct Hc as [Hc|Hc]; [left; apply Gc; exact Hc|right; exact Hc].
Qed.
(* unregistering only removes fds *)
Lemma subs_unregister_LOK subs : forall e ok subs' e', subs_unregister e subs = (ok, subs', e') ->
  LOK e subs e' subs' /\ (forall fd, has e' fd = true -> has e fd = true).
Proof.
  induction subs as [|g rest IH]; intros e ok subs' e' H; cbn in H; [injection H as <- <- <-; split; [apply LOK_refl|auto]|].
  destruct (gen_unregister e g) as [[ok1 g1] e1] eqn:G. destruct (gen_unregister_has _ _ _ _ _ G) as (Hfd & Hh & Hf).
  destruct ok1.
  - destruct (subs_unregister e1 rest) as [[r2 rest'] e2] eqn:R. injection H as <- <- <-. destruct (IH _ _ _ _ R) as [[A B] M].
    assert (M1 : forall fd, has e1 fd = true -> has e fd = true /\ g_fd g <> fd).
    { intros fd H1. rewrite Hh in H1. apply andb_prop in H1. destruct H1 as [H0 Hn]. split; [exact H0|]. cbn in Hn. intros E. apply N.eqb_eq in E. rewrite E in Hn. discriminate. }
    split; [split|].
    + intros fd H2. left. apply M1. apply M. exact H2.
    + intros fd Hc H2. apply lcov_cons in Hc. apply lcov_cons. destruct Hc as [[Gf _]|Hc]; [exfalso; apply (proj2 (M1 fd (M fd H2))); exact Gf|right; apply B; assumption].
    + intros fd H2. apply M1. apply M. exact H2.
  - injection H as <- <- <-. rewrite (Hf eq_refl).
    assert (E : forall fd, has e1 fd = has e fd) by (intros fd; rewrite Hh; cbn; rewrite andb_true_r; reflexivity).
    split; [split|].
    + intros fd H2. left. rewrite <- E. exact H2.
    + intros fd Hc _. exact Hc.
    + intros fd H2. rewrite <- E. exact H2.
Qed.

Lemma epoll_timer_unregister e t : epoll (snd (timer_unregister e t)) = epoll e.
Proof. unfold timer_unregister. destruct (tm_reg t) as [[tk c]|]; reflexivity. Qed.
Lemma epoll_timer_register e t f : epoll (snd (timer_register e t f)) = epoll e.
Proof.
  unfold timer_register. pose proof (epoll_timer_unregister e t) as U. destruct (timer_unregister e t) as [t1 e1]. cbn [snd] in U.
  destruct (tm_dl t1) as [dl|]; [|exact U]. destruct (ftoken f) as [[tk f']|]; [|exact U].
  destruct (wh_insert (whl e1) dl tk) as [w c]. cbn. exact U.
Qed.

(* ---------- whole sources ---------- *)
Definition SOK (e : env) (x : src) (e' : env) (x' : src) : Prop := LOK e (gens_of x) e' (gens_of x').
Lemma has_eq_LOK e e' l : (forall fd, has e' fd = has e fd) -> LOK e l e' l.
Proof. intros E. split; [intros fd H; left; rewrite <- E; exact H|intros fd H _; exact H]. Qed.
Lemma LOK_env_eq e l e1 l' e2 : (forall fd, has e2 fd = has e1 fd) -> LOK e l e1 l' -> LOK e l e2 l'.
Proof. intros E [A B]. split; [intros fd H; apply A; rewrite <- E; exact H|intros fd Hc H; apply B; [exact Hc|rewrite <- E; exact H]]. Qed.
Lemma has_of_epoll e e' : epoll e' = epoll e -> forall fd, has e' fd = has e fd.
Proof. intros E fd. unfold has. rewrite E. reflexivity. Qed.

Lemma one_gen_reg_SOK e g t k r x' e' : (forall g0, gens_of (k g0) = [g0]) -> one_gen (gen_register e g t) k = (r, x', e') -> SOK e (k g) e' x'.
Proof.
  intros Hk H. unfold one_gen in H. destruct (gen_register e g t) as [[ok g1] e1] eqn:G. injection H as <- <- <-.
  unfold SOK. rewrite !Hk. pose proof (subs_register_LOK [g] e (factory_new t) ) as _.
  destruct (gen_register_has _ _ _ _ _ _ G) as (Hfd & Hh & Hp & Hf). split.
  - intros fd H2. rewrite Hh in H2. apply orb_prop in H2. destruct H2 as [H0|H1]; [left; exact H0|].
    apply andb_prop in H1. destruct H1 as [Ok Eq]. right. exists g1. split; [left; reflexivity|split; [rewrite Hfd; apply N.eqb_eq; exact Eq|apply Hp; exact Ok]].
  - intros fd [g0 [[<-|[]] [Gf Gp]]] _. exists g1. split; [left; reflexivity|]. destruct ok; [split; [congruence|apply Hp; reflexivity]|rewrite (Hf eq_refl); split; assumption].
Qed.
Lemma one_gen_rereg_SOK e g t k r x' e' : (forall g0, gens_of (k g0) = [g0]) -> one_gen (gen_reregister e g t) k = (r, x', e') -> SOK e (k g) e' x'.
Proof.
  intros Hk H. unfold one_gen in H. destruct (gen_reregister e g t) as [[ok g1] e1] eqn:G. injection H as <- <- <-.
  unfold SOK. rewrite !Hk. destruct (gen_reregister_has _ _ _ _ _ _ G) as (Hfd & Hp & Hh). split.
  - intros fd H2. left. rewrite <- Hh. exact H2.
  - intros fd [g0 [[<-|[]] [Gf Gp]]] _. exists g1. split; [left; reflexivity|split; congruence].
Qed.

Lemma src_register_SOK e x f r x' e' : src_register e x f = (r, x', e') -> SOK e x e' x'.
Proof.
  intros H. destruct x as [lc own subs tmr|g|tm|c g]; cbn [src_register] in H.
  - destruct (ftoken f) as [[t f1]|]; [|injection H as <- <- <-; apply LOK_refl].
    destruct (subs_register e subs f1) as [[[r1 subs'] f2] e1] eqn:R. pose proof (subs_register_LOK _ _ _ _ _ _ _ R) as L.
    destruct r1; destruct tmr as [tm|]; try (injection H as <- <- <-; exact L).
    pose proof (epoll_timer_register e1 tm f2) as T. destruct (timer_register e1 tm f2) as [[r2 tm'] e2]. cbn [snd] in T. injection H as <- <- <-.
    unfold SOK. cbn [gens_of]. eapply LOK_env_eq; [apply has_of_epoll; exact T|exact L].
  - destruct (ftoken f) as [[t f1]|]; [|injection H as <- <- <-; apply LOK_refl]. eapply (one_gen_reg_SOK e g t SPing); [reflexivity|exact H].
  - pose proof (epoll_timer_register e tm f) as T. destruct (timer_register e tm f) as [[r2 tm'] e2]. cbn [snd] in T. injection H as <- <- <-.
    unfold SOK. cbn [gens_of]. apply has_eq_LOK. apply has_of_epoll. exact T.
  - destruct (ftoken f) as [[t f1]|]; [|injection H as <- <- <-; apply LOK_refl]. eapply (one_gen_reg_SOK e g t (SChan c)); [reflexivity|exact H].
Qed.

Lemma epoll_timer_reregister e t f : epoll (snd (timer_reregister e t f)) = epoll e.
Proof.
  unfold timer_reregister. destruct (tm_en t); [|reflexivity]. pose proof (epoll_timer_unregister e t) as U.
  destruct (timer_unregister e t) as [t1 e1]. cbn [snd] in U. rewrite epoll_timer_register. exact U.
Qed.
Lemma src_reregister_SOK e x f r x' e' : src_reregister e x f = (r, x', e') -> SOK e x e' x'.
Proof.
  intros H. destruct x as [lc own subs tmr|g|tm|c g]; cbn [src_reregister] in H.
  - destruct (ftoken f) as [[t f1]|]; [|injection H as <- <- <-; apply LOK_refl].
    destruct (subs_reregister e subs f1) as [[[r1 subs'] f2] e1] eqn:R. pose proof (subs_reregister_LOK _ _ _ _ _ _ _ R) as L.
    destruct r1; destruct tmr as [tm|]; try (injection H as <- <- <-; exact L).
    pose proof (epoll_timer_reregister e1 tm f2) as T. destruct (timer_reregister e1 tm f2) as [[r2 tm'] e2]. cbn [snd] in T. injection H as <- <- <-.
    unfold SOK. cbn [gens_of]. eapply LOK_env_eq; [apply has_of_epoll; exact T|exact L].
  - destruct (ftoken f) as [[t f1]|]; [|injection H as <- <- <-; apply LOK_refl]. eapply (one_gen_rereg_SOK e g t SPing); [reflexivity|exact H].
  - assert (T : epoll e' = epoll e /\ gens_of x' = []).
    { destruct (tm_en tm).
      - pose proof (epoll_timer_unregister e tm) as U. destruct (timer_unregister e tm) as [t1 e1]. cbn [snd] in U.
        pose proof (epoll_timer_register e1 t1 f) as T. destruct (timer_register e1 t1 f) as [[r2 tm'] e2]. cbn [snd] in T. injection H as <- <- <-.
        split; [congruence|reflexivity].
      - injection H as <- <- <-. split; reflexivity. }
    destruct T as [T1 T2]. unfold SOK. rewrite T2. cbn [gens_of]. apply has_eq_LOK. apply has_of_epoll. exact T1.
  - destruct (ftoken f) as [[t f1]|]; [|injection H as <- <- <-; apply LOK_refl]. eapply (one_gen_rereg_SOK e g t (SChan c)); [reflexivity|exact H].
Qed.

Lemma src_unregister_SOK e x ok x' e' : src_unregister e x = (ok, x', e') -> SOK e x e' x'.
Proof.
  intros H. destruct x as [lc own subs tmr|g|tm|c g]; cbn [src_unregister] in H.
  - destruct (subs_unregister e subs) as [[ok1 subs'] e1] eqn:R. destruct (subs_unregister_LOK _ _ _ _ _ R) as [L _].
    destruct ok1; destruct tmr as [tm|]; try (injection H as <- <- <-; exact L).
    pose proof (epoll_timer_unregister e1 tm) as T. destruct (timer_unregister e1 tm) as [tm' e2]. cbn [snd] in T. injection H as <- <- <-.
    unfold SOK. cbn [gens_of]. eapply LOK_env_eq; [apply has_of_epoll; exact T|exact L].
  - destruct (gen_unregister e g) as [[ok1 g1] e1] eqn:G. injection H as <- <- <-.
    assert (R : subs_unregister e [g] = (ok1, [g1], e1)) by (cbn; rewrite G; destruct ok1; reflexivity).
    destruct (subs_unregister_LOK _ _ _ _ _ R) as [L _]. exact L.
  - pose proof (epoll_timer_unregister e tm) as T. destruct (timer_unregister e tm) as [tm' e2]. cbn [snd] in T. injection H as <- <- <-.
    unfold SOK. cbn [gens_of]. apply has_eq_LOK. apply has_of_epoll. exact T.
  - destruct (gen_unregister e g) as [[ok1 g1] e1] eqn:G. injection H as <- <- <-.
    assert (R : subs_unregister e [g] = (ok1, [g1], e1)) by (cbn; rewrite G; destruct ok1; reflexivity).
    destruct (subs_unregister_LOK _ _ _ _ _ R) as [L _]. exact L.
Qed.

(* dropping a source: only removes fds, and nothing it covered is left *)
Lemma fold_gen_drop_has l : forall e fd, has (fold_left gen_drop l e) fd = true -> has e fd = true /\ ~ lcov l fd.
Proof.
  induction l as [|g r IH]; intros e fd H; cbn [fold_left] in H; [split; [exact H|intros [x [[] _]]]|].
  destruct (IH _ _ H) as [H1 Nc]. rewrite gen_drop_has in H1. apply andb_prop in H1. destruct H1 as [H0 Hn].
  split; [exact H0|]. intros Hc. apply lcov_cons in Hc. destruct Hc as [[Gf Gp]|Hc]; [|exact (Nc Hc)].
  rewrite Gp, Gf, N.eqb_refl, H0 in Hn. discriminate.
Qed.
Lemma src_drop_has e x fd : has (src_drop e x) fd = true -> has e fd = true /\ ~ scov x fd.
Proof.
  unfold scov. destruct x as [lc own subs tmr|g|tm|c g]; cbn [src_drop gens_of].
  - apply fold_gen_drop_has.
  - intros H. apply (fold_gen_drop_has [g] e fd). exact H.
  - intros H. split; [exact H|intros [x [[] _]]].
  - intros H. apply (fold_gen_drop_has [g] e fd). cbn [fold_left].
    destruct (chans (gen_drop e g) c); [|exact H]. exact H.
Qed.

(* ================= the invariant on loop states ================= *)
Definition owner (s : st) (fd : N) : Prop := exists o ob, objs s o = Some ob /\ scov (o_src ob) fd.
Definition EPI (s : st) : Prop := forall fd, has (en s) fd = true -> owner s fd.

Lemma EPI_frame s s' : (forall fd, has (en s') fd = has (en s) fd) -> objs s' = objs s -> EPI s -> EPI s'.
Proof. intros E O H fd Hf. rewrite E in Hf. destruct (H fd Hf) as (o & ob & Ho & Hc). exists o, ob. rewrite O. split; assumption. Qed.
Lemma EPI_same s s' : en s' = en s -> objs s' = objs s -> EPI s -> EPI s'.
Proof. intros E O. apply EPI_frame; [intros fd; rewrite E; reflexivity|exact O]. Qed.

(* the source of object o is replaced by the result of an operation that is SOK *)
Lemma EPI_set_src s o ob e' x' : objs s o = Some ob -> SOK (en s) (o_src ob) e' x' -> EPI s -> EPI (set_obj_src (set_en s e') o x').
Proof.
  intros Ho [A B] H fd Hf.
  assert (En : en (set_obj_src (set_en s e') o x') = e') by (unfold set_obj_src; cbn; rewrite Ho; reflexivity). rewrite En in Hf.
  assert (Oo : objs (set_obj_src (set_en s e') o x') o = Some (mkObj x' (o_ext ob))) by (unfold set_obj_src; cbn; rewrite Ho; cbn; unfold fupd; rewrite N.eqb_refl; reflexivity).
  assert (Oth : forall o', o' <> o -> objs (set_obj_src (set_en s e') o x') o' = objs s o').
  { intros o' Hne. unfold set_obj_src. cbn. rewrite Ho. cbn. unfold fupd. destruct (N.eqb_spec o' o); [contradiction|reflexivity]. }
  destruct (A fd Hf) as [H0|Hc]; [|exists o, (mkObj x' (o_ext ob)); split; [exact Oo|exact Hc]].
  destruct (H fd H0) as (o1 & ob1 & Ho1 & Hc1). destruct (N.eq_dec o1 o) as [->|Hne].
  - rewrite Ho in Ho1. injection Ho1 as <-. exists o, (mkObj x' (o_ext ob)). split; [exact Oo|]. apply B; assumption.
  - exists o1, ob1. split; [rewrite Oth by exact Hne; exact Ho1|exact Hc1].
Qed.
Lemma en_regop s o x k b : en (regop s o x k b) = en s. Proof. unfold regop; destruct x; reflexivity. Qed.
Lemma objs_regop' s o x k b : objs (regop s o x k b) = objs s. Proof. unfold regop; destruct x; reflexivity. Qed.

Lemma EPI_disp_register s o t : EPI s -> EPI (snd (disp_register s o t)).
Proof.
  intros H. unfold disp_register. destruct (objs s o) as [ob|] eqn:Ho; [|exact H]. destruct (is_running s o); [apply (EPI_same s); [reflexivity|reflexivity|exact H]|].
  destruct (src_register (en s) (o_src ob) (factory_new t)) as [[r x'] e1] eqn:R. pose proof (src_register_SOK _ _ _ _ _ _ R) as S.
  pose proof (EPI_set_src s o ob e1 x' Ho S H) as H2.
  destruct r; cbn [snd]; try destruct (src_lc x'); (eapply EPI_same; [| |exact H2]); cbn [en objs set_lifecycle panic set_halted emit set_log]; rewrite ?en_regop, ?objs_regop'; reflexivity.
Qed.
Lemma EPI_disp_reregister s o t : EPI s -> EPI (snd (disp_reregister s o t)).
Proof.
  intros H. unfold disp_reregister. destruct (objs s o) as [ob|] eqn:Ho; [|exact H]. destruct (is_running s o); [exact H|].
  destruct (src_reregister (en s) (o_src ob) (factory_new t)) as [[r x'] e1] eqn:R. pose proof (src_reregister_SOK _ _ _ _ _ _ R) as S.
  pose proof (EPI_set_src s o ob e1 x' Ho S H) as H2.
  destruct r; cbn [snd]; try destruct (src_lc x'); (eapply EPI_same; [| |exact H2]); cbn [en objs set_lifecycle panic set_halted emit set_log]; rewrite ?en_regop, ?objs_regop'; reflexivity.
Qed.
Lemma EPI_disp_unregister s o t : EPI s -> EPI (snd (disp_unregister s o t)).
Proof.
  intros H. unfold disp_unregister. destruct (objs s o) as [ob|] eqn:Ho; [|exact H]. destruct (is_running s o); [exact H|].
  destruct (src_unregister (en s) (o_src ob)) as [[ok x'] e1] eqn:R. pose proof (src_unregister_SOK _ _ _ _ _ R) as S.
  pose proof (EPI_set_src s o ob e1 x' Ho S H) as H2. cbn [snd].
  destruct (src_lc x'); (eapply EPI_same; [| |exact H2]); cbn [en objs set_lifecycle]; rewrite ?en_regop, ?objs_regop'; reflexivity.
Qed.

Lemma EPI_drop_obj s o ob : objs s o = Some ob -> EPI s -> EPI (drop_obj s o ob).
Proof.
  intros Ho H fd Hf. unfold drop_obj in *. cbn [en emit set_log set_objs set_en] in Hf.
  destruct (src_drop_has _ _ _ Hf) as [H0 Nc]. destruct (H fd H0) as (o1 & ob1 & Ho1 & Hc1).
  destruct (N.eq_dec o1 o) as [->|Hne]; [rewrite Ho in Ho1; injection Ho1 as <-; contradiction|].
  exists o1, ob1. split; [|exact Hc1]. cbn. unfold fupd. destruct (N.eqb_spec o1 o); [contradiction|exact Ho1].
Qed.
Lemma EPI_maybe_drop s o : EPI s -> EPI (maybe_drop s o).
Proof.
  intros H. unfold maybe_drop. destruct (objs s o) as [ob|] eqn:Ho; [|exact H]. destruct (o_ext ob || in_slots (slots s) o); [exact H|].
  destruct (is_running s o); [apply (EPI_same s); [reflexivity|reflexivity|exact H]|apply EPI_drop_obj; assumption].
Qed.
Lemma EPI_drop_zombies l : forall s, EPI s -> EPI (drop_zombies s l).
Proof. induction l as [|o r IH]; intros s H; cbn; [exact H|]. apply IH. apply EPI_maybe_drop. exact H. Qed.
Lemma EPI_end_processing s o : EPI s -> EPI (end_processing s o).
Proof. intros H. unfold end_processing. apply EPI_drop_zombies. apply EPI_maybe_drop. apply (EPI_same s); [reflexivity|reflexivity|exact H]. Qed.

(* ---------- environment-only updates keep the set of registered fds ---------- *)
Lemma has_do_ping e p fd : has (do_ping e p) fd = has e fd.
Proof. unfold do_ping. destruct (pings e p) as [[f n]|]; [|reflexivity]. destruct (0 <? n); [apply has_fd_write|reflexivity]. Qed.
Lemma has_do_clonep e p fd : has (do_clonep e p) fd = has e fd.
Proof. unfold do_clonep. destruct (pings e p) as [[f n]|]; [|reflexivity]. destruct (0 <? n); reflexivity. Qed.
Lemma has_do_dropp e p fd : has (do_dropp e p) fd = has e fd.
Proof. unfold do_dropp. destruct (pings e p) as [[f n]|]; [|reflexivity]. destruct (n =? 0); [reflexivity|]. destruct (n =? 1); [rewrite has_fd_write|]; reflexivity. Qed.
Lemma has_env_send e c v fd : has (fst (env_send e c v)) fd = has e fd.
Proof.
  unfold env_send. destruct (chans e c) as [ch|]; [|reflexivity]. destruct (ch_senders ch =? 0); [reflexivity|].
  destruct (negb (ch_rx_alive ch)); [reflexivity|]. destruct (chan_full ch); cbn [fst]; rewrite has_fd_write; reflexivity.
Qed.
Lemma has_do_clonesender e c fd : has (do_clonesender e c) fd = has e fd.
Proof. unfold do_clonesender. destruct (chans e c) as [ch|]; [|reflexivity]. destruct (ch_senders ch =? 0); reflexivity. Qed.
Lemma has_do_dropsender e c fd : has (do_dropsender e c) fd = has e fd.
Proof.
  unfold do_dropsender. destruct (chans e c) as [ch|]; [|reflexivity]. destruct (ch_senders ch =? 0); [reflexivity|].
  destruct (ch_bound ch); [destruct (ch_senders ch =? 1)|]; rewrite ?has_fd_write; reflexivity.
Qed.

(* replacing the source of o by one that covers at least the same fds *)
Lemma EPI_set_obj_src_cov s o x' : (forall ob fd, objs s o = Some ob -> scov (o_src ob) fd -> scov x' fd) -> EPI s -> EPI (set_obj_src s o x').
Proof.
  intros Hc H fd Hf. unfold set_obj_src in *. destruct (objs s o) as [ob|] eqn:Ho; [|apply H; exact Hf].
  cbn [en set_objs] in Hf. destruct (H fd Hf) as (o1 & ob1 & Ho1 & Hc1). destruct (N.eq_dec o1 o) as [->|Hne].
  - rewrite Ho in Ho1. injection Ho1 as <-. exists o, (mkObj x' (o_ext ob)). split; [cbn; unfold fupd; rewrite N.eqb_refl; reflexivity|]. apply (Hc ob fd eq_refl Hc1).
  - exists o1, ob1. split; [cbn; unfold fupd; destruct (N.eqb_spec o1 o); [contradiction|exact Ho1]|exact Hc1].
Qed.
Lemma lcov_set_nth_gen subs : forall j it m fd, lcov subs fd -> lcov (set_nth_gen subs j it m) fd.
Proof.
  induction subs as [|g r IH]; intros [|j] it m fd H; cbn; try exact H.
  - apply lcov_cons in H. apply lcov_cons. destruct H as [[A B]|H]; [left; split; assumption|right; exact H].
  - apply lcov_cons in H. apply lcov_cons. destruct H as [H|H]; [left; exact H|right; apply IH; exact H].
Qed.

Lemma EPI_do_insert s h x : EPI s -> EPI (do_insert s h x).
Proof.
  intros H. unfold do_insert. destruct (objs s h) eqn:Eh; [apply (EPI_same s); [reflexivity|reflexivity|exact H]|].
  set (s0 := set_objs s _).
  assert (H0 : EPI s0).
  { intros fd Hf. destruct (H fd Hf) as (o1 & ob1 & Ho1 & Hc1). exists o1, ob1. split; [|exact Hc1].
    unfold s0. cbn. unfold fupd. destruct (N.eqb_spec o1 h) as [->|]; [congruence|exact Ho1]. }
  destruct (vacant_entry (slots s0)) as [[i sl]|]; [|apply (EPI_same s0); [reflexivity|reflexivity|exact H0]].
  destruct (nth_error sl i) as [e|]; [|apply (EPI_same s0); [reflexivity|reflexivity|exact H0]].
  set (s1 := set_slots s0 _). assert (H1 : EPI s1) by (apply (EPI_same s0); [reflexivity|reflexivity|exact H0]).
  pose proof (EPI_disp_register s1 h (s_tok e) H1) as F. destruct (disp_register s1 h (s_tok e)) as [r s2]. cbn [snd] in F.
  destruct (halted s2); [exact F|]. destruct r; (eapply EPI_same; [| |exact F]); reflexivity.
Qed.
Lemma EPI_do_remove s h : EPI s -> EPI (do_remove s h).
Proof.
  intros H. unfold do_remove. destruct (lookup s h) as [[[t et] o]|]; [|apply (EPI_same s); [reflexivity|reflexivity|exact H]].
  set (s1 := set_slots s _). assert (H1 : EPI s1) by (apply (EPI_same s); [reflexivity|reflexivity|exact H]).
  pose proof (EPI_disp_unregister s1 o t H1) as F. destruct (disp_unregister s1 o t) as [[r d] s2]. cbn [snd] in F.
  apply (EPI_same (maybe_drop s2 o)); [reflexivity|reflexivity|]. apply EPI_maybe_drop. exact F.
Qed.
Lemma EPI_eenv s f : (forall fd, has (f (en s)) fd = has (en s) fd) -> EPI s -> EPI (eenv s f).
Proof. intros E. apply EPI_frame; [exact E|reflexivity]. Qed.

Lemma EPI_exec_action s a : EPI s -> EPI (exec_action s a).
Proof.
  intros H. unfold exec_action. destruct (halted s); [exact H|].
  destruct a.
  - apply EPI_do_insert; exact H.
  - apply EPI_do_remove; exact H.
  - unfold do_disable. destruct (lookup s h) as [[[t et] o]|]; [|apply (EPI_same s); [reflexivity|reflexivity|exact H]].
    pose proof (EPI_disp_unregister s o t H) as F. destruct (disp_unregister s o t) as [[r d] s1]. cbn [snd] in F.
    destruct r; [destruct d|..]; (eapply EPI_same; [| |exact F]); reflexivity.
  - unfold do_enable. destruct (lookup s h) as [[[t et] o]|]; [|apply (EPI_same s); [reflexivity|reflexivity|exact H]].
    pose proof (EPI_disp_register s o et H) as F. destruct (disp_register s o et) as [r s1]. cbn [snd] in F.
    destruct (halted s1); [exact F|]. (eapply EPI_same; [| |exact F]); reflexivity.
  - unfold do_update. destruct (lookup s h) as [[[t et] o]|]; [|apply (EPI_same s); [reflexivity|reflexivity|exact H]].
    pose proof (EPI_disp_reregister s o et H) as F. destruct (disp_reregister s o et) as [[r d] s1]. cbn [snd] in F.
    destruct (halted s1); [exact F|]. destruct r; [destruct d|..]; (eapply EPI_same; [| |exact F]); reflexivity.
  - unfold do_setint. destruct (objs s h) as [ob|] eqn:Eh; [|apply (EPI_same s); [reflexivity|reflexivity|exact H]].
    destruct (negb (o_ext ob)); [apply (EPI_same s); [reflexivity|reflexivity|exact H]|].
    destruct (is_running s h); [apply (EPI_same s); [reflexivity|reflexivity|exact H]|].
    destruct (o_src ob) as [lc own subs tmr|g|tm|c g] eqn:Es; try (apply (EPI_same s); [reflexivity|reflexivity|exact H]).
    apply (EPI_same (set_obj_src s h (SComp lc own (set_nth_gen subs j it m) tmr))); [reflexivity|reflexivity|].
    apply EPI_set_obj_src_cov; [|exact H]. intros ob0 fd Ho0 Hc. rewrite Eh in Ho0. injection Ho0 as <-. rewrite Es in Hc. unfold scov in *. cbn [gens_of] in *.
    apply lcov_set_nth_gen. exact Hc.
  - unfold do_setdl. destruct (objs s h) as [ob|] eqn:Eh; [|apply (EPI_same s); [reflexivity|reflexivity|exact H]].
    destruct (negb (o_ext ob)); [apply (EPI_same s); [reflexivity|reflexivity|exact H]|].
    destruct (is_running s h); [apply (EPI_same s); [reflexivity|reflexivity|exact H]|].
    destruct (o_src ob) as [lc own subs [tm|]|g|tm|c g] eqn:Es; try (apply (EPI_same s); [reflexivity|reflexivity|exact H]).
    + apply (EPI_same (set_obj_src s h (SComp lc own subs (Some (mkTimer (tm_reg tm) (Some dl) (tm_en tm)))))); [reflexivity|reflexivity|].
      apply EPI_set_obj_src_cov; [|exact H]. intros ob0 fd Ho0 Hc. rewrite Eh in Ho0. injection Ho0 as <-. rewrite Es in Hc. exact Hc.
    + apply (EPI_same (set_obj_src s h (STimer (mkTimer (tm_reg tm) (Some dl) (tm_en tm))))); [reflexivity|reflexivity|].
      apply EPI_set_obj_src_cov; [|exact H]. intros ob0 fd Ho0 Hc. rewrite Eh in Ho0. injection Ho0 as <-. rewrite Es in Hc. exact Hc.
  - unfold do_intoinner. destruct (objs s h) as [ob|] eqn:Eh; [|apply (EPI_same s); [reflexivity|reflexivity|exact H]].
    destruct (negb (o_ext ob)); [apply (EPI_same s); [reflexivity|reflexivity|exact H]|].
    destruct (in_slots (slots s) h || is_running s h); [apply (EPI_same s); [reflexivity|reflexivity|exact H]|].
    apply (EPI_same (drop_obj s h ob)); [reflexivity|reflexivity|]. apply EPI_drop_obj; assumption.
  - unfold do_dropdisp. destruct (objs s h) as [ob|] eqn:Eh; [|apply (EPI_same s); [reflexivity|reflexivity|exact H]].
    destruct (negb (o_ext ob)); [apply (EPI_same s); [reflexivity|reflexivity|exact H]|].
    apply (EPI_same (maybe_drop (set_objs s (fupd (objs s) h (Some (mkObj (o_src ob) false)))) h)); [reflexivity|reflexivity|]. apply EPI_maybe_drop.
    intros fd Hf. destruct (H fd Hf) as (o1 & ob1 & Ho1 & Hc1). destruct (N.eq_dec o1 h) as [->|Hne].
    + rewrite Eh in Ho1. injection Ho1 as <-. exists h, (mkObj (o_src ob) false). split; [cbn; unfold fupd; rewrite N.eqb_refl; reflexivity|exact Hc1].
    + exists o1, ob1. split; [cbn; unfold fupd; destruct (N.eqb_spec o1 h); [contradiction|exact Ho1]|exact Hc1].
  - apply EPI_eenv; [intros; apply has_fd_write|exact H].
  - apply EPI_eenv; [intros; apply has_fd_read|exact H].
  - apply EPI_eenv; [intros; apply has_do_ping|exact H].
  - apply EPI_eenv; [intros; apply has_do_clonep|exact H].
  - apply EPI_eenv; [intros; apply has_do_dropp|exact H].
  - unfold do_send. pose proof (has_env_send (en s) c v) as E. destruct (env_send (en s) c v) as [e' [rc|]]; cbn [fst] in E; (eapply EPI_frame; [| |exact H]); try reflexivity; exact E.
  - unfold do_send. pose proof (has_env_send (en s) c v) as E. destruct (env_send (en s) c v) as [e' [rc|]]; cbn [fst] in E; (eapply EPI_frame; [| |exact H]); try reflexivity; exact E.
  - apply EPI_eenv; [intros; apply has_do_dropsender|exact H].
  - apply EPI_eenv; [intros; apply has_do_clonesender|exact H].
  - apply (EPI_same s); [reflexivity|reflexivity|exact H].
  - unfold do_cancelidle. destruct (match ridle s with Some r => r =? i | None => false end); apply (EPI_same s); try reflexivity; exact H.
  - apply EPI_eenv; [intros; reflexivity|exact H].
  - apply EPI_eenv; [intros; reflexivity|exact H].
  - exact H.
Qed.
Lemma EPI_exec_actions l : forall s, EPI s -> EPI (exec_actions s l).
Proof. unfold exec_actions. induction l as [|a l IH]; intros s H; cbn; [exact H|]. apply IH. apply EPI_exec_action. exact H. Qed.

(* ---------- callbacks, events, dispatch ---------- *)
Lemma EPI_callback scr s h sub p : EPI s -> EPI (fst (callback scr s h sub p)).
Proof. intros H. unfold callback. cbn [fst]. apply EPI_exec_actions. apply (EPI_same s); [reflexivity|reflexivity|exact H]. Qed.
Lemma EPI_chan_loop scr fuel : forall s h c, EPI s -> EPI (fst (fst (chan_loop scr fuel s h c))).
Proof.
  induction fuel as [|f IH]; intros s h c H; cbn [chan_loop]; [exact H|].
  destruct (halted s); [exact H|]. destruct (chans (en s) c) as [ch|]; [|exact H].
  destruct (ch_q ch) as [|v q'].
  - destruct (ch_senders ch =? 0); [|exact H].
    pose proof (EPI_callback scr s h 1%Z 0%Z H) as C. destruct (callback scr s h 1%Z 0%Z) as [s2 sc]. exact C.
  - match goal with |- context [callback scr ?x h 0%Z v] => set (s1 := x) end.
    assert (H1 : EPI s1) by (apply EPI_eenv; [intros; reflexivity|exact H]).
    pose proof (EPI_callback scr s1 h 0%Z v H1) as C. destruct (callback scr s1 h 0%Z v) as [s2 sc]. cbn [fst] in C. apply IH. exact C.
Qed.
Lemma EPI_ping_drain s g t : EPI s -> EPI (fst (fst (ping_drain s g t))).
Proof.
  intros H. unfold ping_drain. destruct (opt_tok_is (g_tok g) t); [|exact H].
  pose proof (has_fd_read (en s) (g_fd g)) as R. destruct (fd_read (en s) (g_fd g)) as [e1 v]. cbn [fst] in R.
  destruct (v =? 0); cbn [fst]; (eapply EPI_frame; [| |exact H]); try reflexivity; exact R.
Qed.
(* the timer re-arm after a timer callback keeps the Generics of the source *)
Lemma EPI_rearm s o x' (f : env -> env) : (forall e fd, has (f e) fd = has e fd) ->
  (forall ob fd, objs s o = Some ob -> scov (o_src ob) fd -> scov x' fd) -> EPI s -> EPI (set_obj_src (eenv s f) o x').
Proof. intros Hf Hc H. apply EPI_set_obj_src_cov; [exact Hc|]. apply EPI_eenv; [intros; apply Hf|exact H]. Qed.

(* ---------- the source of the object being processed cannot change during its own callback ---------- *)
Definition keep_src (s s' : st) (o : N) : Prop :=
  forall ob, objs s o = Some ob -> exists ob', objs s' o = Some ob' /\ o_src ob' = o_src ob.
Lemma keep_src_refl s o : keep_src s s o. Proof. intros ob H. exists ob. split; [exact H|reflexivity]. Qed.
Lemma keep_src_trans a b c o : keep_src a b o -> keep_src b c o -> keep_src a c o.
Proof. intros H1 H2 ob H. destruct (H1 ob H) as [ob1 [A B]]. destruct (H2 ob1 A) as [ob2 [C D]]. exists ob2. split; [exact C|congruence]. Qed.
Lemma keep_src_eq s s' o : objs s' o = objs s o -> keep_src s s' o.
Proof. intros E ob H. exists ob. split; [rewrite E; exact H|reflexivity]. Qed.

Lemma objs_set_obj_src_oth s o' x o : o <> o' -> objs (set_obj_src s o' x) o = objs s o.
Proof. intros Hne. unfold set_obj_src. destruct (objs s o'); [|reflexivity]. cbn. unfold fupd. destruct (N.eqb_spec o o'); [contradiction|reflexivity]. Qed.
Lemma objs_disp_register_at s o' t o : o' <> o \/ is_running s o' = true -> objs (snd (disp_register s o' t)) o = objs s o.
Proof.
  intros Hc. unfold disp_register. destruct (objs s o') as [ob|]; [|reflexivity]. destruct (is_running s o') eqn:R; [reflexivity|].
  destruct Hc as [Hne|X]; [|discriminate]. destruct (src_register _ _ _) as [[r x'] e1].
  destruct r; cbn [snd]; try destruct (src_lc x'); cbn [objs set_lifecycle panic set_halted emit set_log]; rewrite ?objs_regop', objs_set_obj_src_oth by congruence; reflexivity.
Qed.
Lemma objs_disp_reregister_at s o' t o : o' <> o \/ is_running s o' = true -> objs (snd (disp_reregister s o' t)) o = objs s o.
Proof.
  intros Hc. unfold disp_reregister. destruct (objs s o') as [ob|]; [|reflexivity]. destruct (is_running s o') eqn:R; [reflexivity|].
  destruct Hc as [Hne|X]; [|discriminate]. destruct (src_reregister _ _ _) as [[r x'] e1].
  destruct r; cbn [snd]; try destruct (src_lc x'); cbn [objs set_lifecycle panic set_halted emit set_log]; rewrite ?objs_regop', objs_set_obj_src_oth by congruence; reflexivity.
Qed.
Lemma objs_disp_unregister_at s o' t o : o' <> o \/ is_running s o' = true -> objs (snd (disp_unregister s o' t)) o = objs s o.
Proof.
  intros Hc. unfold disp_unregister. destruct (objs s o') as [ob|]; [|reflexivity]. destruct (is_running s o') eqn:R; [reflexivity|].
  destruct Hc as [Hne|X]; [|discriminate]. destruct (src_unregister _ _) as [[ok x'] e1]. cbn [snd].
  destruct (src_lc x'); cbn [objs set_lifecycle]; rewrite ?objs_regop', objs_set_obj_src_oth by congruence; reflexivity.
Qed.
Lemma objs_maybe_drop_at s o' o : o' <> o \/ is_running s o' = true -> objs (maybe_drop s o') o = objs s o.
Proof.
  intros Hc. unfold maybe_drop. destruct (objs s o') as [ob|]; [|reflexivity]. destruct (o_ext ob || in_slots (slots s) o'); [reflexivity|].
  destruct (is_running s o') eqn:R; [reflexivity|]. destruct Hc as [Hne|X]; [|discriminate].
  unfold drop_obj. cbn. unfold fupd. destruct (N.eqb_spec o o'); [congruence|reflexivity].
Qed.
Lemma run_cases s o o' : is_running s o = true -> o' <> o \/ is_running s o' = true.
Proof. intros H. destruct (N.eq_dec o' o) as [->|Hne]; [right; exact H|left; exact Hne]. Qed.

Lemma keep_src_exec_action s a o : is_running s o = true -> keep_src s (exec_action s a) o.
Proof.
  intros Hr. unfold exec_action. destruct (halted s); [apply keep_src_refl|].
  destruct a as [h x|h|h|h|h|h j it m|h dl|h|h|fd v|fd|p|p|p|c v|c v|c|c|i|i|p fd|c fd bound|]; try (apply keep_src_eq; reflexivity).
  - unfold do_insert. destruct (objs s h) eqn:Eh; [apply keep_src_eq; reflexivity|].
    intros ob Ho. assert (Hne : h <> o) by (intros ->; congruence).
    set (s0 := set_objs s _). assert (E0 : objs s0 o = objs s o) by (unfold s0; cbn; unfold fupd; destruct (N.eqb_spec o h); [congruence|reflexivity]).
    destruct (vacant_entry (slots s0)) as [[i sl]|]; [|exists ob; split; [exact (eq_trans E0 Ho)|reflexivity]].
    destruct (nth_error sl i) as [e|]; [|exists ob; split; [exact (eq_trans E0 Ho)|reflexivity]].
    set (s1 := set_slots s0 _). pose proof (objs_disp_register_at s1 h (s_tok e) o (or_introl Hne)) as F.
    destruct (disp_register s1 h (s_tok e)) as [r s2]. cbn [snd] in F. exists ob. split; [|reflexivity].
    destruct (halted s2); [rewrite F; exact (eq_trans E0 Ho)|]. destruct r; cbn [objs emit set_log set_toks set_slots]; rewrite F; exact (eq_trans E0 Ho).
  - unfold do_remove. destruct (lookup s h) as [[[t et] o']|]; [|apply keep_src_eq; reflexivity].
    set (s1 := set_slots s _). assert (R1 : is_running s1 o = true) by exact Hr.
    pose proof (objs_disp_unregister_at s1 o' t o (run_cases s1 o o' R1)) as F. pose proof (running_disp_unregister s1 o' t) as FR.
    destruct (disp_unregister s1 o' t) as [[r d] s2]. cbn [snd] in F, FR.
    assert (R2 : is_running s2 o = true) by (unfold is_running in *; rewrite FR; exact R1).
    apply keep_src_eq. cbn [objs emit set_log]. rewrite (objs_maybe_drop_at s2 o' o (run_cases s2 o o' R2)). exact F.
  - unfold do_disable. destruct (lookup s h) as [[[t et] o']|]; [|apply keep_src_eq; reflexivity].
    pose proof (objs_disp_unregister_at s o' t o (run_cases s o o' Hr)) as F. destruct (disp_unregister s o' t) as [[r d] s1]. cbn [snd] in F.
    apply keep_src_eq. destruct r; [destruct d|..]; exact F.
  - unfold do_enable. destruct (lookup s h) as [[[t et] o']|]; [|apply keep_src_eq; reflexivity].
    pose proof (objs_disp_register_at s o' et o (run_cases s o o' Hr)) as F. destruct (disp_register s o' et) as [r s1]. cbn [snd] in F.
    apply keep_src_eq. destruct (halted s1); exact F.
  - unfold do_update. destruct (lookup s h) as [[[t et] o']|]; [|apply keep_src_eq; reflexivity].
    pose proof (objs_disp_reregister_at s o' et o (run_cases s o o' Hr)) as F. destruct (disp_reregister s o' et) as [[r d] s1]. cbn [snd] in F.
    apply keep_src_eq. destruct (halted s1); [exact F|]. destruct r; [destruct d|..]; exact F.
  - unfold do_setint. destruct (objs s h) as [ob|] eqn:Eo; [|apply keep_src_eq; reflexivity]. destruct (negb (o_ext ob)); [apply keep_src_eq; reflexivity|].
    destruct (is_running s h) eqn:Rh; [apply keep_src_eq; reflexivity|]. assert (Hne : o <> h) by (intros ->; congruence).
    destruct (o_src ob); try (apply keep_src_eq; reflexivity). apply keep_src_eq. cbn [objs emit set_log]. apply objs_set_obj_src_oth. exact Hne.
  - unfold do_setdl. destruct (objs s h) as [ob|] eqn:Eo; [|apply keep_src_eq; reflexivity]. destruct (negb (o_ext ob)); [apply keep_src_eq; reflexivity|].
    destruct (is_running s h) eqn:Rh; [apply keep_src_eq; reflexivity|]. assert (Hne : o <> h) by (intros ->; congruence).
    destruct (o_src ob) as [lc own subs [tm|]|g|tm|c g]; try (apply keep_src_eq; reflexivity); apply keep_src_eq; cbn [objs emit set_log]; apply objs_set_obj_src_oth; exact Hne.
  - unfold do_intoinner. destruct (objs s h) as [ob|] eqn:Eo; [|apply keep_src_eq; reflexivity]. destruct (negb (o_ext ob)); [apply keep_src_eq; reflexivity|].
    destruct (in_slots (slots s) h || is_running s h) eqn:E; [apply keep_src_eq; reflexivity|]. apply orb_false_iff in E as [_ E2].
    assert (Hne : o <> h) by (intros ->; congruence). apply keep_src_eq. unfold drop_obj. cbn. unfold fupd. destruct (N.eqb_spec o h); [contradiction|reflexivity].
  - unfold do_dropdisp. destruct (objs s h) as [ob|] eqn:Eo; [|apply keep_src_eq; reflexivity]. destruct (negb (o_ext ob)); [apply keep_src_eq; reflexivity|].
    set (s1 := set_objs s _). assert (R1 : is_running s1 o = true) by exact Hr.
    intros ob0 Ho. assert (K1 : exists ob1, objs s1 o = Some ob1 /\ o_src ob1 = o_src ob0).
    { unfold s1. cbn. unfold fupd. destruct (N.eqb_spec o h) as [->|]; [rewrite Eo in Ho; injection Ho as <-; eexists; split; reflexivity|exists ob0; split; [exact Ho|reflexivity]]. }
    destruct K1 as [ob1 [A B]]. exists ob1. split; [|exact B]. cbn [objs emit set_log]. rewrite (objs_maybe_drop_at s1 h o (run_cases s1 o h R1)). exact A.
  - unfold do_send. destruct (env_send _ _ _) as [e' [rc|]]; apply keep_src_eq; reflexivity.
  - unfold do_send. destruct (env_send _ _ _) as [e' [rc|]]; apply keep_src_eq; reflexivity.
  - unfold do_cancelidle. destruct (match ridle s with Some r => r =? i | None => false end); apply keep_src_eq; reflexivity.
Qed.
Lemma is_running_exec_action' s a o : is_running (exec_action s a) o = is_running s o.
Proof. unfold is_running. rewrite running_exec_action. reflexivity. Qed.
Lemma keep_src_exec_actions l : forall s o, is_running s o = true -> keep_src s (exec_actions s l) o.
Proof.
  unfold exec_actions. induction l as [|a l IH]; intros s o Hr; cbn [fold_left]; [apply keep_src_refl|].
  eapply keep_src_trans; [apply keep_src_exec_action; exact Hr|apply IH]. rewrite is_running_exec_action'. exact Hr.
Qed.
Lemma keep_src_callback scr s h sub p o : is_running s o = true -> keep_src s (fst (callback scr s h sub p)) o.
Proof.
  intros Hr. unfold callback. cbn [fst]. eapply keep_src_trans; [|apply keep_src_exec_actions; exact Hr]. apply keep_src_eq. reflexivity.
Qed.

(* one event at the object being processed *)
Lemma EPI_obj_process scr s o ev : is_running s o = true -> EPI s -> EPI (fst (obj_process scr s o ev)).
Proof.
  intros Hr H. unfold obj_process. destruct (objs s o) as [ob|] eqn:Ho; [|exact H].
  destruct (o_src ob) as [lc own subs tmr|g|tm|c g] eqn:Es.
  - destruct (if opt_tok_is own _ then _ else _) as [j|].
    + pose proof (EPI_callback scr s o j (zN (rd_code (ev_rd ev))) H) as C. destruct (callback scr s o j _) as [s1 sc]. exact C.
    + destruct tmr as [tm|]; [|exact H]. cbn [fst]. unfold timer_sub_fire.
      destruct (tm_reg tm) as [[tk c]|]; [|exact H]. destruct (tm_dl tm) as [dl|]; [|exact H].
      destruct (tok_eqb tk _); [|exact H].
      pose proof (EPI_callback scr s o (Z.of_nat (S (length subs))) dl H) as C. pose proof (keep_src_callback scr s o (Z.of_nat (S (length subs))) dl o Hr ob Ho) as K.
      destruct (callback scr s o _ dl) as [s1 sc]. cbn [fst] in C, K. destruct K as [ob1 [Ho1 Hs1]].
      destruct (sc_ret sc) as [|[[| |]|[| |]|]]; try exact C.
      all: try (apply EPI_set_obj_src_cov; [|exact C]; intros ob0 fd E0 Hc; rewrite Ho1 in E0; injection E0 as <-; rewrite Hs1, Es in Hc; exact Hc).
      all: apply EPI_rearm; [intros; reflexivity| |exact C]; intros ob0 fd E0 Hc; rewrite Ho1 in E0; injection E0 as <-; rewrite Hs1, Es in Hc; exact Hc.
  - pose proof (EPI_ping_drain s g (unpack (ev_key ev)) H) as P.
    destruct (ping_drain s g _) as [[s1 r] pinged]. cbn [fst] in *. destruct pinged; cbn [fst]; [apply EPI_callback; exact P|exact P].
  - destruct (tm_reg tm) as [[tk c]|]; [|exact H]. destruct (tm_dl tm) as [dl|]; [|exact H].
    destruct (tok_eqb tk _); [|exact H].
    pose proof (EPI_callback scr s o 0%Z dl H) as C. pose proof (keep_src_callback scr s o 0%Z dl o Hr ob Ho) as K.
    destruct (callback scr s o 0%Z dl) as [s1 sc]. cbn [fst] in C, K. destruct K as [ob1 [Ho1 Hs1]].
    destruct (sc_ret sc) as [|[[| |]|[| |]|]]; cbn [fst]; try exact C.
    all: try (apply EPI_set_obj_src_cov; [|exact C]; intros ob0 fd E0 Hc; rewrite Ho1 in E0; injection E0 as <-; rewrite Hs1, Es in Hc; exact Hc).
    all: apply EPI_rearm; [intros; reflexivity| |exact C]; intros ob0 fd E0 Hc; rewrite Ho1 in E0; injection E0 as <-; rewrite Hs1, Es in Hc; exact Hc.
  - pose proof (EPI_ping_drain s g (unpack (ev_key ev)) H) as P.
    destruct (ping_drain s g _) as [[s1 r] pinged]. cbn [fst] in *.
    destruct r as [act|]; cbn [fst]; [|exact P].
    destruct pinged.
    + pose proof (EPI_chan_loop scr (chan_max (en s) c) s1 o c P) as L. destruct (chan_loop scr _ s1 o c) as [[s2 clear] disc]. cbn [fst] in L.
      destruct disc; cbn [fst]; [exact L|]. destruct clear; cbn [fst]; [exact L|]. apply EPI_eenv; [intros; apply has_fd_write|exact L].
    + cbn. apply EPI_eenv; [intros; apply has_fd_write|exact P].
Qed.

Lemma EPI_apply_post s o reg r : EPI s -> EPI (snd (apply_post s o reg r)).
Proof.
  intros H. unfold apply_post. destruct r.
  - exact H.
  - pose proof (EPI_disp_reregister s o reg H) as F. destruct (disp_reregister s o reg) as [[rs d] sx]. exact F.
  - pose proof (EPI_disp_unregister s o reg H) as F. destruct (disp_unregister s o reg) as [[rs d] sx]. exact F.
  - cbn [snd]. destruct (slot_get (slots s) reg); [apply (EPI_same s); [reflexivity|reflexivity|exact H]|exact H].
Qed.
Lemma EPI_process_event scr s ev : EPI s -> EPI (fst (process_event scr s ev)).
Proof.
  intros H. unfold process_event. destruct (slot_get (slots s) _) as [sl|]; [|exact H].
  destruct (s_obj sl) as [o|]; [|exact H].
  set (reg := forget_sub_id (unpack (ev_key ev))).
  assert (Hr : is_running (set_running s (Some (o, reg))) o = true) by (unfold is_running; cbn; apply N.eqb_refl).
  assert (H0 : EPI (set_running s (Some (o, reg)))) by (apply (EPI_same s); [reflexivity|reflexivity|exact H]).
  pose proof (EPI_obj_process scr _ o ev Hr H0) as P.
  destruct (obj_process scr _ o ev) as [s2 ret]. cbn [fst] in P.
  destruct (halted s2); [exact P|].
  set (s4 := set_pending (set_running s2 None) Continue).
  assert (H4 : EPI s4) by (apply (EPI_same s2); [reflexivity|reflexivity|exact P]).
  assert (A : EPI (snd (match ret with None => (false, s4) | Some r => apply_post s4 o reg (match r with Continue => pending (set_running s2 None) | _ => r end) end))).
  { destruct ret as [r|]; [apply EPI_apply_post; exact H4|exact H4]. }
  destruct (match ret with None => _ | Some r => _ end) as [ok s5]. cbn [snd] in A.
  destruct (halted s5); [exact A|]. cbn [fst]. apply EPI_end_processing.
  destruct (slot_vacant_for s5 reg); [|exact A].
  pose proof (EPI_disp_unregister s5 o reg A) as F. destruct (disp_unregister s5 o reg) as [[rs d] sx]. exact F.
Qed.
Lemma EPI_process_events scr evs : forall s, EPI s -> EPI (fst (process_events scr s evs)).
Proof.
  induction evs as [|ev r IH]; intros s H; cbn [process_events]; [exact H|].
  pose proof (EPI_process_event scr s ev H) as P. destruct (process_event scr s ev) as [s1 ok]. cbn [fst] in P.
  destruct ok; [apply IH; exact P|exact P].
Qed.
Lemma en_before_sleep_loop bscr l : forall s, en (fst (before_sleep_loop bscr s l)) = en s /\ objs (fst (before_sleep_loop bscr s l)) = objs s.
Proof.
  induction l as [|t l IH]; intros s; cbn [before_sleep_loop]; [split; reflexivity|].
  destruct (lc_lookup s t) as [o|]; [|split; reflexivity].
  destruct (nth _ _ _) as [|p]; [destruct (IH (emit (set_bsn s (fupd (bsn s) o (S (bsn s o)))) (L T_BS [zN o; zN 0]))) as [A B]; split; [exact A|exact B]|].
  destruct p; try (split; reflexivity).
  destruct (match objs _ o with Some _ => _ | None => _ end) as [tk|]; match goal with |- context [before_sleep_loop bscr ?x l] => destruct (IH x) as [A B] end; split; assumption.
Qed.
Lemma en_before_handle_loop l polled : forall s, en (fst (before_handle_loop s l polled)) = en s /\ objs (fst (before_handle_loop s l polled)) = objs s.
Proof.
  induction l as [|t l IH]; intros s; cbn [before_handle_loop]; [split; reflexivity|].
  destruct (lc_lookup s t) as [o|]; [|split; reflexivity]. match goal with |- context [before_handle_loop ?x l polled] => destruct (IH x) as [A B] end. split; assumption.
Qed.
Lemma EPI_run_idles scr l : forall s, EPI s -> EPI (run_idles scr s l).
Proof.
  induction l as [|i l IH]; intros s H; cbn [run_idles]; [exact H|].
  destruct (halted s); [exact H|]. destruct (idle_cancelled s i); [apply IH; exact H|].
  match goal with |- context [exec_actions ?x ?a] => set (s1 := x); set (acts := a) end.
  assert (H1 : EPI s1) by (apply (EPI_same s); [reflexivity|reflexivity|exact H]).
  pose proof (EPI_exec_actions acts s1 H1) as E. destruct (halted (exec_actions s1 acts)); [exact E|].
  apply IH. apply (EPI_same (exec_actions s1 acts)); [reflexivity|reflexivity|exact E].
Qed.
Lemma en_emits l : forall s, en (emits s l) = en s /\ objs (emits s l) = objs s.
Proof. unfold emits. induction l as [|x l IH]; intros s; cbn; [split; reflexivity|]. destruct (IH (emit s x)) as [A B]. split; assumption. Qed.

Lemma EPI_dispatch scr bscr s t order : EPI s -> EPI (dispatch scr bscr s t order).
Proof.
  intros H. unfold dispatch. destruct (en_before_sleep_loop bscr (lifecycle s) s) as [B1 B2].
  destruct (before_sleep_loop bscr s (lifecycle s)) as [s1 bs]. cbn [fst] in B1, B2.
  assert (H1 : EPI s1) by (apply (EPI_same s); assumption).
  destruct bs; [|apply (EPI_same s1); [reflexivity|reflexivity|exact H1]|exact H1].
  pose proof (has_poll (en s1) t order) as HP. destruct (poll (en s1) t order) as [polled e2]. cbn [snd] in HP.
  set (s3 := emit (set_en s1 e2) _).
  assert (H3 : EPI s3) by (apply (EPI_frame s1); [intros fd; apply HP|reflexivity|exact H1]).
  destruct (en_before_handle_loop (lifecycle s3) polled s3) as [C1 C2].
  destruct (before_handle_loop s3 _ polled) as [s4 ok]. cbn [fst] in C1, C2.
  assert (H4 : EPI s4) by (apply (EPI_same s3); assumption).
  destruct ok; cbn [negb]; [|exact H4].
  pose proof (EPI_process_events scr (synth s4 ++ polled) (set_synth s4 [])) as P.
  destruct (process_events scr _ _) as [s5 ok2]. cbn [fst] in P.
  assert (H5 : EPI s5) by (apply P; apply (EPI_same s4); [reflexivity|reflexivity|exact H4]).
  destruct (halted s5); [exact H5|]. destruct ok2; cbn [negb]; [|apply (EPI_same s5); [reflexivity|reflexivity|exact H5]].
  assert (H6 : EPI (run_idles scr (set_idles s5 []) (idles s5))) by (apply EPI_run_idles; apply (EPI_same s5); [reflexivity|reflexivity|exact H5]).
  destruct (halted (run_idles scr _ _)); [exact H6|]. apply (EPI_same (run_idles scr (set_idles s5 []) (idles s5))); [reflexivity|reflexivity|exact H6].
Qed.
Lemma EPI_exec_cmd scr bscr s c : EPI s -> EPI (exec_cmd scr bscr s c).
Proof.
  intros H. unfold exec_cmd. destruct (halted s); [exact H|].
  assert (H1 : EPI (emit s (L T_CMD []))) by (apply (EPI_same s); [reflexivity|reflexivity|exact H]).
  destruct c; [apply EPI_exec_action; exact H1|apply EPI_dispatch; exact H1| |].
  - destruct (en_emits (stats_lines (emit s (L T_CMD []))) (emit s (L T_CMD []))) as [A B]. apply (EPI_same (emit s (L T_CMD []))); assumption.
  - destruct (en_emits (epoll_lines (emit s (L T_CMD []))) (emit s (L T_CMD []))) as [A B]. apply (EPI_same (emit s (L T_CMD []))); assumption.
Qed.
Lemma EPI_exec_cmds scr bscr cmds : forall s, EPI s -> EPI (fold_left (exec_cmd scr bscr) cmds s).
Proof. induction cmds as [|c r IH]; intros s H; cbn; [exact H|]. apply IH. apply EPI_exec_cmd. exact H. Qed.

(* NOTHING STALE, for every scenario: every fd in the poller's table is owned by a Generic (sub-source) of an object that still
   exists, and that Generic has recorded the poller - so dropping or unwrapping it will delete the fd *)
Theorem nothing_stale scr bscr cmds fd : has (en (run scr bscr cmds)) fd = true ->
  exists o ob g, objs (run scr bscr cmds) o = Some ob /\ In g (gens_of (o_src ob)) /\ g_fd g = fd /\ g_poller g = true.
Proof.
  intros H. assert (E : EPI (run scr bscr cmds)) by (unfold run; apply EPI_exec_cmds; intros fd0 H0; discriminate).
  destruct (E fd H) as (o & ob & Ho & g & Hi & Gf & Gp). exists o, ob, g. repeat split; assumption.
Qed.
