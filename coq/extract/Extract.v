(* Extraction of the executable model. Only ExtrOcamlBasic directives are used
   (bool, option, unit, list, prod, sumbool, sumor -> OCaml's own); N, Z, positive, nat stay inductive. *)
From Coq Require Import Extraction ExtrOcamlBasic.
From CV Require Import Base Consts Token PostAction Env Loop Transient Signals Timeout ConcPing ConcChannel RunLoop ConcExec SrcAsync GenLife StreamSrc.
Extraction Language OCaml.
Extraction "model.ml"
  Consts.BITS_VERSION Consts.BITS_SUBID
  Token.pack Token.unpack Token.tok_new Token.same_source_as Token.increment_version
  Token.increment_sub_id Token.forget_sub_id Token.factory_new Token.factory_take Token.tok_eqb
  PostAction.pa_bitor PostAction.pa_bitor_assign PostAction.pa_code PostAction.pa_of_code
  Env.int_of_code Env.mode_of_code Env.wh_next_deadline Loop.timer_register Loop.timer_unregister Loop.timer_reregister Loop.run Loop.trace_of Loop.default_script
  Transient.t_run Transient.t_map_some Transient.proto_ok Transient.f7_free Transient.all_ok Transient.t_init
  Signals.s_init Signals.s_step Timeout.eff_timeout
  ConcPing.cp_init ConcPing.cp_step ConcPing.wf_prog
  ConcChannel.cc_init ConcChannel.cc_step ConcChannel.wf_cprog
  RunLoop.r_init RunLoop.r_step
  ConcExec.e_init ConcExec.e_step
  SrcAsync.a_init SrcAsync.a_step SrcAsync.w_init SrcAsync.w_step
  GenLife.gl_run
  StreamSrc.q_run StreamSrc.q_obs.
