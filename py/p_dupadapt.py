"""The same fd adapted twice (finding F16, fixed): the second adapt_io() fails and must leave everything as it was - the first
adapter's registration in particular. End-to-end case of harness/src/m_async.rs (asyncdup); used by the C15, C16 and C17 checks."""
import vlib

WANT = "second_err=1 still_nb=1 registered_after_failure=1 first_woken=1 epoll_clean=1 flags_ok=1"
WHAT = {
    "second_err=0": "a second adapt_io() of an fd that is already adapted succeeded",
    "registered_after_failure=0": "a failed adapt_io() removed the fd from the OS poller although another adapter of the same fd had registered it",
    "first_woken=0": "after a failed second adapt_io() of the same fd the first adapter's task was never woken: its registration was destroyed by the failed call",
    "still_nb=0": "a failed adapt_io() switched the fd back to blocking mode while another adapter of the same fd is alive",
    "epoll_clean=0": "the fd stayed registered with the OS poller after its only live adapter was dropped",
    "flags_ok=0": "the blocking mode the fd had before was not restored after its adapter was dropped",
}


def stage(chk, prop):
    cases = ["0", "1"]
    out, _ = vlib.run_impl(["asyncdup"], cases, timeout=300)
    chk.cov["same_fd_adapted_twice"] = {"cases": cases, "results": out}
    for c, o in zip(cases, out):
        if o.strip() != WANT:
            why = [v for k, v in WHAT.items() if k in o] or ["unexpected result"]
            chk.violation("oracle-dupadapt", "%s violated on the real code: %s\ndupadapt case (fd non-blocking beforehand): %s\n# result: %s"
                          % (prop, why[0], c, o[:300]))
            return


def replay(path):
    txt = open(path).read()
    cases = [l.split(":", 1)[1].strip() for l in txt.split("\n") if l.startswith("dupadapt case")]
    vlib.build_harness()
    out, _ = vlib.run_impl(["asyncdup"], cases)
    for c, o in zip(cases, out):
        print(c, "->", o)
    return 0 if all(o.strip() == WANT for o in out) else 1
