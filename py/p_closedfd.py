"""An fd closed behind the loop (C15): disable() of its source fails (EBADF); that failure must not affect any other source - a new source
over a new fd that gets the same number is accepted and served. End-to-end cases of harness/src/m_rawsrc.rs (closedfd)."""
import vlib

CASES = ["closed_fd", "closed_fd_remove"]
WANT = "disable_err=1 same_number=1 insert_ok=1 delivered=1"


def why(o):
    if "insert_ok=0" in o:
        return ("after a disable() that failed because the source's fd had been closed, an unrelated new source over a new fd with the same number was "
                "rejected: the failed call left something behind in the loop")
    if "delivered=0" in o:
        return "after a disable() that failed on a closed fd, a new source over a new fd with the same number was accepted but never called although ready"
    if "disable_err=0" in o:
        return "disable() of a source whose fd had been closed reported success"
    return "unexpected result"


def stage(chk, prop):
    out, _ = vlib.run_impl(["closedfd"], CASES, timeout=300)
    chk.cov["fd_closed_behind_the_loop"] = {"cases": CASES, "results": out}
    for c, o in zip(CASES, out):
        if o.strip() != WANT:
            chk.violation("oracle-closedfd", "%s violated on the real code: %s\nclosedfd case: %s\n# result: %s" % (prop, why(o), c, o[:300]))
            return


def replay(path):
    txt = open(path).read()
    cases = [l.split(":", 1)[1].strip() for l in txt.split("\n") if l.startswith("closedfd case")]
    vlib.build_harness()
    out, _ = vlib.run_impl(["closedfd"], cases)
    for c, o in zip(cases, out):
        print(c, "->", o)
    return 0 if all(o.strip() == WANT for o in out) else 1
