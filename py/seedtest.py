#!/usr/bin/env python3
"""Apply each seeded change to /repo, run the given checks, undo the change. Usage: seedtest.py [seed ids...] [--checks C01,C05]"""
import json
import os
import subprocess
import sys

ROOT = os.path.dirname(os.path.dirname(os.path.abspath(__file__)))


def main():
    args = [a for a in sys.argv[1:] if not a.startswith("--")]
    checks = None
    for a in sys.argv[1:]:
        if a.startswith("--checks="):
            checks = a.split("=", 1)[1].split(",")
    man = json.load(open(os.path.join(ROOT, "MANIFEST.json")))
    allchecks = [c["property_id"] for c in man["checks"]]
    seeds = args or sorted(os.listdir(os.path.join(ROOT, "seeded")))
    for sd in seeds:
        d = os.path.join(ROOT, "seeded", sd)
        patch = os.path.join(d, "patch.diff")
        if not os.path.exists(patch):
            continue
        meta = json.load(open(os.path.join(d, "meta.json")))
        assert subprocess.run("git -C /repo status --porcelain --untracked-files=no", shell=True, stdout=subprocess.PIPE, text=True).stdout.strip() == "", "/repo not clean"
        r = subprocess.run(["git", "-C", "/repo", "apply", patch])
        if r.returncode != 0:
            print(sd, "PATCH DOES NOT APPLY")
            continue
        out = {}
        try:
            for c in (checks or allchecks):
                p = subprocess.run(["./check", c, "--tier", "quick"], cwd=ROOT, stdout=subprocess.PIPE, stderr=subprocess.STDOUT, text=True)
                v = [l for l in p.stdout.split("\n") if l.startswith("VIOLATION")]
                out[c] = {"rc": p.returncode, "violations": v[:3]}
                if p.returncode != 0 and not v:
                    # a check that dies (exception, build error outside its own reporting) is not a catch
                    out[c]["crashed"] = p.stdout[-400:]
        finally:
            subprocess.run("git -C /repo checkout -- .", shell=True)
        caught = [c for c, o in out.items() if o["rc"] != 0 and o["violations"]]
        for c, o in out.items():
            if "crashed" in o:
                print("  !! check %s exited %d without a VIOLATION line (crash?): %s" % (c, o["rc"], o["crashed"][-160:].replace("\n", " | ")))
        concrete = [c for c, o in out.items() if any("no-failing-input-found" not in v for v in o["violations"])]
        print("%s (breaks %s): caught by %s; with a concrete failing input by %s" % (sd, meta["breaks_property"], caught, concrete))
        json.dump({"checks_run": list(out.keys()), "caught_by": caught, "concrete_by": concrete, "detail": out},
                  open(os.path.join(d, "result.json"), "w"), indent=1)


if __name__ == "__main__":
    main()
