"""C13 (decided on the sequential loop model; see p_seqprops.py, oracles.py, coq/props/C13.v)"""
import p_seqprops

PROPS = ["C13"]
PROFILES = [(3, {"idle_prob": 0.4, "err_ret_prob": 0.15, "script_prob": 0.9, "idle_burst_prob": 0.12}), (1, {})]


def main(tier, seed):
    return p_seqprops.run("C13", tier, seed, PROFILES, props=PROPS)


def replay(path):
    return p_seqprops.replay("C13", path, props=PROPS)
