"""C13 (decided on the sequential loop model; see p_seqprops.py, oracles.py, coq/props/C13.v)"""
import os
import subprocess
import tempfile

import p_seqprops

PROPS = ["C13"]
PROFILES = [(3, {"idle_prob": 0.4, "err_ret_prob": 0.15, "script_prob": 0.9, "idle_burst_prob": 0.12}), (1, {})]
# scenarios without timers (their clock is virtual) for the stage whose dispatches are given a real, non-zero timeout
TIMED_PROFILE = {"idle_prob": 0.5, "err_ret_prob": 0.1, "script_prob": 0.9, "idle_burst_prob": 0.1, "kinds": {"comp": 3, "ping": 3, "chan": 2},
                 "n_cmds": (8, 22)}
WAIT_MS = 15


def timed_stage(chk, st):
    """the same kind of scenarios with dispatch(Some(15 ms)) instead of dispatch(ZERO) (harness seqtimed): the order of events and idles, the
    queue and the cancellations must not depend on the timeout - the trace equals the model's and passes the C13 rules"""
    import gen_seq
    import oracles
    import seqlib
    import vlib
    n = 40 if chk.tier == "quick" else 400
    scens = gen_seq.gen_many(chk.seed * 7919 + 13, n, TIMED_PROFILE, prefix="C13t_")
    scens = ["=== C13t_idle_then_ping\nC newping 1 10\nC insert 1 ping 10\nC ping 1\nC idle 1\nD 0\nT\n",
             "=== C13t_idle_queues_idle\nS 1000001 0 0 1\nA idle 2\nC newping 1 10\nC insert 1 ping 10\nC idle 1\nC ping 1\nD 0\nT\nD 1\nT\n"] + scens
    by_id = {t.split("\n")[0][4:].strip(): t for t in scens}
    res, err = seqlib.run_scenarios(scens)          # the model's traces (and the zero-timeout implementation run)
    with tempfile.NamedTemporaryFile("w", suffix=".scn", delete=False, dir=os.path.join(vlib.ROOT, "replays")) as f:
        f.write("".join(scens))
        path = f.name
    try:
        p = subprocess.run([vlib.HARNESS, "seqtimed", path, str(WAIT_MS)], stdout=subprocess.PIPE, stderr=subprocess.PIPE, text=True, timeout=900)
    finally:
        os.unlink(path)
    traces = seqlib.split_traces(p.stdout)
    oracle = oracles.oracle_for(PROPS)
    bad, diverged = [], []
    for sid, text in by_id.items():
        tr = [l for l in traces.get(sid, []) if l.split()[0] != "20"]
        if sid not in res or not tr:
            continue
        fs = [f for f in oracle(text, tr) if not p_seqprops.classify(text, tr, f)]
        if fs:
            bad.append((sid, fs[0], tr))
        elif seqlib.first_diff(tr, res[sid][1]):
            diverged.append((sid, seqlib.first_diff(tr, res[sid][1]), tr))
    chk.cov["timed_idle_scenarios"] = {"cases": len(scens), "judged": len([s for s in by_id if s in traces]), "failing": len(bad), "diverging_from_model": len(diverged),
                                       "wait_ms": WAIT_MS, "rule": "harness seqtimed: every dispatch gets a real %d ms timeout; trace (without the elapsed-time lines) "
                                                                   "judged by the C13 rules and compared with the model's trace" % WAIT_MS}
    if bad:
        sid, f, tr = bad[0]
        chk.violation("oracle-timed", "C13 violated on the real code: %s\n# timed idle scenario (harness seqtimed <file> %d):\n%s# trace:\n%s"
                      % (f, WAIT_MS, by_id[sid], "\n".join("#   " + x for x in tr)))
    elif diverged:
        sid, d, tr = diverged[0]
        chk.violation("broken-timed", "C13 is no longer shown to hold: with a non-zero dispatch timeout the implementation's trace differs from the model's in %d of %d "
                      "scenarios; first %s at line %d: impl `%s` model `%s`\n# timed idle scenario (harness seqtimed <file> %d):\n%s# trace:\n%s"
                      % (len(diverged), len(scens), sid, d[0], d[1][:100], d[2][:100], WAIT_MS, by_id[sid], "\n".join("#   " + x for x in tr)), nofail=True)


def main(tier, seed):
    return p_seqprops.run("C13", tier, seed, PROFILES, props=PROPS, extra_front=timed_stage)


def replay(path):
    txt = open(path).read()
    if "timed idle scenario" in txt:
        import oracles
        import seqlib
        import vlib
        vlib.build_harness()
        vlib.build_model()
        i = txt.index("=== ")
        j = txt.index("# trace:")
        scn = txt[i:j]
        with tempfile.NamedTemporaryFile("w", suffix=".scn", delete=False) as f:
            f.write(scn)
        p = subprocess.run([vlib.HARNESS, "seqtimed", f.name, str(WAIT_MS)], stdout=subprocess.PIPE, text=True)
        os.unlink(f.name)
        tr = [l for l in (list(seqlib.split_traces(p.stdout).values()) or [[]])[0] if l.split()[0] != "20"]
        fs = oracles.oracle_for(PROPS)(scn, tr)
        res, _ = seqlib.run_scenarios([scn])
        d = None
        for _, (_, model) in res.items():
            d = seqlib.first_diff(tr, model)
        print(fs or d or "ok")
        return 1 if (fs or d) else 0
    return p_seqprops.replay("C13", path, props=PROPS)
