"""C08 (decided on the sequential loop model; see p_seqprops.py, oracles.py, coq/props/C08.v)"""
import p_seqprops

PROPS = ["C08", "C13"]   # a lost insert_idle from a callback is also "does not have the effect it would have outside"
PROFILES = [(3, {"script_prob": 1.0, "script_len": (2, 6), "self_panic_prob": 0.0, "idle_prob": 0.15, "idle_burst_prob": 0.08}), (1, {"self_panic_prob": 0.05})]


def handles_of_other_sources(chk, st):
    """`ping/send/schedule on calloop's own handles` from inside callbacks: the executor's Scheduler used from the executor's own
    completion callback and from inside a running future (harness/src/m_cexec.rs, cexecre)"""
    import p_c03
    import vlib
    cases = ["%d %d" % (n, d) for n in (1, 2, 5) for d in (0, 1, 3)]
    out = p_c03.run_batch(vlib.HARNESS, "cexecre", cases)
    bad = [(c, o) for c, o in zip(cases, out) if len(o.split()) != 3 or o.split()[2] != "0" or o.split()[0] != o.split()[1]]
    chk.cov["schedule_from_callbacks_cases"] = {"cases": cases, "results(delivered expected panicked)": out}
    if bad:
        c, o = bad[0]
        what = "schedule() from inside the executor's completion callback / a running future panicked (double borrow)" if o.endswith(" 1") or "PANIC" in o \
            else "tasks scheduled from inside callbacks were not all run"
        chk.violation("oracle-schedule", "C08 violated on the real code: %s\nscheduling from callbacks (tasks, generations): %s\n# result (delivered expected panicked): %s" % (what, c, o))


def main(tier, seed):
    return p_seqprops.run("C08", tier, seed, PROFILES, props=PROPS, extra_front=handles_of_other_sources)


def replay(path):
    txt = open(path).read()
    if "scheduling from callbacks (tasks, generations):" in txt:
        import p_c10
        return p_c10.replay(path)
    return p_seqprops.replay("C08", path, props=PROPS)
