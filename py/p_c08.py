"""C08 (decided on the sequential loop model; see p_seqprops.py, oracles.py, coq/props/C08.v)"""
import p_seqprops

PROPS = ["C08", "C13"]   # a lost insert_idle from a callback is also "does not have the effect it would have outside"
PROFILES = [(3, {"script_prob": 1.0, "script_len": (2, 6), "self_panic_prob": 0.0, "idle_prob": 0.15, "idle_burst_prob": 0.08}), (1, {"self_panic_prob": 0.05})]


def main(tier, seed):
    return p_seqprops.run("C08", tier, seed, PROFILES, props=PROPS)


def replay(path):
    return p_seqprops.replay("C08", path, props=PROPS)
