"""Property oracles over implementation traces of sequential scenarios.

One walker follows the scenario text and the implementation trace together and keeps a small abstract state
rebuilt from observable lines only (operation results, callback lines, the known callback scripts). Each
failure is a string "<PROP>/<kind>: text". The oracles are deliberately conservative: whenever the abstract
state of a handle becomes uncertain (a failed enable/update/disable, shared fds, ...) the handle is excused.
They judge the real code; the Coq theorems judge the model; the correspondence ties the two."""
import seqlib

EFD_MAX = 18446744073709551614
IDLE_BASE = 1000000


def unpack(key):
    return key >> 32, (key >> 16) & 0xFFFF, key & 0xFFFF


import collections as _collections
RULE_STATS = _collections.Counter()   # how often the premise of a rule was met (goes into the evidence)

class Walker:
    def __init__(self, text, trace):
        self.text, self.trace = text, trace
        self.scr, self.bs, _ = seqlib.parse_scripts(text)
        self.cmds = [l.split() for l in text.split("\n") if l[:2] in ("C ", "D ", "T", "E", "T\n") or l.strip() in ("T", "E")]
        self.fails = []
        # handle state
        self.kind = {}          # h -> kind
        self.spec = {}          # h -> insert words
        self.key = {}           # h -> registration key
        self.live = set()       # inserted and not removed
        self.dead = set()
        self.disabled = set()
        self.excused = set()    # state uncertain: not judged any more
        self.updated_while_disabled = set()
        self.cbcount = {}
        self.drops = {}
        self.user_disp = set()        # handles whose Dispatcher clone the scenario still holds
        self.reenabled = {}           # handle -> dispatch number of the enable() that ended its last disabled interval
        self.arm = {}                 # (composite handle, sub index from 1) -> sequence number of the (re)registration that armed it, or None
        self.arm_seq = 0
        self.unreleased_reported = set()
        # causes
        self.fdc = {}           # raw fd counters
        self.fd_users = {}      # fd -> set of handles using it
        self.ping_fd = {}       # p -> fd ; fd -> pending ping count in self.pingc
        self.ping_handles = {}  # p -> live handle count
        self.pingc = {}         # fd -> pending pings (count of pings since last drain)
        self.src_of_fd = {}     # fd -> handle of ping/chan source
        self.chan = {}          # c -> dict(q=[], senders=int, fd=, bound=, closed_delivered=False)
        self.excuse_why = {}    # h -> reasons it is no longer judged
        self.int_expect = {}    # (h, sub index) -> [interest, mode, stage] after a top-level set_interest (+ update)
        self.timer = {}         # h -> dict(dl=None|int, armed=bool)
        self.ctimer = {}        # composite h with a Timer sub-source -> dict(nsub, rereg_in)
        self.has_ctimer = False
        self.idle_queue = []    # idle ids queued, in order
        self.idle_cancelled = set()
        self.idle_ran = {}
        # dispatch context
        self.in_dispatch = False
        self.phase = None
        self.cur = None         # handle whose callback segment is open
        self.cur_idle = None
        self.pending_self = []  # (kind, h) applied when the segment closes: 'dead' / 'disabled'
        self.touched = set()    # handles named by any operation during the current dispatch
        self.snapshot = None
        self.disp = None

    def single_unshared_fd(self, h):
        """the fds of a source whose (un)registration is ONE poller call (ping, channel, composite with one sub-source and no Timer) when
        nobody else uses that fd: a failed call then changes nothing and the source's state stays known"""
        sp = self.spec.get(h)
        if not sp or h in self.ctimer:
            return None
        if sp[2] in ("ping", "chan"):
            fd = int(sp[-1])
            return fd if len(self.fd_users.get(fd, ())) <= 1 else None
        if sp[2] == "comp" and sp[4] == "1":
            fd = int(sp[5])
            return fd if len(self.fd_users.get(fd, ())) <= 1 else None
        return None

    def excuse(self, h, why):
        self.excused.add(h)
        self.excuse_why.setdefault(h, set()).add(why)

    def fail(self, prop, kind, msg):
        self.fails.append("%s/%s: %s" % (prop, kind, msg))
        if (prop, kind) in (("C06", "callback-after-remove"), ("C07", "callback-while-disabled")):
            # C01: a callback runs only while its source is inserted and enabled (the latitude for a source that removed or disabled
            # ITSELF is already applied by the rule that produced this failure)
            self.fails.append("C01/not-inserted-and-enabled: %s" % msg)
        if prop == "C14" and kind in ("disabled", "disabled-after-update"):
            # C07: disable() silences a source until enable() - its before_sleep hook (and the synthetic event it may produce) included
            self.fails.append("C07/hook-while-disabled: %s: a disabled source must not be called at all until enable()" % msg)
        if (prop, kind) == ("C07", "callback-while-disabled"):
            for h in sorted(getattr(self, "disabled_inside", ())):
                if ("source %d " % h) in msg:
                    self.fails.append("C08/self-disable-without-effect: disable() of source %d was called from inside its own callback and returned Ok "
                                      "(deferred), yet after that event's processing: %s" % (h, msg))
        if prop == "C06" and kind in ("callback-after-remove", "token-alive", "not-released"):
            # the same failure is a C08 failure when the remove() was issued from inside a callback / idle: it did not have the effect
            # it would have had outside a dispatch
            for h in sorted(getattr(self, "removed_inside", ())):
                if ("source %d " % h) in msg or ("source %d:" % h) in msg or msg.rstrip().endswith("source %d" % h) or ("of %d " % h) in msg:
                    self.fails.append("C08/remove-without-effect: remove() of source %d was called from inside a callback and returned, yet: %s" % (h, msg))
        if (prop, kind) in (("C02", "missed-timer"), ("C05", "missed"), ("C02", "missed")):
            # readiness survives the gap (C07): a source that was disabled and enabled again and then misses an event that is due
            for h, d in getattr(self, "reenabled", {}).items():
                if ("timer %d " % h) in msg or ("source %d " % h) in msg:
                    self.fails.append("C07/lost-over-gap: %s - source %d was disabled and enabled again (enable before dispatch %d): "
                                      "readiness that persisted over the disabled interval was not delivered" % (msg, h, d + 1))
        if prop == "C02" and kind.startswith("missed"):
            # an enabled source that goes silent right after another source was disabled / enabled / updated was disturbed by
            # that operation (C07, last clause)
            lt = getattr(self, "last_toggle", None)
            if lt is not None and self.disp_no - lt[0] <= 1 and ("source %d " % lt[1]) not in msg and ("timer %d " % lt[1]) not in msg:
                self.fails.append("C07/disturbed-other: %s - right after disable/enable/update of source %d (dispatch %d)" % (msg, lt[1], lt[0]))

    # ---------------------------------------------------------------- silent actions
    def fd_write(self, fd, v):
        c = self.fdc.get(fd, 0)
        if c + v <= EFD_MAX:
            self.fdc[fd] = c + v

    def silent(self, ws):
        """apply an action that leaves no trace line (or only an op line handled elsewhere)"""
        op = ws[0]
        if op == "fdwrite":
            self.fd_write(int(ws[1]), int(ws[2]))
        elif op == "fdread":
            self.fdc[int(ws[1])] = 0
        elif op == "newping":
            p, fd = int(ws[1]), int(ws[2])
            self.ping_fd[p] = fd
            self.ping_handles[p] = 1
            self.pingc[fd] = 0
        elif op == "ping":
            p = int(ws[1])
            if self.ping_handles.get(p, 0) > 0:
                self.pingc[self.ping_fd[p]] = self.pingc.get(self.ping_fd[p], 0) + 1
                if self.cur is not None or self.cur_idle is not None:
                    self.ping_inside = getattr(self, "ping_inside", {})
                    self.ping_inside[self.ping_fd[p]] = self.cur if self.cur is not None else -1      # issued from inside a callback / an idle
        elif op == "clonep":
            p = int(ws[1])
            if self.ping_handles.get(p, 0) > 0:
                self.ping_handles[p] += 1
        elif op == "dropp":
            p = int(ws[1])
            if self.ping_handles.get(p, 0) > 0:
                self.ping_handles[p] -= 1
        elif op == "newchan":
            self.chan[int(ws[1])] = dict(q=[], senders=1, fd=int(ws[2]), bound=int(ws[3]), closed=False, rx=True)
        elif op == "clonesender":
            c = self.chan.get(int(ws[1]))
            if c and c["senders"] > 0:
                c["senders"] += 1
        elif op == "dropsender":
            c = self.chan.get(int(ws[1]))
            if c and c["senders"] > 0:
                c["senders"] -= 1
        elif op == "idle":
            i = int(ws[1])
            self.idle_queue.append(i)
            self.idle_cancelled.discard(i)
            if self.cur_idle is not None:
                self.idle_born_in_idle_phase.add(i)
        elif op == "cancelidle":
            self.idle_cancelled.add(int(ws[1]))
        elif op == "setdl":
            pass  # handled on its op line
        elif op == "setint":
            h = int(ws[1])
            self.excuse(h, "setint")

    def run_script_silent(self, acts):
        for a in acts:
            if a[0] in ("fdwrite", "fdread", "newping", "ping", "clonep", "dropp", "newchan", "clonesender", "dropsender",
                        "idle", "cancelidle", "setint"):
                self.silent(a)
            if a[0] == "insert":
                self.note_insert_spec(a)

    def note_insert_spec(self, ws):
        h = int(ws[1])
        if ws[2] == "compt":
            # a composite with a Timer as its last sub-source: judged as a composite over its Generic sub-sources; the events
            # of the Timer sub-source (sub index n+1) are judged by their own rule in on_callback
            dl = int(ws[4])
            ws = ws[:2] + ["comp", ws[3]] + ws[5:]
            self.ctimer[h] = dict(nsub=int(ws[4]), rereg_in=None)
            self.has_ctimer = True
        self.kind[h] = ws[2]
        self.spec[h] = ws

    # ---------------------------------------------------------------- segment handling
    def close_segment(self):
        # the last self-directed deferred request wins; an explicit non-Continue return (or an error) overrides it
        last = {}
        for kind, h in self.pending_self:
            if kind in ("disabled", "undisabled"):
                last[h] = kind
        ret = getattr(self, "cur_ret", 0)
        for kind, h in self.pending_self:
            if kind == "dead":
                self.make_dead(h)
        if self.cur is not None and self.kind.get(self.cur) == "comp" and ret != 0:
            last.pop(self.cur, None)          # an explicit return (or an error) overrides the deferred request
            if ret == 2:
                last[self.cur] = "disabled"
        for h, kind in last.items():
            if kind == "disabled" and h in self.live:
                self.disabled.add(h)
                if h in self.timer:
                    self.timer[h]["armed"] = False
        self.cur_ret = 0
        self.pending_self = []
        self.cur = None
        self.cur_idle = None

    def slot_reuse_note(self, h):
        """a source that lives in a slot a removed source left and is not served: the removal was not final for the slot (C06)"""
        if h not in self.key:
            return
        sid = unpack(self.key[h])[0]
        for x in sorted(self.dead):
            if x != h and x in self.key and unpack(self.key[x])[0] == sid:
                self.fail("C06", "slot-reuse-affected", "source %d was inserted into the slot the removed source %d had left, is enabled and ready, and is "
                          "not called: the finished removal still affects the source that re-uses its slot" % (h, x))
                return

    def check_released(self, where):
        """C06, release clause (theorem C06_released_by_end_of_dispatch): between two top-level operations every removed source
        whose Dispatcher the scenario no longer holds has been dropped"""
        for h in sorted(self.dead):
            # ... and every removed composite has been told to unregister (it sees its own register / reregister / unregister calls)
            if getattr(self, "reg_state", {}).get(h) and h not in self.excused and h not in self.failed_insert and h not in getattr(self, "still_reg_reported", set()):
                self.still_reg_reported = getattr(self, "still_reg_reported", set())
                self.still_reg_reported.add(h)
                self.fail("C06", "not-unregistered", "source %d was removed, yet the last thing it was told is that it is registered: its unregister() "
                          "had not been called %s - it is not released" % (h, where))
        for h in sorted(self.dead):
            if h in self.user_disp or h in self.excused or h in self.failed_insert or h in self.unreleased_reported:
                continue
            RULE_STATS["C06/not-released: removed handles judged (dispatcher not user-held)"] += 1
            if self.drops.get(h, 0) == 0:
                self.unreleased_reported.add(h)
                self.fail("C06", "not-released", "source %d was removed and nobody else holds its dispatcher, but its source/callback "
                          "had not been dropped %s" % (h, where))

    def make_dead(self, h):
        if h in self.live:
            self.live.discard(h)
            self.dead.add(h)
            self.disabled.discard(h)
            if h in self.timer:
                self.timer[h]["armed"] = False

    # ---------------------------------------------------------------- operation lines
    def on_op(self, ws):
        op, h, res = int(ws[1]), int(ws[2]), int(ws[3])
        if op in (10, 11):   # send / trysend on channel h
            c = self.chan.get(h)
            if c is not None and res == 0:
                c["q"].append(None)
            return
        self.touched.add(h)
        insider = (self.cur == h)
        if op in (3, 4, 5) and res == 0:
            self.last_toggle = (self.disp_no, h)
        if op == 5 and not self.in_dispatch:
            for k, v in list(self.int_expect.items()):
                if k[0] == h and v[2] == "updating":
                    if res == 0:
                        v[2] = "applied"
                    else:
                        del self.int_expect[k]
        if op in (8, 9) and res == 0:
            self.user_disp.discard(h)
        if op == 1:
            if res == 0:
                self.live.add(h)
                self.user_disp.add(h)
                self.peak_live = max(getattr(self, "peak_live", 0), len(self.live))
                if len(ws) > 4:
                    self.key[h] = int(ws[4])
                sp = self.spec.get(h)
                if sp and sp[2] == "timer":
                    dl = int(sp[3])
                    self.timer[h] = dict(dl=None if dl < 0 else dl, armed=dl >= 0)
                if sp and sp[2] == "comp":
                    subs = sp[5:]
                    for j in range(0, len(subs), 3):
                        fd = int(subs[j])
                        self.fd_users.setdefault(fd, set()).add(h)
                if sp and sp[2] in ("ping", "chan"):
                    self.src_of_fd[int(sp[-1])] = h
            else:
                self.failed_insert.add(h)
                self.excuse(h, "insert-failed")
                sp = self.spec.get(h)
                if sp and sp[2] == "comp":
                    # the rejected composite still exists (the caller got it back) and the sub-sources it registered before the one that
                    # failed keep their fds in the poller until it is dropped: those fds count as shared from now on
                    subs = sp[5:]
                    for j in range(0, len(subs), 3):
                        self.fd_users.setdefault(int(subs[j]), set()).add(h)
        elif op == 2:
            if self.cur is not None or self.cur_idle is not None:
                self.removed_inside = getattr(self, "removed_inside", set())
                self.removed_inside.add(h)
            if insider and h in self.live:
                self.last_self_removed = (self.disp_no, h)
            if h in self.live:
                if insider:
                    self.pending_self.append(("dead", h))
                else:
                    self.make_dead(h)
        elif op == 3:
            if h in self.dead and res != 1:
                self.fail("C06", "token-alive", "disable() with the token of removed source %d returned %d instead of InvalidToken" % (h, res))
            if res == 0 and h in self.live:
                if insider:
                    self.disabled_inside = getattr(self, "disabled_inside", set())
                    self.disabled_inside.add(h)
                    self.pending_self.append(("disabled", h))
                else:
                    self.disabled.add(h)
                    if h in self.timer:
                        self.timer[h]["armed"] = False
            elif res in (2, 3):
                self.excuse(h, "disable-failed")
                self.reg_failed = True
        elif op == 4:
            if h in self.dead and res != 1:
                self.fail("C06", "token-alive", "enable() with the token of removed source %d returned %d instead of InvalidToken" % (h, res))
            if res == 0 and h in self.live:
                # a register() that failed changed nothing for a source with one sub-source; once a later register() succeeds its
                # state is known again
                sp0 = self.spec.get(h)
                if self.excuse_why.get(h) == {"register-failed"} and sp0 and sp0[2] == "comp" and sp0[4] == "1" and h not in self.ctimer:
                    self.excused.discard(h)
                    self.excuse_why.pop(h, None)
                if h not in self.disabled:
                    self.double_enabled.add(h)
                else:
                    self.reenabled[h] = self.disp_no      # enabled again after a disable(): what was ready must now be delivered (C07)
                getattr(self, "disabled_inside", set()).discard(h)
                self.disabled.discard(h)
                self.updated_while_disabled.discard(h)
                if h in self.timer and self.timer[h]["dl"] is not None:
                    self.timer[h]["armed"] = True
                    self.timer[h]["armed_in"] = self.disp_no
                    self.timer[h]["stale_arming"] = False
                    if self.in_dispatch and self.snapshot is not None:
                        self.timer[h]["rearmed_in_batch"] = self.disp_no
            elif res in (2, 3):
                if h in self.live and self.single_unshared_fd(h) is not None:
                    pass      # e.g. enable() of a source that is already enabled (EEXIST): nothing may change (C15), it stays judged
                else:
                    self.excuse(h, "register-failed")
        elif op == 5:
            if h in self.dead and res != 1:
                self.fail("C06", "token-alive", "update() with the token of removed source %d returned %d instead of InvalidToken" % (h, res))
            if res == 0 and h in self.live:
                if insider:
                    self.pending_self.append(("undisabled", h))
                if h in self.disabled and not insider and self.single_unshared_fd(h) is not None:
                    # the poller cannot modify an fd it does not hold: update() of a disabled fd-backed source can only answer Ok if it
                    # registered the fd again - without enable()
                    self.fail("C16", "disabled-reregistered", "update() of the disabled source %d returned Ok: its fd was registered with the OS poller again "
                              "without enable()" % h)
                    self.fail("C07", "update-reenables", "update() of the disabled source %d returned Ok and registered it again: only enable() may end "
                              "the disabled interval" % h)
                if h in self.disabled:
                    self.updated_while_disabled.add(h)
                    if self.kind.get(h) == "comp":
                        # only possible when another source registered the same fd meanwhile (shared fds): state unknown
                        self.excuse(h, "update-while-disabled")
                if h in self.timer and not insider and self.timer[h]["dl"] is not None and h not in self.disabled:
                    self.timer[h]["armed"] = True
                    self.timer[h]["armed_in"] = self.disp_no
                    self.timer[h]["stale_arming"] = False
                    if self.in_dispatch and self.snapshot is not None:
                        # re-armed by a callback after this dispatch polled: an expiry already collected may still arrive (finding F5)
                        self.timer[h]["rearmed_in_batch"] = self.disp_no
            elif res in (2, 3):
                self.excuse(h, "update-failed")
        elif op == 7:
            if res == 0 and h in self.timer:
                self.timer[h]["dl_set"] = True   # deadline changed without re-arming: the old arming stays until update
                self.timer[h]["newdl"] = None
                # the new deadline value is in the command text; found by the caller
        elif op in (8, 9):
            pass

    # ---------------------------------------------------------------- main walk
    def walk(self):
        self.failed_insert = set()
        self.reg_failed = False
        self.double_enabled = set()
        self.idle_born_in_idle_phase = set()
        self.disp_no = 0
        cmd_i = -1
        bs_seen, bh_seen, cb_started, idle_started = [], [], False, False
        timer_cb_last = None
        batch = None
        pre_dispatch_idles = []
        for li, line in enumerate(self.trace):
            ws = line.split()
            tag = ws[0]
            if tag == "17":
                self.close_segment()
                if cmd_i >= 0:
                    self.check_released("when top-level operation %d had returned" % cmd_i)
                cmd_i += 1
                cmd = self.cmds[cmd_i] if cmd_i < len(self.cmds) else ["?"]
                self.in_dispatch = False
                if cmd[0] == "C":
                    a = cmd[1:]
                    # set_interest followed by update(), both between dispatches: what the kernel must show afterwards (C16)
                    if a[0] == "setint":
                        self.int_expect[(int(a[1]), int(a[2]))] = [int(a[3]), int(a[4]), "set"]
                    elif a[0] == "update":
                        for k, v in self.int_expect.items():
                            if k[0] == int(a[1]) and v[2] == "set":
                                v[2] = "updating"
                    elif a[0] in ("insert", "remove", "disable", "enable", "intoinner", "dropdisp") and len(a) > 1:
                        self.int_expect = {k: v for k, v in self.int_expect.items() if k[0] != int(a[1])}
                    if a[0] == "insert":
                        self.note_insert_spec(a)
                    if a[0] == "setdl":
                        self.last_setdl = (int(a[1]), int(a[2]))
                    self.run_script_silent([a])
                elif cmd[0] == "D":
                    self.int_expect = {}
                    self.in_dispatch = True
                    self.disp_no += 1
                    self.phase = int(cmd[1])
                    self.touched = set()
                    bs_seen, bh_seen, cb_started, idle_started = [], [], False, False
                    timer_cb_last = None
                    batch = None
                    self.idle_born_in_idle_phase = set()
                    self.snapshot = None
                continue
            if tag == "0":
                continue
            if tag == "10":
                self.on_panic(int(ws[1]), cmd_i)
                break
            if tag == "1":
                if int(ws[1]) == 7:
                    # find the deadline text of this setdl (top-level command or script action); every setdl line advances the count
                    h = int(ws[2])
                    val = self.find_setdl_value(h, cmd_i)
                    if int(ws[3]) == 0 and h in self.timer and val is not None:
                        self.timer[h]["dl"] = val
                        self.timer[h]["stale_arming"] = True
                self.on_op(ws)
                continue
            if tag == "15":
                h = int(ws[1])
                self.drops[h] = self.drops.get(h, 0) + 1
                if self.drops[h] > 1:
                    self.fail("C06", "double-drop", "source/callback of %d dropped %d times" % (h, self.drops[h]))
                continue
            if tag == "16":
                hh = int(ws[1])
                if hh in self.ctimer and ws[2] in ("0", "1") and self.in_dispatch and self.snapshot is not None:
                    # the composite (and its Timer) was (re)registered after this dispatch polled: an expiry already in the
                    # batch may still arrive and leave a second wheel entry behind (finding F5)
                    self.ctimer[hh]["rereg_in"] = self.disp_no
                if ws[3] == "0":
                    self.reg_state = getattr(self, "reg_state", {})
                    self.reg_state[hh] = ws[2] in ("0", "1")      # what the composite itself was last told: registered / unregistered
                sp16 = self.spec.get(hh)
                if sp16 and sp16[2] == "comp":
                    nsub = (len(sp16) - 5) // 3
                    if ws[3] == "0" and ws[2] in ("0", "1"):
                        self.arm_seq += 1
                        for j in range(1, nsub + 1):
                            self.arm[(hh, j)] = self.arm_seq      # a successful (re)registration arms one-shot / edge subs again
                    else:
                        for j in range(1, nsub + 1):
                            self.arm[(hh, j)] = None              # unregistered, or a failed call: state not relied upon
                if ws[3] != "0":
                    self.reg_failed = True
                    self.excuse(int(ws[1]), "register-failed" if ws[2] == "0" else "reregister-failed")   # a failed (re/un)registration leaves the source in an unknown state
                continue
            if tag == "3":    # before_sleep
                self.close_segment()
                h = int(ws[1])
                if batch is not None or cb_started:
                    self.fail("C14", "order", "before_sleep of %d after the wait of the same dispatch" % h)
                if h in bs_seen:
                    self.fail("C14", "twice", "before_sleep called twice for source %d in one dispatch" % h)
                bs_seen.append((h, int(ws[2])))
                if h not in self.excused:
                    if h in self.dead:
                        self.fail("C14", "removed", "before_sleep called for removed source %d" % h)
                    elif h in self.disabled:
                        kind = "disabled-after-update" if h in self.updated_while_disabled else "disabled"
                        self.fail("C14", kind, "before_sleep called for disabled source %d" % h)
                continue
            if self.in_dispatch and batch is None and (tag in ("4", "2", "5") or (tag == "6" and int(ws[2]) == 0)):
                # the dispatch went on (hooks, callbacks, idles, an Ok result) without ever asking the poller: it is judged as a wait that
                # reported nothing - whatever was ready at this point and is not dispatched in it was missed (C02)
                self.close_segment()
                batch = []
                self.take_snapshot()
                self.snapshot["batch_keys"] = set()
                RULE_STATS["C02/no-poll: dispatches that never waited on the poller"] += 1
            if tag == "7":    # batch = the wait happened
                self.close_segment()
                batch = [int(x) for x in ws[1:]]
                self.take_snapshot()
                self.snapshot["batch_keys"] = set(c // 4 for c in batch)
                # every enabled lifecycle source must have had its before_sleep
                got = [h for h, _ in bs_seen]
                if len(set(got)) != len(got):
                    self.fail("C14", "twice", "before_sleep called more than once for a source: %s" % got)
                for h in sorted(self.live):
                    sp = self.spec.get(h)
                    if sp and sp[2] == "comp" and sp[3] == "1" and h not in self.disabled and h not in self.excused and h not in got:
                        self.fail("C14", "missing", "enabled lifecycle source %d got no before_sleep in this dispatch" % h)
                        x = getattr(self, "last_self_removed", None)
                        if x is not None and x[1] != h and self.disp_no - x[0] <= 1 and h not in self.touched:
                            # nothing named source h since; the only thing that was applied in between is the removal another source
                            # had asked for itself from inside its callback (carried out when that event's processing ended)
                            self.fail("C09", "applied-to-another-source", "source %d removed itself from inside its callback in dispatch %d; when that "
                                      "removal was carried out at the end of the event's processing it also took away the lifecycle registration of "
                                      "source %d, which nobody asked to change: it gets no before_sleep any more" % (x[1], x[0], h))
                continue
            if tag == "4":    # before_handle_events
                self.close_segment()
                h = int(ws[1])
                if cb_started:
                    self.fail("C14", "order", "before_handle_events of %d after event processing began" % h)
                if h in [x for x, _ in bh_seen]:
                    self.fail("C14", "twice", "before_handle_events called twice for source %d in one dispatch" % h)
                evs = [int(x) for x in ws[2:]]
                bh_seen.append((h, evs))
                if h not in [x for x, _ in bs_seen]:
                    self.fail("C14", "order", "before_handle_events for %d without a before_sleep in this dispatch" % h)
                if h in self.key and batch is not None:
                    kid, kver, _ = unpack(self.key[h])
                    mine = [e for e in batch if unpack(e // 4)[0:2] == (kid, kver)]
                    if sorted(mine) != sorted(evs):
                        self.fail("C14", "iterator", "before_handle_events of source %d yielded %s but the polled events of that source are %s"
                                  % (h, evs, mine))
                continue
            if tag == "2":    # callback
                h, sub, payload = int(ws[1]), int(ws[2]), int(ws[3])
                if not (self.cur == h and self.kind.get(h) in ("chan",)):
                    self.close_segment()
                if not cb_started:
                    cb_started = True
                    if [x for x, _ in bs_seen] != [x for x, _ in bh_seen] and batch is not None:
                        self.fail("C14", "missing", "before_sleep went to %s but before_handle_events to %s"
                                  % ([x for x, _ in bs_seen], [x for x, _ in bh_seen]))
                if idle_started:
                    self.fail("C13", "order", "source callback of %d after an idle callback in the same dispatch" % h)
                self.cur = h
                self.on_callback(h, sub, payload, timer_cb_last)
                if self.kind.get(h) == "timer":
                    timer_cb_last = payload
                continue
            if tag == "5":    # idle
                self.close_segment()
                i = int(ws[1])
                if not idle_started:
                    idle_started = True
                    pre_dispatch_idles = list(self.idle_queue)
                    self.idle_queue = []
                    self.idle_expect = [x for x in pre_dispatch_idles]
                self.cur_idle = i
                self.idle_ran[i] = self.idle_ran.get(i, 0) + 1
                if self.idle_ran[i] > 1:
                    self.fail("C13", "twice", "idle %d ran %d times" % (i, self.idle_ran[i]))
                if i in self.idle_cancelled:
                    self.fail("C13", "cancelled", "idle %d ran although it was cancelled" % i)
                if i in self.idle_born_in_idle_phase:
                    self.fail("C13", "same-dispatch", "idle %d was inserted by an idle callback and ran in the same dispatch" % i)
                # order: must be the next non-cancelled one of the expected list
                while self.idle_expect and (self.idle_expect[0] in self.idle_cancelled or self.idle_ran.get(self.idle_expect[0], 0) > 0 and self.idle_expect[0] != i):
                    self.idle_expect.pop(0)
                if self.idle_expect and self.idle_expect[0] == i:
                    self.idle_expect.pop(0)
                elif i in pre_dispatch_idles:
                    self.fail("C13", "order", "idle %d ran out of insertion order" % i)
                else:
                    self.fail("C13", "unknown", "idle %d ran but was not queued before the idle phase" % i)
                sc = self.scr.get(IDLE_BASE + i, [])
                if sc:
                    self.run_script_silent(sc[0][2])
                continue
            if tag == "6":    # dispatch end
                self.close_segment()
                ok = int(ws[2]) == 0
                er = getattr(self, "err_returned", None)
                if er is not None and er[0] == self.disp_no:
                    RULE_STATS["C15/error-swallowed: dispatches in which a source returned Err"] += 1
                    if ok:
                        self.fail("C15", "error-swallowed", "the event processing of source %d returned an error in this dispatch, but dispatch() returned Ok(())" % er[1])
                if (not ok and (er is None or er[0] != self.disp_no) and not any(c >= 2 for _, c in bs_seen) and not self.failed_insert
                        and not self.reg_failed and all(len(u) <= 1 for u in self.fd_users.values())):
                    # no hook and no source reported an error, no registration ever failed and no fd is shared: nothing the sources did
                    # can explain a failing dispatch - a handle call made from inside a callback (they all answered Ok) broke the loop
                    RULE_STATS["C08/dispatch-failed-without-cause: failing dispatches judged"] += 1
                    self.fail("C08", "dispatch-failed-without-cause", "dispatch() returned Err although no before_sleep hook and no source's event "
                              "processing reported an error and every handle call made from inside the callbacks answered Ok: the rest of the batch "
                              "was abandoned because of what a callback legitimately did")
                elif not ok:
                    RULE_STATS["C08/dispatch-failed-without-cause: failing dispatches with a cause (not judged)"] += 1
                self.err_returned = None
                if self.snapshot is not None:
                    # a reported one-shot / edge sub has used up the arming it had when the dispatch polled, however the dispatch ends
                    for k in getattr(self, "fired_subs", set()):
                        a = self.snapshot.get("armed", {}).get(k)
                        if a is not None and self.arm.get(k) == a:
                            self.arm[k] = None
                if ok:
                    if not idle_started:
                        pre = list(self.idle_queue)
                        self.idle_queue = []
                        self.idle_expect = pre
                    left = [x for x in getattr(self, "idle_expect", []) if x not in self.idle_cancelled and self.idle_ran.get(x, 0) == 0]
                    if left:
                        self.fail("C13", "missing", "idles %s were queued before the idle phase of an Ok dispatch but did not run" % left)
                    self.idle_expect = []
                    self.check_dispatch_ok(bs_seen)
                else:
                    # idles stay queued for the next dispatch
                    if idle_started:
                        self.fail("C13", "order", "idle callbacks ran in a dispatch that returned an error")
                    self.after_failed_dispatch()
                self.in_dispatch = False
                continue
            if tag == "8":
                if ws[1] != "0":
                    self.fail("C09", "pending-left", "a post action (%s) is still pending after the dispatch finished" % ws[1])
                continue
            if tag == "12":
                self.slot_lines = getattr(self, "slot_lines", 0) + 1
                continue
            if tag == "13":
                # end of the slot dump of one T command: vacated slots are handed out again (lowest first), so the slot vector never
                # grows beyond the largest number of sources that were inserted at one time, plus one for a rejected insertion that
                # found no vacant slot (C15: no slot is leaked by a failed insertion)
                n, self.slot_lines = getattr(self, "slot_lines", 0), 0
                if self.failed_insert and n > getattr(self, "peak_live", 0) + 1:
                    self.fail("C15", "slot-leak", "the loop holds %d source slots although at most %d sources were ever inserted at one time: "
                              "the slots of rejected insertions (%s) were not handed out again" % (n, getattr(self, "peak_live", 0), sorted(self.failed_insert)))
                continue
            if tag == "14":
                self.check_wheel(ws[1:])
                continue
            if tag == "9":
                self.check_epoll([int(x) for x in ws[1:]])
                continue
        else:
            self.close_segment()
            self.check_released("at the end of the history")
        return self.fails

    def find_setdl_value(self, h, cmd_i):
        """the deadline text of the setdl op line just seen: the n-th setdl of h in the script being run (a script may set the
        deadline of one timer several times), or the top-level command"""
        ctx, acts = None, None
        if self.cur is not None:
            k = self.cbcount.get(self.cur, 1) - 1
            ent = self.scr.get(self.cur, [])
            if k < len(ent):
                ctx, acts = ("cb", self.cur, k), ent[k][2]
        if acts is None and self.cur_idle is not None:
            ent = self.scr.get(IDLE_BASE + self.cur_idle, [])
            if ent:
                ctx, acts = ("idle", self.cur_idle), ent[0][2]
        if acts is not None:
            seen = getattr(self, "_setdl_seen", None)
            if seen is None or seen[0] != ctx:
                seen = (ctx, {})
                self._setdl_seen = seen
            n = seen[1].get(h, 0)
            seen[1][h] = n + 1
            vals = [int(a[2]) for a in acts if a[0] == "setdl" and int(a[1]) == h]
            if n < len(vals):
                return vals[n]
            if vals:
                return vals[-1]
        if 0 <= cmd_i < len(self.cmds):
            c = self.cmds[cmd_i]
            if c[0] == "C" and c[1] == "setdl" and int(c[2]) == h:
                return int(c[3])
        return None

    # ---------------------------------------------------------------- callbacks
    def on_callback(self, h, sub, payload, timer_cb_last):
        k = self.cbcount.get(h, 0)
        self.cbcount[h] = k + 1
        ent = self.scr.get(h, [])
        sc = ent[k] if k < len(ent) else (0, 0, [])
        kind = self.kind.get(h)
        judged = h not in self.excused
        now = 2 * self.phase + 1 if self.phase is not None else None
        # --- C06 / C07 / C01: liveness
        if judged:
            if h in self.dead:
                self.fail("C06", "callback-after-remove", "callback of source %d ran after the source was removed" % h)
            elif h in self.disabled:
                k2 = "callback-after-update" if h in self.updated_while_disabled else "callback-while-disabled"
                self.fail("C07", k2, "callback of source %d ran while the source is disabled" % h)
            elif h not in self.live:
                self.fail("C01", "never-inserted", "callback of source %d which is not inserted" % h)
        # --- causes
        snap = self.snapshot or {}
        ct = self.ctimer.get(h)
        timer_sub = ct is not None and sub == ct["nsub"] + 1
        if timer_sub:
            # Timer sub-source of a composite: the reported deadline must be due. A Timer re-registered while its expiry was
            # already in this dispatch's batch is the known stale-batch-event corner (finding F5)
            if ct["rereg_in"] == self.disp_no:
                ct["dup"] = True
            if judged and now is not None and payload > now:
                if ct.get("dup"):
                    self.fail("C05", "early-rearmed-in-batch" if ct["rereg_in"] == self.disp_no else "early-after-rearm-in-batch", "the Timer sub-source of composite %d fired at phase %d with deadline %d still in the future" % (h, self.phase, payload))
                else:
                    self.fail("C01", "stale-timeout", "the Timer sub-source of composite %d was called back at phase %d for a timeout that is not its current arming: "
                              "the reported deadline %d is still in the future (a cancelled arming fired)" % (h, self.phase, payload))
                    self.fail("C05", "early", "the Timer sub-source of composite %d fired at phase %d with deadline %d still in the future" % (h, self.phase, payload))
        if kind == "comp" and judged and not timer_sub:
            sp = self.spec.get(h)
            if sub >= 1 and sp:
                subs = sp[5:]
                j = (sub - 1) * 3
                if j + 2 < len(subs):
                    fd = int(subs[j])
                    c = snap.get("fdc", {}).get(fd, 0)
                    if (payload & 1) and c == 0:
                        self.fail("C01", "no-cause", "source %d sub %d reported readable but its fd %d was not readable when the dispatch polled" % (h, sub, fd))
                        if self.failed_insert:
                            self.fail("C15", "rejected-source-event", "source %d sub %d was called back for readiness that is not its own after an insertion was "
                                      "rejected (%s): an event of the rejected source's leftover registration reached a later source" % (h, sub, sorted(self.failed_insert)))
                    if (payload & 2) and c >= EFD_MAX:
                        self.fail("C01", "no-cause", "source %d sub %d reported writable but its fd %d was not writable when the dispatch polled" % (h, sub, fd))
                else:
                    self.fail("C01", "foreign-sub", "source %d got an event for sub-source %d which it does not have" % (h, sub))
            if sub == 0:
                # synthetic event: must have been produced by this source's before_sleep in this dispatch
                pass
        if kind == "ping":
            sp = self.spec.get(h)
            fd = int(sp[3]) if sp else None
            if judged and fd is not None and self.pingc.get(fd, 0) == 0:
                self.fail("C03", "spurious", "ping source %d called back without a ping since its last callback" % h)
            if fd is not None:
                self.pingc[fd] = 0
                getattr(self, "ping_inside", {}).pop(fd, None)
        if kind == "chan":
            sp = self.spec.get(h)
            c = self.chan.get(int(sp[3])) if sp else None
            if c is not None:
                if sub == 0:
                    if judged and not c["q"]:
                        self.fail("C04", "phantom", "channel source %d delivered a message that was never sent" % h)
                    if c["q"]:
                        c["q"].pop(0)
                    if c["closed"] and judged:
                        self.fail("C04", "after-closed", "channel source %d delivered a message after Closed" % h)
                else:
                    if judged and (c["senders"] > 0 or c["q"]):
                        self.fail("C04", "early-closed", "channel source %d delivered Closed with %d senders alive and %d messages queued"
                                  % (h, c["senders"], len(c["q"])))
                    if c["closed"] and judged:
                        self.fail("C04", "closed-twice", "channel source %d delivered Closed twice" % h)
                    c["closed"] = True
                    self.pending_self.append(("dead", h))
        if kind == "timer":
            t = self.timer.get(h)
            if t is not None and judged:
                stale = t.get("stale_arming")
                kk = "-after-setdl" if stale else ""
                if t.get("rearmed_in_batch") == self.disp_no:
                    kk = "-rearmed-in-batch"
                if t.get("dup_entries"):
                    kk = "-after-rearm-in-batch"
                if now is not None and payload > now:
                    self.fail("C05", "early" + kk, "timer %d fired at phase %d with deadline %d still in the future" % (h, self.phase, payload))
                if t["dl"] is not None and payload != t["dl"]:
                    self.fail("C05", "wrong-deadline" + kk, "timer %d fired with event %d but its current deadline is %d" % (h, payload, t["dl"]))
                if not t["armed"]:
                    self.fail("C05", "fired-unarmed" + kk, "timer %d fired although its arming was cancelled or had already fired" % h)
                if timer_cb_last is not None and payload < timer_cb_last and not any(x.get("rearmed_in_batch") == self.disp_no or x.get("dup_entries") for x in self.timer.values()):
                    self.fail("C05", "order", "timer %d (deadline %d) fired after a timer with deadline %d in the same dispatch" % (h, payload, timer_cb_last))
            if t is not None:
                if t.get("rearmed_in_batch") == self.disp_no:
                    t["dup_entries"] = True     # F5 leaves two wheel entries with one counter behind
                t["armed"] = False
                t["fired_in"] = self.disp_no
                ret, arg = sc[0], sc[1]
                if ret == 1:
                    t["dl"] = arg
                    t["armed"] = True
                    t["armed_in"] = self.disp_no
                    t["stale_arming"] = False
                else:
                    self.pending_self.append(("dead", h))
        # --- what the script does
        self.run_script_silent(sc[2])
        self.cur_ret = sc[0] if (kind == "comp" and not timer_sub) else 0
        if kind == "comp" and not timer_sub:
            if sc[0] == 3:
                self.pending_self.append(("dead", h))
            if sc[0] == 4:
                self.err_returned = (self.disp_no, h)      # this source's process_events returns Err: the dispatch must report it (C15)
            if sc[0] != 0:
                # a post action other than Continue (Reregister / Disable / Remove / Err) is an operation of the source on itself:
                # events for its other sub-sources later in the same batch may legitimately be dropped (C02's own exception)
                self.post_acted = getattr(self, "post_acted", set())
                self.post_acted.add(h)
        self.fired_this_dispatch = getattr(self, "fired_this_dispatch", set())
        self.fired_this_dispatch.add(h)
        self.fired_subs = getattr(self, "fired_subs", set())
        self.fired_subs.add((h, sub))

    # ---------------------------------------------------------------- per-dispatch checks
    def take_snapshot(self):
        self.fired_this_dispatch = set()
        self.fired_subs = set()
        self.post_acted = set()
        self.snapshot = dict(
            fdc=dict(self.fdc),
            pingc=dict(self.pingc),
            chan={c: (len(v["q"]), v["senders"], v["closed"]) for c, v in self.chan.items()},
            timers={h: (t["dl"], t["armed"]) for h, t in self.timer.items()},
            enabled={h for h in self.live if h not in self.disabled},
            excused=set(self.excused),
            armed=dict(self.arm))

    def check_dispatch_ok(self, bs_seen):
        snap = self.snapshot
        if not snap:
            return
        now = 2 * self.phase + 1
        fired = getattr(self, "fired_this_dispatch", set())
        # one-shot / edge-triggered subs (C02: reported once per arming, re-armed by every successful (re)registration): a sub that was
        # armed and ready when the dispatch polled must be reported in it; being reported consumes the arming
        fsubs = getattr(self, "fired_subs", set())
        for h in sorted(snap["enabled"]):
            sp = self.spec.get(h)
            if self.kind.get(h) != "comp" or not sp or h in self.ctimer:
                continue
            subs = sp[5:]
            for j in range(0, len(subs), 3):
                fd, it, md = int(subs[j]), int(subs[j + 1]), int(subs[j + 2])
                k = (h, j // 3 + 1)
                a = snap.get("armed", {}).get(k)
                if md == 0 or a is None or len(self.fd_users.get(fd, ())) > 1:
                    continue
                c = snap["fdc"].get(fd, 0)
                ready = ((it & 1) and c > 0) or ((it & 2) and c < EFD_MAX)
                if not ready:
                    continue
                RULE_STATS["C02/missed-oneshot: armed and ready one-shot/edge subs judged"] += 1
                if k in fsubs:
                    if self.arm.get(k) == a:
                        self.arm[k] = None
                elif not (h in snap["excused"] or h in self.excused or h in self.touched or h in getattr(self, "post_acted", ())):
                    self.fail("C02", "missed-oneshot", "%s sub %d (fd %d, counter %d, interest %d) of enabled source %d was armed by its last "
                              "(re)registration and ready when the dispatch polled, but was not reported" %
                              ("one-shot" if md == 2 else "edge-triggered", k[1], fd, c, it, h))
        for h in sorted(snap["enabled"]):
            if h in snap["excused"] or h in self.excused or h in self.touched or h in fired:
                continue
            kind = self.kind.get(h)
            sp = self.spec.get(h)
            if kind == "timer":
                dl, armed = snap["timers"].get(h, (None, False))
                if armed and dl is not None and dl <= now and not self.timer[h].get("stale_arming"):
                    self.fail("C05", "missed", "timer %d (deadline %d) was due at phase %d but did not fire in that Ok dispatch" % (h, dl, self.phase))
                    self.fail("C02", "missed-timer", "expired timer %d not dispatched" % h)
                    self.fail("C12", "due-timer-not-fired", "timer %d (deadline %d) was armed and due when the dispatch at phase %d waited, yet the dispatch returned "
                              "Ok without firing it: the loop would sleep past it" % (h, dl, self.phase))
            elif kind == "ping" and sp:
                if snap["pingc"].get(int(sp[3]), 0) > 0:
                    self.fail("C02", "missed-ping", "ping source %d had an unconsumed ping when the dispatch polled but was not called" % h)
                    self.fail("C03", "lost-ping", "a ping() on source %d returned before this dispatch polled, the source is inserted and enabled, "
                              "and the dispatch returned Ok without calling it back" % h)
                    self.slot_reuse_note(h)
                    who = getattr(self, "ping_inside", {}).get(int(sp[3]))
                    if who is not None:
                        self.fail("C08", "ping-from-callback-lost", "ping() on the handle of source %d was called from inside %s and returned; the source is "
                                  "inserted and enabled, yet the following Ok dispatch did not call it back: a handle used from inside a callback had no effect"
                                  % (h, "an idle callback" if who == -1 else "the callback of source %d" % who))
            elif kind == "chan" and sp:
                n, senders, closed = snap["chan"].get(int(sp[3]), (0, 1, False))
                if (n > 0 or (senders == 0 and not closed)):
                    self.fail("C02", "missed-chan", "channel source %d had %d queued messages / %d senders when the dispatch polled but was not called"
                              % (h, n, senders))
                    self.fail("C04", "stranded", "channel source %d had %d queued messages / %d senders when the dispatch polled, it is inserted and enabled, "
                              "and the dispatch returned Ok without calling it: nothing is on its way to wake it" % (h, n, senders))
            elif kind == "comp" and sp:
                subs = sp[5:]
                for j in range(0, len(subs), 3):
                    fd, it, md = int(subs[j]), int(subs[j + 1]), int(subs[j + 2])
                    if md != 0 or len(self.fd_users.get(fd, ())) > 1:
                        continue
                    c = snap["fdc"].get(fd, 0)
                    if ((it & 1) and c > 0) or ((it & 2) and c < EFD_MAX):
                        self.fail("C02", "missed-level", "level-triggered sub %d (fd %d, counter %d, interest %d) of enabled source %d was ready "
                                  "when the dispatch polled but the source was not called" % (j // 3 + 1, fd, c, it, h))
                        break
        # synthetic events delivered
        for h, code in bs_seen:
            if code == 1 and h not in self.touched and h not in self.excused and h in self.live and h not in self.disabled:
                if h not in fired:
                    self.fail("C14", "synthetic-lost", "before_sleep of %d returned a synthetic event that was not delivered in the same dispatch" % h)

    def after_failed_dispatch(self):
        # a failed dispatch may have dropped the rest of its batch (finding F4): timers popped but never fired
        snap = self.snapshot
        if not snap:
            return
        now = 2 * self.phase + 1
        fired = getattr(self, "fired_this_dispatch", set())
        for h, (dl, armed) in snap["timers"].items():
            if armed and dl is not None and dl <= now and h not in fired and h in self.live and h in self.touched and h not in self.excused:
                # its expiry was in the abandoned batch AND an operation named it during that dispatch (re-armed? only its dispatcher
                # dropped?): whether an arming is left is not known from here on
                self.excuse(h, "abandoned-batch")
                continue
            if armed and dl is not None and dl <= now and h not in fired and h in self.live and h not in self.touched and h not in self.excused:
                self.timer[h]["lost_in_failed_dispatch"] = True
                self.timer[h]["armed"] = False
                self.fail("C05", "lost-in-failed-dispatch", "timer %d (deadline %d) was popped by a dispatch that returned Err and never fires" % (h, dl))
                self.fail("C15", "lost-in-failed-dispatch", "timer %d lost its expiry because another source failed in the same dispatch" % h)
        # ... and the events of one-shot / edge-triggered fds that were in the abandoned batch: the kernel will not report them again
        fsubs = getattr(self, "fired_subs", set())
        for k, a in sorted(snap.get("armed", {}).items()):
            h, j = k
            sp = self.spec.get(h)
            if a is None or self.arm.get(k) != a or not sp or sp[2] != "comp" or k in fsubs or h not in self.key:
                continue
            fd, it, md = int(sp[5 + 3 * (j - 1)]), int(sp[6 + 3 * (j - 1)]), int(sp[7 + 3 * (j - 1)])
            if md == 0 or (self.key[h] + j) not in snap.get("batch_keys", ()):
                continue
            self.arm[k] = None
            if h in self.live and h not in self.touched and h not in self.excused and len(self.fd_users.get(fd, ())) <= 1:
                self.fail("C02", "lost-in-failed-dispatch", "the event of %s sub %d (fd %d) of source %d was collected by a dispatch that returned Err "
                          "before reaching it and is never reported" % ("one-shot" if md == 2 else "edge-triggered", j, fd, h))

    def check_wheel(self, entries):
        if self.excused & set(self.timer.keys()):
            return
        if self.has_ctimer:
            return      # Timer sub-sources of composites own wheel entries too; their count is left to the model comparison
        armed = [h for h, t in self.timer.items() if t["armed"] and h in self.live]
        # entries may legitimately be fewer (never more) than armed timers... an armed timer has exactly one entry
        if len(entries) > len([h for h, t in self.timer.items() if h in self.live and t["dl"] is not None and h not in self.disabled]):
            kind = "residue"
            if any(t.get("dup_entries") or t.get("rearmed_in_batch") for t in self.timer.values()):
                kind = "residue-after-rearm-in-batch"
            self.fail("C05", kind, "the timer wheel holds %d entries but only %d timers can be armed" % (len(entries), len(armed)))

    def check_epoll(self, codes):
        """the kernel's interest list (from /proc) against the sources that must / must not be registered"""
        present = {}
        for c in codes:
            key = c & ((1 << 64) - 1)
            rest = c >> 64
            present[rest >> 4] = ((rest >> 2) & 3, rest & 3, key)
        owners = {unpack(self.key[h])[0:2] for h in self.live if h in self.key}
        for fd, (_, _, key) in present.items():
            if unpack(key)[0:2] not in owners:
                if self.failed_insert or self.reg_failed:
                    self.fail("C15", "leaked-registration", "fd %d is registered with the OS poller under key %s which belongs to no inserted source "
                              "(left behind by a registration that failed half-way)" % (fd, unpack(key)))
                else:
                    self.fail("C16", "ghost-entry", "fd %d is registered with the OS poller under key %s which belongs to no inserted source" % (fd, unpack(key)))
                break
        if self.failed_insert or self.reg_failed:
            return   # C16 is stated "absent registration failures"
        # the interest and trigger mode last (re)registered: set_interest + successful update(), both between dispatches
        for (h, j), (it, md, stage) in self.int_expect.items():
            sp = self.spec.get(h)
            if stage != "applied" or not sp or sp[2] != "comp" or h not in self.live or h in self.disabled or h in self.dead:
                continue
            subs = sp[5:]
            if 3 * j + 2 >= len(subs):
                continue
            fd = int(subs[3 * j])
            fds = [int(subs[q]) for q in range(0, len(subs), 3)]
            if len(self.fd_users.get(fd, ())) > 1 or fds.count(fd) != 1 or fd not in present:
                continue
            shown, kmode, _ = present[fd]
            if kmode != md or (md != 2 and shown != it) or (md == 2 and shown not in (it, 0)):
                self.fail("C16", "stale-interest", "fd %d (sub-source %d of source %d) is registered with interest %d mode %d, but interest %d mode %d was set and "
                          "update() succeeded" % (fd, j + 1, h, shown, kmode, it, md))
        for h, sp in self.spec.items():
            if sp[2] != "comp" or h in self.excused or h in self.failed_insert:
                continue
            subs = sp[5:]
            fds = [int(subs[j]) for j in range(0, len(subs), 3)]
            if any(len(self.fd_users.get(fd, ())) > 1 for fd in fds) or len(set(fds)) != len(fds):
                continue
            gone = h in self.dead or h in self.disabled
            if h not in self.live and h not in self.dead:
                continue
            for j, fd in enumerate(fds):
                if gone and fd in present:
                    self.fail("C16", "stale-fd", "fd %d of %s source %d is still registered with the OS poller"
                              % (fd, "removed" if h in self.dead else "disabled", h))
                if not gone and h in self.key:
                    if fd not in present:
                        self.fail("C16", "missing-fd", "fd %d of inserted and enabled source %d is not registered with the OS poller" % (fd, h))
                    else:
                        kid, kver, ksub = unpack(present[fd][2])
                        hid, hver, _ = unpack(self.key[h])
                        if (kid, kver) != (hid, hver) or ksub != j + 1:
                            self.fail("C16", "wrong-key", "fd %d of source %d is registered under key (%d,%d,%d), expected (%d,%d,%d)"
                                      % (fd, h, kid, kver, ksub, hid, hver, j + 1))

    def on_panic(self, kind, cmd_i):
        # which documented exclusion (if any) explains it?
        acts = []
        who = None
        if self.cur is not None:
            k = self.cbcount.get(self.cur, 1) - 1
            ent = self.scr.get(self.cur, [])
            acts = ent[k][2] if k < len(ent) else []
            who = self.cur
        elif self.cur_idle is not None:
            ent = self.scr.get(IDLE_BASE + self.cur_idle, [])
            acts = ent[0][2] if ent else []
        elif 0 <= cmd_i < len(self.cmds) and self.cmds[cmd_i][0] == "C":
            acts = [self.cmds[cmd_i][1:]]
        excused = False
        if kind == 1:
            for a in acts:
                if who is not None and a[0] in ("enable", "setint", "setdl") and int(a[1]) == who:
                    excused = True
                if self.cur_idle is not None and a[0] == "cancelidle" and int(a[1]) == self.cur_idle:
                    excused = True
        elif kind == 3:
            excused = any(a[0] == "intoinner" for a in acts)
        if not excused:
            names = {1: "RefCell double borrow", 2: "unreachable!()", 3: "Dispatcher is still registered", 4: "sub-id overflow", 5: "other panic"}
            self.fail("C08", "panic-%d" % kind, "panic (%s) that no documented exclusion explains; context: source %s idle %s actions %s"
                      % (names.get(kind, kind), who, self.cur_idle, acts))
            if kind == 2:
                self.fail("C14", "unreachable", "dispatch hit unreachable!() in the lifecycle loop")
                self.fail("C15", "unreachable", "dispatch hit unreachable!() in the lifecycle loop")


def all_failures(text, trace):
    try:
        return Walker(text, trace).walk()
    except Exception as ex:  # an oracle crash must never look like a violation
        return ["ORACLE/crash: %r" % (ex,)]


def oracle_for(props):
    """oracle restricted to the failures of the given property ids"""
    def f(text, trace):
        return [x for x in all_failures(text, trace) if x.split("/")[0] in props or x.startswith("ORACLE/")]
    return f
