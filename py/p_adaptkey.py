"""The poller key of an Async adapter against the keys of the other occupants of its slot (C20, C17): k timers take and leave a slot one
after the other, then an fd is adapted into it, waited on, released, and one more timer inserted. End-to-end case of
harness/src/m_async.rs (adaptkey); the key is read from the kernel's own table (/proc/self/fdinfo/<epfd>)."""
import vlib


def unpack(key):
    return (key >> 32, (key >> 16) & 0xFFFF, key & 0xFFFF)


def judge(case, out):
    """returns (property, message) pairs"""
    if out.startswith("PANIC") or "adapter=" not in out:
        return [("C20", "harness panic / no result: %s" % out[:80]), ("C17", "harness panic / no result: %s" % out[:80])]
    kv = dict(x.split("=", 1) for x in out.split())
    res = []
    if kv.get("woken") != "1":
        res.append(("C17", "a task awaiting readable() on an adapter that lives in a slot used %s time(s) before was never woken although its fd "
                           "became readable (lost wake)" % case.split()[0]))
    if kv["adapter"] == "none":
        res.append(("C20", "the adapted fd is not in the OS poller's table while its adapter is alive"))
        return res
    a = int(kv["adapter"])
    pre = [int(x) for x in kv["pre"].split(",") if x]
    post = int(kv["post"]) if kv["post"].isdigit() else None
    ua = unpack(a)
    if ua[2] != 0:
        res.append(("C20", "the adapter's poller key %d decodes to sub-source %d: an adapter has the single sub-source 0" % (a, ua[2])))
    others = [(k, "an earlier occupant of the slot, long removed") for k in pre] + ([(post, "the next occupant of the slot")] if post is not None else [])
    for k, who in others:
        if k == a:
            res.append(("C20", "the key the poller holds for the adapter's fd (%d = slot %d, generation %d, sub %d) is also the key of %s: two "
                               "(slot, generation) occupants share one key, it is not unique to the triple" % (a, ua[0], ua[1], ua[2], who)))
            break
    return res


def stage(chk, prop):
    cases = ["%d %s" % (k, e) for k in (0, 1, 2, 3, 5) for e in ("drop", "inner")]
    out, _ = vlib.run_impl(["adaptkey"], cases, timeout=300)
    chk.cov["adapter_key_in_reused_slot"] = {"cases": cases, "results": out[:4],
                                             "rule": "k in {0,1,2,3,5} earlier occupants of the slot x drop/into_inner: the adapter's key as the kernel holds "
                                                     "it is distinct from the keys of all other occupants, decodes to sub-source 0, and the waiting task is woken"}
    for c, o in zip(cases, out):
        mine = [m for p, m in judge(c, o.strip()) if p == prop]
        if mine:
            chk.violation("oracle-adaptkey", "%s violated on the real code: %s\nadaptkey case (earlier occupants, end): %s\n# result: %s"
                          % (prop, mine[0], c, o[:300]))
            return


def replay(path, prop):
    txt = open(path).read()
    cases = [l.split(":", 1)[1].strip() for l in txt.split("\n") if l.startswith("adaptkey case")]
    vlib.build_harness()
    out, _ = vlib.run_impl(["adaptkey"], cases)
    rc = 0
    for c, o in zip(cases, out):
        bad = [m for p, m in judge(c, o.strip()) if p == prop]
        print(c, "->", o, "" if not bad else "  FAILS: " + bad[0])
        rc = rc or (1 if bad else 0)
    return rc
