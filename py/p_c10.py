"""C10  Executor/StreamSource: no lost wake, results and items delivered exactly once."""
import random
from concurrent.futures import ThreadPoolExecutor

import p_c03
import vlib


def gen_cases(tier, seed):
    rnd = random.Random(seed * 43 + 10)
    cases = []
    n = 500 if tier == "quick" else 12000
    for _ in range(n):
        nt = rnd.randint(1, 4)
        scripts = []
        for _ in range(nt):
            k = rnd.randint(0, 3)
            # w: the task wakes itself during that poll (async-task then re-sends it from the loop thread)
            scripts.append("".join("w" if rnd.random() < 0.3 else "p" for _ in range(k)) + ("r" if rnd.random() < 0.8 else ""))
            if not scripts[-1]:
                scripts[-1] = "r"
        lops = ["s%d" % j for j in range(nt)] + ["d"]
        extra_d = rnd.randint(0, 3)
        lops += ["d"] * extra_d
        nw = rnd.randint(1, 3)
        wprogs = ["".join(str(rnd.randrange(nt)) for _ in range(rnd.randint(1, 4))) for _ in range(nw)]
        # prefix: the loop thread schedules every task and completes its first dispatch (every task polled once, wakers exist)
        prefix = [0] * (3 * nt + 3 + nt + 1 + 2 + 4 * sum(1 for sc in scripts if sc.startswith("w")))
        pool = [0] * (6 * extra_d + 8 + 4 * sum(sc.count("w") for sc in scripts)) + [i + 1 for i, p in enumerate(wprogs) for _ in range(4 * len(p))]
        rnd.shuffle(pool)
        cases.append("%s | %s | %s | %s" % (",".join(scripts), " ".join(lops), ";".join(wprogs), "".join(map(str, prefix + pool))))
    # the batch limit: more than 1024 ready tasks in one dispatch (sequential)
    if tier == "thorough":
        cases.append("%s | %s |  | 0" % (",".join(["r"] * 9), " ".join("s%d" % j for j in range(9)) + " d"))
    return cases


def judge(case, out):
    scripts, lops, wprogs, _ = [x.strip() for x in case.split("|")]
    scripts = scripts.split(",")
    toks = out.split()
    fails = []
    if "HANG" in toks or "PANIC" in toks or "BAD" in toks or "TIMEOUT" in toks:
        return ["hang/panic: %s" % out[-80:]]
    if "WRONGTHREAD" in toks:
        fails.append("a future was polled or dropped off the loop thread")
    polls = {}
    done = {}
    enq = 0
    for i, t in enumerate(toks):
        if t.startswith("POLL"):
            j = int(t[4:])
            polls[j] = polls.get(j, 0) + 1
        elif t.startswith("DONE"):
            j = int(t[4:])
            done[j] = done.get(j, 0) + 1
            if not (i > 0 and toks[i - 1] == "POLL%d" % j):
                fails.append("the output of task %d was not delivered right after its completing poll" % j)
        elif t.endswith(":121"):
            enq += 1
    # every enqueued runnable is run exactly once: the loop made 4 dispatches after all other activity
    last_other = max([i for i, t in enumerate(toks) if ":" in t and not t.startswith("0:")] + [-1])
    polls_after = len([1 for i, t in enumerate(toks) if t == "0:132" and i > last_other])
    total_polls = sum(polls.values())
    if polls_after >= 2 and total_polls != enq:
        fails.append("lost wake: %d runnables were enqueued but only %d polls happened although the loop kept dispatching" % (enq, total_polls))
    for j, sc in enumerate(scripts):
        if ("s%d" % j) not in lops.split():
            continue
        n_ready = sc.index("r") + 1 if "r" in sc else None
        p = polls.get(j, 0)
        if p == 0:
            fails.append("task %d was scheduled but never polled" % j)
        if done.get(j, 0) > 1:
            fails.append("the output of task %d was delivered %d times" % (j, done[j]))
        if n_ready is not None and p >= n_ready and done.get(j, 0) != 1:
            fails.append("task %d completed (poll %d) but its output was delivered %d times" % (j, n_ready, done.get(j, 0)))
        if n_ready is not None and p > n_ready:
            fails.append("task %d was polled after it completed" % j)
        if done.get(j, 0) == 1 and (n_ready is None or p < n_ready):
            fails.append("task %d delivered an output without completing" % j)
    return fails


def stream_cases():
    return ["", "1", "12", "1p2", "pp1", "1pp2p3", "123456", "p", "1p", "9p8p7p6"]


def main(tier, seed):
    chk = vlib.Check("C10", tier, seed)
    st = vlib.standard_front(chk)
    chk.assumptions = ["granularity: one mpsc enqueue, notified swap/store, eventfd write/read, poll or try_recv (+ the poll of the dequeued task) per step",
                       "async-task (wake on idle schedules once, wake on scheduled/completed is a no-op, tasks run only via Runnable::run) and slab are assumed",
                       "futures are scripts of poll outcomes (pending / ready / wakes itself during the poll, then pending); CROSS-THREAD wakes that land while a task is being polled cannot occur under the baton scheduler (polls contain no yield point) - the self-wake reaches the same async-task path (woken_while_running)",
                       "PARTIAL: Executor::drop racing a concurrent wake (finding F13) is not in the proved model. StreamSource: coq/theories/StreamSrc.v models it with an external producer on one thread (push / close wake a stored waker); a self-waking scripted stream is additionally run against its expected output"]
    if not (st.get("harness_ok") and st.get("model_ok")):
        chk.violation("build", "correspondence broken: build failed\n%s\n%s" % (st.get("harness_log", "")[-2000:], st.get("model_log", "")[-2000:]), nofail=True)
        chk.cov.update({"evaluations": 0, "distinct_nontrivial": 0})
        return chk.finish()
    cases = gen_cases(tier, seed)
    n = 12
    shards = [cases[i::n] for i in range(n)]
    with ThreadPoolExecutor(max_workers=n) as ex:
        outs = list(ex.map(lambda sh: p_c03.run_batch(vlib.HARNESS, "cexec", sh) if sh else [], shards))
    impl = [None] * len(cases)
    for k, o in enumerate(outs):
        for j, line in enumerate(o):
            impl[k + j * n] = line
    model, mlog = vlib.run_model(["cexec"], cases)
    diffs, bad = [], []
    for c, i, m in zip(cases, impl, model):
        if i != m:
            diffs.append((c, i, m))
        fs = judge(c, i)
        if fs:
            bad.append((c, i, fs))
    # StreamSource: items in order exactly once, one None, removal
    sc = stream_cases()
    sout = p_c03.run_batch(vlib.HARNESS, "streams", sc)
    for c, o in zip(sc, sout):
        items = [ch for ch in c if ch.isdigit()]
        want = " ".join(["I" + x for x in items] + ["END", "REMOVED"])
        if o != want:
            bad.append(("stream " + c, o, ["StreamSource delivered `%s`, expected `%s`" % (o, want)]))
    # StreamSource with an external producer: coq/theories/StreamSrc.v (extracted) vs the real StreamSource; histories of push / close /
    # dispatch, always ending with two dispatches; oracle = the property on the implementation's output
    qrnd = random.Random(seed * 4099 + 10)
    qcases = ["d d", "u1 d d", "u1 u2 d u3 d c d d", "c d d", "u1 c u2 d d", "d u5 d u6 u7 d c d d", "u1 d c d d", "u1 u2 c d d", "d d u3 c d d"]
    for _ in range(60 if tier == "quick" else 3000):
        ops, n = [], 0
        for _ in range(qrnd.randint(1, 16)):
            k = qrnd.random()
            if k < 0.5:
                n += 1
                ops.append("u%d" % n)
            elif k < 0.9:
                ops.append("d")
            else:
                ops.append("c")
        qcases.append(" ".join(ops + ["d", "d"]))
    # bursts at and beyond the 1024 limit other sources use per dispatch: everything that is ready is delivered, then None
    for n in (1023, 1024, 1025, 3000):
        burst = " ".join("u%d" % k for k in range(1, n + 1))
        qcases += [burst + " d d d", burst + " c d d d", burst + " d u%d c d d" % (n + 1)]
    qimpl = p_c03.run_batch(vlib.HARNESS, "streamq", qcases)
    qmodel, qmlog = vlib.run_model(["streamq"], qcases)
    qdiff = [(c, a, b) for c, a, b in zip(qcases, qimpl, qmodel) if a != b]
    for c, o in zip(qcases, qimpl):
        pushed, closed = [], False
        for w in c.split():
            if w[0] == "u" and not closed:
                pushed.append(w[1:])
            elif w == "c":
                closed = True
        want = " ".join(["I" + x for x in pushed] + (["END", "REMOVED"] if closed else ["STILL"]))
        if o != want:
            bad.append(("streamq " + c, o, ["StreamSource with an external producer delivered `%s`; every item pushed before the close exactly once and in order, "
                                            "then a single None and the removal iff the stream was closed, is `%s`" % (o, want)]))
    for c, a, b in qdiff:
        diffs.append(("streamq " + c, a, b))
    chk.cov["stream_external_producer"] = {"histories": len(qcases), "model_impl_divergences": len(qdiff), "sample": {"case": qcases[2], "impl": qimpl[2] if len(qimpl) > 2 else ""}}
    chk.cov.update({
        "evaluations": len(cases) + len(sc), "distinct_nontrivial": len(set(impl)),
        "traces_validated_against_impl": len(cases) - len(diffs),
        "rule": "1-4 tasks with scripts (p|w)*r? (w = wakes itself inside poll), all scheduled and polled once (prefix), then 1-3 waker threads with 1-4 wakes each interleaved with 1-4+4 "
                "dispatches under random schedules; + %d StreamSource scripts run sequentially; a case is one schedule on real threads" % len(sc),
        "samples": [{"case": c, "impl": i, "model": m} for c, i, m in list(zip(cases, impl, model))[:2]],
        "model_impl_disagreements": len(diffs),
    })
    # Executor::drop, sequential: after the executor is gone every future it still owned has been dropped, schedule() is refused
    dcases = ["%d %d %d" % (n, pl, d) for n in (0, 1, 3, 1023, 1024, 1025, 1100, 2049, 3000) for pl in (0, 1, 2) for d in (0, 1, 2, 3)]
    dout = p_c03.run_batch(vlib.HARNESS, "cexecdrop", dcases)
    for c, o in zip(dcases, dout):
        ws = o.split()
        n = int(c.split()[0])
        if len(ws) != 4:
            bad.append(("executor drop " + c, o, ["no result from the executor-drop run"]))
        elif int(ws[1]) != n:
            bad.append(("executor drop (tasks, polls until ready, dispatches before the drop): " + c, o,
                        ["after the executor was dropped only %s of its %d futures had been dropped" % (ws[1], n)]))
        elif ws[3] != "1":
            bad.append(("executor drop " + c, o, ["schedule() after the executor was dropped did not fail"]))
        elif int(ws[2]) > n:
            bad.append(("executor drop " + c, o, ["more outputs delivered than tasks"]))
    chk.cov["executor_drop_cases"] = {"cases": len(dcases), "rule": "n tasks in {0,1,3,1023,1024,1025,1100,2049,3000} that wake themselves and become ready after 0(never)/1/2 polls, "
                                      "0-3 dispatches, then the executor is removed from the loop: all n futures dropped, schedule() refused"}
    chk.cov["evaluations"] += len(dcases)
    # scheduling from inside the executor's own completion callback and from inside a running future
    rcases = ["%d %d" % (n, d) for n in (0, 1, 2, 5, 40) for d in (0, 1, 2, 4)]
    rout = p_c03.run_batch(vlib.HARNESS, "cexecre", rcases)
    for c, o in zip(rcases, rout):
        ws = o.split()
        if len(ws) != 3:
            bad.append(("scheduling from callbacks (tasks, generations): " + c, o, ["the run scheduling from inside executor callbacks did not finish: %s" % o[:60]]))
        elif ws[2] != "0":
            bad.append(("scheduling from callbacks (tasks, generations): " + c, o, ["schedule() from inside the executor's own callback / a running future panicked"]))
        elif ws[0] != ws[1]:
            bad.append(("scheduling from callbacks (tasks, generations): " + c, o, ["%s outputs delivered, %s expected, when tasks are scheduled from inside callbacks and futures" % (ws[0], ws[1])]))
    chk.cov["schedule_from_callbacks_cases"] = len(rcases)
    chk.cov["evaluations"] += len(rcases)
    # the executor and another source ready in ONE batch: the other source's callback wakes a task (single-threaded)
    mcases = ["other_first", "exec_first"]
    mout = p_c03.run_batch(vlib.HARNESS, "execmix", mcases)
    chk.cov["executor_and_other_source_in_one_batch"] = dict(zip(mcases, mout))
    chk.cov["evaluations"] += len(mcases)
    for c, o in zip(mcases, mout):
        if o.strip() != "x=3 y=2 z=1":
            bad.append(("executor and another source in one batch: " + c, o, ["a ping source and the executor were ready in one batch and the ping's callback woke task X "
                        "(the wake of task Y had made the executor ready): polls of X, Y and of a future scheduled afterwards are `%s`, wanted x=3 y=2 z=1 - a later "
                        "wake or schedule() never reached the executor" % o.strip()]))
    k13 = [x for x in vlib.load_known() if x.get("id") == "F13" and x.get("status") == "known"]
    d13 = p_c03.run_batch(vlib.HARNESS, "cexec13", ["norace", "race"])
    chk.cov["executor_drop_witness"] = d13
    if "FUTURE-DROPPED" not in d13[0]:
        bad.append(("executor drop (no race)", d13[0], ["after the executor was dropped its pending future was not dropped"]))
    elif "FUTURE-LEAKED" in d13[1]:
        if k13:
            chk.known("F13", "F13: " + k13[0]["what"])
        else:
            bad.append(("executor drop racing a wake", d13[1], ["a future is never dropped when Executor::drop races a wake (F13 not listed as known)"]))
    if bad:
        c, i, fs = min(bad, key=lambda x: len(x[0]))
        chk.violation("oracle", "C10 violated on the real code: %s\n%s\n# executed steps and observations: %s\n(%d failing cases)" % (fs[0], c, i, len(bad)))
    elif diffs or not st["proof"]["ok"] or mlog:
        why = []
        if not st["proof"]["ok"]:
            why.append("proof obligation no longer checks: %s" % st["proof"]["failed"])
        if diffs:
            c, i, m = min(diffs, key=lambda x: len(x[0]))
            why.append("correspondence differs on %d schedules; shortest: `%s`\n impl : %s\n model: %s" % (len(diffs), c, i, m))
        if mlog:
            why.append("runner: %s" % mlog[:300])
        chk.violation("broken", "C10 is no longer shown to hold.\n" + "\n".join(why) +
                      "\nthe oracle judged all %d schedules of this run on real threads: no failing input found\n%s" % (len(cases), diffs[0][0] if diffs else ""), nofail=True)
    return chk.finish()


def replay(path):
    mcases = [l.split(":", 1)[1].strip() for l in open(path) if l.startswith("executor and another source in one batch:")]
    if mcases:
        vlib.build_harness()
        out = p_c03.run_batch(vlib.HARNESS, "execmix", mcases)
        for c, o in zip(mcases, out):
            print(c, "->", o)
        return 0 if all(o.strip() == "x=3 y=2 z=1" for o in out) else 1
    rcases = [l.split(":", 1)[1].strip() for l in open(path) if l.startswith("scheduling from callbacks (tasks")]
    if rcases:
        vlib.build_harness()
        out = p_c03.run_batch(vlib.HARNESS, "cexecre", rcases)
        rc = 0
        for c, o in zip(rcases, out):
            print(c, "->", o)
            if len(o.split()) != 3 or o.split()[2] != "0" or o.split()[0] != o.split()[1]:
                rc = 1
        return rc
    dcases = [l.split(":", 1)[1].strip() for l in open(path) if l.startswith("executor drop (tasks")]
    if dcases:
        vlib.build_harness()
        out = p_c03.run_batch(vlib.HARNESS, "cexecdrop", dcases)
        rc = 0
        for c, o in zip(dcases, out):
            print(c, "->", o)
            if len(o.split()) != 4 or o.split()[1] != c.split()[0] or o.split()[3] != "1":
                rc = 1
        return rc
    cases = [l.strip() for l in open(path) if l.count("|") == 3]
    vlib.build_harness()
    vlib.build_model()
    impl = p_c03.run_batch(vlib.HARNESS, "cexec", cases)
    model, _ = vlib.run_model(["cexec"], cases)
    rc = 0
    for c, i, m in zip(cases, impl, model):
        print("%s\n  impl : %s\n  model: %s\n  oracle: %s" % (c, i, m, judge(c, i) or "ok"))
        if i != m or judge(c, i):
            rc = 1
    return rc
