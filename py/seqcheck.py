"""Generic driver for the properties decided on the sequential loop model (Loop.v):
proof status + correspondence on generated scenarios + a property oracle on the implementation's traces."""
import collections
import glob
import os
import random

import gen_seq
import seqlib
import vlib
try:
    import oracles as oracles_mod
except Exception:
    oracles_mod = None


def load_corpus(patterns):
    out = []
    for pat in patterns:
        for f in sorted(glob.glob(os.path.join(vlib.ROOT, "corpus", pat))):
            txt = open(f).read()
            # one file may hold several scenarios
            parts = txt.split("=== ")
            for p in parts[1:]:
                out.append(("=== " + p if p.endswith("\n") else "=== " + p + "\n", os.path.basename(f)))
    return out


def scen_id(text):
    return text.split("\n", 1)[0].split()[1]


def shrink(text, still_fails, budget=120):
    """delta-debug the top-level command lines (C/D/T/E) and script lines of one scenario, re-running the real code"""
    lines = text.strip("\n").split("\n")
    head, body = lines[0], lines[1:]
    tries = 0
    changed = True
    while changed and tries < budget:
        changed = False
        i = len(body) - 1
        while i >= 0 and tries < budget:
            if body[i].startswith(("C ", "D ", "T", "E", "B ")):
                cand = body[:i] + body[i + 1:]
                tries += 1
                if still_fails(head + "\n" + "\n".join(cand) + "\n"):
                    body = cand
                    changed = True
            i -= 1
    return head + "\n" + "\n".join(body) + "\n"


def nontrivial(trace):
    """a trace is non-trivial when at least one callback ran and one operation was issued"""
    has_cb = any(l.startswith("2 ") for l in trace)
    has_op = any(l.startswith("1 ") for l in trace)
    return has_cb and has_op


def wheel_has_duplicate_counter(trace):
    """a WHEEL dump (tag 14) in which two entries carry the same counter (the state finding F5 leaves behind)"""
    for l in trace:
        ws = l.split()
        if ws and ws[0] == "14":
            ctrs = [int(w) >> 64 for w in ws[1:]]
            if len(set(ctrs)) != len(ctrs):
                return True
    return False


def run_seq_check(prop, tier, seed, profiles, oracle, n_quick, n_thorough, assumptions,
                  corpus=("seq/*.scn",), known_classifier=None, extra_front=None, stage_of=None):
    """profiles: list of (weight, profile dict). oracle(scen_text, impl_trace) -> list of failure strings.
    known_classifier(scen_text, impl_trace, failure) -> finding id or None.
    stage_of = (chk, st): run as a further stage of a check whose front already ran (its coverage is kept under `first_stage`)."""
    if stage_of:
        chk, st = stage_of
        if any(not nofail for _, nofail in chk.violations):
            return chk.finish()      # the first stage already has a concrete failing input
        chk.cov = {"first_stage": dict(chk.cov)}
        chk.assumptions = list(chk.assumptions) + list(assumptions)
    else:
        chk = vlib.Check(prop, tier, seed)
        st = vlib.standard_front(chk)
        chk.assumptions = assumptions
    if not (st.get("harness_ok") and st.get("model_ok")):
        what = "harness build failed" if not st.get("harness_ok") else "model build failed"
        chk.violation("build", "correspondence broken: %s\n%s\n%s\n(proof status: %s)" %
                      (what, st.get("harness_log", "")[-3000:], st.get("model_log", "")[-3000:], st["proof"]["failed"]), nofail=True)
        chk.cov.update({"evaluations": 0, "distinct_nontrivial": 0})
        return chk.finish()
    if extra_front:
        extra_front(chk, st)
    n = n_quick if tier == "quick" else n_thorough
    rnd = random.Random(seed * 1000003 + sum(ord(c) for c in prop))
    scens = [t for t, _ in load_corpus(corpus)]
    ncorpus = len(scens)
    total_w = sum(w for w, _ in profiles)
    for w, prof in profiles:
        k = int(n * w / total_w)
        scens += gen_seq.gen_many(rnd.getrandbits(48), k, prof, prefix="%s_%d_" % (prop, len(scens)))
    by_id = {scen_id(t): t for t in scens}
    res, err = seqlib.run_scenarios(scens)
    failures, diverged = [], []
    after_f5 = 0
    hashes = set()
    opcount = collections.Counter()
    for sid, (impl, model) in res.items():
        text = by_id.get(sid, "")
        d = seqlib.first_diff(impl, model)
        if d and wheel_has_duplicate_counter(impl[:d[0]]):
            # finding F5 has already happened in this scenario (two wheel entries carry one counter): which of them a later cancel() finds
            # on top of the BinaryHeap depends on its tie order for equal deadlines, which the environment model does not predict
            after_f5 += 1
            d = None
        if d:
            diverged.append((sid, d))
        if nontrivial(impl):
            hashes.add(vlib.h("\n".join(seqlib.comparable(impl))))
        for l in impl:
            ws = l.split()
            if ws[0] == "1" and len(ws) > 3:
                opcount["%s->%s" % (seqlib.OPS.get(int(ws[1]), ws[1]), ws[3])] += 1
            elif ws[0] in ("2", "5", "3", "10"):
                opcount[seqlib.TAGS[int(ws[0])]] += 1
        for f in oracle(text, impl):
            failures.append((sid, f))
        # the oracle must also accept the model's own trace (theorem side); a failure there is an oracle/model problem
    missing = [sid for sid in by_id if sid not in res]
    chk.cov["divergences_not_counted_after_F5_duplicates"] = after_f5
    prev = chk.cov.get("first_stage", {})
    chk.cov.update({
        "evaluations": len(scens) + int(prev.get("evaluations", 0)),
        "distinct_nontrivial": len(hashes) + int(prev.get("distinct_nontrivial", 0)),
        "traces_validated_against_impl": len(res) - len(diverged) + int(prev.get("traces_validated_against_impl", 0)),
        "rule": "corpus scenarios (%d) + seeded structured random scenarios from py/gen_seq.py (profiles per property); a scenario is "
                "non-trivial when its implementation trace has a callback and an operation result; distinct by trace hash" % ncorpus,
        "model_impl_divergences": len(diverged),
        "op_result_histogram": dict(opcount.most_common(40)),
        "oracle_rule_premises_met": dict(getattr(oracles_mod, "RULE_STATS", {})) if oracles_mod else {},
        "samples": [{"scenario": by_id[sid].split("\n")[:12], "impl_trace_head": res[sid][0][:12]} for sid in list(res.keys())[:2]],
    })
    # ---- verdicts
    reported = set()
    known = vlib.load_known()
    for sid, f in failures:
        fid = known_classifier(by_id[sid], res[sid][0], f) if known_classifier else None
        if fid and any(k.get("id") == fid and k.get("status") == "known" and k.get("property") == prop for k in known):
            if fid not in reported:
                reported.add(fid)
                what = [k["what"] for k in known if k.get("id") == fid][0]
                chk.known(fid, "%s: %s" % (fid, what))
            continue
        key = f.split(":")[0]
        if ("V", key) in reported:
            continue
        reported.add(("V", key))
        text = by_id[sid]

        def still(t, f=f):
            r, _ = seqlib.run_scenarios([t])
            for _, (i, m) in r.items():
                return any(x.split(":")[0] == f.split(":")[0] for x in oracle(t, i))
            return False
        small = shrink(text, still)
        r, _ = seqlib.run_scenarios([small])
        tr = list(r.values())[0] if r else ([], [])
        same = [x for x in oracle(small, tr[0]) if x.split(":")[0] == key] if tr[0] else []
        if same:
            f = same[0]      # the message of the shrunk scenario (handles and fds may differ from the original one)
        chk.violation("oracle-%s" % sid,
                      "%s violated on the real code: %s\n# replay: ./check %s --replay <this file>\n%s\n# implementation trace:\n%s\n# model trace:\n%s\n" %
                      (prop, f, prop, small, "\n".join("#   " + seqlib.pretty(l) for l in tr[0]), "\n".join("#   " + l for l in tr[1])))
    broken = []
    if not st["proof"]["ok"]:
        broken.append("proof obligation no longer checks: %s" % st["proof"]["failed"])
    if diverged:
        sid, (i, x, y) = diverged[0]
        broken.append("correspondence: %d of %d scenarios diverge; first %s at line %d: impl `%s` model `%s`" %
                      (len(diverged), len(res), sid, i, x[:120], y[:120]))
    if err or missing:
        broken.append("runner problem: %s missing=%s" % (err[:400], missing[:5]))
    if broken and not chk.violations:
        # search: more scenarios around the diverging ones (fresh continuations with the same profile), oracle as judge
        extra = 2000 if tier == "quick" else 50000
        found = None
        more = []
        for w, prof in profiles:
            more += gen_seq.gen_many(rnd.getrandbits(48), int(extra * w / total_w), prof, prefix="x%s_%d_" % (prop, len(more)))
        by2 = {scen_id(t): t for t in more}
        res2, _ = seqlib.run_scenarios(more)
        for sid, (impl, model) in res2.items():
            fs = [f for f in oracle(by2[sid], impl)
                  if not (known_classifier and known_classifier(by2[sid], impl, f))]
            if fs:
                found = (sid, fs[0])
                break
        if found:
            sid, f = found
            chk.violation("search-%s" % sid, "%s violated on the real code (found by the failing-input search): %s\n%s" % (prop, f, by2[sid]))
        else:
            text = ""
            if diverged:
                sid, (i, x, y) = diverged[0]
                text = by_id[sid] + "\n# implementation trace:\n" + "\n".join("#   " + seqlib.pretty(l) for l in res[sid][0]) + \
                       "\n# model trace:\n" + "\n".join("#   " + l for l in res[sid][1])
            chk.violation("broken", "%s is no longer shown to hold.\n%s\n%s\nsearched %d further scenarios with the property oracle: no failing input found\n%s" %
                          (prop, "\n".join(broken), st["proof"]["log"][-1500:], len(more), text), nofail=True)
    return chk.finish()


def replay(prop, path, oracle):
    txt = open(path).read()
    i = txt.find("=== ")
    if i < 0:
        print("no scenario in", path)
        return 2
    scen = "\n".join(l for l in txt[i:].split("\n") if l and not l.startswith("#")) + "\n"
    vlib.build_harness()
    vlib.build_model()
    res, err = seqlib.run_scenarios([scen])
    rc = 0
    for sid, (impl, model) in res.items():
        print("scenario", sid)
        print("implementation trace:")
        for l in impl:
            print("   ", seqlib.pretty(l))
        print("model trace:")
        for l in model:
            print("   ", l)
        d = seqlib.first_diff(impl, model)
        print("first difference:", d)
        fs = oracle(scen, impl)
        print("oracle:", fs if fs else "ok")
        if d or fs:
            rc = 1
    return rc
