"""C01 (decided on the sequential loop model; see p_seqprops.py, oracles.py, coq/props/C01.v)"""
import p_seqprops

PROPS = ["C01","C03","C04"]
PROFILES = [(3, {"n_setup": (3, 6), "share_fd_prob": 0.05, "script_prob": 0.9, "script_len": (1, 4)}), (1, {}),
            # composites whose last sub-source is a Timer: every event of a sibling is shown to the Timer as well
            (2, {"kinds": {"compt": 5, "comp": 2, "ping": 1, "timer": 1, "chan": 1}, "share_fd_prob": 0.0, "script_prob": 0.8,
                 "n_cmds": (12, 34), "err_ret_prob": 0.0})]


def main(tier, seed):
    import p_rawsrc
    return p_seqprops.run("C01", tier, seed, PROFILES, props=PROPS, extra_front=p_rawsrc.extra_front_for("C01"))


def replay(path):
    if "rawsrc case" in open(path).read():
        import p_rawsrc
        return p_rawsrc.replay(path)
    return p_seqprops.replay("C01", path, props=PROPS)
