"""Structured random scenarios for the sequential loop model (DESIGN.md 2.3).
All randomness derives from one random.Random; output is scenario text (see ocaml/m_seq.ml for the grammar)."""
import random

EFD_MAX = 18446744073709551614
IDLE_BASE = 1000000

DEFAULT_PROFILE = {
    "n_setup": (2, 5),          # sources inserted up front
    "n_cmds": (8, 30),
    "kinds": {"comp": 4, "ping": 2, "timer": 2, "chan": 2},
    "lc_prob": 0.3,             # composite opts into lifecycle events
    "share_fd_prob": 0.15,      # reuse an fd already used by another source (registration faults)
    "script_prob": 0.7,         # a handle gets scripted callbacks
    "script_len": (0, 3),
    "err_ret_prob": 0.06,
    "self_panic_prob": 0.01,    # excluded calls (enable/setint/setdl of the running source)
    "stats_prob": 0.5,
    "epoll_prob": 0.5,
    "bs_codes": [0, 0, 0, 1, 1, 2],
    "idle_prob": 0.08,
    "dropdisp_prob": 0.03,
    "max_phase": 8,
    "stop_prob": 0.03,          # LoopSignal::stop() from a callback / between dispatches
    "idle_burst_prob": 0.0,     # several idles queued at once, idles that insert idles
    "ping_cb_prob": 0.0,        # a callback action is a ping / clone / drop of some Ping handle
}


class Gen:
    def __init__(self, rnd, profile=None):
        self.r = rnd
        self.p = dict(DEFAULT_PROFILE)
        if profile:
            self.p.update(profile)
        self.lines = []
        self.next_h = 1
        self.next_fd = 10
        self.next_p = 1
        self.next_c = 1
        self.next_i = 1
        self.handles = {}      # h -> kind
        self.fds = []          # raw eventfd ids used by comps
        self.pings = []
        self.chans = {}        # c -> bound
        self.idles = []
        self.scripts = []      # deferred script lines
        self.phase = 0

    # ---- helpers
    def wchoice(self, d):
        ks = list(d.keys())
        return self.r.choices(ks, weights=[d[k] for k in ks])[0]

    def fresh_h(self):
        h = self.next_h
        self.next_h += 1
        return h

    def pick_fd(self):
        if self.fds and self.r.random() < self.p["share_fd_prob"]:
            return self.r.choice(self.fds)
        fd = self.next_fd
        self.next_fd += 1
        self.fds.append(fd)
        return fd

    def any_h(self):
        if not self.handles:
            return 1
        return self.r.choice(list(self.handles.keys()))

    # ---- action generators: return list of action strings (without the C/A prefix)
    def insert_actions(self, kind=None):
        kind = kind or self.wchoice(self.p["kinds"])
        h = self.fresh_h()
        self.handles[h] = kind
        if kind == "compt":
            # a composite whose last sub-source is a Timer
            n = self.r.choice([1, 1, 2, 2, 3])
            subs = []
            for _ in range(n):
                subs += [self.pick_fd(), self.r.choice([1, 1, 1, 3]), self.r.choice([0, 0, 0, 1, 2])]
            dl = self.r.choice([-1] + [2 * k for k in range(0, self.p["max_phase"] + 2)] * 3)
            return ["insert %d compt 0 %d %d %s" % (h, dl, n, " ".join(str(x) for x in subs))], h
        if kind == "comp":
            n = self.r.choice([1, 1, 2, 2, 3, 4])
            lc = 1 if self.r.random() < self.p["lc_prob"] else 0
            subs = []
            for _ in range(n):
                it = self.r.choice([1, 1, 1, 2, 3, 3, 0])
                md = self.r.choice([0, 0, 0, 1, 1, 2, 2])
                subs += [self.pick_fd(), it, md]
            if lc:
                self.lc_handles = getattr(self, "lc_handles", []) + [h]
            return ["insert %d comp %d %d %s" % (h, lc, n, " ".join(str(x) for x in subs))], h
        if kind == "ping":
            p = self.next_p
            self.next_p += 1
            fd = self.next_fd
            self.next_fd += 1
            self.pings.append(p)
            return ["newping %d %d" % (p, fd), "insert %d ping %d" % (h, fd)], h
        if kind == "timer":
            dl = self.r.choice([-1] + [2 * k for k in range(0, self.p["max_phase"] + 2)] * 2)
            return ["insert %d timer %d" % (h, dl)], h
        c = self.next_c
        self.next_c += 1
        fd = self.next_fd
        self.next_fd += 1
        bound = self.r.choice([-1, -1, -1, 0, 1, 2, 3])
        self.chans[c] = bound
        return ["newchan %d %d %d" % (c, fd, bound), "insert %d chan %d %d" % (h, c, fd)], h

    def cause_action(self):
        k = self.r.random()
        if k < 0.35 and self.fds:
            fd = self.r.choice(self.fds)
            m = self.r.random()
            if m < 0.6:
                return "fdwrite %d %d" % (fd, self.r.choice([1, 1, 2, 3]))
            if m < 0.85:
                return "fdread %d" % fd
            return "fdwrite %d %d" % (fd, EFD_MAX)
        if k < 0.6 and self.pings:
            p = self.r.choice(self.pings)
            m = self.r.random()
            if m < 0.7:
                return "ping %d" % p
            if m < 0.85:
                return "clonep %d" % p
            return "dropp %d" % p
        if k < 0.85 and self.chans:
            c = self.r.choice(list(self.chans.keys()))
            m = self.r.random()
            if m < 0.7:
                return ("send %d %d" if self.chans[c] < 0 else "trysend %d %d") % (c, self.r.randrange(100))
            if m < 0.85:
                return "clonesender %d" % c
            return "dropsender %d" % c
        if self.fds:
            return "fdwrite %d 1" % self.r.choice(self.fds)
        return None

    def handle_op(self, self_h=None):
        """an operation on some handle; self_h = the running handle when generated for a callback script"""
        k = self.r.random()
        tgt = self.any_h()
        if self_h is not None and self.r.random() < 0.35:
            tgt = self_h
        excluded_ok = self.r.random() < self.p["self_panic_prob"]
        if k < 0.2:
            return "remove %d" % tgt
        if k < 0.4:
            return "disable %d" % tgt
        if k < 0.6:
            if tgt == self_h and not excluded_ok:
                return "update %d" % tgt
            return "enable %d" % tgt
        if k < 0.78:
            return "update %d" % tgt
        if k < 0.86:
            if tgt == self_h and not excluded_ok:
                return "disable %d" % tgt
            kind = self.handles.get(tgt)
            if kind == "timer":
                # set_deadline takes effect with the next update(): the two are generated as a pair
                return "setdl %d %d\nupdate %d" % (tgt, 2 * self.r.randrange(0, self.p["max_phase"] + 2), tgt)
            if kind == "compt" and self.r.random() < 0.7:
                return "setdl %d %d\nupdate %d" % (tgt, 2 * self.r.randrange(0, self.p["max_phase"] + 2), tgt)
            if kind in ("comp", "compt"):
                a = "setint %d %d %d %d" % (tgt, self.r.randrange(0, 3), self.r.choice([0, 1, 2, 3]), self.r.choice([0, 1, 2]))
                return a + ("\nupdate %d" % tgt if self.r.random() < 0.6 else "")
            return "update %d" % tgt
        if k < 0.86 + self.p["dropdisp_prob"]:
            if tgt == self_h:
                return "remove %d" % tgt
            return self.r.choice(["dropdisp %d", "intoinner %d"]) % tgt if self.r.random() < 0.5 else "remove %d" % tgt
        if k < 0.86 + self.p["dropdisp_prob"] + self.p["idle_prob"]:
            i = self.next_i
            self.next_i += 1
            self.idles.append(i)
            if self.r.random() < 0.5:
                acts = self.script_actions(None, depth=1)
                self.scripts.append(("S", IDLE_BASE + i, 0, 0, acts))
            return "idle %d" % i
        if self.idles and self.r.random() < 0.3:
            return "cancelidle %d" % self.r.choice(self.idles)
        if self.r.random() < self.p["stop_prob"] * 10:
            return "stopsignal"
        return None

    def script_actions(self, h, depth=0):
        n = self.r.randint(*self.p["script_len"])
        acts = []
        for _ in range(n):
            if self.pings and self.r.random() < self.p["ping_cb_prob"]:
                acts.append(self.r.choice(["ping %d", "ping %d", "dropp %d", "clonep %d"]) % self.r.choice(self.pings))
                continue
            k = self.r.random()
            if k < 0.5:
                a = self.handle_op(self_h=h)
                if a:
                    acts += a.split("\n")
            elif k < 0.85:
                a = self.cause_action()
                if a:
                    acts.append(a)
            elif depth == 0:
                ins, nh = self.insert_actions()
                acts += ins
                self.maybe_script(nh, depth=1)
        return acts

    def maybe_script(self, h, depth=0):
        if self.r.random() > self.p["script_prob"]:
            return
        kind = self.handles.get(h)
        for _ in range(self.r.randint(1, 4)):
            acts = self.script_actions(h, depth)
            if kind == "comp":
                ret = 4 if self.r.random() < self.p["err_ret_prob"] else self.r.choice([0, 0, 0, 0, 1, 2, 3])
                arg = 0
            elif kind == "compt":
                # the return code is a PostAction for an event of a Generic sub-source and a TimeoutAction for the Timer's
                ret = self.r.choice([0, 0, 0, 1, 1, 1, 2, 3])
                arg = 2 * self.r.randrange(0, self.p["max_phase"] + 3)
            elif kind == "timer":
                ret = self.r.choice([0, 0, 1, 1, 1, 2])
                arg = 2 * self.r.randrange(0, self.p["max_phase"] + 3)
            else:
                ret, arg = 0, 0
            self.scripts.append(("S", h, ret, arg, acts))
        if kind == "comp" and h in getattr(self, "lc_handles", []):
            for _ in range(self.r.randint(0, 5)):
                self.scripts.append(("B", h, self.r.choice(self.p["bs_codes"])))

    # ---- whole scenario
    def scenario(self, sid):
        body = []
        for _ in range(self.r.randint(*self.p["n_setup"])):
            ins, h = self.insert_actions()
            body += ["C " + a for a in ins]
            self.maybe_script(h)
        for _ in range(self.r.randint(*self.p["n_cmds"])):
            k = self.r.random()
            if k < 0.3:
                if self.r.random() < 0.7:
                    self.phase = min(self.phase + self.r.choice([0, 0, 1, 1, 2]), self.p["max_phase"])
                body.append("D %d" % self.phase)
                if self.r.random() < self.p["stats_prob"]:
                    body.append("T")
                if self.r.random() < self.p["epoll_prob"]:
                    body.append("E")
            elif k < 0.3 + self.p["idle_burst_prob"]:
                # a burst of idles, some of which insert further idles from their callbacks
                for _ in range(self.r.randint(4, 9)):
                    i = self.next_i
                    self.next_i += 1
                    self.idles.append(i)
                    if self.r.random() < 0.5:
                        j = self.next_i
                        self.next_i += 1
                        self.idles.append(j)
                        acts = ["idle %d" % j]
                        if self.r.random() < 0.3:
                            acts.append("cancelidle %d" % self.r.choice(self.idles))
                        self.scripts.append(("S", IDLE_BASE + i, 0, 0, acts))
                    body.append("C idle %d" % i)
            elif k < 0.6:
                a = self.cause_action()
                if a:
                    body.append("C " + a)
            elif k < 0.88:
                a = self.handle_op()
                if a:
                    body += ["C " + x for x in a.split("\n")]
            else:
                ins, h = self.insert_actions()
                body += ["C " + a for a in ins]
                self.maybe_script(h)
        body.append("D %d" % min(self.phase + 1, self.p["max_phase"] + 1))
        body.append("T")
        body.append("E")
        out = ["=== %s" % sid]
        for sc in self.scripts:
            if sc[0] == "S":
                _, h, ret, arg, acts = sc
                out.append("S %d %d %d %d" % (h, ret, arg, len(acts)))
                out += ["A " + a for a in acts]
            else:
                out.append("B %d %d" % (sc[1], sc[2]))
        out += body
        return "\n".join(out) + "\n"


def gap_scenario(r, sid):
    """C07, readiness survives the gap: a target source that is ready is disabled - by an earlier callback of the same batch
    (actor = a ping source), or between dispatches - possibly left disabled over some dispatches, and enabled again; what was
    ready must be delivered after enable(). All four source kinds as target, both readiness orders."""
    pre, scripts = ["C newping 1 10", "C insert 1 ping 10"], []
    kind = r.choice(["timer", "timer", "comp", "chan", "ping"])
    if kind == "timer":
        pre.append("C insert 2 timer %d" % r.choice([0, 0, 2]))
        ready = []
    elif kind == "comp":
        pre.append("C insert 2 comp 0 1 12 1 %d" % r.choice([0, 0, 1]))
        ready = ["C fdwrite 12 1"]
    elif kind == "chan":
        pre += ["C newchan 1 13 -1", "C insert 2 chan 1 13"]
        ready = ["C send 1 7"]
    else:
        pre += ["C newping 2 14", "C insert 2 ping 14"]
        ready = ["C ping 2"]
    how = r.choice(["actor", "actor", "outside"])
    body = []
    if how == "actor":
        scripts += ["S 1 0 0 1", "A disable 2"]
        body += (ready + ["C ping 1"]) if r.random() < 0.5 else (["C ping 1"] + ready)
        body.append("D %d" % r.choice([1, 2]))
    else:
        body += ready + ["C disable 2", "D 1"]
    for _ in range(r.randint(0, 3)):
        body.append(r.choice(["C ping 1", "D 2", "D 2", "T", "E"] + ready))
    body += ["C enable 2", "D 3", "T", "E", "D 4", "T"]
    return "=== %s\n" % sid + "\n".join(scripts + pre + body) + "\n"


def gen_many(seed, n, profile=None, prefix="g"):
    rnd = random.Random(seed)
    gap = (profile or {}).get("gap_frac", 0.0)
    out = []
    for i in range(n):
        r = random.Random(rnd.getrandbits(64))
        if gap and r.random() < gap:
            out.append(gap_scenario(r, "%s%d" % (prefix, i)))
        else:
            out.append(Gen(r, profile).scenario("%s%d" % (prefix, i)))
    return out
