"""C06 (decided on the sequential loop model; see p_seqprops.py, oracles.py, coq/props/C06.v)"""
import p_seqprops

PROPS = ["C06"]
PROFILES = [(3, {"script_prob": 0.9, "dropdisp_prob": 0.1, "n_cmds": (12, 40)}), (1, {})]


def main(tier, seed):
    return p_seqprops.run("C06", tier, seed, PROFILES, props=PROPS)


def replay(path):
    return p_seqprops.replay("C06", path, props=PROPS)
