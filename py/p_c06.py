"""C06 (decided on the sequential loop model; see p_seqprops.py, oracles.py, coq/props/C06.v)"""
import p_seqprops

PROPS = ["C06"]
PROFILES = [(3, {"script_prob": 0.9, "dropdisp_prob": 0.1, "n_cmds": (12, 40)}), (1, {})]


def main(tier, seed):
    import p_rawsrc
    return p_seqprops.run("C06", tier, seed, PROFILES, props=PROPS, extra_front=p_rawsrc.extra_front_for("C06"))


def replay(path):
    if "rawsrc case" in open(path).read():
        import p_rawsrc
        return p_rawsrc.replay(path)
    return p_seqprops.replay("C06", path, props=PROPS)
