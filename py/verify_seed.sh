#!/bin/bash
# usage: verify_seed.sh <ID> [features]   -- confirms a seeded change in /tmp/wt_<ID> with /tmp/seed_<ID>/{patch.diff,demo.rs}
ID=$1; FEAT=${2:-}; WT=/tmp/wt_$ID; SD=/tmp/seed_$ID
cd $WT || exit 2
git checkout -q -- . ; rm -f tests/demo.rs
git apply $SD/patch.diff || { echo "PATCH DOES NOT APPLY"; exit 2; }
echo "== existing suite with change"
cargo test --workspace --no-fail-fast --offline 2>&1 | grep -E "^test result|FAILED|error(\[|:)" | head -8
cp $SD/demo.rs tests/demo.rs
printf '\n[[test]]\nname = "demo"\npath = "tests/demo.rs"\n' >> Cargo.toml
echo "== demo WITH change (expect failure)"
timeout 600 cargo test --offline $FEAT --test demo 2>&1 | grep -E "^test result|^test .* (ok|FAILED)|error(\[|:)" | head -8
git apply -R $SD/patch.diff
echo "== demo WITHOUT change (expect ok)"
timeout 600 cargo test --offline $FEAT --test demo 2>&1 | grep -E "^test result|^test .* (ok|FAILED)|error(\[|:)" | head -8
git checkout -q -- . ; rm -f tests/demo.rs
