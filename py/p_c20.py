"""C20  Poller keys encode (slot, generation, sub-source) injectively and reversibly."""
import random

import vlib

U16, U32, U64 = 1 << 16, 1 << 32, 1 << 64


def gen_cases(tier, seed):
    rnd = random.Random(seed * 7919 + 20)
    bvals16 = [0, 1, 2, 255, 256, 257, 32767, 32768, 65534, 65535]
    bids = [0, 1, 2, 65535, 65536, 65537, (1 << 31) - 1, 1 << 31, U32 - 2, U32 - 1]
    triples = [(i, v, s) for i in bids for v in bvals16 for s in bvals16]
    n = 20000 if tier == "quick" else 300000
    for _ in range(n):
        k = rnd.random()
        if k < 0.5:
            triples.append((rnd.randrange(U32), rnd.randrange(U16), rnd.randrange(U16)))
        elif k < 0.8:  # dense low ids (what a loop really uses)
            triples.append((rnd.randrange(4096), rnd.randrange(U16), rnd.randrange(U16)))
        else:  # neighbours in one field: the collisions a wrong shift would create
            i, v, s = rnd.choice(triples)
            f = rnd.randrange(3)
            d = rnd.choice([-1, 1])
            if f == 0:
                i = (i + d) % U32
            elif f == 1:
                v = (v + d) % U16
            else:
                s = (s + d) % U16
            triples.append((i, v, s))
    keys = [0, 1, U16 - 1, U16, U32 - 1, U32, U64 - 2, U64 - 1, (1 << 48) - 1, 1 << 48]
    for _ in range(n // 2):
        keys.append(rnd.randrange(U64))
    facts = [(rnd.randrange(4096), rnd.randrange(U16), m) for m in (1, 2, 3, 17, 1000)]
    facts += [(3, 9, 65534), (3, 9, 65535), (3, 9, 65536), (0, 0, 65537), (7, 65535, 70000)]
    if tier == "thorough":
        facts += [(rnd.randrange(U32), rnd.randrange(U16), rnd.choice([1, 65535, 65536])) for _ in range(20)]
    return triples, keys, facts


def lines_round1(triples, keys, facts):
    cases = []
    for (i, v, s) in triples:
        cases.append("pack %d %d %d" % (i, v, s))
    for (i, v, s) in triples[:4000]:
        cases.append("incver %d %d %d" % (i, v, s))
        cases.append("incsub %d %d %d" % (i, v, s))
        cases.append("forget %d %d %d" % (i, v, s))
    for k in keys:
        cases.append("unpack %d" % k)
    for (i, v, m) in facts:
        cases.append("factory %d %d 0 %d" % (i, v, m))
    for i in (0, 1, U32 - 1, U32, U32 + 1, U64 - 1):
        cases.append("new %d" % i)
    for a in range(0, min(len(triples), 3000), 3):
        x, y = triples[a], triples[a + 1]
        cases.append("same %d %d %d %d %d %d" % (x + y))
        cases.append("same %d %d %d %d %d %d" % (x + (x[0], x[1], y[2])))
    return cases


def oracle(cases, impl, impl2_map):
    """The property, stated directly on the implementation's answers.
    impl2_map: key -> impl's unpack of that key (second round). Returns list of (what, case lines)."""
    bad = []
    seen = {}
    for c, r in zip(cases, impl):
        w = c.split()
        if w[0] == "pack":
            t = tuple(int(x) for x in w[1:4])
            try:
                k = int(r)
            except ValueError:
                bad.append(("pack did not return a key", [c, r]))
                continue
            if k in seen and seen[k] != t:
                bad.append(("two triples share one key (not injective)", ["pack %d %d %d" % seen[k], c, "key %d" % k]))
            seen[k] = t
            if t[0] < U32 - 1 and k == U64 - 1:
                bad.append(("key equals the poller's reserved notification key", [c, r]))
            d = impl2_map.get(k)
            if d is not None and d != "%d %d %d" % t:
                bad.append(("key does not decode back to its triple", [c, "key %d" % k, "unpack -> " + d]))
        elif w[0] == "unpack":
            k = int(w[1])
            back = impl2_map.get(("repack", r))
            if back is not None and back != str(k):
                bad.append(("decoded triple does not encode back to the key", [c, r, "pack -> " + back]))
        elif w[0] == "factory":
            i, v, s0, m = (int(x) for x in w[1:5])
            if r == "PANIC":
                if s0 + m < U16:
                    bad.append(("factory failed although the request is representable", [c, r]))
                continue
            ks = r.split()
            cnt, ks = int(ks[0]), [int(x) for x in ks[1:]]
            if cnt != m or len(ks) != m:
                bad.append(("factory returned a wrong number of tokens", [c, r[:200]]))
            if len(set(ks)) != len(ks):
                bad.append(("sub-tokens of one source are not pairwise distinct (wrap-around)", [c, r[:200]]))
            for k in ks[:3] + ks[-3:]:
                d = impl2_map.get(k)
                if d is not None:
                    di, dv, _ = (int(x) for x in d.split())
                    if (di, dv) != (i, v):
                        bad.append(("sub-token does not belong to its source", [c, "key %d -> %s" % (k, d)]))
            if s0 + m > U16:
                bad.append(("more sub-tokens than representable were handed out without failing", [c, r[:200]]))
        elif w[0] == "same":
            # "belongs to that source" is decided by same_source_as: true exactly for two tokens of one (slot, generation)
            a, b = tuple(int(x) for x in w[1:4]), tuple(int(x) for x in w[4:7])
            want = "1" if a[0:2] == b[0:2] else "0"
            if r in ("0", "1", "true", "false"):
                got = "1" if r in ("1", "true") else "0"
                if got != want:
                    bad.append(("same_source_as says %s for tokens of %s" % ("yes" if got == "1" else "no", "one (slot, generation)" if want == "1" else "different (slot, generation) pairs"), [c, r]))
        elif w[0] == "incver":
            # the token of a slot's next generation must still name that slot (else its key is the key of another slot's triple),
            # with sub-id 0 and another version
            t = tuple(int(x) for x in w[1:4])
            if r != "PANIC" and len(r.split()) == 3:
                d = tuple(int(x) for x in r.split())
                if d[0] != t[0]:
                    bad.append(("the next generation's token of slot %d names slot %d: its key is the key of another slot's (slot, generation, sub-source) triple" % (t[0], d[0]), [c, r]))
                elif d[2] != 0 or d[1] == t[1]:
                    bad.append(("the next generation's token keeps the generation or carries a sub-id", [c, r]))
        elif w[0] == "incsub":
            t = tuple(int(x) for x in w[1:4])
            if r != "PANIC":
                d = tuple(int(x) for x in r.split())
                if d[0:2] != t[0:2] or d[2] <= t[2]:
                    bad.append(("successor sub-id wraps or changes the source", [c, r]))
    return bad


def second_round(cases, impl):
    """Build the round-2 case list from the implementation's round-1 answers."""
    c2 = []
    for c, r in zip(cases, impl):
        w = c.split()
        if w[0] == "pack" and r.isdigit():
            c2.append("unpack %s" % r)
        elif w[0] == "unpack" and len(r.split()) == 3:
            c2.append("pack %s" % r)
        elif w[0] == "factory" and r != "PANIC":
            ks = r.split()[1:]
            for k in ks[:3] + ks[-3:]:
                if k.isdigit():
                    c2.append("unpack %s" % k)
    return c2


def run_all(chk, cases):
    impl, ilog = vlib.run_impl(["token"], cases)
    model, mlog = vlib.run_model(["token"], cases)
    c2 = second_round(cases, impl)
    impl2, ilog2 = vlib.run_impl(["token"], c2)
    m = {}
    for c, r in zip(c2, impl2):
        w = c.split()
        if w[0] == "unpack":
            m[int(w[1])] = r
        else:
            m[("repack", " ".join(w[1:4]))] = r
    return impl, model, m, (ilog + ilog2), mlog


def main(tier, seed):
    chk = vlib.Check("C20", tier, seed)
    st = vlib.standard_front(chk)
    triples, keys, facts = gen_cases(tier, seed)
    cases = lines_round1(triples, keys, facts)
    chk.assumptions = ["64-bit usize (BITS_VERSION = BITS_SUBID = 16); the 32/16-bit configurations are not built here",
                       "correspondence through the cfg(calloop_verif) accessors in src/verif.rs"]
    if not (st.get("harness_ok") and st.get("model_ok")):
        what = "harness build failed" if not st.get("harness_ok") else "model build failed"
        chk.violation("build", "correspondence broken: %s\n%s\n%s" % (what, st.get("harness_log", ""), st.get("model_log", "")), nofail=True)
        chk.cov.update({"evaluations": 0, "distinct_nontrivial": 0})
        return chk.finish()
    # the keys that really reach the poller: histories of register / reregister with freshly drawn sub-tokens (harness genlife,
    # coq/theories/GenLife.v): the kernel's table must carry, for every registered Generic, the key of the token it last drew
    import p_c16
    p_c16.genlife(chk, st, prop="C20")
    # ... and the one key that is built without a TokenFactory: the Async adapter's, read back from the kernel's table
    import p_adaptkey
    p_adaptkey.stage(chk, "C20")
    impl, model, m2, ilog, mlog = run_all(chk, cases)
    diffs = [(c, a, b) for c, a, b in zip(cases, impl, model) if a != b]
    bad = oracle(cases, impl, m2)
    kinds = {}
    for c in cases:
        kinds[c.split()[0]] = kinds.get(c.split()[0], 0) + 1
    chk.cov.update({
        "evaluations": len(cases) + len(m2),
        "distinct_nontrivial": len(set(cases)),
        "traces_validated_against_impl": len(cases) - len(diffs),
        "rule": "seeded boundary grid (10 ids x 10 versions x 10 sub-ids) + random triples (uniform, dense-low-id, one-field neighbours) + random 64-bit keys + factories asked for 1..70000 tokens; a case is one accessor call, distinct by its text; second round decodes/encodes the implementation's own answers",
        "case_kinds": kinds,
        "samples": [{"case": c, "impl": a[:80], "model": b[:80]} for c, a, b in list(zip(cases, impl, model))[:3] + list(zip(cases, impl, model))[-8:-5]],
        "model_impl_disagreements": len(diffs),
    })
    if bad:
        what, lines = bad[0]
        chk.violation("oracle", "C20 violated on the real code: %s\nreplay cases (./check C20 --replay <this file>):\n%s\n(%d failing cases in total)"
                      % (what, "\n".join("# " + l if not l.split()[0] in ("pack", "unpack", "factory", "incsub") else l for l in lines), len(bad)))
    elif diffs or not st["proof"]["ok"] or ilog or mlog:
        why = []
        if not st["proof"]["ok"]:
            why.append("proof obligation no longer checks: %s" % st["proof"]["failed"])
        if diffs:
            c, a, b = diffs[0]
            why.append("correspondence differs on %d cases, first: `%s` impl=`%s` model=`%s`" % (len(diffs), c, a[:100], b[:100]))
        if ilog or mlog:
            why.append("runner problem: %s %s" % (ilog[:300], mlog[:300]))
        # the oracle already ran over every implementation answer (search = the whole case set) and found no failing input
        chk.violation("broken", "C20 is no longer shown to hold.\n" + "\n".join(why) + "\n" + st["proof"]["log"][-1500:] +
                      "\nsearched %d implementation answers with the direct oracle: no failing input found\n" % len(cases) +
                      "\n".join(c for c, _, _ in diffs[:20]), nofail=True)
    return chk.finish()


def replay(path):
    if "adaptkey case" in open(path).read():
        import p_adaptkey
        return p_adaptkey.replay(path, "C20")
    if "genlife case:" in open(path).read():
        import p_c16
        return p_c16.replay(path)
    cases = [l.strip() for l in open(path) if l.strip() and l.split()[0] in ("pack", "unpack", "factory", "incsub", "incver", "forget", "same", "new", "bitor", "bitor_assign")]
    vlib.build_harness()
    vlib.build_model()
    impl, _ = vlib.run_impl(["token"], cases)
    model, _ = vlib.run_model(["token"], cases)
    rc = 0
    for c, a, b in zip(cases, impl, model):
        print("%s\n  impl : %s\n  model: %s" % (c, a[:300], b[:300]))
        if a != b:
            rc = 1
    return rc
