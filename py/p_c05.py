"""C05 (decided on the sequential loop model; see p_seqprops.py, oracles.py, coq/props/C05.v)"""
import p_seqprops

PROPS = ["C05"]
PROFILES = [(3, {"kinds": {"comp": 1, "ping": 1, "timer": 6, "chan": 0.5}, "n_setup": (3, 7), "script_prob": 0.9, "stats_prob": 0.9}), (1, {}),
            (1, {"kinds": {"compt": 4, "timer": 3, "ping": 1, "comp": 1}, "share_fd_prob": 0.0, "script_prob": 0.85, "stats_prob": 0.9, "err_ret_prob": 0.0})]


def main(tier, seed):
    return p_seqprops.run("C05", tier, seed, PROFILES, props=PROPS)


def replay(path):
    return p_seqprops.replay("C05", path, props=PROPS)
