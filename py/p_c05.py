"""C05 (decided on the sequential loop model; see p_seqprops.py, oracles.py, coq/props/C05.v)"""
import p_seqprops

PROPS = ["C05"]
PROFILES = [(3, {"kinds": {"comp": 1, "ping": 1, "timer": 6, "chan": 0.5}, "n_setup": (3, 7), "script_prob": 0.9, "stats_prob": 0.9}), (1, {}),
            (1, {"kinds": {"compt": 4, "timer": 3, "ping": 1, "comp": 1}, "share_fd_prob": 0.0, "script_prob": 0.85, "stats_prob": 0.9, "err_ret_prob": 0.0})]


def real_time_never_early(chk, st):
    """never before its deadline, on the real clock: dispatch(None) is ended after 150 ms by LoopSignal::wakeup() from another thread
    while a timer is armed for 400 / 700 ms - the timer must not fire (harness/src/m_timing.rs, the C12 harness)"""
    import p_c12
    cases = ["-1 400 0", "-1 700 0", "-1 400 1", "-1 700 3"]
    outs = [p_c12.run_impl_one(c) for c in cases]
    bad = [(c, o) for c, o in zip(cases, outs) if len(o.split()) == 4 and o.split()[1] != "0"]
    chk.cov["real_time_wakeup_cases"] = {"cases": cases, "results(elapsed_us fired other ok)": outs}
    if bad:
        c, o = bad[0]
        chk.violation("oracle-early", "C05 violated on the real code: a timer fired before its deadline: dispatch(None) was woken after 150 ms, the timer was armed for %s ms\n"
                      "case (timeout_ms timer_ms idle_kind): %s\nmeasured (elapsed_us fired other ok): %s" % (c.split()[1], c, o))


def main(tier, seed):
    return p_seqprops.run("C05", tier, seed, PROFILES, props=PROPS, extra_front=real_time_never_early)


def replay(path):
    txt = open(path).read()
    if "case (timeout_ms timer_ms idle_kind):" in txt:
        import p_c12
        import vlib
        vlib.build_harness()
        rc = 0
        for l in txt.split("\n"):
            if l.startswith("case (timeout_ms timer_ms idle_kind):"):
                c = l.split(":", 1)[1].strip()
                o = p_c12.run_impl_one(c)
                print(c, "->", o)
                if len(o.split()) == 4 and o.split()[1] != "0":
                    rc = 1
        return rc
    return p_seqprops.replay("C05", path, props=PROPS)
