"""C19  Signals: signal-mask bookkeeping is exact; each pending signal reported once."""
import itertools
import random

import vlib

NAMES = ["hup", "usr1", "usr2", "cont", "urg", "winch"]


def gen_cases(tier, seed):
    rnd = random.Random(seed * 131 + 19)
    cases = []

    def subset():
        k = rnd.choice([0, 1, 1, 1, 2, 2, 2, 3, 6])      # the empty set is a legal argument of every call
        return ",".join(sorted(rnd.sample(NAMES, k), key=NAMES.index))

    n = 1500 if tier == "quick" else 30000
    for _ in range(n):
        ops = ["new " + subset()]
        for _ in range(rnd.randint(2, 12)):
            k = rnd.random()
            if k < 0.35:
                ops.append("raise " + rnd.choice(NAMES))
            elif k < 0.5:
                ops.append("disp")
            elif k < 0.62:
                ops.append("add " + subset())
            elif k < 0.74:
                ops.append("rem " + subset())
            elif k < 0.9:
                ops.append("set " + subset())
            elif k < 0.95:
                ops.append("drop")
            else:
                ops.append("new " + subset())
        cases.append(";".join(ops))
    # many distinct configured signals pending at one dispatch (the signalfd is read until it is empty)
    for k in (4, 5, 6):
        for _ in range(4):
            sel = sorted(rnd.sample(NAMES, k), key=NAMES.index)
            order = sel[:]
            rnd.shuffle(order)
            cases.append(";".join(["new " + ",".join(NAMES)] + ["raise " + x for x in order] + ["disp", "disp"]))
            cases.append(";".join(["new " + ",".join(sel)] + ["raise " + x for x in order] + ["raise " + order[0], "disp", "raise " + order[-1], "disp"]))
    # every short sequence over a 2-signal universe around set_signals (the repaired window)
    small = ["raise usr1", "raise usr2", "set usr1", "set usr2", "set usr1,usr2", "set", "add", "rem", "disp", "rem usr1", "add usr2"]
    for n in (2, 3):
        for seq in itertools.product(small, repeat=n):
            cases.append("new usr1;" + ";".join(seq))
    return cases


def judge(case, out):
    """the property, on the real process: blocked set == configured set after every call; configured pending signals are
    reported (once) and never reach the handler; unconfigured ones are never reported"""
    ops = case.split(";")
    obs = out.split(" ")
    if out == "PANIC" or len(obs) < len(ops):
        return ["harness panic / missing observations"]
    fails = []
    mask, alive = set(), False
    pending = set()          # raised while configured, not yet reported
    prev_counts = [0] * 6
    for op, ob in zip(ops, obs):
        bits, counts, rep = ob.split("/")
        counts = [int(x) for x in counts.split(",")]
        rep = [r for r in rep.split(",") if r]
        ws = op.split()
        arg = ws[1].split(",") if len(ws) > 1 else []
        before_mask = set(mask)
        if ws[0] == "new" and not alive:
            mask, alive = set(arg), True
        elif ws[0] == "add" and alive:
            mask |= set(arg)
        elif ws[0] == "rem" and alive:
            mask -= set(arg)
        elif ws[0] == "set" and alive:
            mask = set(arg)
        elif ws[0] == "drop" and alive:
            mask, alive = set(), False
        elif ws[0] == "raise":
            if arg[0] in mask:
                pending.add(arg[0])
        want_bits = "".join("1" if n in mask else "0" for n in NAMES)
        if bits != want_bits:
            fails.append("mask: after `%s` the thread blocks %s but the configured set is %s" % (op, bits, want_bits))
        for r in rep:
            r0 = r.replace("!foreignpid", "")
            if "!foreignpid" in r:
                fails.append("sender: wrong sender pid reported for %s" % r0)
            if r0 not in before_mask:
                fails.append("unconfigured: %s was reported but is not configured" % r0)
            if r0 not in pending:
                fails.append("phantom: %s was reported without a pending instance (or twice)" % r0)
            pending.discard(r0)
        if ws[0] == "disp" and alive:
            left = [p for p in pending if p in mask]
            if left:
                fails.append("lost: pending configured %s not reported by the dispatch" % left)
        # a configured signal that stays configured must never reach its ordinary handler
        for i, nme in enumerate(NAMES):
            if counts[i] > prev_counts[i] and nme in before_mask and nme in mask:
                fails.append("escaped: %s reached its ordinary handler during `%s` although it is configured before and after" % (nme, op))
                pending.discard(nme)
        # signals dropped from the set take their pending instance with them (delivered to the handler)
        pending &= mask
        prev_counts = counts
    return fails


def main(tier, seed):
    chk = vlib.Check("C19", tier, seed)
    st = vlib.standard_front(chk)
    chk.assumptions = ["single-threaded harness process, thread mask initially empty on the universe {HUP,USR1,USR2,CONT,URG,WINCH}",
                       "kernel signal rules (blocked => pending, coalescing, unblock delivers, signalfd order) are the environment model",
                       "counting handlers installed for the whole universe"]
    if not (st.get("harness_ok") and st.get("model_ok")):
        chk.violation("build", "correspondence broken: build failed\n%s\n%s" % (st.get("harness_log", "")[-2000:], st.get("model_log", "")[-2000:]), nofail=True)
        chk.cov.update({"evaluations": 0, "distinct_nontrivial": 0})
        return chk.finish()
    cases = gen_cases(tier, seed)
    # one process: the signal mask and the handlers are per-process state
    import subprocess
    p = subprocess.run([vlib.HARNESS, "signals"], input="\n".join(cases) + "\n", stdout=subprocess.PIPE, stderr=subprocess.PIPE, text=True, timeout=900)
    impl = p.stdout.split("\n")[:len(cases)]
    impl += ["PANIC"] * (len(cases) - len(impl))
    model, mlog = vlib.run_model(["signals"], cases)
    diffs, bad = [], []
    for c, i, m in zip(cases, impl, model):
        if i != m.rsplit(" | escaped=", 1)[0]:
            diffs.append((c, i, m))
        fs = judge(c, i)
        if fs:
            bad.append((c, i, fs))
    chk.cov.update({
        "evaluations": len(cases), "distinct_nontrivial": len(set(impl)),
        "traces_validated_against_impl": len(cases) - len(diffs),
        "rule": "seeded random histories of new/add/remove/set/drop/raise/dispatch over subsets of 6 signals + every sequence of length 2-3 of 8 "
                "operations around set_signals on a 2-signal universe; observed after every call: pthread_sigmask, handler counters, reported signals",
        "samples": [{"case": c, "impl": i} for c, i in list(zip(cases, impl))[:2]],
        "model_impl_disagreements": len(diffs),
    })
    if bad:
        c, i, fs = min(bad, key=lambda x: len(x[0]))
        chk.violation("oracle", "C19 violated on the real code: %s\n%s\n# observations per call (blocked/handler counts/reported): %s\n(%d failing histories)" % (fs[0], c, i, len(bad)))
    elif diffs or not st["proof"]["ok"] or mlog or p.returncode != 0:
        why = []
        if not st["proof"]["ok"]:
            why.append("proof obligation no longer checks: %s" % st["proof"]["failed"])
        if diffs:
            c, i, m = min(diffs, key=lambda x: len(x[0]))
            why.append("correspondence differs on %d cases; shortest: `%s`\n impl : %s\n model: %s" % (len(diffs), c, i, m))
        if mlog or p.returncode != 0:
            why.append("runner: rc=%s %s %s" % (p.returncode, p.stderr[-300:], mlog[:300]))
        chk.violation("broken", "C19 is no longer shown to hold.\n" + "\n".join(why) +
                      "\nthe oracle judged all %d histories of this run on the real process: no failing input found" % len(cases), nofail=True)
    return chk.finish()


def replay(path):
    import subprocess
    cases = [l.strip() for l in open(path) if l.startswith("new")]
    vlib.build_harness()
    vlib.build_model()
    p = subprocess.run([vlib.HARNESS, "signals"], input="\n".join(cases) + "\n", stdout=subprocess.PIPE, text=True)
    impl = p.stdout.split("\n")
    model, _ = vlib.run_model(["signals"], cases)
    rc = 0
    for c, i, m in zip(cases, impl, model):
        print("%s\n  impl : %s\n  model: %s\n  oracle: %s" % (c, i, m, judge(c, i) or "ok"))
        if i != m.rsplit(" | escaped=", 1)[0] or judge(c, i):
            rc = 1
    return rc
