"""C02 (decided on the sequential loop model; see p_seqprops.py, oracles.py, coq/props/C02.v)"""
import p_seqprops

PROPS = ["C02"]
PROFILES = [(3, {"n_setup": (4, 8), "script_prob": 0.4, "share_fd_prob": 0.0, "err_ret_prob": 0.02, "stop_prob": 0.08, "kinds": {"comp": 5, "ping": 2, "timer": 2, "chan": 2}}), (1, {})]


def main(tier, seed):
    return p_seqprops.run("C02", tier, seed, PROFILES, props=PROPS)


def replay(path):
    return p_seqprops.replay("C02", path, props=PROPS)
