"""C02 (decided on the sequential loop model; see p_seqprops.py, oracles.py, coq/props/C02.v)"""
import p_seqprops

PROPS = ["C02"]
PROFILES = [(3, {"n_setup": (4, 8), "script_prob": 0.4, "share_fd_prob": 0.0, "err_ret_prob": 0.02, "stop_prob": 0.08, "kinds": {"comp": 5, "ping": 2, "timer": 2, "chan": 2}}), (1, {})]


def queued_by_blocked_sender(chk, st):
    """a message queued by a sender that was blocked in SyncSender::send is a pending cause like any other: the directed schedules of
    the C04 scheduler harness (the loop drains between the try_send ping and the blocking send) judged for stranded messages"""
    import p_c03
    import p_c04
    import vlib
    cases = [c for c in p_c04.gen_cases("quick", 1) if c.startswith(("1 3 |", "2 3 |")) and "b" in c.split("|")[1]][:112]
    out = p_c03.run_batch(vlib.HARNESS, "cchan", cases)
    bad = []
    for c, o in zip(cases, out):
        fs = [f for f in p_c04.judge(c, o) if f.startswith(("stranded", "a sender stays blocked"))]
        if fs:
            bad.append((c, o, fs[0]))
    chk.cov["blocked_sender_schedules"] = {"cases": len(cases), "failing": len(bad)}
    if bad:
        c, o, f = min(bad, key=lambda x: len(x[0]))
        chk.violation("oracle-blocked-sender", "C02 violated on the real code: a queued message is not dispatched although the loop keeps dispatching: %s\n%s\n# executed steps and observations: %s" % (f, c, o))


def main(tier, seed):
    return p_seqprops.run("C02", tier, seed, PROFILES, props=PROPS, extra_front=queued_by_blocked_sender)


def replay(path):
    txt = open(path).read()
    if "=== " not in txt and txt.count("|") >= 2:
        import p_c04
        return p_c04.replay(path)
    return p_seqprops.replay("C02", path, props=PROPS)
