"""C11  LoopSignal, run() and block_on(): wake-ups and stop requests are never lost."""
import itertools
import random
import re
from concurrent.futures import ThreadPoolExecutor

import p_c03
import vlib

STEPS = {"s": 1, "w": 1, "k": 3}


def gen_cases(tier, seed):
    rnd = random.Random(seed * 57 + 11)
    cases = []
    # run(): signalling programs placed at every loop pc: exhaustive interleavings of small programs
    progs1 = ["s", "w", "sw", "ws", "ww", "sws"]
    for a in progs1:
        for b in ["", "w", "s", "sw"]:
            progs = [p for p in (a, b) if p]
            counts = [5] + [sum(STEPS[c] for c in p) for p in progs]
            for sch in p_c03.interleavings(counts, 10 if tier == "quick" else 60, rnd):
                cases.append("run - | %s | %s" % (";".join(progs), "".join(map(str, sch))))
    # block_on: the first three loop steps (reset, flag check, first poll) come first so that a waker exists
    # w: the future wakes itself inside its poll (flag store and notify on the loop thread, before the poll returns)
    scripts = ["r", "pr", "ppr", "pp", "ppp", "wr", "wpr", "pwr", "ww", "w", "wwr"]
    progs2 = ["k", "kk", "ks", "kw", "skw", "sw", "w"]
    for f in scripts:
        for a in progs2:
            for b in ["", "k", "sw"]:
                progs = [p for p in (a, b) if p]
                counts = [6 + 3 * f.count("w")] + [sum(STEPS[c] for c in p) for p in progs]
                for sch in p_c03.interleavings(counts, 3 if tier == "quick" else 40, rnd):
                    cases.append("blockon %s | %s | 000%s" % (f, ";".join(progs), "".join(map(str, sch))))
    rnd.shuffle(cases)
    return cases[: (450 if tier == "quick" else 6000)]


def norm(out):
    out = out.replace(":blocked", "")
    return out.replace("ITER WOKE", "WOKE ITER")


def judge(case, out):
    head, progs, _ = [x.strip() for x in case.split("|")]
    blockon = head.startswith("blockon")
    script = head.split()[1] if blockon else ""
    toks = norm(out).split()
    fails = []
    if "PANIC" in toks or "BAD" in toks or "TIMEOUT" in toks:
        return ["panic"]
    # replay the observable protocol
    stop_after_reset = False
    reset_done = False
    notified = False          # a notification is pending
    waiting = False
    returned = None
    polls = 0
    ready_flag = False
    iters_after_told = 0
    told = False              # stop() and a later wakeup()/notify, both after the reset
    stop_seen = False
    for t in toks:
        if t == "POLL":
            polls += 1
            continue
        if t == "ITER":
            if told:
                iters_after_told += 1
            continue
        if t == "WOKE":
            waiting = False
            continue
        if t == "WAITING":
            continue
        if t.startswith("RET"):
            returned = t
            continue
        tid, yid = t.split(":")[0:2]
        if yid == "130":
            reset_done = True
            stop_after_reset = False
        elif yid == "133":
            if reset_done:
                stop_after_reset = True
                stop_seen = True
        elif yid in ("134", "136"):
            if stop_after_reset:
                told = True
            notified = True
        elif yid == "132":
            if notified:
                notified = False
    final_waiting = "WAITING" in toks
    # None exactly when stop() was requested first: a stop() that completed before the previous iteration ended (ITER) - or before
    # the loop's last stop-flag check (0:131) - is seen by the check that opens the next iteration, so block_on cannot go on to
    # poll the future and return Some
    if blockon and returned == "RET1":
        polls_i = [i for i, t in enumerate(toks) if t == "POLL"]
        last_poll = polls_i[-1] if polls_i else len(toks)
        marks = [i for i, t in enumerate(toks[:last_poll]) if t in ("ITER", "0:131")]
        reset_i = max([i for i, t in enumerate(toks) if t.endswith(":130")] + [-1])
        if marks and reset_i >= 0:
            stop_i = [i for i, t in enumerate(toks[:marks[-1]]) if t.endswith(":133") and i > reset_i]
            if stop_i:
                fails.append("block_on returned Some although stop() had been requested (step %d) before the iteration that polled the future to "
                             "completion began (step %d)" % (stop_i[0] + 1, marks[-1] + 1))
    if returned == "RET0" and not stop_after_reset:
        fails.append("spurious: run()/block_on() returned (Ok / None) without a stop request since it began")
    if told and returned is None:
        fails.append("lost stop: stop() then wakeup() were issued after the loop began, all threads finished, but the loop never returned")
    if told and iters_after_told > 1:
        fails.append("late stop: %d further iterations ran after stop()+wakeup()" % iters_after_told)
    if final_waiting and notified:
        fails.append("lost wakeup: the loop is blocked in its wait although a wakeup() was issued after its last wait began")
    if blockon:
        n_ready = script.index("r") + 1 if "r" in script else None
        # a future that woke itself during poll k must be polled again (or block_on ends by stop)
        n_self = len(script) - len(script.lstrip("w"))   # leading self-waking polls need no help from other threads
        if n_self and returned is None and polls <= n_self and polls > 0 and final_waiting and script[polls - 1] == "w":
            fails.append("lost wake: the future woke itself during poll %d but was never polled again; the loop is blocked" % polls)
        if returned == "RET1" and (n_ready is None or polls != n_ready):
            fails.append("block_on returned Some after %d polls, the future completes at poll %s" % (polls, n_ready))
        if n_ready is not None and polls >= n_ready and returned != "RET1":
            fails.append("block_on polled the future to completion but did not return Some")
        # every completed wake (136) must be followed by a poll or by the end of block_on
        last_wake = max([i for i, t in enumerate(toks) if t.endswith(":136")] + [-1])
        if last_wake >= 0 and returned is None:
            if not any(t == "POLL" for t in toks[last_wake:]) and final_waiting:
                # the loop went to sleep after the wake without polling again
                first_135 = max([i for i, t in enumerate(toks[:last_wake]) if t.endswith(":135")] + [-1])
                if not any(t == "POLL" for t in toks[first_135:]):
                    fails.append("lost wake: the future was woken (flag set, loop notified) but never polled again; the loop is blocked")
    return fails


def wake_cases(tier, seed):
    rnd = random.Random(seed * 77 + 5)
    cases = ["p w W1 d400 d400 d300", "W1 p d400 d400 d300", "w w d400 d300", "p d400 d300", "w d400 p W2 d400 d400 d300",
             "w p W1 d400 w d400 d300", "W2 p w d400 d400 d400 d300",
             # a timer is pending and bounds the wait (T<ms>: due in ms): a wake-up must still end the wait at once
             "T700 w d2000 d300", "T700 p d2000 d300", "T900 W1 p d2000 d2000 d300", "T600 d2000 w d300", "T800 w d2000 w d2000 d2000"]
    for _ in range(10 if tier == "quick" else 120):
        ops = []
        timer = rnd.random() < 0.4
        if timer:
            ops.append("T%d" % rnd.choice([500, 700, 900]))
        for _ in range(rnd.randint(3, 8)):
            ops.append(rnd.choice(["p", "w", "W1", "W2", "d300", "d300"] + (["d1500"] if timer else [])))
        ops += ["d300", "d300"]
        cases.append(" ".join(ops))
    return cases


def judge_wake(case, out):
    """wakeup() makes the current or the next wait return promptly - also when it is issued from a source callback; one wait
    consumes the pending wake-ups; without a cause the wait lasts its timeout"""
    ops = case.split()
    obs = out.split()
    nd = [o for o in ops if o[0] == "d"]
    if len(obs) != len(nd):
        return ["no result: %s" % out[:80]]
    notified = pinged = False
    cbw = 0
    k = 0
    due = None            # ms until the pending timer is due, counted down by the measured durations
    for o in ops:
        if o[0] == "T":
            due = int(o[1:])
            continue
        if o == "p":
            pinged = True
        elif o == "w":
            notified = True
        elif o[0] == "W":
            cbw = int(o[1:])
        elif o[0] == "d":
            ms = int(o[1:])
            el, calls = (int(x) for x in obs[k].split(":"))
            k += 1
            bound = ms if due is None else min(ms, max(due, 0))      # the timer bounds the wait and fires at its end
            timer_fires = due is not None and due <= ms
            overdue = due is not None and due <= 0
            if due is not None:
                due -= el
            if (pinged or notified) and overdue:
                due = None        # an overdue timer is collected by this dispatch as well
            if pinged or notified:
                if el > 150:
                    return ["lost wakeup: dispatch %d waited %d ms although a %s was pending when it started waiting" % (k, el, "ping" if pinged else "wakeup()")]
                want_calls = 1 if pinged else 0
                if calls != want_calls:
                    return ["dispatch %d ran %d ping callbacks, %d expected" % (k, calls, want_calls)]
                notified = False
                if pinged:
                    pinged = False
                    if cbw:
                        notified = True
                        cbw = 0
            else:
                if timer_fires:
                    due = None
                if el + 25 < bound if timer_fires else el + 5 < bound:
                    return ["spurious wake: dispatch %d returned after %d ms of %d with nothing pending" % (k, el, bound)]
                if el > bound + 250:
                    return ["late: dispatch %d took %d ms, its wait was bounded by %d ms" % (k, el, bound)]
                if calls:
                    return ["dispatch %d ran a ping callback without a ping" % k]
    return []


def main(tier, seed):
    chk = vlib.Check("C11", tier, seed)
    st = vlib.standard_front(chk)
    chk.assumptions = ["granularity: one atomic flag store/load/swap, Poller::notify or wait per scheduler step; the wait really blocks in epoll_wait",
                       "native blocking is detected from /proc task state (S on 3 samples after 40 ms), a woken loop thread is waited for after every foreign step",
                       "Poller::notify is sticky and consumed by the wait it ends (polling's contract) - assumed, validated by these runs",
                       "'after run() has begun' is read as 'after its initial reset of the stop flag' (a stop() before that store is erased by it)"]
    if not (st.get("harness_ok") and st.get("model_ok")):
        chk.violation("build", "correspondence broken: build failed\n%s\n%s" % (st.get("harness_log", "")[-2000:], st.get("model_log", "")[-2000:]), nofail=True)
        chk.cov.update({"evaluations": 0, "distinct_nontrivial": 0})
        return chk.finish()
    cases = gen_cases(tier, seed)
    n = 16
    shards = [cases[i::n] for i in range(n)]
    with ThreadPoolExecutor(max_workers=n) as ex:
        outs = list(ex.map(lambda sh: p_c03.run_batch(vlib.HARNESS, "crun", sh) if sh else [], shards))
    impl = [None] * len(cases)
    for k, o in enumerate(outs):
        for j, line in enumerate(o):
            impl[k + j * n] = line
    model, mlog = vlib.run_model(["crun"], cases)
    diffs, bad = [], []
    for c, i, m in zip(cases, impl, model):
        if norm(i) != norm(m):
            # a blocked/not-blocked disagreement is re-run before it counts (native-block detection is timing based)
            i2 = p_c03.run_batch(vlib.HARNESS, "crun", [c])[0]
            if norm(i2) != norm(m):
                diffs.append((c, i2, m))
            i = i2
        fs = judge(c, i)
        if fs:
            bad.append((c, i, fs))
    chk.cov.update({
        "evaluations": len(cases), "distinct_nontrivial": len(set(norm(x) for x in impl)),
        "traces_validated_against_impl": len(cases) - len(diffs),
        "rule": "run(None): stop/wakeup programs of 1-2 signalling threads interleaved with the first 5 loop steps at every position; block_on: future scripts "
                "{r,pr,ppr,pp,ppp,wr,wpr,pwr,ww,w,wwr} (w = wakes itself inside poll) x wake/stop/wakeup programs; the loop thread really blocks in epoll_wait; a case is one schedule on real threads",
        "samples": [{"case": c, "impl": i, "model": m} for c, i, m in list(zip(cases, impl, model))[:2]],
        "model_impl_disagreements": len(diffs),
    })
    # a stop requested from inside a poll of the block_on future (oracle only): harness crunstop
    scases = ["s", "ps", "pps", "ppps", "r", "pr", "ppr"]
    sout = p_c03.run_batch(vlib.HARNESS, "crunstop", scases)
    chk.cov["stop_from_inside_a_poll_cases"] = dict(zip(scases, sout))
    for c, o in zip(scases, sout):
        npolls = len(c)
        want = ("NONE" if c.endswith("s") else "SOME") + " polls=%d rescued=0" % npolls
        if not o.startswith(want):
            what = ("a stop() requested from inside poll %d of the block_on future (followed by wakeup()) was lost: block_on did not return None "
                    "(it had to be rescued by the watchdog)" % npolls) if c.endswith("s") else "block_on did not return the future's output after %d polls" % npolls
            chk.violation("oracle-stop", "C11 violated on the real code: %s\nblock_on stop case (p = pending after a self-wake, s = stop()+wakeup() then pending, r = ready): %s\n# result: %s"
                          % (what, c, o))
            break
    # wakeup() from inside a source callback (sequential, timed): harness crunw
    wcases = wake_cases(tier, seed)
    with ThreadPoolExecutor(max_workers=8) as ex:
        wout = list(ex.map(lambda c: p_c03.run_batch(vlib.HARNESS, "crunw", [c])[0], wcases))
    wbad = []
    for c, o in zip(wcases, wout):
        fs = judge_wake(c, o)
        if fs:
            o = p_c03.run_batch(vlib.HARNESS, "crunw", [c])[0]      # timing: re-measure once
            fs = judge_wake(c, o)
        if fs:
            wbad.append((c, o, fs))
    chk.cov["wakeup_from_callback_cases"] = {"cases": len(wcases), "sample": {"case": wcases[0], "result(elapsed_ms:callbacks per dispatch)": wout[0]}}
    chk.cov["evaluations"] += len(wcases)
    if wbad and not bad:
        c, o, fs = min(wbad, key=lambda x: len(x[0]))
        chk.violation("oracle-wake", "C11 violated on the real code: %s\nwake ops (p ping, w wakeup, Wk callback calls wakeup k times, d<ms> dispatch): %s\n# measured (elapsed_ms:callbacks per dispatch): %s"
                      % (fs[0], c, o))
        return chk.finish()
    if bad:
        c, i, fs = min(bad, key=lambda x: len(x[0]))
        chk.violation("oracle", "C11 violated on the real code: %s\n%s\n# executed steps and observations: %s\n(%d failing schedules)" % (fs[0], c, i, len(bad)))
    elif diffs or not st["proof"]["ok"] or mlog:
        why = []
        if not st["proof"]["ok"]:
            why.append("proof obligation no longer checks: %s" % st["proof"]["failed"])
        if diffs:
            c, i, m = min(diffs, key=lambda x: len(x[0]))
            why.append("correspondence differs on %d schedules; shortest: `%s`\n impl : %s\n model: %s" % (len(diffs), c, i, m))
        if mlog:
            why.append("runner: %s" % mlog[:300])
        chk.violation("broken", "C11 is no longer shown to hold.\n" + "\n".join(why) +
                      "\nthe oracle judged all %d schedules of this run on real threads: no failing input found\n%s" % (len(cases), diffs[0][0] if diffs else ""), nofail=True)
    return chk.finish()


def replay(path):
    if "block_on stop case" in open(path).read():
        vlib.build_harness()
        cases = [l.split("):", 1)[1].strip() for l in open(path) if l.startswith("block_on stop case")]
        out = p_c03.run_batch(vlib.HARNESS, "crunstop", cases)
        rc = 0
        for c, o in zip(cases, out):
            print(c, "->", o)
            if not o.startswith(("NONE" if c.endswith("s") else "SOME") + " polls=%d rescued=0" % len(c)):
                rc = 1
        return rc
    wc = [l.split(":", 1)[1].strip() for l in open(path) if l.startswith("wake ops (")]
    if wc:
        vlib.build_harness()
        rc = 0
        for c in wc:
            o = p_c03.run_batch(vlib.HARNESS, "crunw", [c])[0]
            fs = judge_wake(c, o)
            print(c, "->", o, fs or "ok")
            if fs:
                rc = 1
        return rc
    cases = [l.strip() for l in open(path) if l.count("|") == 2 and l.split()[0] in ("run", "blockon")]
    vlib.build_harness()
    vlib.build_model()
    impl = p_c03.run_batch(vlib.HARNESS, "crun", cases)
    model, _ = vlib.run_model(["crun"], cases)
    rc = 0
    for c, i, m in zip(cases, impl, model):
        print("%s\n  impl : %s\n  model: %s\n  oracle: %s" % (c, i, m, judge(c, i) or "ok"))
        if norm(i) != norm(m) or judge(c, i):
            rc = 1
    return rc
