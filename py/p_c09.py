"""C09  A post-action is applied once, to the source that asked for it, and to no other."""
import seqcheck
import seqlib
import vlib

REG_OPS = {"0": ("1", "4"), "1": ("5",), "2": ("2", "3")}   # regop kind -> explaining handle operations


def oracle(text, trace):
    fails = []
    scr, _, kinds = seqlib.parse_scripts(text)
    for l in trace:
        ws = l.split()
        if ws[0] == "8" and ws[1] != "0":
            fails.append("pending-left: a post action (%s) is still pending after the dispatch finished" % ws[1])
            break
    count = {}
    segs = seqlib.segments(trace)
    if trace and trace[-1].split()[0] == "10" and segs:
        segs = segs[:-1]   # the scenario ended in a (predicted) panic inside this callback
    for cb, rest in segs:
        h = int(cb[1])
        k = count.get(h, 0)
        count[h] = k + 1
        unexplained = []
        for i, ws in enumerate(rest):
            if ws[0] != "16":
                continue
            j = i + 1
            while j < len(rest) and rest[j][0] == "15":
                j += 1
            nxt = rest[j] if j < len(rest) else None
            if nxt and nxt[0] == "1" and nxt[2] == ws[1] and nxt[1] in REG_OPS[ws[2]]:
                continue
            unexplained.append(ws)
        for ws in unexplained:
            if int(ws[1]) != h:
                fails.append("foreign-action: after the callback of source %d a (re/un)registration was applied to source %s, "
                             "which asked for nothing" % (h, ws[1]))
                return fails
        if kinds.get(h) == "comp":
            entry = scr.get(h, [])
            ret = entry[k][0] if k < len(entry) else 0
            self_removed = any(ws[0] == "1" and ws[1] == "2" and int(ws[2]) == h for ws in rest)
            deferred = 0
            for ws in rest:
                if ws[0] == "1" and int(ws[2]) == h and ws[3] == "0":
                    if ws[1] == "3":
                        deferred = 2
                    elif ws[1] == "5":
                        deferred = 1
            if not self_removed:
                eff = ret if ret != 0 else deferred
                want = {0: [], 1: ["1"], 2: ["2"], 3: ["2"], 4: []}[eff]
                got = [ws[2] for ws in unexplained]
                if got != want:
                    fails.append("wrong-action: source %d returned %d with deferred request %d; expected registration calls %s "
                                 "after its processing, saw %s" % (h, ret, deferred, want, got))
                    return fails
    return fails


PROFILE = {"err_ret_prob": 0.2, "script_prob": 0.95, "script_len": (1, 4), "kinds": {"comp": 6, "ping": 1, "timer": 1, "chan": 1},
           "stats_prob": 0.9, "share_fd_prob": 0.05}


def bitor_cases(chk, st):
    cases = ["%s %d %d" % (op, a, b) for op in ("bitor", "bitor_assign") for a in range(4) for b in range(4)]
    impl, e1 = vlib.run_impl(["token"], cases)
    model, e2 = vlib.run_model(["token"], cases)
    bad = []
    for c, i, m in zip(cases, impl, model):
        _, a, b = c.split()
        want = a if a == b else "1"
        if i != want:
            bad.append("%s -> %s, the property demands %s" % (c, i, want))
    chk.cov["bitor_pairs"] = len(cases)
    chk.cov["bitor_exhaustive"] = True
    if bad:
        chk.violation("bitor", "C09 violated on the real code: PostAction combination\n" + "\n".join(bad))
    elif impl != model:
        chk.violation("bitor-corr", "correspondence broken on PostAction | / |= although every pair satisfies the rule\n%s\n%s" % (impl, model), nofail=True)


def oracle_all(text, trace):
    """the registration-call oracle above plus the C09 rules of the shared trace walker (py/oracles.py)"""
    import oracles
    return oracle(text, trace) + oracles.oracle_for(["C09"])(text, trace)


def main(tier, seed):
    return seqcheck.run_seq_check(
        "C09", tier, seed, [(3, PROFILE), (1, {})], oracle_all, 1500, 40000,
        ["scenario language of DESIGN.md 2.3: sources = composite of Generic<eventfd>, PingSource, Timer, Channel",
         "epoll/eventfd/BinaryHeap behaviour is the environment model of Env.v (validated by the same runs)",
         "the oracle sees (re/un)registration calls only of the instrumented composite sources"],
        extra_front=bitor_cases)


def replay(path):
    return seqcheck.replay("C09", path, oracle_all)
