#!/usr/bin/env python3
"""show.py <seed> <n> <sid> [prefix]: print scenario + impl trace + oracle output for one generated scenario"""
import sys
sys.path.insert(0, '/verif/py')
import gen_seq, seqlib, oracles
seed, n, sid = int(sys.argv[1]), int(sys.argv[2]), sys.argv[3]
sc = gen_seq.gen_many(seed, n)
s = [x for x in sc if x.startswith("=== %s\n" % sid)][0]
res, err = seqlib.run_scenarios([s])
impl, model = res[sid]
print(s)
for i, l in enumerate(impl):
    print(i, seqlib.pretty(l))
print(oracles.all_failures(s, impl))
